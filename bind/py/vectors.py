"""The WebAssembly spec-suite expectations shipped in the repository (tests/gen/*.json),
as vectors for FloatVectors.tla."""
import json
import os

from common import REPO

FILES = {"f32.json": "f32.", "f64.json": "f64.", "f32_cmp.json": "f32.", "f64_cmp.json": "f64.",
         "f32_bitwise.json": "f32.", "f64_bitwise.json": "f64.", "conversions.json": "", "float_misc.json": ""}
K = {"i32": 4, "i64": 8, "f32": 4, "f64": 8}
TRAPS = {"integer overflow": "IntOverflow", "invalid conversion to integer": "InvalidConversion"}


def load():
    from wasm_encode import OPS
    vecs = []
    for f, prefix in FILES.items():
        p = os.path.join(REPO, "tests", "gen", f)
        if not os.path.exists(p):
            continue
        for c in json.load(open(p))["commands"]:
            if c["type"] not in ("assert_return", "assert_trap") or c["action"]["type"] != "invoke":
                continue
            op = prefix + c["action"]["field"]
            if op not in OPS or op.split(".")[1].startswith(("load", "store", "const")):
                continue
            try:
                args = [list(int(a["value"]).to_bytes(K[a["type"]], "little")) for a in c["action"]["args"]]
            except ValueError:
                continue            # nan:canonical style arguments do not occur; skip anything unusual
            v = {"op": op, "args": args, "exp": [], "nan": False, "trap": ""}
            if c["type"] == "assert_trap":
                if c["text"] not in TRAPS:
                    continue
                v["trap"] = TRAPS[c["text"]]
            else:
                e = c["expected"][0]
                if e["value"].startswith("nan"):
                    v["nan"] = True
                else:
                    v["exp"] = list(int(e["value"]).to_bytes(K[e["type"]], "little"))
            vecs.append(v)
    return vecs
