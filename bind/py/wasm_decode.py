"""WebAssembly binary -> module AST (the inverse of wasm_encode.py for the supported feature set).
Used to bring the repository's spec-suite corpus (tests/gen/*.wasm) under the TLA+ abstract machine.
Raises Unsupported for features outside w2c2's claim (multi-value, reference types, SIMD, ...)."""
from wasm_encode import OPS, MEMOPS, VT

REV = {tuple(v): k for k, v in OPS.items()}
TV = {v: k for k, v in VT.items()}


class Unsupported(Exception):
    pass


class R:
    def __init__(self, b, p=0, end=None):
        self.b, self.p, self.end = b, p, len(b) if end is None else end

    def byte(self):
        if self.p >= self.end:
            raise Unsupported("truncated")
        v = self.b[self.p]
        self.p += 1
        return v

    def u(self):
        r = s = 0
        while True:
            x = self.byte()
            r |= (x & 0x7F) << s
            s += 7
            if not x & 0x80:
                return r

    def s(self, bits):
        r = s = 0
        while True:
            x = self.byte()
            r |= (x & 0x7F) << s
            s += 7
            if not x & 0x80:
                if x & 0x40:
                    r -= 1 << s
                return r & ((1 << bits) - 1)

    def bytes(self, n):
        if self.p + n > self.end:
            raise Unsupported("truncated")
        v = self.b[self.p:self.p + n]
        self.p += n
        return v

    def name(self):
        raw = self.bytes(self.u())
        try:
            s = raw.decode("utf-8")
            if all(32 <= ord(c) < 127 and c not in '"\\' for c in s):
                return s
        except UnicodeDecodeError:
            pass
        return {"bytes": list(raw)}

    def vt(self):
        x = self.byte()
        if x not in TV:
            raise Unsupported("value type %#x" % x)
        return TV[x]

    def limits(self):
        f = self.byte()
        if f not in (0, 1, 3):
            raise Unsupported("limits flag %d" % f)
        mn = self.u()
        mx = self.u() if f & 1 else None
        return {"min": mn, "max": mx, "shared": bool(f & 2)}


def le(v, n):
    return list((v & ((1 << (8 * n)) - 1)).to_bytes(n, "little"))


def instr(r):
    b = r.byte()
    key = (b,)
    if b in (0xFC, 0xFE):
        key = (b, r.u())
    if key not in REV:
        raise Unsupported("opcode %s" % (key,))
    op = REV[key]
    if op in ("block", "loop", "if"):
        t = r.byte()
        if t == 0x40:
            return [op, ""]
        if t in TV:
            return [op, TV[t]]
        raise Unsupported("block type %#x" % t)
    if op in ("br", "br_if", "call", "local.get", "local.set", "local.tee", "global.get", "global.set", "data.drop"):
        return [op, r.u()]
    if op == "br_table":
        n = r.u()
        return [op, [r.u() for _ in range(n)], r.u()]
    if op == "call_indirect":
        t = r.u()
        tb = r.u()
        if tb != 0:
            raise Unsupported("table index")
        return [op, t, 0]
    if op in MEMOPS:
        return [op, r.u(), r.u()]
    if op in ("memory.size", "memory.grow", "memory.fill", "atomic.fence"):
        r.byte()
        return [op]
    if op == "memory.copy":
        r.byte()
        r.byte()
        return [op]
    if op == "memory.init":
        seg = r.u()
        r.byte()
        return [op, seg]
    if op == "i32.const":
        return [op, le(r.s(32), 4)]
    if op == "i64.const":
        return [op, le(r.s(64), 8)]
    if op == "f32.const":
        return [op, list(r.bytes(4))]
    if op == "f64.const":
        return [op, list(r.bytes(8))]
    return [op]


def expr(r):
    out, depth = [], 0
    while True:
        i = instr(r)
        out.append(i)
        if i[0] in ("block", "loop", "if"):
            depth += 1
        elif i[0] == "end":
            if depth == 0:
                return out
            depth -= 1


def const_expr(r):
    e = expr(r)
    if len(e) != 2 or e[0][0] not in ("i32.const", "i64.const", "f32.const", "f64.const", "global.get"):
        raise Unsupported("constant expression")
    return e[0]


def decode(data):
    if data[:8] != b"\0asm\1\0\0\0":
        raise Unsupported("header")
    m = {"types": [], "imports": [], "funcs": [], "globals": [], "exports": [], "elems": [], "data": [], "start": None}
    ftypes = []
    r = R(data, 8)
    while r.p < len(data):
        sid = r.byte()
        size = r.u()
        s = R(data, r.p, r.p + size)
        r.p += size
        if sid == 0:
            continue
        if sid == 1:
            for _ in range(s.u()):
                if s.byte() != 0x60:
                    raise Unsupported("type form")
                p = [s.vt() for _ in range(s.u())]
                res = [s.vt() for _ in range(s.u())]
                if len(res) > 1:
                    raise Unsupported("multi-value")
                m["types"].append({"p": p, "r": res})
        elif sid == 2:
            for _ in range(s.u()):
                mod, nm, k = s.name(), s.name(), s.byte()
                if k == 0:
                    m["imports"].append({"mod": mod, "name": nm, "kind": "func", "type": s.u()})
                elif k == 1:
                    if s.byte() != 0x70:
                        raise Unsupported("table element type")
                    m["imports"].append(dict({"mod": mod, "name": nm, "kind": "table"}, **s.limits()))
                elif k == 2:
                    m["imports"].append(dict({"mod": mod, "name": nm, "kind": "memory"}, **s.limits()))
                elif k == 3:
                    t = s.vt()
                    m["imports"].append({"mod": mod, "name": nm, "kind": "global", "t": t, "mut": bool(s.byte())})
                else:
                    raise Unsupported("import kind")
        elif sid == 3:
            ftypes = [s.u() for _ in range(s.u())]
        elif sid == 4:
            n = s.u()
            if n > 1:
                raise Unsupported("multiple tables")
            for _ in range(n):
                if s.byte() != 0x70:
                    raise Unsupported("table element type")
                m["table"] = s.limits()
        elif sid == 5:
            n = s.u()
            if n > 1:
                raise Unsupported("multiple memories")
            for _ in range(n):
                m["memory"] = s.limits()
        elif sid == 6:
            for _ in range(s.u()):
                t = s.vt()
                mut = bool(s.byte())
                m["globals"].append({"t": t, "mut": mut, "init": const_expr(s)})
        elif sid == 7:
            for _ in range(s.u()):
                nm, k, idx = s.name(), s.byte(), s.u()
                m["exports"].append({"name": nm, "kind": ["func", "table", "memory", "global"][k], "idx": idx})
        elif sid == 8:
            m["start"] = s.u()
        elif sid == 9:
            for _ in range(s.u()):
                flag = s.u()
                if flag != 0:
                    raise Unsupported("element segment flag %d" % flag)
                off = const_expr(s)
                m["elems"].append({"offset": off, "funcs": [s.u() for _ in range(s.u())]})
        elif sid == 12:
            m["datacount"] = True
            s.u()
        elif sid == 10:
            n = s.u()
            for j in range(n):
                size_ = s.u()
                b = R(data, s.p, s.p + size_)
                s.p += size_
                locs = []
                for _ in range(b.u()):
                    cnt = b.u()
                    locs.append([b.vt(), cnt])
                m["funcs"].append({"type": ftypes[j], "locals": locs, "body": expr(b)})
        elif sid == 11:
            for _ in range(s.u()):
                flag = s.u()
                if flag == 1:
                    m["data"].append({"mode": "passive", "bytes": list(s.bytes(s.u()))})
                else:
                    if flag == 2 and s.u() != 0:
                        raise Unsupported("memory index")
                    if flag not in (0, 2):
                        raise Unsupported("data flag")
                    off = const_expr(s)
                    m["data"].append({"mode": "active", "offset": off, "bytes": list(s.bytes(s.u()))})
        else:
            raise Unsupported("section %d" % sid)
    return m
