"""code -> spec: validate recorded histories against a TLA+ trace specification.
Histories are concatenated (each ends with a 'reset' or 'stuck' event); TLC reports the highest
event index it could explain; a rejected history is isolated, re-run alone (a rejection is only
reported if it repeats) and the remaining histories are validated in a further run."""
import os
import shutil

from common import MachineryError, read_ndjson, scratch, tlc, write_ndjson


def validate(module, cfg, histories, env_extra=None, timeout=900, max_rejections=5, xmx="6g"):
    """histories: list of event lists.  Returns (rejected indices, stats)."""
    wd = scratch("trace-")
    states = trans = 0
    rejected = []
    try:
        todo = list(range(len(histories)))
        while todo:
            events, owner = [], []
            for h in todo:
                events += histories[h]
                owner += [h] * len(histories[h])
            tf, of = os.path.join(wd, "trace.ndjson"), os.path.join(wd, "reached.ndjson")
            write_ndjson(tf, events)
            if os.path.exists(of):
                os.remove(of)
            env = {"TRACE": tf, "OUTFILE": of}
            env.update(env_extra or {})
            res = tlc(module, cfg=cfg, env=env, workers=1, timeout=timeout, xmx=xmx)
            states += res["distinct"]
            trans += res["generated"]
            if res["rc"] != 0 or not os.path.exists(of):
                raise MachineryError("trace validation failed to run (%s):\n%s" % (res["rc"], "\n".join(
                    l for l in res["out"].splitlines() if not l.startswith(("Linting", "Parsing", "Semantic")))[-2500:]))
            r = read_ndjson(of)[0]
            if r["reached"] > r["total"]:
                break                                     # everything explained
            bad = owner[r["reached"] - 1]                  # the history containing the first unexplained event
            # confirm alone
            write_ndjson(tf, histories[bad])
            os.remove(of)
            res2 = tlc(module, cfg=cfg, env=env, workers=1, timeout=timeout, xmx=xmx)
            r2 = read_ndjson(of)[0] if os.path.exists(of) else {"reached": 0, "total": 1}
            if r2["reached"] <= r2["total"]:
                rejected.append((bad, r2["reached"]))
            todo = todo[todo.index(bad) + 1:]            # the histories before it were explained
            if len(rejected) >= max_rejections:
                break
        return rejected, {"states": states, "transitions": trans}
    finally:
        shutil.rmtree(wd, ignore_errors=True)
