"""Programs from spec/WasmGen.tla: builds the module shapes (contexts) of a profile,
lets TLC generate valid function bodies for them (BFS or -simulate), and assembles
modules + call scripts (items for machine.replay)."""
import os
import random
import shutil

from common import MachineryError, NCPU, pmap, read_ndjson, scratch, tlc, write_ndjson
from wasm_encode import OPS

VT4 = ["i32", "i64", "f32", "f64"]


def b32(v):
    return list((v & 0xFFFFFFFF).to_bytes(4, "little"))


def b64(v):
    return list((v & 0xFFFFFFFFFFFFFFFF).to_bytes(8, "little"))


CONSTS = {
    "i32": [b32(1), b32(0), b32(-1), b32(0x80000000), b32(7), b32(0x12345678)],
    "i64": [b64(1), b64(0), b64(-1), b64(1 << 63), b64(0x1122334455667788)],
    "f32": [b32(0x3F800000), b32(0), b32(0x80000000), b32(0xC0490FDB), b32(0x7F800000), b32(0x00000001), b32(0x4F000000)],
    "f64": [b64(0x3FF0000000000000), b64(0), b64(1 << 63), b64(0xC00921FB54442D18), b64(0x7FF0000000000000),
            b64(1), b64(0x41E0000000000000)],
}
ARGPOOL = {
    "i32": [0, 1, 2, 0xFFFFFFFF, 0x80000000, 0x7FFFFFFF, 5, 31, 32, 33, 0xFF, 0x100, 0xFFFF8000, 0x12345678],
    "i64": [0, 1, 2, (1 << 64) - 1, 1 << 63, (1 << 63) - 1, 63, 64, 65, 0xFFFFFFFF, 1 << 32, 0x1122334455667788],
    "f32": [0, 0x80000000, 0x3F800000, 0xBF800000, 0x3FC00000, 0x40490FDB, 0x7F800000, 0xFF800000, 0x7FC00000,
            0x00000001, 0x007FFFFF, 0x00800000, 0x7F7FFFFF, 0x4EFFFFFF, 0x4F000000, 0xCF000000, 0x3F000000, 0x4B800000],
    "f64": [0, 1 << 63, 0x3FF0000000000000, 0xBFF0000000000000, 0x3FF8000000000000, 0x400921FB54442D18,
            0x7FF0000000000000, 0xFFF0000000000000, 0x7FF8000000000000, 1, 0x000FFFFFFFFFFFFF, 0x0010000000000000,
            0x7FEFFFFFFFFFFFFF, 0x41DFFFFFFFC00000, 0x41E0000000000000, 0xC1E0000000000000, 0x3FE0000000000000,
            0x4330000000000000],
}


def ops_where(pred):
    return [n for n in sorted(OPS) if pred(n)]


INT_OPS = ops_where(lambda n: n.split(".")[0] in ("i32", "i64") and len(n.split(".")) == 2 and
                    not n.split(".")[1].startswith(("load", "store", "const", "trunc", "reinterpret")))
FLOAT_OPS = ops_where(lambda n: len(n.split(".")) == 2 and not n.split(".")[1].startswith(("load", "store", "const"))
                      and (n.split(".")[0] in ("f32", "f64") or "trunc" in n or "reinterpret" in n))
CTL_ALL = {"block": True, "loop": True, "if": True, "br": True, "br_if": True, "br_table": True, "return": True,
           "unreachable": True, "drop": True, "nop": True, "select": True, "results": True, "memsize": False}
CTL_NONE = {k: False for k in CTL_ALL}


def make_shape(sid, rng, profile):
    """One module shape of the given profile."""
    vtypes = {"int": ["i32", "i64"], "control": ["i32", "i64"], "calls": VT4, "float": VT4, "mixed": VT4,
              "mem": ["i32", "i64"]}[profile]
    types = []

    def ty(p, r):
        t = {"p": list(p), "r": list(r)}
        if t not in types:
            types.append(t)
        return types.index(t)

    def rand_sig(maxp=3):
        p = [rng.choice(vtypes) for _ in range(rng.randint(0, maxp))]
        r = [rng.choice(vtypes)] if rng.random() < 0.85 else []
        return ty(p, r)
    nimports = {"calls": 2, "control": 1, "mixed": 1}.get(profile, 0)
    nfuncs = {"calls": 4, "mixed": 3}.get(profile, 2)
    imports = []
    for j in range(nimports):
        t = rand_sig() if profile == "calls" else ty(["i32"], [])
        r = types[t]["r"]
        imports.append({"mod": "e" + sid, "name": "h%d" % j, "kind": "func", "type": t,
                        "ret": rng.choice(CONSTS[r[0]]) if r else []})
    globals_ = []
    if profile in ("calls", "mixed", "control"):
        for t in vtypes[:2]:
            globals_.append({"t": t, "mut": True, "init": [t + ".const", rng.choice(CONSTS[t])]})
    mem = {"present": profile in ("mem", "mixed"), "min": 1, "max": 2}
    funcs = []
    sigs = [rand_sig(6 if profile == "calls" else 3) for _ in range(nfuncs)]
    # table: slot k holds function (nimports + k) or a host import
    table_funcs = []
    if profile in ("calls", "mixed"):
        table_funcs = list(range(nimports + 1, nimports + nfuncs)) + list(range(nimports))
        rng.shuffle(table_funcs)
    slot_base = 2
    for j in range(nfuncs):
        t = sigs[j]
        params = types[t]["p"]
        user = [rng.choice(vtypes) for _ in range(rng.randint(0, 4))]
        locs = list(params) + user
        scratch = {}
        for vt in VT4:
            scratch[vt] = len(locs)
            locs.append(vt)
        cnt = len(locs)
        locs.append("i32")
        callable_ = [{"idx": k, "type": imports[k]["type"]} for k in range(nimports)]
        callable_ += [{"idx": nimports + k, "type": sigs[k]} for k in range(j + 1, nfuncs)]
        slots = []
        for s, fidx in enumerate(table_funcs):
            if fidx < nimports or fidx > nimports + j:
                ftype = imports[fidx]["type"] if fidx < nimports else sigs[fidx - nimports]
                slots.append({"slot": slot_base + s, "slotbytes": b32(slot_base + s), "type": ftype})
        funcs.append({"type": t, "locals": locs, "nuser": len(params) + len(user), "nparams": len(params),
                      "scratch": scratch, "cnt": cnt, "callable": callable_, "slots": slots})
    memops = []
    if mem["present"]:
        from wasm_encode import natural_align
        cand = ops_where(lambda n: (".load" in n or ".store" in n) and "atomic" not in n and n.split(".")[0] in vtypes)
        for op in rng.sample(cand, min(8, len(cand))):
            w = 1 << natural_align(op)
            mask, off = rng.choice([(0xFF, 0), (0xFFF, 65536 - 0x1000 - w + 1), (0x3, 7), (0xFFFF - 7, rng.choice([0, 1, 3]))])
            if mask == 0xFFFF - 7:
                off = 0
            memops.append({"op": op, "mask": b32(mask), "align": rng.randint(0, natural_align(op)), "offset": off})
    ops = {"int": INT_OPS, "control": ["i32.add", "i32.eqz", "i32.lt_s", "i64.add", "i32.wrap_i64", "i64.extend_i32_u", "i32.mul"],
           "calls": ["i32.add", "i64.add", "i32.wrap_i64", "i64.extend_i32_s", "f32.convert_i32_s", "f64.promote_f32",
                     "i32.eqz", "f64.neg", "f32.neg", "i64.mul", "f32.demote_f64", "i32.reinterpret_f32", "i64.reinterpret_f64"],
           "float": FLOAT_OPS, "mixed": INT_OPS + FLOAT_OPS, "mem": ["i32.add", "i64.add", "i32.wrap_i64", "i64.extend_i32_u", "i32.xor"]}[profile]
    ctl = dict(CTL_ALL)
    if profile in ("int", "float"):
        ctl = dict(CTL_NONE, select=True, drop=True, block=True, results=True, br_if=True)
    if profile == "mem":
        ctl = dict(CTL_NONE, drop=True, memsize=True, block=True, br_if=True)
    if profile == "calls":
        ctl = dict(CTL_ALL, br_table=False, loop=False)
    if mem["present"]:
        ctl["memsize"] = True
    return {"id": sid, "profile": profile, "types": types, "imports": imports, "funcs": funcs, "globals": globals_,
            "mem": mem, "memops": memops, "ops": ops, "consts": {t: CONSTS[t][:4] for t in VT4}, "vtypes": vtypes,
            "ctl": ctl, "maxnest": {"control": 6}.get(profile, 4), "maxdead": 4,
            "budgets": {"control": [6, 12, 20, 30], "int": [5, 9, 14], "float": [5, 9, 14]}.get(profile, [6, 12, 20]),
            "table_funcs": table_funcs, "slot_base": slot_base, "nimports": nimports}


def default_body(shape, f):
    r = shape["types"][f["type"]]["r"]
    return ([[r[0] + ".const", CONSTS[r[0]][0]]] if r else []) + [["end"]]


def assemble(shape, bodies):
    """bodies: {fn(1-based): body}.  Returns the module AST."""
    funcs = []
    for j, f in enumerate(shape["funcs"], start=1):
        np_ = f["nparams"]
        locs = f["locals"][np_:]
        runs = []
        for t in locs:
            if runs and runs[-1][0] == t:
                runs[-1][1] += 1
            else:
                runs.append([t, 1])
        funcs.append({"type": f["type"], "locals": runs, "body": bodies.get(j) or default_body(shape, f)})
    ni = shape["nimports"]
    m = {"types": shape["types"], "imports": shape["imports"], "funcs": funcs, "globals": shape["globals"],
         "exports": [{"name": "fn%d" % j, "kind": "func", "idx": ni + j} for j in range(len(funcs))]}
    if shape["mem"]["present"]:
        m["memory"] = {"min": shape["mem"]["min"], "max": shape["mem"]["max"]}
        m["exports"].append({"name": "memory", "kind": "memory", "idx": 0})
        m["data"] = [{"mode": "active", "offset": ["i32.const", b32(0)], "bytes": list(range(1, 65))},
                     {"mode": "active", "offset": ["i32.const", b32(65536 - 32)], "bytes": list(range(200, 232))}]
    if shape["table_funcs"]:
        n = shape["slot_base"] + len(shape["table_funcs"]) + 1
        m["table"] = {"min": n, "max": n}
        m["elems"] = [{"offset": ["i32.const", b32(shape["slot_base"])], "funcs": shape["table_funcs"]}]
    return m


def gen_bodies(shapes, n, seed, mode="simulate", depth=120, timeout=600, procs=None):
    """Run WasmGen over the shapes.  Returns (list of {shape, fn, body}, tlc stats)."""
    wd = scratch("wasmgen-")
    try:
        ctx = os.path.join(wd, "shapes.ndjson")
        write_ndjson(ctx, shapes)
        procs = procs or min(NCPU, max(1, n // 40))
        per = (n + procs - 1) // procs

        def one(p):
            outf = os.path.join(wd, "bodies%d.ndjson" % p)
            if mode == "simulate":
                res = tlc("WasmGen", env={"CTX": ctx, "OUTFILE": outf}, workers=1, timeout=timeout,
                          simulate="num=%d" % per, extra=["-depth", str(depth), "-seed", str(seed * 1000 + p)])
            else:
                res = tlc("WasmGen", env={"CTX": ctx, "OUTFILE": outf}, workers=1, timeout=timeout)
            if not os.path.exists(outf):
                raise MachineryError("WasmGen produced no output: " + res["out"][-3000:])
            return res, read_ndjson(outf)
        rs = pmap(one, range(procs if mode == "simulate" else 1), jobs=procs)
        bodies, seen = [], set()
        gen = 0
        for res, recs in rs:
            gen += res["generated"]
            for r in recs:
                key = repr(r)
                if key not in seen:
                    seen.add(key)
                    bodies.append(r)
        bodies.sort(key=repr)
        return bodies, {"states": gen, "transitions": gen}
    finally:
        shutil.rmtree(wd, ignore_errors=True)


def arg_vectors(rng, params, n):
    out = []
    for _ in range(n):
        vec = []
        for t in params:
            v = rng.choice(ARGPOOL[t]) if rng.random() < 0.8 else rng.getrandbits(32 if t in ("i32", "f32") else 64)
            vec.append({"t": t, "b": b32(v) if t in ("i32", "f32") else b64(v)})
        out.append(vec)
    return out


def programs(profile, n, seed, args_per_prog=5, nshapes=None, mode="simulate", stats=None):
    """n generated function bodies of a profile, packed into modules; returns items."""
    rng = random.Random(seed * 7919 + hash(profile) % 1000)
    rng = random.Random("%s-%d" % (profile, seed))
    nshapes = nshapes or max(2, min(12, n // 25))
    shapes = [make_shape("%s%d" % (profile[:2], k), rng, profile) for k in range(nshapes)]
    bodies, st = gen_bodies(shapes, n, seed, mode=mode)
    if stats is not None:
        stats.update(st)
        stats["bodies"] = len(bodies)
    by = {}
    for b in bodies:
        by.setdefault((b["shape"], b["fn"]), []).append(b["body"])
    items = []
    for sh in shapes:
        lists = [by.get((sh["id"], j), []) for j in range(1, len(sh["funcs"]) + 1)]
        rounds = max((len(l) for l in lists), default=0)
        for r in range(rounds):
            chosen = {j + 1: l[r % len(l)] for j, l in enumerate(lists) if l}
            m = assemble(sh, chosen)
            script = [{"op": "instantiate", "binds": {"mem": 0, "table": 0, "globals": []}}]
            for j, f in enumerate(sh["funcs"]):
                if (j + 1) in chosen and r < len(lists[j]):
                    for vec in arg_vectors(rng, sh["types"][f["type"]]["p"], args_per_prog):
                        script.append({"op": "call", "inst": 1, "export": "fn%d" % j, "args": vec})
            items.append({"id": "p%s_%d" % (sh["id"], r), "module": m, "script": script})
    return items
