"""Machine replay (DESIGN.md 2.4): items = (module AST, script) ->
   expected observations from TLC (spec/Replay.tla over spec/WasmExec.tla)
   and actual observations from the real tool chain
   (w2c2 from the working tree -> generated C -> cc -> run), compared per operation.
"""
import json
import os
import shutil

from common import (MachineryError, NCPU, REPO, pmap, read_ndjson, run, scratch, tlc, tlc_ok, write_ndjson)
import wasm_encode

CT = {"i32": "U32", "i64": "U64", "f32": "F32", "f64": "F64"}
TRAPS = ["Unreachable", "DivByZero", "IntOverflow", "InvalidConversion", "AllocationFailed"]


def mangle(name):
    """The documented C identifier escaping (ASCII names only)."""
    out = ""
    prev = ""
    for ch in name:
        if ch == "_":
            out += "__" if prev == "_" else "_"
        elif ch != "X" and ch.isascii() and ch.isalnum():
            out += ch
        else:
            out += "X%02X" % ord(ch)
        prev = ch
    return out


# ------------------------------------------------------------------ AST helpers
def norm_module(m):
    """Fill defaults so that the TLA+ side sees uniform records (no nulls)."""
    n = dict(m)
    n.setdefault("types", [])
    n["imports"] = []
    for im in m.get("imports", []):
        im = dict(im)
        im.pop("wire_mod", None)
        im.pop("wire_name", None)
        if im["kind"] == "func":
            im.setdefault("ret", [])
        if im["kind"] in ("memory", "table") and "hasmax" not in im:
            if im.get("max") is None:
                im["max"] = 65536 if im["kind"] == "memory" else 0
                im["hasmax"] = False
            else:
                im["hasmax"] = True
            im.setdefault("shared", False)
        n["imports"].append(im)
    n.setdefault("funcs", [])
    for key in ("memory", "table"):
        v = m.get(key)
        if not v or v.get("present") is False:
            n[key] = {"present": False, "min": 0, "max": 0, "hasmax": False, "shared": False}
        elif "hasmax" in v:
            n[key] = dict(v)              # already in the uniform form
        else:
            v = dict(v)
            v["present"] = True
            if v.get("max") is None:
                v["max"] = 65536 if key == "memory" else 0
                v["hasmax"] = False
            else:
                v["hasmax"] = True
            v.setdefault("shared", False)
            n[key] = v
    n.setdefault("globals", [])
    n.setdefault("data", [])
    for d in n["data"]:
        d.setdefault("mode", "active")
        d.setdefault("offset", ["i32.const", [0, 0, 0, 0]])
    n.setdefault("elems", [])
    n["exports"] = [{k: v_ for k, v_ in x.items() if k != "wire_name"} for x in n.get("exports", [])]
    if n.get("start") is None:
        n["start"] = -1
    n.pop("names", None)
    return n


def enc_module(m):
    """AST in the uniform form -> the form wasm_encode wants (None for absent)."""
    e = dict(m)
    for key in ("memory", "table"):
        v = e.get(key)
        if v and v.get("present", True):
            v = dict(v)
            if not v.get("hasmax", v.get("max") is not None):
                v["max"] = None
            e[key] = v
        else:
            e[key] = None
    imps = []
    for im in e.get("imports", []):
        im = dict(im)
        if im["kind"] in ("memory", "table") and not im.get("hasmax", im.get("max") is not None):
            im["max"] = None
        if "wire_name" in im:
            im["mod"] = {"bytes": wasm_encode.name_bytes(im["wire_mod"] if not isinstance(im["wire_mod"], list) else {"bytes": im["wire_mod"]})}
            im["name"] = {"bytes": wasm_encode.name_bytes(im["wire_name"] if not isinstance(im["wire_name"], list) else {"bytes": im["wire_name"]})}
        imps.append(im)
    e["imports"] = imps
    # exports may carry the bytes of their name in the binary separately ("wire_name"), like imports
    e["exports"] = [dict(x, name={"bytes": list(x["wire_name"])}) if "wire_name" in x else x for x in e.get("exports", [])]
    if e.get("start", -1) is not None and e.get("start", -1) < 0:
        e["start"] = None
    return e


def func_imports(m):
    return [i for i in m.get("imports", []) if i["kind"] == "func"]


# ------------------------------------------------------------------ expected (TLC)
def validate_modules(named_modules, workdir, timeout=900):
    """{name: error} for the modules WasmValid.tla rejects (empty dict = all valid).  named_modules: [(name, module AST)]."""
    inf, outf = os.path.join(workdir, "validate.ndjson"), os.path.join(workdir, "validated.ndjson")
    write_ndjson(inf, [{"id": n, "module": norm_module(m)} for n, m in named_modules])
    tlc_ok(tlc("Validate", env={"INFILE": inf, "OUTFILE": outf}, timeout=timeout, xmx="6g"), "Validate")
    return {r["id"]: r["err"] for r in read_ndjson(outf) if r["err"]}


def _survey_opcodes(items):
    """Coverage survey (tools/coverage.sh): which instructions occur in the replayed scenarios."""
    d = os.environ.get("VERIF_GCOV")
    if not d:
        return
    ops = set()
    for it in items:
        for f in it["module"].get("funcs", []):
            ops.update(i[0] for i in f["body"])
    with open(os.path.join(d, "opcodes.txt"), "a") as fh:
        fh.write("\n".join(sorted(ops)) + "\n")


def expected(items, workdir, shards=None, timeout=1500):
    """Run spec/Replay.tla over the items.  Returns (obs dict keyed (id,k), stats)."""
    _survey_opcodes(items)
    shards = max(1, min(shards or NCPU, len(items)))
    # balance by script length
    order = sorted(range(len(items)), key=lambda j: -sum(1 for _ in items[j]["script"]))
    parts = [[] for _ in range(shards)]
    for n, j in enumerate(order):
        parts[n % shards].append(items[j])

    def one(n):
        inf = os.path.join(workdir, "items%d.ndjson" % n)
        outf = os.path.join(workdir, "exp%d.ndjson" % n)
        write_ndjson(inf, [dict({"id": it["id"], "module": norm_module(it["module"]), "script": it["script"], "fuel": it.get("fuel", 4000)},
                                **({"modules": [norm_module(m_) for m_ in it["modules"]]} if it.get("modules") else {}))
                           for it in parts[n]])
        res = tlc("Replay", env={"INFILE": inf, "OUTFILE": outf}, workers=1, timeout=timeout)
        tlc_ok(res, "Replay shard %d" % n)
        if not os.path.exists(outf):
            raise MachineryError("Replay wrote no output: " + res["out"][-2000:])
        return res, read_ndjson(outf)
    results = pmap(one, range(shards), jobs=shards)
    obs = {}
    gen = dist = 0
    for res, recs in results:
        gen += res["generated"]
        dist += res["distinct"]
        for r in recs:
            obs[(r["item"], r["k"])] = r
    return obs, {"states": dist, "transitions": gen}


# ------------------------------------------------------------------ harness generation
HARNESS_HEAD = r'''
#include <stdio.h>
#include <string.h>
#include <setjmp.h>
#include <stdlib.h>
#include "w2c2_base.h"
static jmp_buf jb; static Trap trapCode; static FILE* out;
void trap(Trap t) { trapCode = t; longjmp(jb, 1); }
static const char* trapName(Trap t) {
  switch (t) { case trapUnreachable: return "Unreachable"; case trapDivByZero: return "DivByZero";
    case trapIntOverflow: return "IntOverflow"; case trapInvalidConversion: return "InvalidConversion";
    default: return "AllocationFailed"; } }
static char hostlog[1 << 16]; static size_t hostlen; static int hostn;
static void* insts[16]; static int ninsts;
/* the most recent instance living at p (storage may be reused after an instance was freed) */
static int childPending;
static int instIndex(void* p) { int k; for (k = ninsts - 1; k >= 0; k--) if (insts[k] == p) return k + 1; return childPending ? ninsts + 1 : 0; }
static void pbytes(char* buf, size_t* len, const void* p, int n) {
  int k; const unsigned char* b = (const unsigned char*)p;
  *len += (size_t)sprintf(buf + *len, "[");
  for (k = 0; k < n; k++) *len += (size_t)sprintf(buf + *len, "%s%u", k ? "," : "", b[k]);
  *len += (size_t)sprintf(buf + *len, "]"); }
#define HARG(t, T, v) do { T tmp_ = (v); hostlen += (size_t)sprintf(hostlog + hostlen, "%s{\"t\":\"" t "\",\"b\":", first_ ? "" : ","); \
  pbytes(hostlog, &hostlen, &tmp_, (int)sizeof(T)); hostlen += (size_t)sprintf(hostlog + hostlen, "}"); first_ = 0; } while (0)
static void hbegin(const char* callee, void* inst) {
  hostlen += (size_t)sprintf(hostlog + hostlen, "%s{\"callee\":\"%s\",\"inst\":%d,\"args\":[", hostn ? "," : "", callee, instIndex(inst)); hostn++; }
static void hend(void) { hostlen += (size_t)sprintf(hostlog + hostlen, "]}"); }
static wasmMemory* mems[16]; static int nmems;
static wasmTable tabstore[16]; static wasmTable* tables[16]; static int ntables;
static U64 gcells[64]; static int ngcells;
static void dumpMem(wasmMemory* m) {
  U32 a, n = m->pages * 65536u; int first = 1;
  fprintf(out, "{\"pages\":%u,\"nz\":[", m->pages);
  for (a = 0; a < n; a++) if (m->data[a]) { fprintf(out, "%s[%u,%u]", first ? "" : ",", a, m->data[a]); first = 0; }
  fprintf(out, "]}"); }
static void dumpMems(void) { int k; fprintf(out, ",\"mems\":[");
  for (k = 0; k < nmems; k++) { if (k) fprintf(out, ","); if (mems[k]) dumpMem(mems[k]); else fprintf(out, "null"); }
  fprintf(out, "]"); }
static void pval(const char* t, const void* p, int n) { char b[256]; size_t l = 0; pbytes(b, &l, p, n);
  fprintf(out, "{\"t\":\"%s\",\"b\":%s}", t, b); }
static void opBegin(const char* item, int k) { hostlen = 0; hostn = 0; hostlog[0] = 0;
  fprintf(out, "{\"item\":\"%s\",\"k\":%d", item, k); }
static void opEnd(void) { fprintf(out, ",\"host\":[%s]", hostlog); dumpMems(); }
'''


def c_json_str(name):
    """C string literal body that prints `name` as a JSON string body."""
    j = json.dumps(name)[1:-1]
    return j.replace("\\", "\\\\").replace('"', '\\"').replace("%", "%%") if False else \
        "".join("\\%03o" % ord(c) if c in '"\\' or ord(c) < 32 or ord(c) > 126 else c for c in j)


def c_octal(n):
    """C string literal body for a name given as str or list of bytes: every byte as a three-digit octal escape."""
    return "".join("\\%03o" % x for x in wasm_encode.name_bytes(n if not isinstance(n, list) else {"bytes": n}))


def c_bytes_literal(t, b):
    """C expression of type CT[t] with bit pattern b (little-endian bytes)."""
    v = wasm_encode.le_to_int(b)
    if t == "i32":
        return "%uU" % v
    if t == "i64":
        return "0x%xULL" % v
    if t == "f32":
        return "mkf32(%uU)" % v
    return "mkf64(0x%xULL)" % v


def gen_harness(items, prefix):
    """items: list of dict(id, module, script, modname).  Returns C source text.
    Each item's module was translated to <modname>.c/.h (module name = modname)."""
    o = [HARNESS_HEAD]
    o.append("static F32 mkf32(U32 x) { F32 f; memcpy(&f, &x, 4); return f; }")
    o.append("static F64 mkf64(U64 x) { F64 f; memcpy(&f, &x, 8); return f; }")
    def mods_of(it):
        """[(C module name, module AST)]: the item's module and the further modules of a several-module scenario"""
        return [(it["modname"], it["module"])] + [(it["modname"] + "abcdefgh"[k_], m_) for k_, m_ in enumerate(it.get("modules", []))]
    for it in items:
        for mod, _m in mods_of(it):
            o.append('#include "%s.h"' % mod)
    # host functions
    emitted = set()
    for it in items:
      for mod, m in mods_of(it):
        for im in func_imports(m):
            # with -m (several modules in one program) imported functions carry the importing module's prefix
            cname = (mod + "_" if it.get("multi", True) else "") + (im.get("cident") or mangle(im["mod"]) + "__" + mangle(im["name"]))
            if cname in emitted:
                continue
            emitted.add(cname)
            ty = m["types"][im["type"]]
            ret = CT[ty["r"][0]] if ty["r"] else "void"
            params = "".join(",%s a%d" % (CT[t], j) for j, t in enumerate(ty["p"]))
            o.append("%s %s(void* inst%s) { int first_ = 1; hbegin(\"%s\", inst);" % (ret, cname, params, c_json_str(im.get("logname", im["name"]))))
            for j, t in enumerate(ty["p"]):
                o.append("  HARG(\"%s\", %s, a%d);" % (t, CT[t], j))
            o.append("  (void)first_; hend();")
            if ty["r"]:
                o.append("  return %s;" % c_bytes_literal(ty["r"][0], im["ret"]))
            o.append("}")
    # per item: resolvers + runner
    for it in items:
        iid = it["id"]
        ml = mods_of(it)
        for mod, m in ml:
            o.append("static int %s_bmem, %s_btab, %s_bglob[16];" % (mod, mod, mod))
            o.append("static void* %s_resolve(const char* module, const char* name) { (void)module;" % mod)
            gi = 0
            for im in m.get("imports", []):
                # the resolver sees the names exactly as they are in the binary: imports with "wire_mod"/"wire_name"
                # (arbitrary bytes) are matched on both strings, byte for byte
                if "wire_name" in im:
                    cond = '!strcmp(module, "%s") && !strcmp(name, "%s")' % (c_octal(im["wire_mod"]), c_octal(im["wire_name"]))
                else:
                    cond = '!strcmp(name, "%s")' % im["name"]
                if im["kind"] == "memory":
                    o.append('  if (%s) return mems[%s_bmem - 1];' % (cond, mod))
                elif im["kind"] == "table":
                    o.append('  if (%s) return tables[%s_btab - 1];' % (cond, mod))
                elif im["kind"] == "global":
                    o.append('  if (%s) return &gcells[%s_bglob[%d] - 1];' % (cond, mod, gi))
                    gi += 1
            o.append("  return NULL; }")
        o.append("static void run_%s(void) {" % it["modname"])
        for mod, m in ml:
            o.append("  static %sInstance I_%s[8];" % (mod, mod))
        o.append("  static void* P[8]; static int memOf[8], tabOf[8]; int ni = 0; (void)ni; (void)memOf; (void)tabOf; nmems = 0; ntables = 0; ngcells = 0; ninsts = 0; memset(tables, 0, sizeof tables); memset(tabstore, 0, sizeof tabstore); memset(mems, 0, sizeof mems);")
        inst_binds, inst_mod = [], []
        for k, op in enumerate(it["script"], start=1):
            o.append("  /* op %d: %s */" % (k, op["op"]))
            o.append('  opBegin("%s", %d);' % (iid, k))
            if op["op"] == "hostmem":
                o.append("  mems[nmems++] = wasmMemoryAllocate(%d, %d, %s);" % (
                    op["pages"], op["max"], "true" if op.get("shared") else "false"))
                o.append('  fprintf(out, ",\\"status\\":\\"done\\"");')
            elif op["op"] == "hosttable":
                o.append("  wasmTableAllocate(&tabstore[ntables], %d, %d); tables[ntables] = &tabstore[ntables]; ntables++;" % (op["size"], op["size"]))
                o.append('  fprintf(out, ",\\"status\\":\\"done\\"");')
            elif op["op"] == "hostglobal":
                o.append("  { %s v = %s; memcpy(&gcells[ngcells++], &v, sizeof v); }" % (CT[op["t"]], c_bytes_literal(op["t"], op["b"])))
                o.append('  fprintf(out, ",\\"status\\":\\"done\\"");')
            elif op["op"] in ("instantiate", "child"):
                child = op["op"] == "child"
                mi = inst_mod[op["inst"] - 1] if child else op.get("mod", 1) - 1
                mod, m = ml[mi]
                memexp = [e["name"] for e in m.get("exports", []) if e["kind"] == "memory"]
                # a child is answered by the resolver as its parent was (or with other objects, when the operation carries bindings of its own)
                b = (op.get("binds") or inst_binds[op["inst"] - 1]) if child else op["binds"]
                inst_binds.append(b)
                inst_mod.append(mi)
                o.append("  %s_bmem = %d; %s_btab = %d;" % (mod, b["mem"], mod, b["table"]))
                for j, a in enumerate(b["globals"]):
                    o.append("  %s_bglob[%d] = %d;" % (mod, j, a))
                started = "returned" if m.get("start", -1) not in (None, -1) else "done"
                if not child:
                    # "reuse": k = instantiate into the storage of instance k (which the script has freed before)
                    o.append("  P[ni] = %s; memOf[ni] = -1; tabOf[ni] = -1;" % ("P[%d]" % (op["reuse"] - 1) if op.get("reuse") else "&I_%s[ni]" % mod))
                    o.append("  insts[ninsts++] = P[ni];")
                    if not op.get("reuse"):
                        # the embedder's storage for an instance is whatever it is (an automatic variable, malloc'ed): not zero
                        o.append("  memset(P[ni], 0xA5, sizeof(%sInstance));" % mod)
                    o.append("  if (setjmp(jb) == 0) { %sInstantiate((%sInstance*)P[ni], %s_resolve); fprintf(out, \",\\\"status\\\":\\\"%s\\\"\"); }" % (mod, mod, mod, started))
                    o.append('  else fprintf(out, ",\\"status\\":\\"trapped\\",\\"trap\\":\\"%s\\"", trapName(trapCode));')
                else:
                    # <module>NewChild through the instance's own common.newChild pointer, as wasi thread-spawn calls it.
                    # The start function of the child runs inside newChild, before the pointer is known: host calls made
                    # from it are attributed by childPending (the instance being created)
                    o.append("  memOf[ni] = -1; tabOf[ni] = -1; childPending = 1;")
                    o.append("  if (setjmp(jb) == 0) { P[ni] = ((%sInstance*)P[%d])->common.newChild((struct wasmModuleInstance*)P[%d]); fprintf(out, \",\\\"status\\\":\\\"%s\\\"\"); }" % (
                        mod, op["inst"] - 1, op["inst"] - 1, started))
                    o.append('  else { P[ni] = NULL; fprintf(out, ",\\"status\\":\\"trapped\\",\\"trap\\":\\"%s\\"", trapName(trapCode)); }')
                    o.append("  childPending = 0; insts[ninsts++] = P[ni];")
                if m.get("memory") and m["memory"].get("present", True) and not (child and m["memory"].get("shared")):
                    if memexp:
                        o.append("  memOf[ni] = nmems; mems[nmems++] = P[ni] ? %s_%s((%sInstance*)P[ni]) : NULL;" % (mod, mangle(memexp[0]), mod))
                    else:
                        o.append("  mems[nmems++] = NULL;")
                if m.get("table") and m["table"].get("present", True):
                    # a defined table is a member of the instance (t0): other modules' instances may be bound to it
                    o.append("  tabOf[ni] = ntables; tables[ntables++] = P[ni] ? &((%sInstance*)P[ni])->t0 : NULL;" % mod)
                if m.get("globals"):
                    o.append("  ngcells += %d; /* defined globals occupy store addresses too */" % len(m["globals"]))
                o.append("  ni++;")
            elif op["op"] == "call":
                mod, m = ml[inst_mod[op["inst"] - 1]]
                exports = {e["name"]: e for e in m.get("exports", [])}
                e = exports[op["export"]]
                fi = e["idx"]
                nfi = len(func_imports(m))
                tyi = func_imports(m)[fi]["type"] if fi < nfi else m["funcs"][fi - nfi]["type"]
                ty = m["types"][tyi]
                args = "".join(",%s" % c_bytes_literal(a["t"], a["b"]) for a in op["args"])
                call = "%s_%s((%sInstance*)P[%d]%s)" % (mod, mangle(op["export"]), mod, op["inst"] - 1, args)
                o.append("  if (setjmp(jb) == 0) {")
                if ty["r"]:
                    t = ty["r"][0]
                    o.append("    %s r = %s;" % (CT[t], call))
                    o.append('    fprintf(out, ",\\"status\\":\\"returned\\",\\"res\\":["); pval("%s", &r, (int)sizeof r); fprintf(out, "]");' % t)
                else:
                    o.append("    %s;" % call)
                    o.append('    fprintf(out, ",\\"status\\":\\"returned\\",\\"res\\":[]");')
                o.append('  } else fprintf(out, ",\\"status\\":\\"trapped\\",\\"trap\\":\\"%s\\"", trapName(trapCode));')
            elif op["op"] == "free":
                # the instance is released; its memory and table (if it defined them) are no longer observable
                mod, m = ml[inst_mod[op["inst"] - 1]]
                o.append("  %sFreeInstance((%sInstance*)P[%d]); if (memOf[%d] >= 0) mems[memOf[%d]] = NULL; if (tabOf[%d] >= 0) tables[tabOf[%d]] = NULL;" % (
                    mod, mod, op["inst"] - 1, op["inst"] - 1, op["inst"] - 1, op["inst"] - 1, op["inst"] - 1))
                o.append('  fprintf(out, ",\\"status\\":\\"done\\"");')
            else:
                raise MachineryError("unknown script op " + op["op"])
            o.append("  opEnd();")
            # tables: slot occupied or not (imported tables and the defined tables of live instances)
            o.append('  { int t_, s_; fprintf(out, ",\\"tables\\":["); for (t_ = 0; t_ < ntables; t_++) { fprintf(out, "%s[", t_ ? "," : "");')
            o.append('    if (tables[t_] && tables[t_]->data) for (s_ = 0; s_ < (int)tables[t_]->size; s_++) fprintf(out, "%s%d", s_ ? "," : "", tables[t_]->data[s_] != NULL);')
            o.append('    fprintf(out, "]"); } fprintf(out, "]"); }')
            o.append('  fprintf(out, "}\\n"); fflush(out);')
        o.append("}")
    o.append("int main(int argc, char** argv) { out = stdout; (void)argc; (void)argv;")
    for it in items:
        o.append("  run_%s();" % it["modname"])
    o.append("  return 0; }")
    return "\n".join(o) + "\n"


# ------------------------------------------------------------------ actual (real tool chain)
def comma_locale(workdir):
    """Environment of a user whose locale writes the decimal point as a comma (built with localedef: only LC_NUMERIC differs
    from "C"); None if it cannot be built here."""
    d = os.path.join(workdir, "locale")
    os.makedirs(d, exist_ok=True)
    with open(os.path.join(d, "ascii.charmap"), "w") as f:
        f.write("<code_set_name> ANSI_X3.4-1968\n<comment_char> %\n<escape_char> /\n<mb_cur_min> 1\n<mb_cur_max> 1\nCHARMAP\n")
        for n in range(128):
            f.write("<U%04X> /x%02x CH%d\n" % (n, n, n))
        f.write("END CHARMAP\n")
    with open(os.path.join(d, "xx_XX.src"), "w") as f:
        f.write('LC_NUMERIC\ndecimal_point "<U002C>"\nthousands_sep "<U002E>"\ngrouping 3;3\nEND LC_NUMERIC\n')
    run(["localedef", "-c", "-f", os.path.join(d, "ascii.charmap"), "-i", os.path.join(d, "xx_XX.src"), os.path.join(d, "xx_XX")], timeout=120)
    env = {"LOCPATH": d, "LC_ALL": "xx_XX"}
    rc, out, err = run(["python3", "-c", "import locale; locale.setlocale(locale.LC_ALL, ''); print(locale.format_string('%.1f', 1.5))"], env=env, timeout=60)
    return env if out.strip() == "1,5" else None


def actual(items, w2c2, workdir, cc="gcc", cflags=("-O1",), batch=24, w2c2_opts=(), run_timeout=120, w2c2_env=None,
           extra_defs=(), keep=False, extra_srcs=(), localize=True, run_env=None):
    """Translate, compile and run.  Returns (obs dict keyed (id,k), problems list).
    problems: [(kind, item ids, text)] for translate/compile/run failures (observations in
    their own right for C10/C11; machinery trouble otherwise)."""
    # a batch is one test program: at most `batch` modules and about 2500 calls (its harness is one C file)
    batches, cur, ops = [], [], 0
    for it in items:
        if cur and (len(cur) >= batch or ops + len(it["script"]) > 2500):
            batches.append(cur)
            cur, ops = [], 0
        cur.append(it)
        ops += len(it["script"])
    if cur:
        batches.append(cur)
    problems = []

    gnuld = "gnu-ld" in (w2c2_opts or ())
    # several output files per module (-f) or an external data segment blob: one directory per module, its objects combined
    # into one relocatable object before the module's internal symbols are made local
    subdirs = gnuld or "-f" in (w2c2_opts or ())

    def one(bn):
        its = batches[bn]
        d = os.path.join(workdir, "b%d" % bn)
        os.makedirs(d, exist_ok=True)
        good = []
        for n, it in enumerate(its):
            it["modname"] = "m%dx%d" % (bn, n)
            it["multi"] = "-m" in (w2c2_opts or ("-m",))
            wasm = os.path.join(d, it["modname"] + ".wasm")
            with open(wasm, "wb") as f:
                f.write(it.get("wasm") or wasm_encode.encode(enc_module(it["module"])))
            if subdirs:
                # (the blob of external data segments is linked in with ld -r -b binary as the project documents)
                it["subdirs"] = []
                rc = 0
                for mn_, blob_ in [(it["modname"], None)] + [(it["modname"] + "abcdefgh"[k_], wasm_encode.encode(enc_module(m_))) for k_, m_ in enumerate(it.get("modules", []))]:
                    if rc != 0:
                        break
                    sub = os.path.join(d, mn_ + ".dir")
                    os.makedirs(sub, exist_ok=True)
                    it["subdirs"].append((mn_, sub))
                    wasm_ = wasm
                    if blob_ is not None:
                        wasm_ = os.path.join(d, mn_ + ".wasm")
                        with open(wasm_, "wb") as f:
                            f.write(blob_)
                    rc, out, err = run([w2c2, *w2c2_opts, wasm_, os.path.join(sub, mn_ + ".c")], timeout=120, cwd=sub, env=w2c2_env)
                    if rc == 0 and os.path.exists(os.path.join(sub, "datasegments")):
                        rc, out, err = run(["ld", "-r", "-b", "binary", "datasegments", "-o", "datasegments.o"], timeout=60, cwd=sub)
                    if rc == 0:
                        shutil.copy(os.path.join(sub, mn_ + ".h"), os.path.join(d, mn_ + ".h"))
            else:
                rc, out, err = run([w2c2, *(w2c2_opts or ("-m",)), wasm, os.path.join(d, it["modname"] + ".c")], timeout=120, cwd=d, env=w2c2_env)
                # the further modules of a several-module scenario: translated the same way, linked into the same program
                for k_, m_ in enumerate(it.get("modules", [])):
                    if rc != 0:
                        break
                    mn_ = it["modname"] + "abcdefgh"[k_]
                    with open(os.path.join(d, mn_ + ".wasm"), "wb") as f:
                        f.write(wasm_encode.encode(enc_module(m_)))
                    rc, out, err = run([w2c2, *(w2c2_opts or ("-m",)), mn_ + ".wasm", os.path.join(d, mn_ + ".c")], timeout=120, cwd=d, env=w2c2_env)
            if rc != 0:
                problems.append(("translate", [it["id"]], "rc=%s %s" % (rc, err[-800:])))
            else:
                good.append(it)
        if not good:
            return []
        with open(os.path.join(d, "harness.c"), "w") as f:
            f.write(gen_harness(good, d))
        srcs = [f for f in sorted(os.listdir(d)) if f.endswith(".c") and f != "harness.c"]
        exe = os.path.join(d, "harness")
        inc = ["-I", os.path.join(REPO, "w2c2"), "-DWASM_THREADS_PTHREADS", *extra_defs]
        # the harness itself (hundreds of setjmp sites) is compiled without optimisation;
        # the translated modules get the build configuration under test
        rc, out, err = run([cc, "-O0", "-w", *[f for f in cflags if f.startswith(("-fsanitize", "-std", "-m"))], *inc,
                            "-c", "harness.c", "-o", "harness.o"], timeout=600, cwd=d)
        objs = []
        for modname_, sub in ([x_ for it in good for x_ in it["subdirs"]] if subdirs else []):
            if rc != 0:
                break
            parts = []
            for src in sorted(f_ for f_ in os.listdir(sub) if f_.endswith(".c")):
                if rc == 0:
                    rc, out, err = run([cc, *cflags, "-w", *inc, "-c", src, "-o", src[:-2] + ".o"], timeout=600, cwd=sub)
                    parts.append(src[:-2] + ".o")
            if rc == 0 and os.path.exists(os.path.join(sub, "datasegments.o")):
                parts.append("datasegments.o")
            ob = os.path.join(d, modname_ + "-all.o")
            if rc == 0:
                rc, out, err = run(["ld", "-r", *parts, "-o", ob], timeout=60, cwd=sub)
            if rc == 0 and localize:
                rc, out, err = run(["objcopy", "-w", "-G", modname_ + "*", ob], timeout=60, cwd=d)
            objs.append(ob)
        for src in srcs:
            if rc != 0:
                break
            ob = src[:-2] + ".o"
            rc, out, err = run([cc, *cflags, "-w", *inc, "-c", src, "-o", ob], timeout=600, cwd=d)
            if rc == 0 and localize:
                # keep only the module's public (prefixed) symbols global, so that several translated
                # modules can live in one test program whatever their internal names are
                rc, out, err = run(["objcopy", "-w", "-G", src[:-2].split("-")[0] + "*", ob], timeout=60, cwd=d)
            objs.append(ob)
        for n_, src in enumerate(extra_srcs):
            if rc != 0:
                break
            ob = "extra%d.o" % n_
            rc, out, err = run([cc, *cflags, "-w", *inc, "-c", src, "-o", ob], timeout=600, cwd=d)
            objs.append(ob)
        if rc == 0:
            rc, out, err = run([cc, *[f for f in cflags if f.startswith(("-fsanitize", "-m"))], *objs, "harness.o",
                                "-o", exe, "-lm", "-lpthread"], timeout=600, cwd=d)
        if rc != 0:
            problems.append(("compile", [it["id"] for it in good], err[-3000:]))
            return []
        # the harness does not release what it allocates as the embedder (host memories and tables): no leak reports
        rc, out, err = run([exe], timeout=run_timeout, cwd=d, env=dict({"ASAN_OPTIONS": "detect_leaks=0"}, **(run_env or {})))
        recs = []
        for l in out.splitlines():
            try:
                recs.append(json.loads(l))
            except ValueError:
                pass
        if rc != 0:
            problems.append(("run", [it["id"] for it in good], "rc=%s %s" % (rc, err[-1500:])))
        return recs
    obs = {}
    for recs in pmap(one, range(len(batches))):
        for r in recs:
            obs[(r["item"], r["k"])] = r
    if not keep and not os.environ.get("VERIF_KEEP"):
        for bn in range(len(batches)):
            shutil.rmtree(os.path.join(workdir, "b%d" % bn), ignore_errors=True)
    return obs, problems


# A hostile but conforming C library, obtained from AddressSanitizer's allocator: malloc'ed and realloc'ed bytes are not zero
# (0xA5 up to 256 MiB), realloc always moves, released blocks are poisoned, memcpy between overlapping ranges is reported.
# Code that relies on what malloc/realloc/memcpy happen to do in glibc, but do not promise, shows here.
HOSTILE_LIBC = {"name": "gcc-O1-asan-hostile-libc", "cc": "gcc", "cflags": ("-O1", "-g", "-fsanitize=address", "-fno-omit-frame-pointer"),
                "run_env": {"ASAN_OPTIONS": "detect_leaks=0:malloc_fill_byte=165:max_malloc_fill_size=268435456:free_fill_byte=221:max_free_fill_size=268435456"}}


# ------------------------------------------------------------------ comparison
def is_nan(t, b):
    v = wasm_encode.le_to_int(b)
    if t == "f32":
        return (v >> 23) & 0xFF == 0xFF and v & 0x7FFFFF != 0
    if t == "f64":
        return (v >> 52) & 0x7FF == 0x7FF and v & ((1 << 52) - 1) != 0
    return False


def val_eq(e, a):
    if e["t"] != a["t"]:
        return False
    if e.get("nd"):
        return is_nan(a["t"], a["b"])
    return list(e["b"]) == list(a["b"])


def compare_op(exp, act, observe_mems=True):
    """Returns None if the actual observation is what the spec prescribes, else a short reason."""
    if exp["status"] != act.get("status"):
        return "status: spec %s%s, code %s%s" % (exp["status"], "/" + exp["trap"] if exp["trap"] else "",
                                                 act.get("status"), "/" + act.get("trap", "") if act.get("trap") else "")
    if exp["status"] == "trapped":
        if exp["trap"] != act.get("trap"):
            return "trap code: spec %s, code %s" % (exp["trap"], act.get("trap"))
    if exp["status"] == "returned":
        er, ar = exp["res"], act.get("res", [])
        if "res" in act and (len(er) != len(ar) or not all(val_eq(x, y) for x, y in zip(er, ar))):
            return "result: spec %s, code %s" % (json.dumps(er), json.dumps(ar))
    eh, ah = exp["host"], act.get("host", [])
    if len(eh) != len(ah):
        return "host calls: spec %d, code %d" % (len(eh), len(ah))
    for x, y in zip(eh, ah):
        if x["callee"] != y["callee"] or x["inst"] != y["inst"] or len(x["args"]) != len(y["args"]) or \
                not all(val_eq(p, q) for p, q in zip(x["args"], y["args"])):
            return "host call: spec %s, code %s" % (json.dumps(x), json.dumps(y))
    if observe_mems:
        for a, (em, am) in enumerate(zip(exp["mems"], act.get("mems", []))):
            if am is None:
                continue
            if em["pages"] != am["pages"]:
                return "memory %d pages: spec %d, code %d" % (a, em["pages"], am["pages"])
            enz = [list(x) for x in em["nz"]]
            if enz != am["nz"]:
                ed, ad = dict(map(tuple, enz)), dict(map(tuple, am["nz"]))
                diff = sorted(k for k in set(ed) | set(ad) if ed.get(k, 0) != ad.get(k, 0))[:8]
                return "memory %d bytes differ at %s: spec %s, code %s" % (
                    a, diff, [ed.get(k, 0) for k in diff], [ad.get(k, 0) for k in diff])
    return None


def clean_prefix(item, exp):
    """Number of script operations whose specified outcome is defined (the machine did not
    give up: fuel, undefined, ndnan, wouldblock)."""
    n = 0
    for k in range(1, len(item["script"]) + 1):
        r = exp.get((item["id"], k))
        if r is not None and r["status"] == "invalid":
            # WasmValid.tla rejects the module: whoever generated the scenario is wrong, not the code under test
            raise MachineryError("scenario %s uses an invalid module (%s)" % (item["id"], r["trap"]))
        if r is None or r["status"] not in ("done", "returned", "trapped"):
            break
        n = k
    return n


# ------------------------------------------------------------------ whole pipeline
def table_cmp(exp, act):
    for a, (et, at) in enumerate(zip(exp.get("tables", []), act.get("tables", []))):
        if not at:
            continue
        e01 = [0 if r["inst"] == 0 else 1 for r in et]
        if e01 != at:
            return "table %d occupancy: spec %s, code %s" % (a, e01, at)
    return None


def replay(verdict, items, builds, sigfn=None, w2c2_flags=("-O1",), workdir=None, shards=None,
           tlc_timeout=1500, observe_mems=True):
    """items -> TLC expected -> for each build config (name, cc, cflags, extra_defs, w2c2_opts)
    actual -> compare.  Deviations go to verdict with signature sigfn(item, k, reason, build).
    Returns statistics for the evidence file."""
    ids = [it["id"] for it in items]
    if len(set(ids)) != len(ids):
        raise MachineryError("scenario ids are not unique: %s" % sorted({i for i in ids if ids.count(i) > 1})[:5])
    wd = workdir or scratch("replay-")
    try:
        import time as _t
        t0 = _t.time()
        exp, st = expected(items, wd, shards=shards, timeout=tlc_timeout)
        st["tlc_wall_s"] = round(_t.time() - t0, 1)
        # keep only the operations whose outcome the specification defines
        usable = []
        skipped = 0
        for it in items:
            n = clean_prefix(it, exp)
            skipped += len(it["script"]) - n
            if n > 0:
                usable.append(dict(it, script=it["script"][:n]))
        from common import build_w2c2
        w2c2 = build_w2c2(os.path.join(wd, "w2c2bin"), flags=w2c2_flags)
        compared = 0
        nontrivial = set()
        # a build configuration may name its own translator: other compiler / optimisation level (what `make BUILD=debug`, MinSizeRel, a clang
        # toolchain produce) or one instrumented with UBSan, whose report on any input is a defect of the translator
        w2c2_of = {}
        for b in builds:
            if b.get("w2c2_build"):
                wb = b["w2c2_build"]
                w2c2_of[b["name"]] = build_w2c2(os.path.join(wd, "w2c2bin-" + b["name"]), flags=wb.get("flags", ("-O1",)), cc=wb.get("cc", "gcc"), name="w2c2-" + b["name"])

        def build_one(b):
            return actual([dict(i) for i in usable], w2c2_of.get(b["name"], w2c2), os.path.join(wd, "run-" + b["name"]),
                          cc=b.get("cc", "gcc"), cflags=b.get("cflags", ("-O1",)),
                          extra_defs=b.get("defs", ()), w2c2_opts=b.get("w2c2_opts", ()),
                          extra_srcs=b.get("extra_srcs", ()), batch=b.get("batch", 24), localize=b.get("localize", True), w2c2_env=b.get("w2c2_env"),
                          run_env=b.get("run_env"))
        # a build configuration is only as parallel as it has batches: run several configurations side by side
        nb = max(1, (len(usable) + 23) // 24, sum(len(i["script"]) for i in usable) // 2500)
        results = pmap(build_one, builds, jobs=max(1, min(len(builds), NCPU // min(nb, NCPU) + 1)))
        for b, (act, problems) in zip(builds, results):
            for kind, ids, text in problems:
                verdict.deviation("%s:%s" % (kind, b["name"]), {"items": ids[:5], "text": text, "build": b["name"]})
            for it in usable:
                for k in range(1, len(it["script"]) + 1):
                    e = exp[(it["id"], k)]
                    a = act.get((it["id"], k))
                    if a is None:
                        continue
                    compared += 1
                    nontrivial.add(json.dumps([it["script"][k - 1], e["res"], e["trap"]], sort_keys=True))
                    why = compare_op(e, a, observe_mems) or table_cmp(e, a)
                    if why:
                        sig = sigfn(it, k, why, b, e, a) if sigfn else "%s:%d" % (it["id"], k)
                        verdict.deviation(sig, {"item": it["id"], "op": it["script"][k - 1], "why": why,
                                                "build": b["name"]},
                                          {"module.json": json.dumps(it["module"]),
                                           "script.json": json.dumps(it["script"]),
                                           "module.wasm": wasm_encode.encode(enc_module(it["module"]))})
        st["total_wall_s"] = round(_t.time() - t0, 1)
        st.update({"ops_compared": compared, "ops_skipped_undefined": skipped,
                   "distinct_nontrivial": len(nontrivial), "items": len(items)})
        return st, exp
    finally:
        if os.environ.get("VERIF_KEEP"):
            print("kept work directory", wd)
        elif not workdir:
            shutil.rmtree(wd, ignore_errors=True)
