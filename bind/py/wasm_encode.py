"""Module AST (DESIGN.md appendix A.1) -> WebAssembly binary.

Canonical encoding by default; `choices` (appendix A.3) selects among the
spec-equivalent encodings (LEB padding, custom sections, data segment form,
omitted empty sections) for C08.

Values wider than 16 bits are little-endian byte lists everywhere.
"""
import re

VT = {"i32": 0x7F, "i64": 0x7E, "f32": 0x7D, "f64": 0x7C}

# ---------------------------------------------------------------- opcodes
OPS = {}


def _seq(start, names):
    for i, n in enumerate(names):
        OPS[n] = [start + i]


_seq(0x00, ["unreachable", "nop", "block", "loop", "if", "else"])
OPS["end"] = [0x0B]
_seq(0x0C, ["br", "br_if", "br_table", "return", "call", "call_indirect"])
_seq(0x1A, ["drop", "select"])
_seq(0x20, ["local.get", "local.set", "local.tee", "global.get", "global.set"])
_seq(0x28, ["i32.load", "i64.load", "f32.load", "f64.load",
            "i32.load8_s", "i32.load8_u", "i32.load16_s", "i32.load16_u",
            "i64.load8_s", "i64.load8_u", "i64.load16_s", "i64.load16_u",
            "i64.load32_s", "i64.load32_u",
            "i32.store", "i64.store", "f32.store", "f64.store",
            "i32.store8", "i32.store16", "i64.store8", "i64.store16", "i64.store32",
            "memory.size", "memory.grow",
            "i32.const", "i64.const", "f32.const", "f64.const"])
_seq(0x45, ["i32.eqz", "i32.eq", "i32.ne", "i32.lt_s", "i32.lt_u", "i32.gt_s", "i32.gt_u",
            "i32.le_s", "i32.le_u", "i32.ge_s", "i32.ge_u",
            "i64.eqz", "i64.eq", "i64.ne", "i64.lt_s", "i64.lt_u", "i64.gt_s", "i64.gt_u",
            "i64.le_s", "i64.le_u", "i64.ge_s", "i64.ge_u",
            "f32.eq", "f32.ne", "f32.lt", "f32.gt", "f32.le", "f32.ge",
            "f64.eq", "f64.ne", "f64.lt", "f64.gt", "f64.le", "f64.ge",
            "i32.clz", "i32.ctz", "i32.popcnt", "i32.add", "i32.sub", "i32.mul",
            "i32.div_s", "i32.div_u", "i32.rem_s", "i32.rem_u", "i32.and", "i32.or", "i32.xor",
            "i32.shl", "i32.shr_s", "i32.shr_u", "i32.rotl", "i32.rotr",
            "i64.clz", "i64.ctz", "i64.popcnt", "i64.add", "i64.sub", "i64.mul",
            "i64.div_s", "i64.div_u", "i64.rem_s", "i64.rem_u", "i64.and", "i64.or", "i64.xor",
            "i64.shl", "i64.shr_s", "i64.shr_u", "i64.rotl", "i64.rotr",
            "f32.abs", "f32.neg", "f32.ceil", "f32.floor", "f32.trunc", "f32.nearest", "f32.sqrt",
            "f32.add", "f32.sub", "f32.mul", "f32.div", "f32.min", "f32.max", "f32.copysign",
            "f64.abs", "f64.neg", "f64.ceil", "f64.floor", "f64.trunc", "f64.nearest", "f64.sqrt",
            "f64.add", "f64.sub", "f64.mul", "f64.div", "f64.min", "f64.max", "f64.copysign",
            "i32.wrap_i64", "i32.trunc_f32_s", "i32.trunc_f32_u", "i32.trunc_f64_s", "i32.trunc_f64_u",
            "i64.extend_i32_s", "i64.extend_i32_u",
            "i64.trunc_f32_s", "i64.trunc_f32_u", "i64.trunc_f64_s", "i64.trunc_f64_u",
            "f32.convert_i32_s", "f32.convert_i32_u", "f32.convert_i64_s", "f32.convert_i64_u",
            "f32.demote_f64",
            "f64.convert_i32_s", "f64.convert_i32_u", "f64.convert_i64_s", "f64.convert_i64_u",
            "f64.promote_f32",
            "i32.reinterpret_f32", "i64.reinterpret_f64", "f32.reinterpret_i32", "f64.reinterpret_i64",
            "i32.extend8_s", "i32.extend16_s", "i64.extend8_s", "i64.extend16_s", "i64.extend32_s"])
for i, n in enumerate(["i32.trunc_sat_f32_s", "i32.trunc_sat_f32_u", "i32.trunc_sat_f64_s",
                       "i32.trunc_sat_f64_u", "i64.trunc_sat_f32_s", "i64.trunc_sat_f32_u",
                       "i64.trunc_sat_f64_s", "i64.trunc_sat_f64_u",
                       "memory.init", "data.drop", "memory.copy", "memory.fill"]):
    OPS[n] = [0xFC, i]
_AT = ["memory.atomic.notify", "memory.atomic.wait32", "memory.atomic.wait64", "atomic.fence"]
for i, n in enumerate(_AT):
    OPS[n] = [0xFE, i]
for i, n in enumerate(["i32.atomic.load", "i64.atomic.load", "i32.atomic.load8_u", "i32.atomic.load16_u",
                       "i64.atomic.load8_u", "i64.atomic.load16_u", "i64.atomic.load32_u",
                       "i32.atomic.store", "i64.atomic.store", "i32.atomic.store8", "i32.atomic.store16",
                       "i64.atomic.store8", "i64.atomic.store16", "i64.atomic.store32"]):
    OPS[n] = [0xFE, 0x10 + i]
_RMW = ["add", "sub", "and", "or", "xor", "xchg", "cmpxchg"]
_RW = ["i32.atomic.rmw.%s", "i64.atomic.rmw.%s", "i32.atomic.rmw8.%s_u", "i32.atomic.rmw16.%s_u",
       "i64.atomic.rmw8.%s_u", "i64.atomic.rmw16.%s_u", "i64.atomic.rmw32.%s_u"]
for j, op in enumerate(_RMW):
    for i, pat in enumerate(_RW):
        OPS[pat % op] = [0xFE, 0x1E + 7 * j + i]

MEMOPS = {n for n in OPS if (".load" in n or ".store" in n or ".rmw" in n
                             or n in ("memory.atomic.notify", "memory.atomic.wait32", "memory.atomic.wait64"))}


def natural_align(name):
    """log2 of the access width (bytes) of a memory instruction."""
    if name in ("memory.atomic.notify", "memory.atomic.wait32"):
        return 2
    if name == "memory.atomic.wait64":
        return 3
    for part in name.split("."):
        mm = re.match(r"(load|store|rmw)(\d*)", part)
        if mm:
            if mm.group(2):
                return {"8": 0, "16": 1, "32": 2}[mm.group(2)]
            return 2 if name.startswith(("i32", "f32")) else 3
    raise ValueError(name)


# ---------------------------------------------------------------- LEB128
class Enc:
    """Byte sink that knows the per-field padding choices."""

    def __init__(self, choices=None):
        self.pad = (choices or {}).get("pad", {})
        self.padall = (choices or {}).get("padall", 0)  # 0 none, 1 max everywhere
        self.explicit_else = bool((choices or {}).get("explicitElse"))
        self.fields = []  # names of LEB fields met, for the choice generator

    def extra(self, field, n, maxlen):
        self.fields.append(field)
        if field in self.pad:
            e = self.pad[field]
        elif self.padall:
            e = maxlen
        else:
            e = 0
        return max(0, min(e, maxlen - n))

    def u(self, v, field="?", bits=32):
        out = []
        while True:
            b = v & 0x7F
            v >>= 7
            if v:
                out.append(b | 0x80)
            else:
                out.append(b)
                break
        maxlen = (bits + 6) // 7
        e = self.extra(field, len(out), maxlen)
        if e:
            out[-1] |= 0x80
            out += [0x80] * (e - 1) + [0x00]
        return out

    def s(self, v, field="?", bits=32):
        out = []
        while True:
            b = v & 0x7F
            v >>= 7
            if (v == 0 and not (b & 0x40)) or (v == -1 and (b & 0x40)):
                out.append(b)
                break
            out.append(b | 0x80)
        maxlen = (bits + 6) // 7
        e = self.extra(field, len(out), maxlen)
        if e:
            neg = bool(out[-1] & 0x40)
            out[-1] |= 0x80
            fill = 0x7F if neg else 0x00
            out += [fill | 0x80] * (e - 1)
            # final byte: only the bits that still belong to the value are free;
            # the unused high bits must replicate the sign (spec)
            out.append(fill)
        return out


def le_to_int(b, signed=False):
    v = 0
    for i, x in enumerate(b):
        v |= x << (8 * i)
    if signed and b and (b[-1] & 0x80):
        v -= 1 << (8 * len(b))
    return v


def name_bytes(n):
    if isinstance(n, dict):
        return list(n["bytes"])
    return list(n.encode("utf-8"))


# ---------------------------------------------------------------- instructions
def enc_blocktype(bt):
    if bt in ("", None):
        return [0x40]
    return [VT[bt]]


def enc_instr(e, ins, path):
    op = ins[0]
    out = list(OPS[op])
    if len(out) == 2:
        # the number behind a 0xFC / 0xFE prefix is a u32 like any other (it may be padded)
        out = [out[0]] + e.u(out[1], path + ".subop")
    if op in ("block", "loop", "if"):
        out += enc_blocktype(ins[1] if len(ins) > 1 else "")
    elif op in ("br", "br_if"):
        out += e.u(ins[1], path + ".label")
    elif op == "br_table":
        out += e.u(len(ins[1]), path + ".n")
        for k, l in enumerate(ins[1]):
            out += e.u(l, path + ".l%d" % k)
        out += e.u(ins[2], path + ".default")
    elif op == "call":
        out += e.u(ins[1], path + ".func")
    elif op == "call_indirect":
        out += e.u(ins[1], path + ".type") + e.u(ins[2] if len(ins) > 2 else 0, path + ".table")
    elif op in ("local.get", "local.set", "local.tee", "global.get", "global.set"):
        out += e.u(ins[1], path + ".idx")
    elif op in MEMOPS:
        out += e.u(ins[1], path + ".align") + e.u(ins[2], path + ".offset")
    elif op in ("memory.size", "memory.grow"):
        out += [0x00]
    elif op == "i32.const":
        out += e.s(le_to_int(ins[1], True), path + ".imm", 32)
    elif op == "i64.const":
        out += e.s(le_to_int(ins[1], True), path + ".imm", 64)
    elif op in ("f32.const", "f64.const"):
        out += list(ins[1])
    elif op == "memory.init":
        out += e.u(ins[1], path + ".seg") + [0x00]
    elif op == "data.drop":
        out += e.u(ins[1], path + ".seg")
    elif op == "memory.copy":
        out += [0x00, 0x00]
    elif op == "memory.fill":
        out += [0x00]
    elif op == "atomic.fence":
        out += [0x00]
    return out


def enc_expr(e, instrs, path):
    out = []
    open_ = []          # for every open construct: [is an `if`, has seen its `else`]
    for k, ins in enumerate(instrs):
        if ins[0] in ("block", "loop", "if"):
            open_.append([ins[0] == "if", False])
        elif ins[0] == "else" and open_:
            open_[-1][1] = True
        elif ins[0] == "end" and open_:
            fr = open_.pop()
            if fr[0] and not fr[1] and getattr(e, "explicit_else", False):
                out += [0x05]            # `if .. end` is `if .. else end` with an empty else arm: the same instruction
        out += enc_instr(e, ins, "%s.%d" % (path, k))
    return out


def enc_limits(e, lim, path):
    flag = (1 if lim.get("max") is not None else 0) | (2 if lim.get("shared") else 0)
    out = [flag] + e.u(lim["min"], path + ".min")
    if lim.get("max") is not None:
        out += e.u(lim["max"], path + ".max")
    return out


def vec(e, items, path):
    out = e.u(len(items), path + ".count")
    for it in items:
        out += it
    return out


def enc_name(e, n, path):
    b = name_bytes(n)
    return e.u(len(b), path + ".len") + b


# ---------------------------------------------------------------- module
SECTION_IDS = ["type", "import", "function", "table", "memory", "global", "export",
               "start", "element", "datacount", "code", "data"]
SECTION_NUM = {"type": 1, "import": 2, "function": 3, "table": 4, "memory": 5, "global": 6,
               "export": 7, "start": 8, "element": 9, "datacount": 12, "code": 10, "data": 11}


def encode(m, choices=None):
    """Return bytes of module AST m.  choices: see module docstring."""
    choices = choices or {}
    e = Enc(choices)
    secs = {}

    types = m.get("types", [])
    if types:
        secs["type"] = vec(e, [[0x60] + vec(e, [[VT[t]] for t in ty["p"]], "type%d.p" % i)
                               + vec(e, [[VT[t]] for t in ty["r"]], "type%d.r" % i)
                               for i, ty in enumerate(types)], "type")
    imports = m.get("imports", [])
    if imports:
        items = []
        for i, im in enumerate(imports):
            p = "import%d" % i
            b = enc_name(e, im["mod"], p + ".mod") + enc_name(e, im["name"], p + ".name")
            k = im["kind"]
            if k == "func":
                b += [0x00] + e.u(im["type"], p + ".type")
            elif k == "table":
                b += [0x01, 0x70] + enc_limits(e, im, p)
            elif k == "memory":
                b += [0x02] + enc_limits(e, im, p)
            elif k == "global":
                b += [0x03, VT[im["t"]], 1 if im.get("mut") else 0]
            items.append(b)
        secs["import"] = vec(e, items, "import")
    funcs = m.get("funcs", [])
    if funcs:
        secs["function"] = vec(e, [e.u(f["type"], "func%d.type" % i) for i, f in enumerate(funcs)], "function")
    if m.get("table"):
        secs["table"] = vec(e, [[0x70] + enc_limits(e, m["table"], "table0")], "table")
    if m.get("memory"):
        secs["memory"] = vec(e, [enc_limits(e, m["memory"], "memory0")], "memory")
    globs = m.get("globals", [])
    if globs:
        secs["global"] = vec(e, [[VT[g["t"]], 1 if g.get("mut") else 0]
                                 + enc_expr(e, [g["init"], ["end"]], "global%d.init" % i)
                                 for i, g in enumerate(globs)], "global")
    exports = m.get("exports", [])
    if exports:
        kinds = {"func": 0, "table": 1, "memory": 2, "global": 3}
        secs["export"] = vec(e, [enc_name(e, x["name"], "export%d" % i) + [kinds[x["kind"]]]
                                 + e.u(x["idx"], "export%d.idx" % i) for i, x in enumerate(exports)], "export")
    if m.get("start") is not None:
        secs["start"] = e.u(m["start"], "start.func")
    elems = m.get("elems", [])
    if elems:
        items = []
        for i, el in enumerate(elems):
            p = "elem%d" % i
            items.append(e.u(0, p + ".flag") + enc_expr(e, [el["offset"], ["end"]], p + ".offset")
                         + vec(e, [e.u(f, "%s.f%d" % (p, j)) for j, f in enumerate(el["funcs"])], p))
        secs["element"] = vec(e, items, "element")
    data = m.get("data", [])
    if m.get("datacount", any(d.get("mode") == "passive" for d in data) or m.get("uses_memory_init")):
        secs["datacount"] = e.u(len(data), "datacount.n")
    if funcs:
        items = []
        for i, f in enumerate(funcs):
            p = "code%d" % i
            groups = [(t, n) for t, n in f.get("locals", [])]
            how = choices.get("splitLocals")
            if how:
                # the same locals written as other declaration groups: one per local ("single"), in pairs ("pairs"),
                # with empty groups sprinkled in ("empties") - all decode to the same vector of locals
                out = []
                for t, n in groups:
                    if how == "single":
                        out += [(t, 1)] * n
                    elif how == "pairs":
                        out += [(t, 2)] * (n // 2) + ([(t, 1)] if n % 2 else [])
                    else:
                        out += [(t, 0), (t, n), ({"i32": "f64", "i64": "i32", "f32": "i64", "f64": "f32"}[t], 0)]
                groups = out
            body = vec(e, [e.u(n, "%s.local%d.n" % (p, j)) + [VT[t]] for j, (t, n) in enumerate(groups)],
                       p + ".locals")
            body += enc_expr(e, f["body"], p + ".body")
            items.append(e.u(len(body), p + ".size") + body)
        secs["code"] = vec(e, items, "code")
    if data:
        forms = choices.get("dataForm", {})
        items = []
        for i, d in enumerate(data):
            p = "data%d" % i
            if d.get("mode", "active") == "passive":
                b = e.u(1, p + ".flag")
            else:
                form = forms.get(str(i), "flag0")
                if form == "flag2":
                    b = e.u(2, p + ".flag") + e.u(0, p + ".mem")
                else:
                    b = e.u(0, p + ".flag")
                b += enc_expr(e, [d["offset"], ["end"]], p + ".offset")
            b += e.u(len(d["bytes"]), p + ".len") + list(d["bytes"])
            items.append(b)
        secs["data"] = vec(e, items, "data")

    # empty sections that may be present or omitted
    for s in choices.get("emitEmpty", []):
        if s not in secs and s not in ("start", "datacount"):
            secs[s] = e.u(0, s + ".count")

    customs = list(choices.get("custom", []))
    if m.get("names"):
        # function name subsection (id 1)
        ent = sorted((int(k), v) for k, v in m["names"].items())
        sub = vec(e, [e.u(k, "names.idx%d" % k) + enc_name(e, v, "names.n%d" % k) for k, v in ent], "names")
        payload = [1] + e.u(len(sub), "names.sublen") + sub
        customs.append({"at": 99, "name": "name", "payload": payload})

    out = [0x00, 0x61, 0x73, 0x6D, 0x01, 0x00, 0x00, 0x00]
    boundaries = [len(out)]

    def emit_custom(pos):
        nonlocal out
        for c in customs:
            if c["at"] == pos:
                nm = enc_name(e, c["name"], "custom.name")
                body = nm + list(c["payload"])
                out += [0] + e.u(len(body), "custom.size") + body
                boundaries.append(len(out))

    order = [s for s in SECTION_IDS if s in secs]
    for pos, s in enumerate(order):
        emit_custom(pos)
        out += [SECTION_NUM[s]] + e.u(len(secs[s]), s + ".size") + secs[s]
        boundaries.append(len(out))
    for pos in range(len(order), 100):
        emit_custom(pos)
    encode.last_fields = e.fields
    encode.last_boundaries = boundaries
    return bytes(out)


if __name__ == "__main__":
    import json
    import sys
    m = json.load(open(sys.argv[1]))
    open(sys.argv[2], "wb").write(encode(m))
