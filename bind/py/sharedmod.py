"""A translated module with a shared memory - defined or imported - under real threads arranged the ways embedders arrange them
(bind/c/shared_module.c): growers, atomic adders and a waiter/notifier pair at once.  Used by c16 (adds), c17 (wait/notify), c18 (grow)."""
import json
import os

import common
from common import BINDC, REPO, run

MAXP = 300
FIELDS = {"C18": ("overlapping_page_ranges", "bad_final_size", "old_size_out_of_range", "failed_although_it_fits", "size_went_down"),
          "C16": ("lost_atomic_adds",), "C17": ("waiter_not_woken", "notify_count_wrong")}
MODES = {0: "one-instance", 1: "instance-per-thread", 2: "child-per-thread"}


def module(imported, maxp=MAXP):
    from wasmgen import b64
    g = lambda k: ["local.get", k]
    gbody = [g(0), ["memory.grow"], ["end"]]
    m = {"types": [{"p": ["i32"], "r": ["i32"]}, {"p": [], "r": ["i32"]}, {"p": ["i32", "i32", "i32"], "r": ["i32"]}, {"p": ["i32", "i32"], "r": ["i32"]}],
         "funcs": [{"type": 0, "locals": [], "body": gbody}, {"type": 0, "locals": [], "body": [["nop"]] + gbody}, {"type": 1, "locals": [], "body": [["memory.size"], ["end"]]},
                   {"type": 2, "locals": [], "body": [g(0), g(1), g(2), ["i64.extend_i32_u"], ["i64.const", b64(1000000)], ["i64.mul"], ["memory.atomic.wait32", 2, 0], ["end"]]},
                   {"type": 3, "locals": [], "body": [g(0), g(1), ["memory.atomic.notify", 2, 0], ["end"]]},
                   {"type": 3, "locals": [], "body": [g(0), g(1), ["i32.atomic.rmw.add", 2, 0], ["end"]]},
                   {"type": 0, "locals": [], "body": [g(0), ["i32.atomic.load", 2, 0], ["end"]]}],
         "exports": [{"name": n, "kind": "func", "idx": i} for i, n in enumerate(["growA", "growB", "size", "wait", "notify", "add", "load"])]}
    if imported:
        m["imports"] = [{"mod": "env", "name": "mem", "kind": "memory", "min": 1, "max": maxp, "shared": True}]
    else:
        m["memory"] = {"min": 1, "max": maxp, "shared": True}
    return m


def run_all(wd, w2c2, tier, pid):
    """-> (results {configuration: counters}, problems [(signature suffix, detail)]) for property pid."""
    import machine
    import wasm_encode
    results, problems = {}, []
    rounds = "60" if tier == "quick" else "1000"
    futex = [os.path.join(REPO, "futex", f) for f in ("futex.c", "map.c", "list.c")]
    jobs = []
    for imported in (False, True):
        for split in (False, True):
            md = os.path.join(wd, "sm-%s-%s" % ("imp" if imported else "def", "split" if split else "one"))
            os.makedirs(md)
            open(os.path.join(md, "sm.wasm"), "wb").write(wasm_encode.encode(machine.enc_module(machine.norm_module(module(imported)))))
            rc, out, err = run([w2c2, "-t", "1"] + (["-f", "1"] if split else []) + ["sm.wasm", "sm.c"], cwd=md, timeout=60)
            if rc != 0:
                problems.append(("translate", {"imported_memory": imported, "stderr": err[-400:]}))
                continue
            srcs = sorted(os.path.join(md, f_) for f_ in os.listdir(md) if f_.endswith(".c"))
            for mode in ((0, 1, 2) if imported else (0, 2)):
                if split and mode == 0 and tier == "quick":
                    continue
                for san in ((False, True) if (mode == 1 or (mode == 0 and not imported)) and not split else (False,)):
                    jobs.append((md, srcs, imported, split, mode, san))

    # a memory of 5000 pages grown past 4096 in large steps while the adders and the waiter are at work
    md = os.path.join(wd, "sm-big")
    os.makedirs(md)
    open(os.path.join(md, "sm.wasm"), "wb").write(wasm_encode.encode(machine.enc_module(machine.norm_module(module(False, 5000)))))
    rc, out, err = run([w2c2, "-t", "1", "sm.wasm", "sm.c"], cwd=md, timeout=60)
    if rc == 0:
        jobs.append((md, [os.path.join(md, "sm.c")], False, False, 2, "big"))
        jobs.append((md, [os.path.join(md, "sm.c")], False, False, 0, "big"))

    def one(job):
        md, srcs, imported, split, mode, san = job
        big = san == "big"
        san = False if big else san
        key = "%s-memory/%s/%s%s%s" % ("imported" if imported else "defined", MODES[mode], "file-per-function" if split else "one-file", "/asan" if san else "", "/5000-pages" if big else "")
        exe = os.path.join(md, "sm-%d%s" % (mode, "-asan" if san else ""))
        rc, out, err = run(["gcc", "-O1" if san else "-O2", "-w", "-DWASM_THREADS_PTHREADS", "-DMODE=%d" % mode] + (["-DIMPORTED_MEMORY"] if imported else []) + (["-DBIGMEMORY"] if big else []) +
                           (["-fsanitize=address", "-g"] if san else []) + ["-I", md, "-I", os.path.join(REPO, "w2c2"), os.path.join(BINDC, "shared_module.c")] + srcs + futex +
                           ["-o", exe, "-lpthread", "-lm"], timeout=300)
        if rc != 0:
            return key, None, ("compile", {"configuration": key, "stderr": err[-600:]})
        rc, out, err = run([exe, (rounds if not san else str(max(5, int(rounds) // 5))) if not big else str(max(6, int(rounds) // 10))], timeout=600, env={"ASAN_OPTIONS": "detect_leaks=0"})
        try:
            return key, json.loads(out.strip().splitlines()[-1]), None
        except (ValueError, IndexError):
            return key, None, ("asan" if "AddressSanitizer" in err else "hang" if rc == -999 else "crash", {"configuration": key, "rc": rc, "stderr": err[-600:]})
    for key, res, prob in common.pmap(one, jobs, jobs=4):
        if prob:
            problems.append(prob)
            continue
        results[key] = res
        for f in FIELDS[pid]:
            if res.get(f):
                problems.append((f, dict(res, configuration=key)))
    return results, problems
