"""WASI binding: histories of calls -> (a) records for spec/WasiFs.tla, (b) script lines for bind/c/wasi_driver.c,
and the comparison of the model's expected observation with what the real wasi.c did."""
import errno as errno_mod
import json
import os
import re
import shutil

import common
from common import BINDC, MachineryError, NCPU, REPO, pmap, read_ndjson, run, scratch, tlc, tlc_ok, write_ndjson

WDEFS = common.project_defs("wasi/wasi.c")
R1, R2, IOV, PATH1, WBUF, RBUF, STAT, DIRBUF, PATH2, BIG = 0x100, 0x110, 0x200, 0x400, 0x1000, 0x2000, 0x3000, 0x4000, 0xC000, 0x10000


def build_driver(wd, asan=True, name="wasidrv", extra=()):
    exe = os.path.join(wd, name)
    cov, cwd = [], None
    if os.environ.get("VERIF_GCOV"):
        cwd = os.path.join(os.environ["VERIF_GCOV"], "wasi")          # coverage survey: counters outlast the check
        os.makedirs(cwd, exist_ok=True)
        cov = ["--coverage"]
        exe = os.path.join(cwd, name)
    cmd = ["gcc", "-g", "-O1", "-w"] + cov + (["-fsanitize=address", "-fno-omit-frame-pointer"] if asan else []) + \
          ["-I", os.path.join(REPO, "w2c2"), "-I", os.path.join(REPO, "wasi"), *WDEFS, *extra,
           os.path.join(BINDC, "wasi_driver.c"), os.path.join(REPO, "wasi", "wasi.c"), "-o", exe, "-lm", "-lpthread"]
    rc, out, err = run(cmd, timeout=300, **({"cwd": cwd} if cwd else {}))
    if rc != 0:
        raise MachineryError("cannot build the WASI driver: " + err[-2000:])
    return exe


def hexs(b):
    return bytes(b).hex() if b else "-"


def w8(n):
    return list((n & (2 ** 64 - 1)).to_bytes(8, "little"))


def model_call(c):
    """The call as WasiFs.tla wants it (uniform record fields, wide numbers as byte lists)."""
    m = {"call": c["call"], "abi": c.get("abi", "p"), "fd": c.get("fd", 0), "dirfd": c.get("dirfd", 0), "path": c.get("path", ""),
         "abs": c.get("abs", False), "oflags": c.get("oflags", 0), "rd": c.get("rd", False), "wr": c.get("wr", False), "app": c.get("app", False),
         "segs": c.get("segs", []), "lens": c.get("lens", []), "offset": w8(c.get("offset", 0)), "delta": w8(c.get("delta", 0)),
         "whence": c.get("whence", 0), "bytes": c.get("bytes", []), "target": c.get("target", ""), "buflen": c.get("buflen", 0),
         "path2": c.get("path2", ""), "parent": c.get("parent", ""), "parent2": c.get("parent2", ""), "under": c.get("under", []),
         "slash": c.get("rawpath", "").endswith("/"), "slash2": c.get("rawpath2", "").endswith("/"),
         # the last component of the raw path is "." (c["path"] is then the directory it denotes)
         "dot": bool(c.get("dot")), "dot2": bool(c.get("dot2")),
         # host fault: name of the POSIX error that the host operation carrying out this call fails with ("" = none)
         "fault": c.get("fault", ""),
         # walk mode (WasiFs.WalkDir): the components leading to the directory of the last name, and that name ("" = the path as a
         # whole denotes a directory); pseq: the components of an already normalised path; tcomps/tabs: a link target in components
         "walk": bool(c.get("walk")), "wcomps": list(c.get("wcomps", [])), "wlast": c.get("wlast", ""),
         "pseq": [x for x in c.get("path", "").split("/") if x],
         "tcomps": [x for x in c.get("target", "").split("/") if x], "tabs": c.get("target", "").startswith("/")}
    return m


def plen(c, sandbox):
    """Buffer length of a prestatname call; 'exact', 'exact-1', 'exact+1' refer to the length of the pre-open's path."""
    ln = c.get("len", 4096)
    if isinstance(ln, str):
        ln = len(sandbox.encode()) + {"exact": 0, "exact-1": -1, "exact+1": 1}[ln]
    return ln


def script_line(c, sandbox):
    k, abi = c["call"], c.get("abi", "p")
    if k == "open":
        p = (sandbox + "/" + c.get("rawpath", c["path"])) if c.get("abs") else c.get("rawpath", c["path"])
        rights = (0x2 if c.get("rd") else 0) | (0x40 if c.get("wr") else 0)
        return "open %s %d %s %d %x %d" % (abi, c["dirfd"], hexs(p.encode()), c["oflags"], rights, 1 if c.get("app") else 0)
    if k == "write":
        return "write %s %d %s" % (abi, c["fd"], " ".join(hexs(s) for s in c["segs"]))
    if k == "pwrite":
        return "pwrite %s %d %d %s" % (abi, c["fd"], c["offset"], " ".join(hexs(s) for s in c["segs"]))
    if k == "read":
        return "read %s %d %s" % (abi, c["fd"], " ".join(map(str, c["lens"])))
    if k == "pread":
        return "pread %s %d %d %s" % (abi, c["fd"], c["offset"], " ".join(map(str, c["lens"])))
    if k == "seek":
        d = c["delta"]
        return "seek %s %d %d %d" % (abi, c["fd"], d - 2 ** 64 if d >= 2 ** 63 else d, c["whence"])
    if k in ("tell", "filestat", "close", "prestat", "fdstat"):
        return "%s %s %d" % (k, abi, c["fd"])
    if k == "prestatname":
        return "prestatname %s %d %d" % (abi, c["fd"], plen(c, sandbox))
    if k in ("sync", "datasync"):
        return "%s %s %d" % (k, abi, c["fd"])
    if k == "readdir":
        return "readdir %s %d %d %d" % (abi, c["fd"], c.get("buflen", 256), c.get("cookie", 0))
    if k in ("mkdir", "rmdir", "unlink", "pathstat"):
        return "%s %s %d %s" % (k, abi, c["dirfd"], hexs(c.get("rawpath", c["path"]).encode()))
    if k == "readlink":
        return "readlink %s %d %s %d" % (abi, c["dirfd"], hexs(c.get("rawpath", c["path"]).encode()), c.get("buflen", 64))
    if k == "symlink":
        return "symlink %s %s %d %s" % (abi, hexs(c.get("target", "t").encode()), c["dirfd"], hexs(c.get("rawpath", c["path"]).encode()))
    if k == "rename":
        p2 = c.get("rawpath2", c.get("path2", "z"))
        if c.get("abs2"):
            p2 = sandbox + "/" + p2
        return "rename %s %d %s %d %s" % (abi, c["dirfd"], hexs(c.get("rawpath", c["path"]).encode()), c["fd"], hexs(p2.encode()))
    raise MachineryError("no script form for " + k)


def run_history(exe, calls, sandbox_root, hid, setup=(), argv=(), env=(), ls_after=("open", "write", "pwrite"), timeout=60, native_preopen=False, bad_preopens=False,
                closed_at_start=()):
    """Run one history in a fresh sandbox and process.  Returns (records per call incl. ls, stderr, rc)."""
    sb = os.path.join(sandbox_root, "sb%s" % hid)
    shutil.rmtree(sb, ignore_errors=True)
    os.makedirs(sb)
    for s in setup:
        p = os.path.join(sb, s["path"])
        if s["call"] == "mkdirs":
            os.makedirs(p, exist_ok=True)
        elif s["call"] == "mkfifo":
            os.mkfifo(p)
        elif s["call"] == "mklink":
            os.symlink(s["target"], p)
        else:
            with open(p, "wb") as f:
                f.write(bytes(s["bytes"]))
    lines, index = [], []
    for j, c in enumerate(calls):
        if c.get("fault"):
            lines.append("inject %s %d" % (c["family"], getattr(errno_mod, c["fault"])))
        # (where the guest keeps the path is its own business: now and then its last byte is the last byte of linear memory)
        if c["call"] in ("read", "pread", "write", "pwrite"):
            lines.append("iovlayout %d" % c.get("iovlayout", 0))
        if c.get("path_at_end") is not None:
            lines.append("pathsatend %d" % (1 if c["path_at_end"] else 0))
        lines.append(script_line(c, sb))
        index.append(("call", j))
        if c["call"] in ls_after:
            lines.append("ls")
            index.append(("ls", j))
    sf = os.path.join(sandbox_root, "script%s.txt" % hid)
    open(sf, "w").write("\n".join(lines) + "\n")
    renv = dict({"ASAN_OPTIONS": "detect_leaks=0:abort_on_error=0:exitcode=97"}, **({"VERIF_PREOPEN_NATIVE": "1"} if native_preopen else {}),
                **({"VERIF_BAD_PREOPENS": "1"} if bad_preopens else {}))
    if closed_at_start:
        # the host process is started with some of its standard streams CLOSED (cmd <&- 2>&-): not redirected, absent
        import subprocess
        try:
            p_ = subprocess.run([exe, sb, sf, *argv, "--", *env], stdout=subprocess.PIPE, stderr=subprocess.PIPE, timeout=timeout, env=dict(os.environ, **renv),
                                preexec_fn=lambda: [os.close(f_) for f_ in closed_at_start])
            rc, out, err = p_.returncode, p_.stdout.decode("utf8", "replace"), p_.stderr.decode("utf8", "replace")
        except subprocess.TimeoutExpired:
            rc, out, err = -999, "", ""
    else:
        rc, out, err = run([exe, sb, sf, *argv, "--", *env], timeout=timeout, env=renv)
    recs = []
    for l in out.splitlines():
        try:
            recs.append(json.loads(l))
        except ValueError:
            pass
    shutil.rmtree(sb, ignore_errors=True)
    os.remove(sf)
    return recs, index, err, rc, sb


def asan_sig(err):
    m = re.search(r"AddressSanitizer: ([\w-]+)", err)
    if not m:
        return None
    fr = [f for f in re.findall(r"#\d+ \S+ in (\w+)", err) if not f.startswith(("__interceptor", "__asan", "_start", "__libc"))]
    return "asan:%s:%s" % (m.group(1), fr[0] if fr else "?")


def changed(rec):
    d = {}
    for a, hx in rec.get("writes", []):
        for i, b in enumerate(bytes.fromhex(hx)):
            d[a + i] = b
    return d


def le(n, k):
    return list((n & (2 ** (8 * k) - 1)).to_bytes(k, "little"))


def expected_writes(c, m, sandbox, order="little"):
    """(dict address -> byte that must be there, set of addresses that may change freely).  order = "big": the configuration of a big-endian
    host forced on this machine - every multi-byte value the host stores is then most significant byte first in the raw image."""
    exp, free = {}, set()
    if m["errno"] != 0:
        return exp, free
    k, o = c["call"], m["out"]
    _le = le
    le_ = (lambda n, k_: _le(n, k_)[::-1]) if order == "big" else _le
    sc = (lambda bs: list(bs)[::-1]) if order == "big" else (lambda bs: list(bs))

    def put(a, bs):
        for i, b in enumerate(bs):
            exp[a + i] = b
    if k == "open":
        put(R1, le_(o["fd"], 4))
    elif k in ("write", "pwrite"):
        put(R1, le_(o["n"], 4))
    elif k in ("read", "pread"):
        put(R1, le_(o["n"], 4))
        stride = 0x10 if len(c.get("lens", [])) > 16 else 0x100
        lens_, lay, at = c.get("lens", []), c.get("iovlayout", 0), RBUF
        for j, buf in enumerate(o["bufs"]):
            # (the driver's segment placement, see "iovlayout" there)
            ptr = at if lay == 1 else (RBUF + stride * (j + 1)) if (lay == 2 and lens_[j] == 0 and j + 1 < len(lens_)) else RBUF + stride * j
            at += lens_[j] if j < len(lens_) else 0
            put(ptr, buf)
    elif k in ("seek", "tell"):
        put(R1, sc(o["off"]))
    elif k == "filestat":
        p1 = c.get("abi", "p") == "p"
        free = set(range(STAT, STAT + (64 if p1 else 56)))
        if not o.get("skip"):
            put(STAT + (32 if p1 else 24), sc(o["size"]))
        put(STAT + 16, [o["ftype"]]) if not o.get("skip") or o["ftype"] == 3 else None
    elif k == "pathstat":
        p1 = c.get("abi", "p") == "p"
        free = set(range(STAT, STAT + (64 if p1 else 56)))
        if not o.get("skip"):
            put(STAT + (32 if p1 else 24), sc(o["size"]))
        put(STAT + 16, [o["ftype"]])
    elif k == "readlink":
        t = o["target"].encode()
        n = min(len(t), o["buflen"])
        put(R1, le_(n, 4))
        put(RBUF, list(t[:n]))
    elif k == "fdstat":
        free = set(range(STAT + 8, STAT + 24))                 # the two rights masks
        put(STAT, [o["ftype"], 0] + le_(o["flags"], 2) + [0, 0, 0, 0])
    elif k == "prestat":
        put(R1, le_(0, 4) + le_(len(sandbox.encode()), 4))
    elif k == "prestatname":
        n = min(len(sandbox.encode()), plen(c, sandbox))
        put(PATH2, list(sandbox.encode()[:n]))
    return exp, free


def compare_call(c, m, a, sandbox, order="little"):
    """None if the real call did what the model prescribes, else a short reason."""
    if a is None:
        return "no observation (the process died before this call)"
    if a.get("errno") != m["errno"]:
        return "errno: spec %d, code %s" % (m["errno"], a.get("errno"))
    exp, free = expected_writes(c, m, sandbox, order)
    ch = changed(a)
    for addr, b in exp.items():
        got = ch.get(addr, 0xEE)
        if got != b:
            return "guest memory at 0x%x: spec %d, code %d" % (addr, b, got)
    extra = sorted(x for x in ch if x not in exp and x not in free)
    if extra:
        return "guest memory written outside the specified result: 0x%x (+%d more bytes)" % (extra[0], len(extra) - 1)
    return None


def compare_ls(m, a):
    if a is None:
        return "no listing"
    got = {e["name"]: e for e in a["entries"]}
    want = {f["path"]: f for f in m["fs"]}
    if set(got) != set(want):
        return "sandbox entries: spec %s, host %s" % (sorted(want), sorted(got))
    for p, f in want.items():
        g = got[p]
        if f["kind"] == "dir":
            if g["type"] != "dir":
                return "%s should be a directory" % p
            continue
        if f["kind"] == "link":
            if g["type"] != "link":
                return "%s should be a symbolic link" % p
            continue
        size = int.from_bytes(bytes(f["size"]), "little")
        if g["type"] != "file" or g["size"] != size:
            return "%s: spec size %d, host %s %d" % (p, size, g["type"], g["size"])
        data = {int.from_bytes(bytes(o), "little"): b for o, b in f["data"]}
        head = [data.get(i, 0) for i in range(min(size, 64))]
        if bytes(head).hex() != g["head"]:
            return "%s: contents differ in the first %d bytes: spec %s host %s" % (p, len(head), bytes(head).hex()[:40], g["head"][:40])
        if size > 64:
            tail = [data.get(i, 0) for i in range(size - 16, size)]
            if bytes(tail).hex() != g["tail"]:
                return "%s: last 16 bytes differ: spec %s host %s" % (p, bytes(tail).hex(), g["tail"])
    return None


def model_histories(hists, wd, shards=None, timeout=1500):
    """hists: list of dict(id, setup, calls).  Returns ({(id,k): rec}, stats)."""
    shards = max(1, min(shards or NCPU, len(hists)))
    parts = [hists[j::shards] for j in range(shards)]

    def one(n):
        inf, outf = os.path.join(wd, "wh%d.ndjson" % n), os.path.join(wd, "wexp%d.ndjson" % n)
        write_ndjson(inf, [{"id": h["id"], "calls": [model_call(c) for c in list(h.get("setup", [])) + list(h["calls"])]} for h in parts[n]])
        r = tlc_ok(tlc("WasiFs", env={"INFILE": inf, "OUTFILE": outf}, timeout=timeout), "WasiFs shard %d" % n)
        return r, read_ndjson(outf)
    res = pmap(one, range(shards), jobs=shards)
    out = {}
    for r, recs in res:
        for x in recs:
            out[(x["id"], x["k"])] = x
    return out, {"states": sum(r["distinct"] for r, _ in res), "transitions": sum(r["generated"] for r, _ in res)}


# ------------------------------------------------------------------ host faults (WasiFs.tla, CallWithFault)
FAULT_WRAPS = ["close", "open", "open64", "openat", "read", "readv", "pread", "preadv", "write", "writev", "pwrite", "pwritev", "lseek", "stat", "lstat", "fstat",
               "fstatat", "fsync", "fdatasync", "mkdir", "mkdirat", "rmdir", "unlink", "unlinkat", "rename", "renameat", "symlink", "symlinkat",
               "readlink", "readlinkat"]
# errors POSIX lists for the host function(s) of each family (and that WASI enumerates)
FAULT_ERRNOS = {
    "open": "EACCES EEXIST EINTR EINVAL EIO EISDIR ELOOP EMFILE ENAMETOOLONG ENFILE ENOENT ENOSPC ENOTDIR ENXIO EOVERFLOW EROFS ETXTBSY EAGAIN ENOMEM EPERM EBUSY ENODEV EDQUOT",
    "read": "EAGAIN EBADF EINTR EIO EISDIR ENXIO ENOMEM EOVERFLOW EINVAL ESPIPE ETIMEDOUT ENOBUFS",
    "write": "EAGAIN EBADF EFBIG EINTR EIO ENOSPC EPIPE ENXIO EDQUOT EINVAL EPERM ERANGE",
    "seek": "EBADF EINVAL EOVERFLOW ESPIPE ENXIO",
    "stat": "EACCES EIO ELOOP ENAMETOOLONG ENOENT ENOTDIR EOVERFLOW EBADF ENOMEM",
    "close": "EIO EINTR EBADF ENOSPC EDQUOT",
    "sync": "EBADF EINTR EINVAL EIO EROFS ENOSPC EDQUOT ESTALE ENOLCK EDEADLK ENOTSUP ENOSYS E2BIG ECHILD EDOM EFAULT ENOEXEC ENOTTY ESRCH EXDEV EMLINK",
    "mkdir": "EACCES EEXIST ELOOP EMLINK ENAMETOOLONG ENOENT ENOSPC ENOTDIR EROFS EDQUOT EPERM",
    "rmdir": "EACCES EBUSY EEXIST ENOTEMPTY EINVAL EIO ELOOP ENAMETOOLONG ENOENT ENOTDIR EPERM EROFS",
    "unlink": "EACCES EBUSY ELOOP ENAMETOOLONG ENOENT ENOTDIR EPERM EROFS ETXTBSY EISDIR EIO",
    "rename": "EACCES EBUSY EEXIST ENOTEMPTY EINVAL EIO EISDIR ELOOP EMLINK ENAMETOOLONG ENOENT ENOSPC ENOTDIR EPERM EROFS EXDEV",
    "symlink": "EACCES EEXIST EIO ELOOP ENAMETOOLONG ENOENT ENOSPC ENOTDIR EROFS EDQUOT",
    "readlink": "EACCES EINVAL EIO ELOOP ENAMETOOLONG ENOENT ENOTDIR",
}
FILE_FAULTS = [("open", "open"), ("read", "read"), ("pread", "read"), ("pread", "seek"), ("write", "write"), ("pwrite", "write"), ("pwrite", "seek"),
               ("seek", "seek"), ("tell", "seek"), ("filestat", "stat"), ("sync", "sync"), ("datasync", "sync"), ("close", "close")]
PATH_FAULTS = [("mkdir", "mkdir"), ("rmdir", "rmdir"), ("unlink", "unlink"), ("rename", "rename"), ("symlink", "symlink"), ("readlink", "readlink"),
               ("pathstat", "stat")]


def build_fault_driver(wd):
    return build_driver(wd, name="wasidrv-fault",
                        extra=("-DVERIF_FAULTS", "-U_FORTIFY_SOURCE", os.path.join(BINDC, "fault_wrap.c"), "-Wl," + ",".join("--wrap=" + f for f in FAULT_WRAPS)))


def fault_history(rng, hid, kind, family, err):
    """A short history that ends in one call the host lets down, followed by probes of what must not have changed:
    the position of the descriptor, the next descriptor number, the files (listing)."""
    abi = lambda: rng.choice("pu")
    content = [rng.randrange(1, 256) for _ in range(rng.choice([6, 11, 40]))]
    setup = [{"call": "mkdirs", "path": "d"}, {"call": "mkdirs", "path": "e"}, {"call": "mkfile", "path": "a", "bytes": content}, {"call": "mklink", "path": "l", "target": "a"}]
    calls = [{"call": "open", "abi": abi(), "dirfd": 3, "path": "a", "parent": "", "oflags": 0, "rd": True, "wr": True, "app": False},
             {"call": "seek", "abi": "p", "fd": 4, "delta": rng.choice([0, 1, 3, 5]), "whence": 0}]
    if rng.random() < 0.5:
        calls.append({"call": "write", "abi": abi(), "fd": 4, "segs": [[rng.randrange(256) for _ in range(rng.choice([1, 2, 4]))]]})
    f = {"abi": abi(), "fault": err, "family": family, "call": kind}
    if kind == "open":
        name = rng.choice(["a", "new"])
        f.update({"dirfd": 3, "path": name, "parent": "", "oflags": 0 if name == "a" else rng.choice([1, 1 | 4]), "rd": True, "wr": rng.random() < 0.5, "app": False})
    elif kind in ("read", "pread"):
        f.update({"fd": 4, "lens": [rng.choice([1, 2, 4])] * rng.choice([1, 2]), "offset": rng.choice([0, 1, 2])})
    elif kind in ("write", "pwrite"):
        f.update({"fd": 4, "segs": [[rng.randrange(256) for _ in range(rng.choice([1, 3]))] for _ in range(rng.choice([1, 2]))], "offset": rng.choice([0, 1, 7])})
    elif kind == "seek":
        f.update({"fd": 4, "delta": rng.choice([0, 2, 4]), "whence": rng.choice([0, 1, 2])})
    elif kind in ("tell", "filestat", "sync", "datasync"):
        f.update({"fd": 4})
    elif kind == "close":
        # what a descriptor is after the host refused to close it is not specified (POSIX leaves it open); whatever the
        # implementation makes of it, later calls on that number must be safe: they are made, not compared
        f.update({"fd": 4, "unspec_after": 4})
    elif kind == "mkdir":
        f.update({"dirfd": 3, "path": "n", "parent": ""})
    elif kind == "rmdir":
        f.update({"dirfd": 3, "path": "e", "parent": ""})
    elif kind == "unlink":
        f.update({"dirfd": 3, "path": "a", "parent": ""})
    elif kind == "rename":
        f.update({"dirfd": 3, "fd": 3, "path": "a", "path2": "z", "parent": "", "parent2": ""})
    elif kind == "symlink":
        f.update({"dirfd": 3, "path": "s", "parent": "", "target": "a"})
    elif kind == "readlink":
        f.update({"dirfd": 3, "path": "l", "parent": "", "buflen": 64, "target": "a"})
    elif kind == "pathstat":
        f.update({"dirfd": 3, "path": "a", "parent": ""})
    calls.append(f)
    if kind == "close":
        calls += [{"call": "prestat", "abi": abi(), "fd": 4}, {"call": "prestatname", "abi": abi(), "fd": 4, "len": 64}, {"call": "fdstat", "abi": abi(), "fd": 4},
                  {"call": "close", "abi": abi(), "fd": 4}, {"call": "close", "abi": abi(), "fd": 4}]
    calls += [{"call": "tell", "abi": "p", "fd": 4},
              {"call": "open", "abi": abi(), "dirfd": 3, "path": "fresh", "parent": "", "oflags": 1, "rd": True, "wr": True, "app": False},
              {"call": "read", "abi": abi(), "fd": 4, "lens": [3]}]
    return {"id": "f%d" % hid, "setup": setup, "calls": calls}


def fault_histories(rng, pairs, per_pair):
    hists = []
    for kind, family in pairs:
        errs = FAULT_ERRNOS[family].split()
        rng.shuffle(errs)
        for e in (errs if per_pair is None else errs[:per_pair]):
            if hasattr(errno_mod, e):
                hists.append(fault_history(rng, len(hists), kind, family, e))
    return hists


def run_fault_histories(v, hists, wd, sigprefix):
    """Returns statistics.  A faulted call whose fault never fired (the implementation reaches the host another way) is not
    judged, and neither is the rest of that history."""
    exp, st = model_histories(hists, wd)
    exe = build_fault_driver(wd)
    mutating = ("open", "write", "pwrite", "unlink", "rename", "mkdir", "rmdir", "symlink")

    def one(h):
        return run_history(exe, h["calls"], wd, h["id"], setup=h["setup"], ls_after=mutating)
    compared = fired = notfired = 0
    seen = set()
    for h, (recs, index, err, rc, sb) in zip(hists, pmap(one, hists)):
        ns = len(h["setup"])
        by_i = {r["i"]: r for r in recs if "i" in r}
        for line_no, (kind, j) in enumerate(index, start=1):
            c = h["calls"][j]
            m = exp[(h["id"], ns + j + 1)]
            a = by_i.get(line_no)
            if a is None:
                v.deviation(asan_sig(err) or "crash:%s" % c["call"], {"history": h["id"], "call": c, "rc": rc, "stderr": err[-1200:]})
                break
            if m["errno"] == 999:
                break
            unspec = next((x["unspec_after"] for x in h["calls"][:j] if x.get("fault") and "unspec_after" in x), None)
            if unspec is not None and (c.get("fd") == unspec or c.get("dirfd") == unspec):
                continue                 # executed (the memory-safety observer watches), not compared
            if c.get("fault") and kind == "call":
                if not a.get("fired"):
                    notfired += 1
                    break
                fired += 1
                seen.add((c["call"], c["family"], c["fault"]))
            why = compare_call(c, m, a, sb) if kind == "call" else compare_ls(m, a)
            compared += 1
            if why:
                f = next(x for x in h["calls"] if x.get("fault"))
                where = "fault" if c.get("fault") else "after-fault"
                v.deviation("%s:%s:%s:%s" % (sigprefix, f["call"], where, f["fault"] if (c.get("fault") and why.startswith("errno")) else why.split(":")[0][:24]),
                            {"history": h["id"], "faulted_call": f, "host_function_family": f["family"], "host_errno": f["fault"], "at": c["call"], "why": why,
                             "calls": [x["call"] for x in h["calls"]]})
                break
        else:
            if rc != 0:
                v.deviation(asan_sig(err) or "exit-status:%d" % rc, {"history": h["id"], "stderr": err[-800:]})
    st.update({"compared": compared, "faults_fired": fired, "faults_not_reached": notfired, "distinct_faults": len(seen)})
    return st, exp


def run_threads_io(wd, tier, asan=True):
    """bind/c/wasi_threads_io.c: guest threads inside args/environ calls (first requests after wasiInit, long vectors) and inside data
    transfers on files of their own at the same time.  -> (result dict or None, stderr, rc)"""
    exe = os.path.join(wd, "wasithreadsio" + ("" if asan else "-plain"))
    rc, so, se = run(["gcc", "-g", "-O1", "-w"] + (["-fsanitize=address"] if asan else ["-O2"]) + ["-I", os.path.join(REPO, "w2c2"), "-I", os.path.join(REPO, "wasi"), *WDEFS,
                      os.path.join(BINDC, "wasi_threads_io.c"), os.path.join(REPO, "wasi", "wasi.c"), "-o", exe, "-lm", "-lpthread"], timeout=300)
    if rc != 0:
        raise MachineryError("cannot build the threaded I/O driver: " + se[-1500:])
    best = None
    for rep in range(3 if tier == "quick" else 12):
        sb = os.path.join(wd, "tiosb%d%s" % (rep, "a" if asan else "p"))
        os.makedirs(sb, exist_ok=True)
        rc, so, se = run([exe, sb, "6", "4000" if tier == "quick" else "40000", "30000"], timeout=600, env={"ASAN_OPTIONS": "detect_leaks=0:exitcode=97"})
        shutil.rmtree(sb, ignore_errors=True)
        try:
            res = json.loads(so.strip().splitlines()[-1])
        except (ValueError, IndexError):
            return None, se, rc
        if best is None:
            best = res
        else:
            for k_ in ("calls", "bad_args", "bad_io"):
                best[k_] += res[k_]
            best["first"] = (best["first"] + res["first"])[:6]
    return best, "", 0
