"""Binding of spec/WasmBinary.tla: TLC decodes byte strings into abstract modules.

decode(named_bytes, workdir)   -> {id: verdict}   (status ok/malformed/invalid/unsupported, why, module, valid, datacount)
selfcheck(workdir, tier)       -> statistics; raises MachineryError if the decoder (or WasmValid) disagrees with the
                                  expectations the WebAssembly authors wrote into the repository's spec-suite files
canon(ast)                     -> the normal form WasmBinary.tla uses, for comparing a binder AST with a decoded module
to_ast(module, rets)           -> a decoded module in the form machine.replay wants
sections(data)                 -> [(id, start, end)] of a well-framed binary
"""
import glob
import hashlib
import json
import os

import common
from common import MachineryError, pmap, read_ndjson, tlc, tlc_ok, write_ndjson

TESTS_GEN = os.path.join(common.REPO, "tests", "gen")


def decode(named, workdir, shards=None, timeout=1800):
    """named: list of (id, bytes).  Runs WasmBinary.tla over them (sharded)."""
    named = list(named)
    if not named:
        return {}, {"states": 0, "transitions": 0}
    n = max(1, min(shards or common.NCPU, (len(named) + 7) // 8))

    def one(k):
        sub = named[k::n]
        inf = os.path.join(workdir, "bin-in-%d.ndjson" % k)
        outf = os.path.join(workdir, "bin-out-%d.ndjson" % k)
        write_ndjson(inf, [{"id": i, "bytes": list(b)} for i, b in sub])
        r = tlc_ok(tlc("WasmBinary", env={"INFILE": inf, "OUTFILE": outf}, timeout=timeout, xmx="3g"), "WasmBinary")
        out = read_ndjson(outf)
        os.unlink(inf)
        os.unlink(outf)
        if len(out) != len(sub):
            raise MachineryError("WasmBinary: %d verdicts for %d inputs" % (len(out), len(sub)))
        return r, out
    res = pmap(one, range(n), jobs=n)
    verdicts = {}
    for r, out in res:
        for o in out:
            verdicts[o["id"]] = o
    return verdicts, {"states": sum(r["distinct"] for r, _ in res), "transitions": sum(r["generated"] for r, _ in res)}


def suite_expectations():
    """file name -> (command type, text) from the spec-suite json files shipped in the repository."""
    exp = {}
    for f in sorted(glob.glob(os.path.join(TESTS_GEN, "*.json"))):
        try:
            j = json.load(open(f))
        except Exception:
            continue
        for cmd in j.get("commands", []):
            if cmd["type"] == "module":
                exp[cmd["filename"]] = ("module", "")
            elif cmd["type"] in ("assert_malformed", "assert_invalid", "assert_uninstantiable") and cmd.get("module_type") == "binary":
                exp[cmd["filename"]] = (cmd["type"], cmd.get("text", ""))
    return exp


# what the decoder + validator may say about a file of each kind ("unsupported" = outside the feature set, no statement).
# assert_invalid files may also be malformed: the suite's converter leaves out the data count section that the binary
# format demands when memory.init / data.drop are used; both are rejections.
ALLOWED = {"module": ("ok-valid", "unsupported"), "assert_uninstantiable": ("ok-valid", "unsupported"),
           "assert_malformed": ("malformed", "unsupported"),
           "assert_invalid": ("ok-invalid", "invalid", "malformed", "unsupported")}


def classify(o):
    return o["status"] if o["status"] != "ok" else ("ok-valid" if o["valid"] == "" else "ok-invalid")


def selfcheck(workdir, tier, seed=1):
    exp = suite_expectations()
    named = []
    for fn in sorted(exp):
        p = os.path.join(TESTS_GEN, fn)
        if not os.path.exists(p):
            continue
        if tier == "quick" and int(hashlib.sha1(fn.encode()).hexdigest(), 16) % 3 != seed % 3:
            continue
        b = open(p, "rb").read()
        if len(b) <= 6000:
            named.append((fn, b))
    verdicts, st = decode(named, workdir)
    counts, wrong = {}, []
    for fn, _ in named:
        kind, text = exp[fn]
        got = classify(verdicts[fn])
        counts["%s:%s" % (kind, got)] = counts.get("%s:%s" % (kind, got), 0) + 1
        if got not in ALLOWED[kind]:
            wrong.append((fn, kind, text, got, verdicts[fn]["why"], verdicts[fn]["valid"]))
    # the corpus phases of c01-c07 read these files with the binder's own decoder (wasm_decode.py): it must produce the module
    # that the specification's decoder produces
    import wasm_decode
    ndec = 0
    for fn, b in named:
        o = verdicts[fn]
        if o["status"] != "ok":
            continue
        try:
            pm = wasm_decode.decode(b)
        except wasm_decode.Unsupported:
            continue
        ndec += 1
        if canon(pm) != canon(o["module"]):
            raise MachineryError("the binder's decoder and WasmBinary.tla decode %s differently" % fn)
    if wrong:
        raise MachineryError("WasmBinary/WasmValid disagree with the spec suite on %d files, e.g. %s" % (len(wrong), wrong[:3]))
    st.update({"files": len(named), "by_kind": counts, "python_decoder_agrees_on": ndec,
               "definite": sum(c for k, c in counts.items() if not k.endswith(":unsupported"))})
    return st


# ------------------------------------------------------------------ normal form
def _name(n):
    if isinstance(n, dict):
        return list(n["bytes"])
    if isinstance(n, str):
        return list(n.encode("utf-8"))
    return list(n)


def _locals(groups):
    out = []
    for t, n in groups:
        if n == 0:
            continue
        if out and out[-1][0] == t:
            out[-1][1] += n
        else:
            out.append([t, n])
    return out


def _instr(ins):
    ins = list(ins)
    op = ins[0]
    if op in ("block", "loop", "if") and len(ins) == 1:
        ins.append("")
    if op in ("block", "loop", "if") and ins[1] is None:
        ins[1] = ""
    if op == "call_indirect" and len(ins) == 2:
        ins.append(0)
    # (numbers above 2^31 - 1 saturate in the specification's decoder: TLC integers)
    sat = lambda x: min(x, 2 ** 31 - 1) if isinstance(x, int) and not isinstance(x, bool) else x
    return [[sat(y) for y in x] if isinstance(x, (list, tuple)) else sat(x) for x in ins]


def _body(body):
    out = []
    for ins in body:
        ins = _instr(ins)
        if ins[0] == "end" and out and out[-1] == ["else"]:
            out.pop()
        out.append(ins)
    return out


def _limits(v, nomax):
    if not v or v.get("present") is False:
        return {"present": False, "min": 0, "max": 0, "hasmax": False, "shared": False}
    hasmax = v.get("hasmax", v.get("max") is not None)
    sat = lambda x: min(x, 2 ** 31 - 1)
    return {"present": True, "min": sat(v["min"]), "max": sat(v["max"]) if hasmax else nomax, "hasmax": bool(hasmax), "shared": bool(v.get("shared"))}


def canon(m):
    """Binder AST or decoded module -> comparable normal form (the one WasmBinary.tla produces)."""
    out = {"types": [{"p": list(t["p"]), "r": list(t["r"])} for t in m.get("types", [])], "imports": []}
    for im in m.get("imports", []):
        e = {"mod": _name(im["mod"]), "name": _name(im["name"]), "kind": im["kind"]}
        if im["kind"] == "func":
            e["type"] = im["type"]
        elif im["kind"] in ("table", "memory"):
            lim = _limits(dict(im, present=True), 65536 if im["kind"] == "memory" else 0)
            e.update({k: lim[k] for k in ("min", "max", "hasmax", "shared")})
        else:
            e.update({"t": im["t"], "mut": bool(im.get("mut"))})
        out["imports"].append(e)
    out["funcs"] = [{"type": f["type"], "locals": _locals(f.get("locals", [])), "body": _body(f["body"])} for f in m.get("funcs", [])]
    out["table"] = _limits(m.get("table"), 0)
    out["memory"] = _limits(m.get("memory"), 65536)
    out["globals"] = [{"t": g["t"], "mut": bool(g.get("mut")), "init": _instr(g["init"])} for g in m.get("globals", [])]
    out["exports"] = [{"name": _name(x["name"]), "kind": x["kind"], "idx": x["idx"]} for x in m.get("exports", [])]
    out["start"] = -1 if m.get("start") is None else m["start"]
    out["elems"] = [{"offset": _instr(e["offset"]), "funcs": list(e["funcs"])} for e in m.get("elems", [])]
    out["data"] = [{"mode": d.get("mode", "active"), "offset": _instr(d.get("offset", ["i32.const", [0, 0, 0, 0]])) if d.get("mode", "active") == "active"
                    else ["i32.const", [0, 0, 0, 0]], "bytes": list(d["bytes"])} for d in m.get("data", [])]
    return out


def _str(b):
    try:
        s = bytes(b).decode("utf-8")
        if all(32 <= ord(c) < 127 and c not in '"\\' for c in s):
            return s
    except UnicodeDecodeError:
        pass
    return {"bytes": list(b)}


def to_ast(dm, rets=None):
    """Decoded module -> the uniform AST of machine.norm_module.  rets: {(mod, name): host return value} for function imports."""
    m = json.loads(json.dumps(dm))
    m.pop("customs", None)
    for im in m["imports"]:
        key = (bytes(im["mod"]), bytes(im["name"]))
        im["mod"], im["name"] = _str(im["mod"]), _str(im["name"])
        if im["kind"] == "func":
            im["ret"] = (rets or {}).get(key, [])
    for x in m["exports"]:
        x["name"] = _str(x["name"])
    return m


def sections(data):
    """[(id, start, end)] of the sections of a binary whose framing is sound (used to build variants of valid encodings)."""
    out, p = [], 8
    while p < len(data):
        sid, q, size, shift = data[p], p + 1, 0, 0
        while True:
            b = data[q]
            q += 1
            size |= (b & 0x7F) << shift
            shift += 7
            if not b & 0x80:
                break
        out.append((sid, p, q + size))
        p = q + size
    return out
