"""f32 constants at which reading a short decimal literal with TWO roundings (decimal -> double -> float, what a C compiler does
with an unsuffixed literal) differs from reading it with one: the decimal strings of 6..8 significant digits that lie within
half a double ulp of the midpoint of two adjacent floats.  By Legendre's theorem such a string n * 10^q belongs to a
convergent of the continued fraction of 10^q * 2^(151-E), so the search over all binades is complete and takes under a second.
Used by c07 as one more class of its constant pool (a printer that shortens float literals must not produce such a string
without the f suffix)."""
import struct, math
from fractions import Fraction

def f32_from_bits(b): return struct.unpack('<f', struct.pack('<I', b))[0]
def bits_from_f32(x): return struct.unpack('<I', struct.pack('<f', x))[0]
def to_f32(x):  # round a Python float (double) to float32 (round-to-nearest-even via struct)
    return struct.unpack('<f', struct.pack('<f', x))[0]

def convergents(fr):
    a, b = fr.numerator, fr.denominator
    h0, h1, k0, k1 = 0, 1, 1, 0
    out = []
    while b:
        q = a // b
        a, b = b, a - q * b
        h0, h1 = h1, q * h1 + h0
        k0, k1 = k1, q * k1 + k0
        out.append((h1, k1))
    return out

def hard_cases(maxdigits=8, mindigits=6):
    found = {}
    for E in range(1, 255):
        lo = Fraction(2) ** (E - 127)
        # beta * n = odd integer 2M+1 (M in [2^23, 2^24)), beta = 10^q * 2^(151-E)
        for d in range(mindigits, maxdigits + 1):
            # decimal exponent q such that n*10^q in [2^(E-127), 2^(E-126)) for some d-digit n
            qlo = math.floor(math.log10(float(lo)) - d) - 1
            for q in range(qlo, qlo + 4):
                beta = Fraction(10) ** q * Fraction(2) ** (151 - E)
                for p, r in convergents(beta):
                    if r == 0: continue
                    # n = t*r, odd target = t*p
                    tmin = -(-10 ** (d - 1) // r); tmax = (10 ** d - 1) // r
                    err = abs(r * beta - p)
                    tcap = tmax if err == 0 else min(tmax, int(Fraction(1, 2 ** 28) / err))
                    if err == 0: continue          # exact ties are decided the same way by both roundings
                    for t in range(max(1, tmin), tcap + 1):
                        n = t * r; odd = t * p
                        if odd % 2 == 0: continue
                        M = (odd - 1) // 2
                        if not (2 ** 23 <= M < 2 ** 24): continue
                        if abs(n * beta - odd) > Fraction(1, 2 ** 28): continue
                        for Mx in (M, M + 1):
                            if Mx >= 2 ** 24: continue
                            bits = (E << 23) | (Mx - 2 ** 23)
                            found[bits] = (n, q, d)
    return found

def is_hard(bits, maxdigits=8, shortest_only=True):
    """shortest decimal string (6..maxdigits significant digits) that reads back as this float with ONE rounding, read with TWO (double, then float)"""
    x = f32_from_bits(bits)
    from decimal import Decimal
    for d in range(6, maxdigits + 1):
        s = '%.*g' % (d, x)
        exact = Fraction(Decimal(s))
        # single rounding to float32: nearest float to exact -> compare through neighbours
        # use exact arithmetic: candidates around x
        cands = [bits - 1, bits, bits + 1]
        best = min(cands, key=lambda b: (abs(Fraction(f32_from_bits(b)) - exact), b & 1))
        if best == bits:
            twice = bits_from_f32(to_f32(float(s)))     # float(s): correctly rounded double; then to float
            if twice != bits:
                return True, s, twice
            if shortest_only:
                return False, s, twice
    return False, None, None



def pool():
    """bit patterns (both signs) of the hard cases and of their float neighbours"""
    out = []
    for b in sorted(hard_cases()):
        h, s_, tw = is_hard(b, shortest_only=False)
        if h:
            out += [b, b | 0x80000000, tw, tw | 0x80000000]
    return sorted(set(out))
