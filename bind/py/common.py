"""Shared plumbing for the checks: repository location, builds from the working
tree, TLC invocation, evidence files, known findings, verdict printing."""
import hashlib
import json
import os
import re
import shutil
import subprocess
import sys
import tempfile
import time

VERIF = os.path.dirname(os.path.dirname(os.path.dirname(os.path.abspath(__file__))))
SPEC = os.path.join(VERIF, "spec")
BINDC = os.path.join(VERIF, "bind", "c")
REPO = os.environ.get("W2C2_REPO", "/repo")
SEED = int(os.environ.get("VERIF_SEED", "1") or "1")
NCPU = int(os.environ.get("VERIF_JOBS", str(os.cpu_count() or 4)))
TLA_CP = "/opt/veriftools/tla/tla2tools.jar:/opt/veriftools/tla/CommunityModules-deps.jar"

_FALLBACK_DEFS = {"w2c2/main.c": ["-std=gnu90", "-DHAS_PTHREAD=1", "-DHAS_UNISTD=1", "-DHAS_GETOPT=1", "-DHAS_LIBGEN=1", "-DHAS_STRDUP=1", "-DHAS_GLOB=1"],
                  "wasi/wasi.c": ["-DHAS_FCNTL=1", "-DHAS_GETENTROPY=1", "-DHAS_LSTAT=1", "-DHAS_STRNDUP=1", "-DHAS_SYSRESOURCE=1", "-DHAS_SYSTIME=1",
                                  "-DHAS_SYSUIO=1", "-DHAS_TIMESPEC=1", "-DHAS_UNISTD=1", "-DWASM_THREADS_PTHREADS"]}
_project_defs = None


def project_defs(source):
    """The preprocessor definitions the project's own build (cmake's feature detection on this host) gives `source`
    ("w2c2/main.c", "wasi/wasi.c"): the checks compile the sources themselves, but with the configuration the tree asks for."""
    global _project_defs
    if _project_defs is None:
        _project_defs = {}
        d = tempfile.mkdtemp(prefix="cmk-")
        try:
            p = subprocess.run(["cmake", "-S", REPO, "-B", d, "-G", "Ninja", "-DCMAKE_EXPORT_COMPILE_COMMANDS=ON"],
                               stdout=subprocess.PIPE, stderr=subprocess.PIPE, timeout=300)
            if p.returncode == 0:
                for e in json.load(open(os.path.join(d, "compile_commands.json"))):
                    rel = os.path.relpath(e["file"], REPO)
                    # definitions and the language standard (what the sources see); optimisation and warnings are the checks' own
                    _project_defs.setdefault(rel, [x for x in e["command"].split() if x.startswith(("-D", "-std="))])
        except (OSError, ValueError, subprocess.TimeoutExpired):
            pass
        finally:
            shutil.rmtree(d, ignore_errors=True)
    return list(_project_defs.get(source) or _FALLBACK_DEFS[source])


W2C2_DEFS = project_defs("w2c2/main.c")


class MachineryError(Exception):
    """The machinery could not decide (exit 2): never reported as a violation."""


def scratch(prefix="verif-"):
    return tempfile.mkdtemp(prefix=prefix, dir=os.environ.get("VERIF_SCRATCH", "/tmp"))


def run(cmd, timeout=600, cwd=None, env=None, stdin=None, check=False):
    e = dict(os.environ)
    if env:
        e.update(env)
    try:
        p = subprocess.run(cmd, cwd=cwd, env=e, stdout=subprocess.PIPE, stderr=subprocess.PIPE,
                           timeout=timeout, input=stdin)
        rc, out, err = p.returncode, p.stdout, p.stderr
    except subprocess.TimeoutExpired as t:
        rc, out, err = -999, t.stdout or b"", t.stderr or b""
    if check and rc != 0:
        raise MachineryError("command failed (%s): %s\n%s" % (rc, " ".join(map(str, cmd)), err.decode("utf8", "replace")[-2000:]))
    return rc, out.decode("utf8", "replace"), err.decode("utf8", "replace")


def pmap(fn, items, jobs=None):
    from concurrent.futures import ThreadPoolExecutor
    with ThreadPoolExecutor(max_workers=jobs or NCPU) as ex:
        return list(ex.map(fn, items))


# ------------------------------------------------------------------ builds
def src_hash(paths, extra=""):
    h = hashlib.sha256(extra.encode())
    for p in sorted(paths):
        h.update(p.encode())
        with open(p, "rb") as f:
            h.update(f.read())
    return h.hexdigest()[:16]


def w2c2_sources():
    d = os.path.join(REPO, "w2c2")
    return [os.path.join(d, f) for f in sorted(os.listdir(d))
            if f.endswith(".c") and not f.endswith("_test.c") and f != "test.c"]


_built = {}


def build_w2c2(outdir, flags=("-O1",), defs=None, cc="gcc", name="w2c2", ldflags=()):
    """Compile the translator from the working tree with plain cc (no cmake)."""
    if os.environ.get("VERIF_GCOV") and cc == "gcc":
        # coverage survey (tools/coverage.sh): objects and counters live in a directory that outlasts the check
        outdir = os.path.join(os.environ["VERIF_GCOV"], "w2c2-%s-%s" % (name, hashlib.sha1(repr((flags, defs)).encode()).hexdigest()[:8]))
        flags = tuple(flags) + ("--coverage",)
    key = (outdir, tuple(flags), tuple(defs or W2C2_DEFS), cc, name)
    if key in _built:
        return _built[key]
    os.makedirs(outdir, exist_ok=True)
    objs = []

    def one(src):
        o = os.path.join(outdir, name + "-" + os.path.basename(src)[:-2] + ".o")
        rc, out, err = run([cc, "-c", *flags, *(defs if defs is not None else W2C2_DEFS), "-w", src, "-o", o], timeout=300)
        if rc != 0:
            raise MachineryError("cannot build w2c2 (%s): %s" % (src, err[-1500:]))
        return o
    objs = pmap(one, w2c2_sources())
    exe = os.path.join(outdir, name)
    rc, out, err = run([cc, *flags, *objs, "-o", exe, "-lpthread", *ldflags], timeout=300)
    if rc != 0:
        raise MachineryError("cannot link w2c2: " + err[-1500:])
    _built[key] = exe
    return exe


def build_w2c2_cmake(outdir, build_type=None):
    """The translator built the project's own way: cmake (with the given CMAKE_BUILD_TYPE, or the default) + ninja, out of tree."""
    os.makedirs(outdir, exist_ok=True)
    cfg = ["cmake", "-G", "Ninja", "-S", os.path.join(REPO, "w2c2"), "-B", outdir] + (["-DCMAKE_BUILD_TYPE=" + build_type] if build_type else [])
    rc, out, err = run(cfg, timeout=300)
    if rc == 0:
        rc, out, err = run(["cmake", "--build", outdir, "--target", "w2c2"], timeout=600)
    if rc != 0:
        raise MachineryError("cannot build w2c2 with cmake (%s): %s" % (build_type or "default", (out + err)[-1500:]))
    exe = os.path.join(outdir, "w2c2")
    if not os.path.exists(exe):
        raise MachineryError("cmake build produced no w2c2 executable (%s)" % (build_type or "default"))
    return exe


# ------------------------------------------------------------------ TLC
TLC_STATS = re.compile(r"(\d+) states generated, (\d+) distinct states found")


def tlc(module, cfg=None, env=None, workers=1, timeout=900, extra=(), metadir=None, xmx="4g", cwd=SPEC, simulate=None):
    """Run TLC; returns dict(rc, out, generated, distinct).  rc 0 = no error."""
    md = metadir or scratch("tlcmeta-")
    # (TLC makes an empty directory in java.io.tmpdir per run and leaves it: it goes into the run's own scratch directory, removed below)
    cmd = ["java", "-Djava.io.tmpdir=" + md, "-Xss128m", "-Xmx" + xmx, "-XX:+UseParallelGC", "-cp", TLA_CP, "tlc2.TLC",
           "-workers", str(workers), "-metadir", md, "-config", cfg or (module + ".cfg")]
    if simulate:
        cmd += ["-simulate", simulate]
    cmd += list(extra) + [module + ".tla"]
    t0 = time.time()
    rc, out, err = run(cmd, timeout=timeout, cwd=cwd, env=env)
    shutil.rmtree(md, ignore_errors=True)
    gen = dist = 0
    for m in TLC_STATS.finditer(out):
        gen, dist = int(m.group(1)), int(m.group(2))
    if simulate:
        m = re.search(r"(\d+) states checked", out)
        if m:
            gen = dist = int(m.group(1))
    return {"rc": rc, "out": out + err, "generated": gen, "distinct": dist, "wall": time.time() - t0}


def tlapm(module, timeout=900, stretch=3):
    """Check the proofs of spec/<module>.tla with the TLA+ proof system in a scratch copy of the spec directory.
    Returns dict(obligations, proved, wall); raises MachineryError if an obligation is not proved."""
    d = scratch("tlapm-")
    t0 = time.time()
    try:
        for f in os.listdir(SPEC):
            if f.endswith(".tla"):
                shutil.copy(os.path.join(SPEC, f), d)
        rc, out, err = run(["tlapm", "--stretch", str(stretch), module + ".tla"], timeout=timeout, cwd=d)
        text = out + err
        m = re.search(r"All (\d+) obligations? proved", text)
        if rc != 0 or not m:
            m2 = re.search(r"(\d+)/(\d+) obligations failed", text)
            raise MachineryError("tlapm did not prove %s: %s" % (module, m2.group(0) if m2 else text[-1500:]))
        return {"obligations": int(m.group(1)), "proved": int(m.group(1)), "wall": round(time.time() - t0, 1)}
    finally:
        shutil.rmtree(d, ignore_errors=True)


def tlc_ok(res, what):
    if res["rc"] != 0:
        if os.environ.get("VERIF_TLC_FAILLOG"):
            open(os.environ["VERIF_TLC_FAILLOG"], "w").write(res["out"])
        tail = "\n".join(l for l in res["out"].splitlines() if not l.startswith(("Linting", "Parsing", "Semantic")))[-3000:]
        raise MachineryError("TLC failed on %s (rc=%s):\n%s" % (what, res["rc"], tail))
    return res


def write_ndjson(path, recs):
    with open(path, "w") as f:
        for r in recs:
            f.write(json.dumps(r, separators=(",", ":")) + "\n")


def read_ndjson(path):
    out = []
    with open(path) as f:
        for l in f:
            l = l.strip()
            if l:
                out.append(json.loads(l))
    return out


# ------------------------------------------------------------------ verdicts
def load_known():
    """known_findings.txt: lines 'known: property=<id> <signature>' / 'fixed: ...'."""
    known = {}
    p = os.path.join(VERIF, "known_findings.txt")
    if os.path.exists(p):
        for l in open(p):
            l = l.strip()
            m = re.match(r"known:\s+property=(\S+)\s+sig=(\S+)\s*(.*)", l)
            if m:
                known.setdefault(m.group(1), {})[m.group(2)] = m.group(3)
    return known


class Verdict:
    """Collects deviations; a deviation carries a signature that is matched
    against known_findings.txt.  Unknown ones are violations."""

    def __init__(self, pid, tier):
        self.pid, self.tier = pid, tier
        self.known = load_known().get(pid, {})
        self.violations = []   # (sig, detail, replaydir)
        self.known_hit = {}
        self.t0 = time.time()
        self.replay_root = os.path.join(VERIF, "replay")

    def deviation(self, sig, detail, artefacts=None):
        if sig in self.known:
            self.known_hit.setdefault(sig, detail)
            return
        if any(v[0] == sig for v in self.violations) and len(self.violations) > 20:
            return
        rd = None
        if len(self.violations) < 5:
            os.makedirs(self.replay_root, exist_ok=True)
            rd = os.path.join(self.replay_root, "%s-%d-%d" % (self.pid, SEED, len(self.violations)))
            shutil.rmtree(rd, ignore_errors=True)
            os.makedirs(rd)
            with open(os.path.join(rd, "detail.json"), "w") as f:
                json.dump({"property": self.pid, "signature": sig, "detail": detail}, f, indent=1, default=str)
            for name, content in (artefacts or {}).items():
                mode = "wb" if isinstance(content, bytes) else "w"
                with open(os.path.join(rd, name), mode) as f:
                    f.write(content)
        self.violations.append((sig, detail, rd))

    def finish(self, level, coverage, assumptions):
        for sig, detail in self.known_hit.items():
            print("KNOWN-FINDING: property=%s %s %s" % (self.pid, sig, self.known[sig]))
        ev = {"property_id": self.pid, "tier": self.tier, "seed": SEED, "level": level,
              "coverage": coverage, "assumptions": assumptions,
              "wall_s": round(time.time() - self.t0, 2), "violations": len(self.violations)}
        ev["coverage"]["known_findings_reproduced"] = sorted(self.known_hit)
        os.makedirs(os.path.join(VERIF, "evidence"), exist_ok=True)
        with open(os.path.join(VERIF, "evidence", self.pid + ".json"), "w") as f:
            json.dump(ev, f, indent=1, default=str)
        if self.violations:
            seen = set()
            for sig, detail, rd in self.violations:
                if rd and sig not in seen:
                    seen.add(sig)
                    print("VIOLATION property=%s replay=%s" % (self.pid, rd))
                    print("  signature: %s" % sig)
                    print("  detail: %s" % json.dumps(detail, default=str)[:600])
            if not seen:
                print("VIOLATION property=%s replay=%s" % (self.pid, self.violations[0][2]))
            if os.environ.get("VERIF_VERBOSE"):
                shown = set()
                for sig, detail, rd in self.violations:
                    if sig not in shown:
                        shown.add(sig)
                        print("  [%s] %s" % (sig, json.dumps(detail, default=str)[:1500]))
            allsigs = sorted(set(x[0] for x in self.violations))
            print("  all deviation signatures (%d): %s" % (len(allsigs), "; ".join(allsigs)[:3000]))
            return 1
        print("OK property=%s tier=%s wall=%.1fs" % (self.pid, self.tier, time.time() - self.t0))
        return 0


def main_wrap(fn):
    try:
        sys.exit(fn())
    except MachineryError as e:
        print("MACHINERY-ERROR: %s" % e)
        sys.exit(2)
    except SystemExit:
        raise
    except BaseException as e:            # a bug in the machinery is not a verdict about the code under test
        import traceback
        traceback.print_exc()
        print("MACHINERY-ERROR: %s: %s" % (type(e).__name__, e))
        sys.exit(2)
