"""Traced translator runs (bind/c/pthread_wrap.c) -> sessions for WorkerPoolTrace.tla."""
import json
import os
import re

from common import BINDC, MachineryError, W2C2_DEFS, pmap, run, w2c2_sources

WRAPS = ["pthread_mutex_lock", "pthread_mutex_unlock", "pthread_cond_wait", "pthread_cond_signal",
         "pthread_cond_broadcast", "pthread_create", "pthread_join", "fopen"]


def build_traced(outdir):
    os.makedirs(outdir, exist_ok=True)

    def one(src):
        o = os.path.join(outdir, "tr-" + os.path.basename(src)[:-2] + ".o")
        rc, out, err = run(["gcc", "-c", "-O1", "-w", *W2C2_DEFS, src, "-o", o], timeout=300)
        if rc != 0:
            raise MachineryError("cannot build traced w2c2: " + err[-1500:])
        return o
    objs = pmap(one, w2c2_sources() + [os.path.join(BINDC, "pthread_wrap.c")])
    exe = os.path.join(outdir, "w2c2traced")
    rc, out, err = run(["gcc", *objs, "-o", exe, "-lpthread", "-Wl," + ",".join("--wrap=" + w for w in WRAPS)], timeout=300)
    if rc != 0:
        raise MachineryError("cannot link traced w2c2: " + err[-1500:])
    return exe


def sessions(path):
    """Split the event log into pool sessions; renumber threads; name the condition variables.
    Returns a list of dict(nworkers, files (set of indices opened), events)."""
    evs = [json.loads(l) for l in open(path) if l.strip()]
    out = []
    cur, workers, joins = [], [], 0
    for e in evs:
        if e["op"] == "create":
            cur.append(e)
            continue
        if not any(x["op"] == "create" for x in cur):
            continue                       # before the first pool (main thread opening the header etc.)
        cur.append(e)
        if e["op"] == "join":
            ncreate = sum(1 for x in cur if x["op"] == "create")
            if sum(1 for x in cur if x["op"] == "join") == ncreate:
                out.append(cur)
                cur = []
    res = []
    for sess in out:
        ncreate = sum(1 for x in sess if x["op"] == "create")
        tids = sorted({e["t"] for e in sess if e["t"] > 0})
        # the workers of this session are the ncreate highest thread numbers seen (ids grow over the process lifetime)
        wt = tids[-ncreate:] if ncreate else []
        ren = {0: 0}
        ren.update({t: i + 1 for i, t in enumerate(wt)})
        waited_by_workers = {e["cv"] for e in sess if e["op"] == "wait" and e["t"] in wt}
        signalled_by_workers = {e["cv"] for e in sess if e["op"] == "signal" and e["t"] in wt}
        events, files = [], []
        for e in sess:
            if e["t"] not in ren or e["op"] in ("create",):
                continue
            t = ren[e["t"]]
            if e["op"] == "join":
                continue
            if e["op"] == "fopen":
                m = re.match(r"[sd](\d{10})\.c$", os.path.basename(e["x"]))
                if t == 0 or not m:
                    continue
                files.append(int(m.group(1)))
                events.append({"t": t, "op": "fopen", "file": int(m.group(1)) + 1, "cvname": ""})
                continue
            cvname = ""
            if e["cv"] >= 0:
                cvname = "consume" if e["cv"] in waited_by_workers or (e["t"] == 0 and e["op"] in ("signal", "broadcast")) else "produce"
                if e["cv"] in signalled_by_workers:
                    cvname = "produce"
            events.append({"t": t, "op": e["op"], "file": 0, "cvname": cvname})
        events.append({"t": 0, "op": "joined", "file": 0, "cvname": ""})
        events.append({"t": 0, "op": "reset", "file": 0, "cvname": ""})
        res.append({"nworkers": ncreate, "files": files, "events": events})
    return res
