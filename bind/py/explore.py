"""Stateless exploration of the schedules of a program built with sched_shim.h / sched.c:
depth-first over the choice sequences the controller reports, optionally bounded."""
import json
import os
import subprocess
from concurrent.futures import ThreadPoolExecutor


def run_schedule(exe, args, prefix, env=None, timeout=20):
    e = dict(os.environ)
    e.update(env or {})
    e["SCHED"] = ",".join(map(str, prefix))
    try:
        p = subprocess.run([exe] + args, env=e, stdout=subprocess.PIPE, stderr=subprocess.PIPE, timeout=timeout)
        out, err, rc = p.stdout.decode("utf8", "replace"), p.stderr.decode("utf8", "replace"), p.returncode
    except subprocess.TimeoutExpired as t:
        out, err, rc = (t.stdout or b"").decode("utf8", "replace"), "timeout", -999
    events, end = [], None
    for l in out.splitlines():
        try:
            r = json.loads(l)
        except ValueError:
            continue
        if r.get("ev") == "end":
            end = r
        else:
            events.append(r)
    return {"prefix": list(prefix), "events": events, "end": end, "rc": rc, "stderr": err[-3000:]}


def explore(exe, args, env=None, max_runs=100000, jobs=8, rng=None, sample=None):
    """Yields every run (dict).  With `sample` (int) and rng: random schedules instead of DFS."""
    runs = []
    if sample:
        def rnd(_):
            # random walk: choose uniformly at each point, by extending the prefix step by step is too slow;
            # instead draw a long random prefix and let the controller reduce choices modulo the options
            pre = [rng.randrange(0, 4) if rng.random() < 0.35 else 0 for _ in range(200)]
            return run_schedule(exe, args, pre, env)
        with ThreadPoolExecutor(max_workers=jobs) as ex:
            return list(ex.map(rnd, range(sample)))
    stack = [[]]
    with ThreadPoolExecutor(max_workers=jobs) as ex:
        while stack and len(runs) < max_runs:
            batch = [stack.pop() for _ in range(min(len(stack), jobs * 4))]
            for r in ex.map(lambda p: run_schedule(exe, args, p, env), batch):
                runs.append(r)
                if not r["end"]:
                    continue
                ch = r["end"]["choices"]
                base = [c for c, n in ch]
                for i in range(len(r["prefix"]), len(ch)):
                    for c in range(1, ch[i][1]):
                        stack.append(base[:i] + [c])
    return runs


PTHREAD_WRAPS = ["pthread_mutex_init", "pthread_mutex_destroy", "pthread_mutex_lock", "pthread_mutex_unlock", "pthread_cond_init", "pthread_cond_destroy",
                 "pthread_cond_wait", "pthread_cond_timedwait", "pthread_cond_signal", "pthread_cond_broadcast", "pthread_create", "pthread_join"]


def build_pthread_level(wd, name, driver, srcs, extra=(), wraps=()):
    """A scheduler-driven driver built with the runtime's OWN pthread configuration: the deterministic scheduler sits under the
    pthread functions (bind/c/sched_pthread.c, linked with --wrap), so it does not depend on how the tree spells its thread macros."""
    import common
    from common import BINDC, REPO, run
    exe = os.path.join(wd, name)
    cc = ["gcc", "-O1", "-g", "-w", "-fsanitize=address", "-I", os.path.join(REPO, "w2c2"), "-I", BINDC, *extra, "-c"]
    objs = []
    for src, more in [(os.path.join(BINDC, "sched.c"), ["-D%s=__real_%s" % (f, f) for f in PTHREAD_WRAPS]),
                      (os.path.join(BINDC, "sched_pthread.c"), []),
                      (driver, ["-DWASM_THREADS_PTHREADS", "-include", os.path.join(BINDC, "sched_api.h")])] + [(s_, ["-DWASM_THREADS_PTHREADS"]) for s_ in srcs]:
        ob = os.path.join(wd, "%s-%s.o" % (name, os.path.basename(src)[:-2]))
        rc, out, err = run(cc + more + [src, "-o", ob], timeout=300)
        if rc != 0:
            raise common.MachineryError("cannot build %s (pthread level): %s" % (name, err[-2000:]))
        objs.append(ob)
    rc, out, err = run(["gcc", "-fsanitize=address", *objs, "-Wl," + ",".join("--wrap=" + f for f in list(PTHREAD_WRAPS) + list(wraps)), "-o", exe, "-lpthread", "-lm"], timeout=300)
    if rc != 0:
        raise common.MachineryError("cannot link %s (pthread level): %s" % (name, err[-2000:]))
    return exe
