/* C18 driver: logical threads grow / query one shared wasmMemory through the REAL
 * wasmMemoryGrow of w2c2_base.h (compiled through sched_shim.h).
 * argv[1]: scripts, threads separated by '|', ops by ';':  G:delta   Z (memory.size)  L:addr (i32 load)
 *          W:value (store value into the LAST page of the size seen now)   R:page (load from that page if it is inside the size seen now)
 *          N:addr (memory.atomic.notify, count 1) */
#include <stdio.h>
#include <stdlib.h>
#include <string.h>
#include "w2c2_base.h"
void sh_run(void* (*mainfn)(void*), void* arg);
void trap(Trap t) { printf("{\"ev\":\"trap\",\"code\":%d}\n", (int)t); fflush(stdout); _Exit(3); }
static wasmMemory* mem;
static char* scripts[16]; static int nscripts;
static void* worker(void* arg) {
    char* s = strdup((char*)arg), *op, *save = NULL;
    for (op = strtok_r(s, ";", &save); op; op = strtok_r(NULL, ";", &save)) {
        long long a = 0; U32 r;
        if (op[0] == 'G') {
            sscanf(op, "G:%lld", &a);
            sh_api("call", "grow", a, 0, 0, 0);
            r = wasmMemoryGrow(mem, (U32)a);
            sh_api("ret", "grow", a, 0, 0, r == (U32)-1 ? -1 : (long long)r);
        } else if (op[0] == 'Z') {
            sh_api("call", "size", 0, 0, 0, 0);
            sh_point("size");
            r = mem->pages;                       /* what memory.size is translated to */
            sh_api("ret", "size", 0, 0, 0, r);
        } else if (op[0] == 'W' || op[0] == 'R') {
            U32 seen, page;
            sscanf(op + 2, "%lld", &a);
            sh_point("size");
            seen = mem->pages;                    /* the size this thread has observed: accesses below it are in bounds */
            page = op[0] == 'W' ? seen - 1 : (U32)a;
            if (seen == 0 || page >= seen) continue;
            if (op[0] == 'W') {
                sh_api("call", "store", page, a, 0, 0);
                sh_point("store");
                i32_store(mem, (U64)page * 65536 + 16, (U32)a);
                sh_api("ret", "store", page, a, 0, 0);
            } else {
                sh_api("call", "load", page, 0, 0, 0);
                sh_point("load");
                r = i32_load(mem, (U64)page * 65536 + 16);
                sh_api("ret", "load", page, 0, 0, r);
            }
        } else if (op[0] == 'N') {
            /* memory.atomic.notify on the same memory (nobody waits): it takes the memory's mutex, the one grow holds */
            sscanf(op, "N:%lld", &a);
            (void)wasmMemoryAtomicNotify(mem, (U32)a, 1);
        } else if (op[0] == 'L') {
            sscanf(op, "L:%lld", &a);
            sh_point("load");
            (void)i32_load(mem, (U64)a);
        }
    }
    return NULL;
}
static void* mainthread(void* arg) {
    WASM_THREAD_TYPE th[16]; int i; (void)arg;
    mem = WASM_MEMORY_ALLOCATE_SHARED(1, 4);
    for (i = 0; i < nscripts; i++) WASM_THREAD_CREATE(&th[i], worker, scripts[i]);
    for (i = 0; i < nscripts; i++) WASM_THREAD_JOIN(th[i]);
    printf("{\"ev\":\"final\",\"pages\":%u,\"size\":%u}\n", mem->pages, mem->size);
    return NULL;
}
int main(int argc, char** argv) {
    char* s, *save = NULL, *p;
    if (argc < 2) return 2;
    s = strdup(argv[1]);
    for (p = strtok_r(s, "|", &save); p; p = strtok_r(NULL, "|", &save)) scripts[nscripts++] = p;
    setvbuf(stdout, NULL, _IOFBF, 1 << 16);
    sh_run(mainthread, NULL);
    return 0;
}
