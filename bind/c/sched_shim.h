/* Deterministic thread layer for the w2c2 runtime (C17, C18, C16).
 * Force-included (-include) before w2c2_base.h, with neither WASM_THREADS_PTHREADS
 * nor WASM_THREADS_WIN32 defined: the runtime and futex.c then reach threads,
 * mutexes and condition variables only through the macros below - no source change.
 *
 * Every macro is a scheduling point of a controller that lets exactly one
 * logical thread run (sched.c).  What may happen at a point is a list of
 * options; which one happens is read from the schedule prefix in $SCHED and
 * otherwise the default (keep running the current thread).  The explorer
 * enumerates prefixes depth-first, so all interleavings (up to a preemption
 * bound) are visited, including spurious condition-variable wake-ups and
 * time-outs, which are scheduler choices, not wall-clock events.
 */
#ifndef SCHED_SHIM_H
#define SCHED_SHIM_H
#include "sched_api.h"
#define WASM_THREAD_TYPE sh_thread
#define WASM_THREAD_CREATE(thread, func, arg) sh_thread_create(thread, func, arg)
#define WASM_THREAD_JOIN(thread) sh_thread_join(thread)
#define WASM_MUTEX_TYPE sh_mutex
#define WASM_MUTEX_INIT(mutex) sh_mutex_init(mutex)
#define WASM_MUTEX_FREE(mutex) sh_mutex_free(mutex)
#define WASM_MUTEX_LOCK(mutex) sh_mutex_lock(mutex)
#define WASM_MUTEX_UNLOCK(mutex) sh_mutex_unlock(mutex)
#define WASM_COND_TYPE sh_cond
#define WASM_COND_INIT(cond) sh_cond_init(cond)
#define WASM_COND_FREE(cond) sh_cond_free(cond)
#define WASM_COND_WAIT(cond, mutex) sh_cond_wait(cond, mutex)
#define WASM_COND_RELATIVE_WAIT(cond, mutex, timeout) sh_cond_timedwait(cond, mutex, (long long)(timeout))
#define WASM_COND_SIGNAL(cond) sh_cond_signal(cond)
#endif
