/* C17 driver: logical threads run wait/notify/store scripts against the REAL futex.c
 * (compiled through sched_shim.h).  argv[1]: scripts, threads separated by '|', ops by ';':
 *   W<bits>:addr:expected:timeout   wait32/wait64 (timeout < 0 = infinite)
 *   X<bits>:addr:expected:timeout:k the same wait, but the k-th allocation it makes (calloc of the wait record, the map, a map node) fails,
 *                                   k = 9: the initialisation of its condition variable fails; the trap the runtime raises ends the call (res -1)
 *   N:addr:count                    notify
 *   S:addr:value                    atomic store of an i32
 *   D:ms                            (real threads only) sleep
 *   U:addr:count:want               (real threads only) notify repeatedly (5 ms apart) until `want` waiters have been woken in total
 * API-level events (call/ret) and sync-level events go to stdout as ndjson. */
#include <stdio.h>
#include <stdlib.h>
#include <string.h>
#include <time.h>
#include <setjmp.h>
#include "w2c2_base.h"
void sh_run(void* (*mainfn)(void*), void* arg);
/* host memory exhaustion inside one wait call (linked with --wrap=calloc): the bucket array of the map (calloc(n > 1, pointer size)) is not
 * a target - its result is not examined by map.c at all */
static __thread int fail_alloc_at, trap_armed;
static __thread jmp_buf trap_jmp;
int sh_fail_cond_init(void) { if (fail_alloc_at == 9) { fail_alloc_at = 0; return 1; } return 0; }
void* __real_calloc(size_t n, size_t size);
void* __wrap_calloc(size_t n, size_t size) {
    if (fail_alloc_at > 0 && fail_alloc_at < 9 && !(n > 1 && size == sizeof(void*)) && --fail_alloc_at == 0) return NULL;
    return __real_calloc(n, size);
}
void trap(Trap t) {
    if (trap_armed && t == trapAllocationFailed) longjmp(trap_jmp, 1);
    printf("{\"ev\":\"trap\",\"code\":%d}\n", (int)t); fflush(stdout); _Exit(3);
}
static wasmMemory* mem;
static char* scripts[64]; static int nscripts;

static void* worker(void* arg) {
    char* s = strdup((char*)arg), *op, *save = NULL;
    for (op = strtok_r(s, ";", &save); op; op = strtok_r(NULL, ";", &save)) {
        long long a = 0, b = 0, c = 0; U32 r;
        if (op[0] == 'W') {
            int bits = 32; sscanf(op, "W%d:%lld:%lld:%lld", &bits, &a, &b, &c);
            sh_api("call", bits == 64 ? "wait64" : "wait32", a, b, c, 0);
            r = wasmMemoryAtomicWait(mem, (U32)a, (U64)b, (I64)c, bits == 64);
            sh_api("ret", bits == 64 ? "wait64" : "wait32", a, b, c, r);
        } else if (op[0] == 'X') {
            int bits = 32; long long k = 1;
            sscanf(op, "X%d:%lld:%lld:%lld:%lld", &bits, &a, &b, &c, &k);
            sh_api("call", bits == 64 ? "wait64" : "wait32", a, b, c, 0);
            fail_alloc_at = (int)k; trap_armed = 1;
            if (setjmp(trap_jmp) == 0) r = wasmMemoryAtomicWait(mem, (U32)a, (U64)b, (I64)c, bits == 64);
            else r = (U32)-1;
            fail_alloc_at = 0; trap_armed = 0;
            sh_api("ret", bits == 64 ? "wait64" : "wait32", a, b, c, r == (U32)-1 ? -1 : (long long)r);
        } else if (op[0] == 'N') {
            sscanf(op, "N:%lld:%lld", &a, &b);
            sh_api("call", "notify", a, b, 0, 0);
            r = wasmMemoryAtomicNotify(mem, (U32)a, (U32)b);
            sh_api("ret", "notify", a, b, 0, r);
        } else if (op[0] == 'U') {
            long long want = 1, got = 0; struct timespec ts; ts.tv_sec = 0; ts.tv_nsec = 5000000L;
            sscanf(op, "U:%lld:%lld:%lld", &a, &b, &want);
            while (got < want) {
                sh_api("call", "notify", a, b, 0, 0);
                r = wasmMemoryAtomicNotify(mem, (U32)a, (U32)b);
                sh_api("ret", "notify", a, b, 0, r);
                got += r;
                if (got < want) nanosleep(&ts, NULL);
            }
        } else if (op[0] == 'D') {
            struct timespec ts; sscanf(op, "D:%lld", &a); ts.tv_sec = a / 1000; ts.tv_nsec = (a % 1000) * 1000000L;
            sh_point("delay"); nanosleep(&ts, NULL);
        } else if (op[0] == 'S') {
            sscanf(op, "S:%lld:%lld", &a, &b);
            sh_point("store");
            sh_api("call", "store", a, b, 0, 0);
            i32_atomic_store(mem, (U64)a, (U32)b);
            sh_api("ret", "store", a, b, 0, 0);
        }
    }
    return NULL;
}

static void* mainthread(void* arg) {
    WASM_THREAD_TYPE th[64]; int i; (void)arg;
    mem = WASM_MEMORY_ALLOCATE_SHARED(1, 1);
    for (i = 0; i < nscripts; i++) WASM_THREAD_CREATE(&th[i], worker, scripts[i]);
    for (i = 0; i < nscripts; i++) WASM_THREAD_JOIN(th[i]);
    wasmMemoryFree(mem);
    return NULL;
}

int main(int argc, char** argv) {
    char* s, *save = NULL, *p;
    if (argc < 2) return 2;
    s = strdup(argv[1]);
    for (p = strtok_r(s, "|", &save); p; p = strtok_r(NULL, "|", &save)) scripts[nscripts++] = p;
    setvbuf(stdout, NULL, _IOFBF, 1 << 16);
    sh_run(mainthread, NULL);
    return 0;
}
