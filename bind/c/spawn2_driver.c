/* C15 thread-spawn with several modules in one process: ta and tb export wasi_thread_start, tn does not.  Each module's
 * start function reports (tid, arg + its own tag) through <mod>_env__report, so a start record tells which module's start
 * function ran, on which instance, with which memory.  Sequence: tn (must fail), ta twice, tb twice, tn, then ta and tb
 * concurrently.  Prints the history as one JSON object. */
#include <stdio.h>
#include <stdlib.h>
#include <string.h>
#include <pthread.h>
#include <unistd.h>
#include "ta.h"
#include "tb.h"
#include "tn.h"
void trap(Trap t) { fprintf(stderr, "trap %d\n", (int)t); abort(); }
/* what the embedder supplies for the modules' table and global imports */
static wasmTable hosttab[3]; static U32 hostbias = 0;        /* one table per module: each writes its own function into slot 1 */
#define RESOLVER(k) static void* resolve##k(const char* module, const char* name) { (void)module; if (!strcmp(name, "tab")) return &hosttab[k]; if (!strcmp(name, "bias")) return &hostbias; return NULL; }
RESOLVER(0) RESOLVER(1) RESOLVER(2)
U32 wasi__threadX2Dspawn(void*, U32);
static taInstance A; static tbInstance B; static tnInstance N;
/* the WASI implementation asks for the memory of whatever instance it is handed: root or child of any module */
static pthread_mutex_t lg = PTHREAD_MUTEX_INITIALIZER;
static struct { void* inst; int mod; } known[600]; static int nknown;
static void know(void* i, int mod) { known[nknown].inst = i; known[nknown].mod = mod; nknown++; }
wasmMemory* wasiMemory(void* i) { return ta_memory(&A); (void)i; }
static struct { U32 tid, arg; int mod, shared, parent; } starts[512]; static int nstarts;
static struct { U32 arg, ret; int mod, fail; } spawns[512]; static int nspawns;
static void report(int mod, void* inst, U32 tid, U32 arg, wasmMemory* m, wasmMemory* rootm, void* root) {
    pthread_mutex_lock(&lg);
    starts[nstarts].tid = tid; starts[nstarts].arg = arg; starts[nstarts].mod = mod;
    starts[nstarts].shared = m == rootm; starts[nstarts].parent = inst == root;
    nstarts++;
    pthread_mutex_unlock(&lg);
}
void ta_env__report(void* i, U32 tid, U32 arg) { report(1, i, tid, arg, ta_memory((taInstance*)i), ta_memory(&A), &A); }
void tb_env__report(void* i, U32 tid, U32 arg) { report(2, i, tid, arg, tb_memory((tbInstance*)i), tb_memory(&B), &B); }
void tn_env__report(void* i, U32 tid, U32 arg) { report(3, i, tid, arg, tn_memory((tnInstance*)i), tn_memory(&N), &N); }
U32 ta_wasi__threadX2Dspawn(void* i, U32 a) { return wasi__threadX2Dspawn(i, a); }
U32 tb_wasi__threadX2Dspawn(void* i, U32 a) { return wasi__threadX2Dspawn(i, a); }
U32 tn_wasi__threadX2Dspawn(void* i, U32 a) { return wasi__threadX2Dspawn(i, a); }
/* host fault: with SPAWN_FAIL_EVERY=k every k-th thread creation asked for by a thread-spawn call fails with EAGAIN (after a
 * moment, so that other spawns complete in between); the driver's own threads are not affected (linked with --wrap=pthread_create) */
static __thread int in_spawn, create_failed; static int fail_every; static int create_calls;
int __real_pthread_create(pthread_t*, const pthread_attr_t*, void* (*)(void*), void*);
int __wrap_pthread_create(pthread_t* t, const pthread_attr_t* a, void* (*fn)(void*), void* arg) {
    if (in_spawn && fail_every > 0 && __atomic_add_fetch(&create_calls, 1, __ATOMIC_SEQ_CST) % fail_every == 0) { usleep(2000); create_failed = 1; return 11 /* EAGAIN */; }
    return __real_pthread_create(t, a, fn, arg);
}
static U32 do_spawn(int mod, U32 arg) {
    U32 r; int k, failed;
    in_spawn = 1; create_failed = 0;
    r = mod == 1 ? ta_spawn(&A, arg) : mod == 2 ? tb_spawn(&B, arg) : tn_spawn(&N, arg);
    in_spawn = 0; failed = create_failed;
    pthread_mutex_lock(&lg); k = nspawns++; spawns[k].arg = arg; spawns[k].ret = r; spawns[k].mod = mod; spawns[k].fail = failed; pthread_mutex_unlock(&lg);
    return r;
}
static pthread_barrier_t bar;
static void* spawner(void* a) { long k = (long)a; int j; pthread_barrier_wait(&bar); for (j = 0; j < (fail_every ? 4 : 1); j++) do_spawn(1 + (int)(k % 2), (U32)(2000 + 100 * j + k)); return NULL; }
int main(int argc, char** argv) {
    int K = argc > 1 ? atoi(argv[1]) : 4, i, waited = 0, want = 0; pthread_t th[64];
    const char* order = argc > 2 ? argv[2] : "naabbnab";
    char* noargs[1] = {NULL};
    if (getenv("SPAWN_FAIL_EVERY")) fail_every = atoi(getenv("SPAWN_FAIL_EVERY"));
    wasiInit(0, noargs, noargs);
    wasmTableAllocate(&hosttab[0], 4, 4); wasmTableAllocate(&hosttab[1], 4, 4); wasmTableAllocate(&hosttab[2], 4, 4);
    taInstantiate(&A, resolve0); tbInstantiate(&B, resolve1); tnInstantiate(&N, resolve2);
    for (i = 0; order[i]; i++) { do_spawn(order[i] == 'a' ? 1 : order[i] == 'b' ? 2 : 3, (U32)(1000 + i)); usleep(3000); }
    pthread_barrier_init(&bar, NULL, (unsigned)K);
    for (i = 0; i < K; i++) pthread_create(&th[i], NULL, spawner, (void*)(long)i);
    for (i = 0; i < K; i++) pthread_join(th[i], NULL);
    for (i = 0; i < nspawns; i++) if (spawns[i].mod != 3 && !spawns[i].fail) want++;
    while (waited < 3000) { int n; pthread_mutex_lock(&lg); n = nstarts; pthread_mutex_unlock(&lg); if (n >= want) break; usleep(1000); waited++; }
    usleep(20000);
    pthread_mutex_lock(&lg);
    printf("{\"spawns\":[");
    for (i = 0; i < nspawns; i++) printf("%s{\"arg\":%u,\"ret\":%d,\"mod\":%d,\"fail\":%d}", i ? "," : "", spawns[i].arg, (int)spawns[i].ret, spawns[i].mod, spawns[i].fail);
    printf("],\"starts\":[");
    for (i = 0; i < nstarts; i++) printf("%s{\"tid\":%u,\"arg\":%u,\"mod\":%d,\"shared\":%d,\"parent\":%d}", i ? "," : "", starts[i].tid, starts[i].arg, starts[i].mod, starts[i].shared, starts[i].parent);
    printf("],\"cell\":%u}\n", ta_cell(&A) + tb_cell(&B) + tn_cell(&N));
    return 0;
}
