/* C14 under threads: several guest threads (wasi-threads) call path operations at the same time, each on names of its own
 * under the same pre-opened directory.  The calls of one thread do not depend on those of another, so every call must
 * return what WasiFs.tla prescribes for that thread's history run alone: mkdir / symlink / readlink / rename /
 * path_filestat_get / unlink / rmdir all succeed, readlink returns that thread's target, a second mkdir says EEXIST, stat of
 * the removed name says ENOENT.  Only calls that do not touch the descriptor table are used (it has no lock in w2c2 and the
 * listed properties speak of sequences of calls).  usage: wasi_threads_driver <sandbox> <threads> <rounds> */
#define _GNU_SOURCE
#include <stdio.h>
#include <stdlib.h>
#include <string.h>
#include <pthread.h>
#include "w2c2_base.h"
#include "wasi.h"
void trap(Trap t) { printf("{\"trap\":%d}\n", (int)t); exit(3); }
static wasmMemory* mem;
wasmMemory* wasiMemory(void* instance) { (void)instance; return mem; }
U32 wasi_snapshot_preview1__path_create_directory(void*, U32, U32, U32);
U32 wasi_snapshot_preview1__path_remove_directory(void*, U32, U32, U32);
U32 wasi_snapshot_preview1__path_unlink_file(void*, U32, U32, U32);
U32 wasi_snapshot_preview1__path_rename(void*, U32, U32, U32, U32, U32, U32);
U32 wasi_snapshot_preview1__path_symlink(void*, U32, U32, U32, U32, U32);
U32 wasi_snapshot_preview1__path_readlink(void*, U32, U32, U32, U32, U32, U32);
U32 wasi_snapshot_preview1__path_filestat_get(void*, U32, U32, U32, U32, U32);
static long rounds; static long bad[64]; static char firstbad[64][160];
static pthread_barrier_t bar;
#define SLOT(t) (0x10000u + 0x4000u * (U32)(t))     /* each thread has its own guest memory region */
static U32 put(U32 at, const char* s) { U32 n = (U32)strlen(s); memcpy(mem->data + at, s, n); return n; }
static void expect(int t, const char* what, long r, U32 got, U32 want) {
    if (got != want) { if (!bad[t]++) snprintf(firstbad[t], sizeof firstbad[t], "thread %d round %ld %s: errno %u, expected %u", t, r, what, got, want); }
}
static void* worker(void* arg) {
    int t = (int)(long)arg; long r; U32 base = SLOT(t);
    pthread_barrier_wait(&bar);
    for (r = 0; r < rounds; r++) {
        char d[64], l[64], l2[64], tgt[64]; U32 nd, nl, nl2, nt, e, used;
        snprintf(d, sizeof d, "dir-%d-%ld", t, r % 3); snprintf(l, sizeof l, "lnk-%d", t); snprintf(l2, sizeof l2, "moved-%d-%ld", t, r % 5);
        snprintf(tgt, sizeof tgt, "target-of-thread-%d-round-%ld", t, r);
        nd = put(base, d); nl = put(base + 0x100, l); nl2 = put(base + 0x200, l2); nt = put(base + 0x300, tgt);
        expect(t, "mkdir", r, wasi_snapshot_preview1__path_create_directory(NULL, 3, base, nd), 0);
        expect(t, "mkdir again", r, wasi_snapshot_preview1__path_create_directory(NULL, 3, base, nd), 20);
        expect(t, "symlink", r, wasi_snapshot_preview1__path_symlink(NULL, base + 0x300, nt, 3, base + 0x100, nl), 0);
        e = wasi_snapshot_preview1__path_readlink(NULL, 3, base + 0x100, nl, base + 0x400, 200, base + 0x600);
        expect(t, "readlink", r, e, 0);
        used = i32_load(mem, base + 0x600);
        if (e == 0 && (used != nt || memcmp(mem->data + base + 0x400, tgt, nt))) expect(t, "readlink target", r, 1, 0);
        expect(t, "rename", r, wasi_snapshot_preview1__path_rename(NULL, 3, base + 0x100, nl, 3, base + 0x200, nl2), 0);
        expect(t, "stat dir", r, wasi_snapshot_preview1__path_filestat_get(NULL, 3, 0, base, nd, base + 0x700), 0);
        if (mem->data[base + 0x700 + 16] != 3) expect(t, "stat dir type", r, mem->data[base + 0x700 + 16], 3);
        expect(t, "unlink", r, wasi_snapshot_preview1__path_unlink_file(NULL, 3, base + 0x200, nl2), 0);
        expect(t, "stat removed", r, wasi_snapshot_preview1__path_filestat_get(NULL, 3, 0, base + 0x200, nl2, base + 0x700), 44);
        expect(t, "rmdir", r, wasi_snapshot_preview1__path_remove_directory(NULL, 3, base, nd), 0);
    }
    return NULL;
}
int main(int argc, char** argv) {
    int nt, t; pthread_t th[64]; long total = 0; char* none[] = {NULL};
    if (argc < 4) return 2;
    nt = atoi(argv[2]); rounds = atol(argv[3]);
    if (nt < 1 || nt > 64) return 2;
    mem = wasmMemoryAllocate(40, 40, false);
    if (!wasiInit(0, none, none) || !wasiFileDescriptorAdd(-1, argv[1], NULL)) return 2;
    pthread_barrier_init(&bar, NULL, (unsigned)nt);
    for (t = 0; t < nt; t++) pthread_create(&th[t], NULL, worker, (void*)(long)t);
    for (t = 0; t < nt; t++) pthread_join(th[t], NULL);
    for (t = 0; t < nt; t++) total += bad[t];
    printf("{\"threads\":%d,\"rounds\":%ld,\"calls\":%ld,\"bad\":%ld,\"first\":\"", nt, rounds, rounds * 10 * nt, total);
    for (t = 0; t < nt; t++) if (bad[t]) { printf("%s", firstbad[t]); break; }
    printf("\"}\n");
    return 0;
}
