/* C05: the host has no memory to give - every realloc the translated module's runtime issues is refused (the block it was asked to
 * resize stays as it is, as the C standard prescribes).  Linked into builds compiled with -Drealloc=verif_failing_realloc. */
#include <stddef.h>
void* verif_failing_realloc(void* p, size_t n) { (void)p; (void)n; return NULL; }
