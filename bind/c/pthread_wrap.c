/* Link-time interposition (-Wl,--wrap=...) on the translator's pthread calls and fopen (C09):
 * logs one event per call as ndjson to $POOL_TRACE and, driven by $POOL_SEED, inserts short
 * sleeps / yields BEFORE calls to diversify schedules (this cannot create behaviours the real
 * program does not have).  Lock events are logged while the application mutex is held, so the
 * order of the log is the order of the critical sections. */
#define _GNU_SOURCE
#include <pthread.h>
#include <stdio.h>
#include <stdlib.h>
#include <string.h>
#include <unistd.h>
#include <sched.h>

int __real_pthread_mutex_lock(pthread_mutex_t*);
int __real_pthread_mutex_unlock(pthread_mutex_t*);
int __real_pthread_cond_wait(pthread_cond_t*, pthread_mutex_t*);
int __real_pthread_cond_signal(pthread_cond_t*);
int __real_pthread_cond_broadcast(pthread_cond_t*);
int __real_pthread_create(pthread_t*, const pthread_attr_t*, void* (*)(void*), void*);
int __real_pthread_join(pthread_t, void**);
FILE* __real_fopen(const char*, const char*);

static FILE* tr;
static pthread_mutex_t lg = PTHREAD_MUTEX_INITIALIZER;
static pthread_t tids[80]; static int ntids;
static pthread_cond_t* conds[4]; static int nconds;
static unsigned seed; static int perturb;
static __thread unsigned rs;

static void init(void) {
    const char* p;
    if (tr) return;
    p = getenv("POOL_TRACE");
    tr = p ? __real_fopen(p, "w") : NULL;
    if ((p = getenv("POOL_SEED"))) { seed = (unsigned)atoi(p); perturb = 1; }
    tids[0] = pthread_self(); ntids = 1;
}
static int me(void) {
    int i; pthread_t s = pthread_self();
    for (i = 0; i < ntids; i++) if (pthread_equal(tids[i], s)) return i;
    return -1;
}
static int cvid(pthread_cond_t* c) {
    int i;
    for (i = 0; i < nconds; i++) if (conds[i] == c) return i;
    if (nconds < 4) { conds[nconds] = c; return nconds++; }
    return -1;
}
static void jitter(void) {
    unsigned r;
    if (!perturb) return;
    if (!rs) rs = seed * 2654435761u + (unsigned)((size_t)&rs >> 6) * 40503u + 1;
    rs = rs * 1103515245u + 12345u; r = (rs >> 16) & 0xFF;
    if (r < 70) sched_yield(); else if (r < 140) usleep(r % 9 * 60);
}
/* everything the log line needs (thread number, condition variable number) is computed under the log lock */
static void ev_locked(const char* op, pthread_cond_t* c, const char* extra) {
    if (!tr) return;
    fprintf(tr, "{\"t\":%d,\"op\":\"%s\",\"cv\":%d,\"x\":\"%s\"}\n", me(), op, c ? cvid(c) : -1, extra ? extra : "");
    fflush(tr);
}
static void ev(const char* op, pthread_cond_t* c, const char* extra) {
    if (!tr) return;
    __real_pthread_mutex_lock(&lg);
    ev_locked(op, c, extra);
    __real_pthread_mutex_unlock(&lg);
}
int __wrap_pthread_mutex_lock(pthread_mutex_t* m) { int r; init(); jitter(); r = __real_pthread_mutex_lock(m); ev("lock", NULL, NULL); return r; }
int __wrap_pthread_mutex_unlock(pthread_mutex_t* m) { int r; init(); ev("unlock", NULL, NULL); r = __real_pthread_mutex_unlock(m); jitter(); return r; }
int __wrap_pthread_cond_wait(pthread_cond_t* c, pthread_mutex_t* m) {
    int r; init(); ev("wait", c, NULL);
    jitter();           /* still holding the mutex: whatever was decided under it must stay true until the wait begins */
    r = __real_pthread_cond_wait(c, m); ev("woke", c, NULL); return r; }
int __wrap_pthread_cond_signal(pthread_cond_t* c) { init(); ev("signal", c, NULL); return __real_pthread_cond_signal(c); }
int __wrap_pthread_cond_broadcast(pthread_cond_t* c) { init(); ev("broadcast", c, NULL); return __real_pthread_cond_broadcast(c); }
int __wrap_pthread_create(pthread_t* t, const pthread_attr_t* a, void* (*f)(void*), void* arg) {
    int r; init();
    /* the new thread cannot log anything before its number is registered and the create event is written */
    __real_pthread_mutex_lock(&lg);
    r = __real_pthread_create(t, a, f, arg);
    if (r == 0 && ntids < 80) tids[ntids++] = *t;
    ev_locked("create", NULL, NULL);
    __real_pthread_mutex_unlock(&lg);
    return r;
}
int __wrap_pthread_join(pthread_t t, void** rv) { int r; init(); r = __real_pthread_join(t, rv); ev("join", NULL, NULL); return r; }
FILE* __wrap_fopen(const char* path, const char* mode) {
    init();
    if (strchr(mode, 'w')) { jitter(); ev("fopen", NULL, path); }
    return __real_fopen(path, mode);
}
