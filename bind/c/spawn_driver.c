/* C15 thread-spawn driver: K real threads call the translated module's spawn(arg) concurrently (which calls the WASI import
 * "wasi"."thread-spawn"); the module's exported wasi_thread_start(tid, arg) reports through the host import env.report and bumps a
 * cell of the shared memory.  Prints the history as one JSON object. */
#include <stdio.h>
#include <stdlib.h>
#include <string.h>
#include <pthread.h>
#include <unistd.h>
#include "ts.h"
void trap(Trap t) { fprintf(stderr, "trap %d\n", (int)t); abort(); }
/* what the embedder supplies for the modules' table and global imports */
static wasmTable hosttab; static U32 hostbias = 0;
static void* resolve(const char* module, const char* name) { (void)module; if (!strcmp(name, "tab")) return &hosttab; if (!strcmp(name, "bias")) return &hostbias; return NULL; }
static tsInstance root;
wasmMemory* wasiMemory(void* i) { return ts_memory((tsInstance*)i); }
static pthread_mutex_t lg = PTHREAD_MUTEX_INITIALIZER;
static struct { U32 tid, arg; int shared, parent; } starts[4096]; static int nstarts;
static struct { U32 arg, ret; } spawns[4096];
static int stay; static volatile int gate;
void env__report(void* inst, U32 tid, U32 arg) {
    pthread_mutex_lock(&lg);
    starts[nstarts].tid = tid; starts[nstarts].arg = arg;
    starts[nstarts].shared = ts_memory((tsInstance*)inst) == ts_memory(&root);
    starts[nstarts].parent = inst == (void*)&root;
    nstarts++;
    pthread_mutex_unlock(&lg);
    /* "stay" mode: the started thread does not return before the driver opens the gate, so that all spawned threads are alive
     * at the same moment (threads parked at a barrier, one thread per connection) */
    while (stay && !__atomic_load_n(&gate, __ATOMIC_SEQ_CST)) usleep(500);
}
static pthread_barrier_t bar;
/* every spawning thread issues M spawns; before each one all of them meet at a spinning rendezvous, so that the calls overlap */
static int M = 1, Kthreads; static volatile long arrived;
static void* spawner(void* a) { long k = (long)a; int m;
    pthread_barrier_wait(&bar);
    for (m = 0; m < M; m++) {
        long want = (long)(m + 1) * Kthreads;
        __atomic_add_fetch(&arrived, 1, __ATOMIC_SEQ_CST); while (__atomic_load_n(&arrived, __ATOMIC_SEQ_CST) < want) {}
        spawns[k * M + m].arg = (U32)(1000 + k * M + m); spawns[k * M + m].ret = ts_spawn(&root, spawns[k * M + m].arg);
    }
    return NULL; }
int main(int argc, char** argv) {
    int K = argc > 1 ? atoi(argv[1]) : 4, i, waited = 0, total; pthread_t th[64];
    char* noargs[1] = {NULL};
    M = argc > 2 ? atoi(argv[2]) : 1; Kthreads = K; total = K * M; stay = argc > 3 && !strcmp(argv[3], "stay");
    wasiInit(0, noargs, noargs);
    wasmTableAllocate(&hosttab, 4, 4); tsInstantiate(&root, resolve);
    pthread_barrier_init(&bar, NULL, (unsigned)K);
    for (i = 0; i < K; i++) pthread_create(&th[i], NULL, spawner, (void*)(long)i);
    for (i = 0; i < K; i++) pthread_join(th[i], NULL);
    if (stay) { while (waited < 3000) { int n; pthread_mutex_lock(&lg); n = nstarts; pthread_mutex_unlock(&lg); if (n >= total) break; usleep(1000); waited++; }
                __atomic_store_n(&gate, 1, __ATOMIC_SEQ_CST); waited = 0; }
    while (waited < 3000) { int n; pthread_mutex_lock(&lg); n = nstarts; pthread_mutex_unlock(&lg); if (n >= total && ts_cell(&root) >= (U32)total) break; usleep(1000); waited++; }
    usleep(20000);      /* a duplicate start, if any, gets a chance to show up */
    pthread_mutex_lock(&lg);
    printf("{\"spawns\":[");
    for (i = 0; i < total; i++) printf("%s{\"arg\":%u,\"ret\":%d}", i ? "," : "", spawns[i].arg, (int)spawns[i].ret);
    printf("],\"starts\":[");
    for (i = 0; i < nstarts; i++) printf("%s{\"tid\":%u,\"arg\":%u,\"shared\":%d,\"parent\":%d}", i ? "," : "", starts[i].tid, starts[i].arg, starts[i].shared, starts[i].parent);
    printf("],\"cell\":%u}\n", ts_cell(&root));
    return 0;
}
