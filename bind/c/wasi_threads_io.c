/* C12 / C15 under threads (wasi-threads guests): several guest threads are inside WASI calls at the same time.
 *  phase A (C15): straight after wasiInit every thread asks for the argument and the environment vectors (args_sizes_get, args_get,
 *                 environ_sizes_get, environ_get) into guest memory of its own: each gets exactly the vectors given at initialisation - long
 *                 ones, so that the calls overlap;
 *  phase B (C12): every thread owns one file, opened by the main thread BEFORE the threads start (path_open changes the descriptor table,
 *                 which has no lock in w2c2; the data calls only look descriptors up).  Per round it writes a scatter/gather vector with
 *                 fd_pwrite, reads it back with fd_pread under another segmentation, then the same through the file position (fd_seek,
 *                 fd_write, fd_seek, fd_read): counts and bytes are those of its own vector, whatever the other threads transfer meanwhile.
 * usage: wasi_threads_io <sandbox> <threads> <rounds> <strings per vector> */
#define _GNU_SOURCE
#include <stdio.h>
#include <stdlib.h>
#include <string.h>
#include <pthread.h>
#include "w2c2_base.h"
#include "wasi.h"
void trap(Trap t) { printf("{\"trap\":%d}\n", (int)t); exit(3); }
static wasmMemory* mem;
wasmMemory* wasiMemory(void* instance) { (void)instance; return mem; }
U32 wasi_snapshot_preview1__path_open(void*, U32, U32, U32, U32, U32, U64, U64, U32, U32);
U32 wasi_snapshot_preview1__fd_pwrite(void*, U32, U32, U32, U64, U32);
U32 wasi_snapshot_preview1__fd_pread(void*, U32, U32, U32, U64, U32);
U32 wasi_snapshot_preview1__fd_write(void*, U32, U32, U32, U32);
U32 wasi_snapshot_preview1__fd_read(void*, U32, U32, U32, U32);
U32 wasi_snapshot_preview1__fd_seek(void*, U32, U64, U32, U32);
U32 wasi_snapshot_preview1__args_sizes_get(void*, U32, U32);
U32 wasi_snapshot_preview1__args_get(void*, U32, U32);
U32 wasi_unstable__environ_sizes_get(void*, U32, U32);
U32 wasi_unstable__environ_get(void*, U32, U32);
#define MAXT 8
#define REGION 0x400000u                           /* guest memory of one thread */
#define SLOT(t) (0x10000u + REGION * (U32)(t))
static long rounds, nstr; static char** vargs; static char** venv;
static long bad_args[MAXT], bad_io[MAXT], calls[MAXT]; static char first[MAXT][200];
static pthread_barrier_t bar;
static void note(long* ctr, int t, const char* what, long r, long got, long want) {
    if (!(*ctr)++ && !first[t][0]) snprintf(first[t], sizeof first[t], "thread %d round %ld %s: %ld, expected %ld", t, r, what, got, want);
}
static void check_vector(int t, int isenv, char** vec, long n) {
    U32 base = SLOT(t), cnt = 0, total = 0, e, want_total = 0; long k; U32 ptrs = base + 0x100, buf;
    for (k = 0; k < n; k++) want_total += (U32)strlen(vec[k]) + 1;
    e = isenv ? wasi_unstable__environ_sizes_get(NULL, base, base + 4) : wasi_snapshot_preview1__args_sizes_get(NULL, base, base + 4);
    cnt = i32_load(mem, base); total = i32_load(mem, base + 4); calls[t]++;
    if (e != 0 || cnt != (U32)n || total != want_total) { note(&bad_args[t], t, isenv ? "environ_sizes_get total" : "args_sizes_get total", 0, (long)total, (long)want_total); return; }
    buf = ptrs + 4 * cnt + 64;
    memset(mem->data + ptrs, 0xEE, 4 * cnt + 64 + total + 64);
    e = isenv ? wasi_unstable__environ_get(NULL, ptrs, buf) : wasi_snapshot_preview1__args_get(NULL, ptrs, buf); calls[t]++;
    if (e != 0) { note(&bad_args[t], t, "get errno", 0, (long)e, 0); return; }
    { U32 at = buf;
      for (k = 0; k < n; k++) { U32 l = (U32)strlen(vec[k]) + 1, p = i32_load(mem, ptrs + 4 * (U32)k);
          if (p != at || memcmp(mem->data + at, vec[k], l)) { note(&bad_args[t], t, isenv ? "environ_get entry" : "args_get entry", k, (long)p, (long)at); return; }
          at += l; }
      if (mem->data[at] != 0xEE || mem->data[ptrs + 4 * cnt] != 0xEE) note(&bad_args[t], t, "bytes behind the vector touched", 0, mem->data[at], 0xEE); }
}
static void* worker(void* arg) {
    int t = (int)(long)arg; long r; U32 base = SLOT(t), fd = 4 + (U32)t, io = base + 0x300000u;
    pthread_barrier_wait(&bar);
    check_vector(t, 0, vargs, nstr); check_vector(t, 1, venv, nstr); check_vector(t, 0, vargs, nstr);
    for (r = 0; r < rounds; r++) {
        /* vector of 5 segments (one empty), lengths depending on thread and round; contents a function of (t, r, position) */
        U32 lens[5], k, j, total = 0, at = io + 0x100, n, e, rl[3], got;
        lens[0] = 1 + (U32)((t * 7 + r) % 23); lens[1] = 0; lens[2] = 3 + (U32)((t + r * 5) % 40); lens[3] = 1; lens[4] = (U32)((r + t) % 17);
        for (k = 0; k < 5; k++) { i32_store(mem, io + 8 * k, at); i32_store(mem, io + 8 * k + 4, lens[k]);
            for (j = 0; j < lens[k]; j++) mem->data[at + j] = (U8)(t * 31 + r * 7 + total + j); at += lens[k] + 3; total += lens[k]; }
        e = wasi_snapshot_preview1__fd_pwrite(NULL, fd, io, 5, 0, io + 0x80); n = i32_load(mem, io + 0x80); calls[t]++;
        if (e != 0 || n != total) { note(&bad_io[t], t, "fd_pwrite count", r, (long)n, (long)total); continue; }
        rl[0] = total / 3; rl[1] = 0; rl[2] = total - rl[0];
        at = io + 0x1000; memset(mem->data + at, 0xEE, total + 64);
        i32_store(mem, io + 0x40, at); i32_store(mem, io + 0x44, rl[0]); i32_store(mem, io + 0x48, at + rl[0]); i32_store(mem, io + 0x4C, 0);
        i32_store(mem, io + 0x50, at + rl[0]); i32_store(mem, io + 0x54, rl[2]);
        e = wasi_snapshot_preview1__fd_pread(NULL, fd, io + 0x40, 3, 0, io + 0x80); got = i32_load(mem, io + 0x80); calls[t]++;
        if (e != 0 || got != total) { note(&bad_io[t], t, "fd_pread count", r, (long)got, (long)total); continue; }
        for (j = 0; j < total; j++) if (mem->data[at + j] != (U8)(t * 31 + r * 7 + j)) { note(&bad_io[t], t, "fd_pread byte at", r, (long)j, (long)j); break; }
        if (mem->data[at + total] != 0xEE) note(&bad_io[t], t, "fd_pread wrote beyond its buffers", r, mem->data[at + total], 0xEE);
        if (r % 4 == 0) {
            /* through the file position */
            wasi_snapshot_preview1__fd_seek(NULL, fd, 0, 0, io + 0x88);
            e = wasi_snapshot_preview1__fd_write(NULL, fd, io, 5, io + 0x80); n = i32_load(mem, io + 0x80);
            if (e != 0 || n != total) note(&bad_io[t], t, "fd_write count", r, (long)n, (long)total);
            wasi_snapshot_preview1__fd_seek(NULL, fd, 0, 0, io + 0x88);
            memset(mem->data + at, 0xEE, total + 64);
            e = wasi_snapshot_preview1__fd_read(NULL, fd, io + 0x40, 3, io + 0x80); got = i32_load(mem, io + 0x80); calls[t] += 4;
            if (e != 0 || got != total) note(&bad_io[t], t, "fd_read count", r, (long)got, (long)total);
            else for (j = 0; j < total; j++) if (mem->data[at + j] != (U8)(t * 31 + r * 7 + j)) { note(&bad_io[t], t, "fd_read byte at", r, (long)j, (long)j); break; }
        }
    }
    return NULL;
}
int main(int argc, char** argv) {
    int nt, t; long k, ba = 0, bi = 0, nc = 0; pthread_t th[MAXT]; char nm[32];
    if (argc < 5) return 2;
    nt = atoi(argv[2]); rounds = atol(argv[3]); nstr = atol(argv[4]); if (nt > MAXT) nt = MAXT;
    vargs = calloc((size_t)nstr + 1, sizeof(char*)); venv = calloc((size_t)nstr + 1, sizeof(char*));
    for (k = 0; k < nstr; k++) { char b[64]; snprintf(b, sizeof b, "a%ld-%.*s", k, (int)(k % 9), "xxxxxxxxx"); vargs[k] = strdup(b);
                                 snprintf(b, sizeof b, "V%ld=%.*s", k, (int)(k % 7), "yyyyyyy"); venv[k] = strdup(b); }
    mem = wasmMemoryAllocate(1 + (U32)((0x10000u + REGION * (U32)nt) >> 16), 1 + (U32)((0x10000u + REGION * (U32)nt) >> 16), false);
    if (!wasiInit((int)nstr, vargs, venv)) return 2;
    if (!wasiFileDescriptorAdd(-1, argv[1], NULL)) return 2;
    for (t = 0; t < nt; t++) { U32 n = (U32)snprintf(nm, sizeof nm, "io-%d", t), e; memcpy(mem->data + 0x400, nm, n);
        e = wasi_snapshot_preview1__path_open(NULL, 3, 0, 0x400, n, 1 /* creat */, 0x42 /* fd_read | fd_write */, 0x42, 0, 0x500);
        if (e != 0 || i32_load(mem, 0x500) != 4 + (U32)t) { printf("{\"setup\":\"path_open %d: errno %u fd %u\"}\n", t, e, i32_load(mem, 0x500)); return 2; } }
    pthread_barrier_init(&bar, NULL, (unsigned)nt);
    for (t = 0; t < nt; t++) pthread_create(&th[t], NULL, worker, (void*)(long)t);
    for (t = 0; t < nt; t++) pthread_join(th[t], NULL);
    for (t = 0; t < nt; t++) { ba += bad_args[t]; bi += bad_io[t]; nc += calls[t]; }
    printf("{\"threads\":%d,\"rounds\":%ld,\"calls\":%ld,\"bad_args\":%ld,\"bad_io\":%ld,\"first\":[", nt, rounds, nc, ba, bi);
    { int f = 1; for (t = 0; t < nt; t++) if (first[t][0]) { printf("%s\"%s\"", f ? "" : ",", first[t]); f = 0; } }
    printf("]}\n");
    return 0;
}
