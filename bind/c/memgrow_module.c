/* C18 at the level of a translated module: several threads grow the module's shared memory through DIFFERENT exported
 * functions (with -f 1 they live in different C files), an observer reads memory.size.  Checked against the sequential
 * specification: successful grows return pairwise distinct old sizes, the final size is the initial size plus the sum of
 * the successful deltas and at most the maximum, a failing grow returns -1, the size never goes down for an observer.
 * Compiled by the check in several configurations (one file / one file per function, with and without -DNDEBUG).
 * usage: memgrow_module <rounds> */
#include <stdio.h>
#include <stdlib.h>
#include <string.h>
#include <pthread.h>
#include "mg.h"
void trap(Trap t) { (void)t; abort(); }
#define INIT 1
#define MAXP 40
#define PER 12
static mgInstance* inst;
static pthread_barrier_t bar;
static volatile int stop;
static U32 olds[4][PER]; static int nold[4]; static long bad_fail, bad_down;
static void* grower(void* a) { long me = (long)a; int i; pthread_barrier_wait(&bar);
    for (i = 0; i < PER; i++) { U32 r = (me & 1) ? mg_growB(inst, 1) : mg_growA(inst, 1); if (r != (U32)-1) olds[me][nold[me]++] = r; else if (mg_size(inst) < MAXP) __atomic_add_fetch(&bad_fail, 1, __ATOMIC_RELAXED); }
    return NULL; }
static void* sizer(void* a) { U32 last = INIT; (void)a; pthread_barrier_wait(&bar);
    while (!stop) { U32 p = mg_size(inst); if (p < last) __atomic_add_fetch(&bad_down, 1, __ATOMIC_RELAXED); last = p; }
    return NULL; }
int main(int argc, char** argv) {
    long rounds = argc > 1 ? atol(argv[1]) : 20, r, dup = 0, badfinal = 0, range = 0; pthread_t th[5]; long t;
    for (r = 0; r < rounds; r++) {
        static mgInstance storage; U8 seen[MAXP + 2]; int ok = 0, i;
        memset(&storage, 0xA5, sizeof storage);
        inst = &storage; mgInstantiate(inst, NULL);
        memset(seen, 0, sizeof seen); memset(nold, 0, sizeof nold); stop = 0;
        pthread_barrier_init(&bar, NULL, 5);
        for (t = 0; t < 4; t++) pthread_create(&th[t], NULL, grower, (void*)t);
        pthread_create(&th[4], NULL, sizer, NULL);
        for (t = 0; t < 4; t++) pthread_join(th[t], NULL);
        stop = 1; pthread_join(th[4], NULL);
        for (t = 0; t < 4; t++) for (i = 0; i < nold[t]; i++) { U32 o = olds[t][i]; ok++; if (o < INIT || o >= MAXP) range++; else if (seen[o]++) dup++; }
        if (mg_size(inst) != (U32)(INIT + ok) || mg_size(inst) > MAXP) badfinal++;
        mgFreeInstance(inst);
    }
    printf("{\"rounds\":%ld,\"duplicate_old_sizes\":%ld,\"bad_final_size\":%ld,\"old_size_out_of_range\":%ld,\"failed_below_maximum\":%ld,\"size_went_down\":%ld}\n",
           rounds, dup, badfinal, range, bad_fail, bad_down);
    return 0;
}
