/* C08 driver: feeds byte strings to the REAL leb128Read{U32,I32,U64,I64} of w2c2/leb128.h.
 * stdin: one vector per line: "<hex bytes>"; stdout: "<count32u> <u32> <count32s> <i32> <count64u> <u64> <count64s> <i64>" */
#include <stdio.h>
#include <string.h>
#include "leb128.h"
int main(void) {
    char line[256];
    while (fgets(line, sizeof line, stdin)) {
        U8 bytes[64]; size_t n = 0, i; Buffer b; U32 u32 = 0; I32 i32 = 0; U64 u64 = 0; I64 i64 = 0; size_t c1, c2, c3, c4;
        for (i = 0; line[i] && line[i + 1] && line[i] != '\n'; i += 2) { unsigned v; sscanf(line + i, "%2x", &v); bytes[n++] = (U8)v; }
        b.data = bytes; b.length = n; c1 = leb128ReadU32(&b, &u32);
        b.data = bytes; b.length = n; c2 = leb128ReadI32(&b, &i32);
        b.data = bytes; b.length = n; c3 = leb128ReadU64(&b, &u64);
        b.data = bytes; b.length = n; c4 = leb128ReadI64(&b, &i64);
        printf("%lu %u %lu %u %lu %llu %lu %llu\n", (unsigned long)c1, u32, (unsigned long)c2, (U32)i32, (unsigned long)c3,
               (unsigned long long)u64, (unsigned long)c4, (unsigned long long)(U64)i64);
    }
    return 0;
}
