/* C18 directed run on a shared memory with the largest declarable maximum (65536 pages): other threads keep pointers into
 * a shared memory while it grows, so its storage never moves, whatever the size - also far beyond the sizes the other
 * drivers reach.  Grows in steps to more than 8192 pages (512 MiB of address space, touched sparsely); after every step:
 * the data pointer is the one seen at the start, the page count is the sum, a marker written into the first page and into
 * the last page before the step is still there, and the first and last word of every new region read zero.  A helper thread
 * keeps loading from page 0 through the pointer it took at the start (under ASan a moved block is a use after free).
 * Prints one JSON line. */
#include <stdio.h>
#include <stdlib.h>
#include <string.h>
#include <pthread.h>
#include "w2c2_base.h"
void trap(Trap t) { (void)t; abort(); }
static wasmMemory* mem;
static volatile int stop;
static void* reader(void* a) { volatile U8* p = (volatile U8*)a; unsigned long s = 0; while (!stop) { s += p[16]; s += p[65535]; } return (void*)s; }
int main(void) {
    static const U32 steps[] = {1, 4094, 1, 1, 4096, 1, 100};
    long moved = 0, badpages = 0, lost = 0, dirty = 0, failed = 0; U32 pages = 1, k; U8* data0; pthread_t th;
    mem = WASM_MEMORY_ALLOCATE_SHARED(1, 65536);
    if (!mem || !mem->data) { printf("{\"alloc\":0}\n"); return 0; }       /* the host cannot reserve that much: nothing to observe */
    data0 = mem->data;
    i32_store(mem, 16, 0xC0FFEE01u);
    pthread_create(&th, NULL, reader, data0);
    for (k = 0; k < sizeof steps / sizeof steps[0]; k++) {
        U32 r = wasmMemoryGrow(mem, steps[k]);
        if (r == (U32)-1) { failed++; continue; }                                /* allowed (host out of memory); nothing changed then */
        if (r != pages) badpages++;
        if (mem->data != data0) moved++;
        if (i32_load(mem, 16) != 0xC0FFEE01u) lost++;
        if (k && i32_load(mem, (U64)(pages - 1) * 65536 + 32) != 0xABCD0000u + pages) lost++;
        if (i32_load(mem, (U64)pages * 65536) != 0 || i32_load(mem, (U64)(pages + steps[k]) * 65536 - 4) != 0) dirty++;
        pages += steps[k];
        if (mem->pages != pages) badpages++;
        i32_store(mem, (U64)(pages - 1) * 65536 + 32, 0xABCD0000u + pages);
    }
    stop = 1; pthread_join(th, NULL);
    printf("{\"alloc\":1,\"moved\":%ld,\"badpages\":%ld,\"lost\":%ld,\"dirty\":%ld,\"failed\":%ld,\"pages\":%u}\n", moved, badpages, lost, dirty, failed, pages);
    return 0;
}
