/* The deterministic scheduler reached one level lower than sched_shim.h: the runtime is compiled with its own pthread
 * configuration (-DWASM_THREADS_PTHREADS, whatever its macros look like in the tree under test) and every pthread function
 * it calls is redirected here at link time (-Wl,--wrap=pthread_mutex_lock,...).  A refactoring of the runtime's thread
 * macros therefore does not take the scheduler away, as long as threads, mutexes and condition variables stay pthreads.
 * sched.c itself is compiled with -Dpthread_x=__real_pthread_x so that ITS threads and locks are the real ones.
 * Time-outs of pthread_cond_timedwait are scheduler choices (the deadline argument is ignored). */
#include <errno.h>
#include <pthread.h>
#include <stdint.h>
#include <stdlib.h>
#include "sched_api.h"

#define NOBJ 512
static struct { void* key; sh_mutex m; } mt[NOBJ];
static struct { void* key; sh_cond c; } ct[NOBJ];
static int nm, nc;

/* objects are found by address; one that was never initialised through a call (PTHREAD_MUTEX_INITIALIZER) is made on first use */
static sh_mutex* mx(void* k, int fresh) {
    int i;
    for (i = 0; i < nm; i++) if (mt[i].key == k) { if (fresh) sh_mutex_init(&mt[i].m); return &mt[i].m; }
    if (nm == NOBJ) abort();
    mt[nm].key = k; sh_mutex_init(&mt[nm].m);
    return &mt[nm++].m;
}
static sh_cond* cv(void* k, int fresh) {
    int i;
    for (i = 0; i < nc; i++) if (ct[i].key == k) { if (fresh) sh_cond_init(&ct[i].c); return &ct[i].c; }
    if (nc == NOBJ) abort();
    ct[nc].key = k; sh_cond_init(&ct[nc].c);
    return &ct[nc++].c;
}
int __wrap_pthread_mutex_init(pthread_mutex_t* m, const pthread_mutexattr_t* a) { (void)a; (void)mx(m, 1); return 0; }
int __wrap_pthread_mutex_destroy(pthread_mutex_t* m) { sh_mutex_free(mx(m, 0)); return 0; }
int __wrap_pthread_mutex_lock(pthread_mutex_t* m) { sh_mutex_lock(mx(m, 0)); return 0; }
int __wrap_pthread_mutex_unlock(pthread_mutex_t* m) { sh_mutex_unlock(mx(m, 0)); return 0; }
int sh_fail_cond_init(void) __attribute__((weak));
int __wrap_pthread_cond_init(pthread_cond_t* c, const pthread_condattr_t* a) { (void)a; if (sh_fail_cond_init && sh_fail_cond_init()) return 12; (void)cv(c, 1); return 0; }
int __wrap_pthread_cond_destroy(pthread_cond_t* c) { sh_cond_free(cv(c, 0)); return 0; }
int __wrap_pthread_cond_wait(pthread_cond_t* c, pthread_mutex_t* m) { sh_cond_wait(cv(c, 0), mx(m, 0)); return 0; }
int __wrap_pthread_cond_timedwait(pthread_cond_t* c, pthread_mutex_t* m, const struct timespec* t) {
    (void)t; return sh_cond_timedwait(cv(c, 0), mx(m, 0), 1) ? 0 : ETIMEDOUT;
}
int __wrap_pthread_cond_signal(pthread_cond_t* c) { sh_cond_signal(cv(c, 0)); return 0; }
int __wrap_pthread_cond_broadcast(pthread_cond_t* c) { int i; for (i = 0; i < 16; i++) sh_cond_signal(cv(c, 0)); return 0; }
int __wrap_pthread_create(pthread_t* t, const pthread_attr_t* a, void* (*fn)(void*), void* arg) {
    sh_thread st; (void)a;
    if (!sh_thread_create(&st, fn, arg)) return EAGAIN;
    *t = (pthread_t)(uintptr_t)(st.id + 4096);
    return 0;
}
int __wrap_pthread_join(pthread_t t, void** r) { sh_thread st; st.id = (int)((uintptr_t)t - 4096); if (r) *r = NULL; sh_thread_join(st); return 0; }
