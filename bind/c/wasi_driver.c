/* WASI driver (C12-C15): executes a script of WASI calls against the REAL wasi.c through its public import symbols
 * (wasi_snapshot_preview1__* / wasi_unstable__*), with arguments marshalled in a guest memory exactly as a translated
 * module would, and prints one JSON observation per call: errno, every guest-memory byte the call changed, and (on
 * "ls") the state of the host sandbox directory.  One process per history (wasi.c keeps global state).
 *
 * usage: wasi_driver <sandbox-dir> <script> [args...]      ('--' separates argv from environment entries)
 * script lines (numbers decimal unless noted; paths and data as hex strings, "-" = empty):
 *   open ABI dirfd pathhex oflags rightshex fdflags     write ABI fd seg...      pwrite ABI fd offset seg...
 *   read ABI fd len...        pread ABI fd offset len...      seek ABI fd delta whence      tell ABI fd
 *   filestat ABI fd           close ABI fd                    prestat ABI fd         prestatname ABI fd len
 *   fdstat ABI fd             readdir ABI fd buflen cookie    mkdir|rmdir|unlink ABI fd pathhex
 *   rename ABI fd1 p1 fd2 p2  symlink ABI oldhex fd newhex    readlink ABI fd pathhex buflen
 *   pathstat ABI fd pathhex   sync|datasync ABI fd            ls
 *   argsizes|args|envsizes|env ABI        clock ABI id        random ABI len         exit ABI code
 *   inject FAMILY ERRNO    (only in the build linked with fault_wrap.c: while the NEXT call runs, every host function of
 *                           that family - open, read, write, seek, stat, sync, mkdir, ... - fails with that errno; the
 *                           observation of that call says how often the fault fired)
 * ABI: p = wasi_snapshot_preview1, u = wasi_unstable */
#define _GNU_SOURCE
#include <stdio.h>
#include <stdlib.h>
#include <string.h>
#include <unistd.h>
#include <dirent.h>
#include <fcntl.h>
#include <limits.h>
#include <sys/stat.h>
#include <time.h>
#include <signal.h>
#include <sys/time.h>
#include <pthread.h>
#include <sys/mman.h>
#include "w2c2_base.h"
#include "wasi.h"
/* observations go to a private duplicate of stdout: histories may close the WASI descriptors 0-2 */
static FILE* obs;
#define printf(...) fprintf(obs, __VA_ARGS__)
#define OBS_FLUSH() fflush(obs)

void trap(Trap t) { printf("{\"trap\":%d}\n", (int)t); OBS_FLUSH(); _exit(3); }
static wasmMemory* mem;
wasmMemory* wasiMemory(void* instance) { (void)instance; return mem; }
extern char** environ;

#define DECL2(ret, name, params) ret wasi_snapshot_preview1__##name params; ret wasi_unstable__##name params;
/* prototypes as a translated module declares them (from the WASI specification's signatures) */
DECL2(U32, path_open, (void*, U32, U32, U32, U32, U32, U64, U64, U32, U32))
DECL2(U32, fd_write, (void*, U32, U32, U32, U32))
DECL2(U32, fd_pwrite, (void*, U32, U32, U32, U64, U32))
DECL2(U32, fd_read, (void*, U32, U32, U32, U32))
DECL2(U32, fd_pread, (void*, U32, U32, U32, U64, U32))
DECL2(U32, fd_seek, (void*, U32, U64, U32, U32))
DECL2(U32, fd_tell, (void*, U32, U32))
DECL2(U32, fd_filestat_get, (void*, U32, U32))
DECL2(U32, fd_close, (void*, U32))
DECL2(U32, fd_prestat_get, (void*, U32, U32))
DECL2(U32, fd_prestat_dir_name, (void*, U32, U32, U32))
DECL2(U32, fd_fdstat_get, (void*, U32, U32))
DECL2(U32, fd_readdir, (void*, U32, U32, U32, U64, U32))
DECL2(U32, fd_sync, (void*, U32))
DECL2(U32, fd_datasync, (void*, U32))
DECL2(U32, path_create_directory, (void*, U32, U32, U32))
DECL2(U32, path_remove_directory, (void*, U32, U32, U32))
DECL2(U32, path_unlink_file, (void*, U32, U32, U32))
DECL2(U32, path_rename, (void*, U32, U32, U32, U32, U32, U32))
DECL2(U32, path_symlink, (void*, U32, U32, U32, U32, U32))
DECL2(U32, path_readlink, (void*, U32, U32, U32, U32, U32, U32))
DECL2(U32, path_filestat_get, (void*, U32, U32, U32, U32, U32))
DECL2(U32, args_sizes_get, (void*, U32, U32))
DECL2(U32, args_get, (void*, U32, U32))
DECL2(U32, environ_sizes_get, (void*, U32, U32))
DECL2(U32, environ_get, (void*, U32, U32))
DECL2(U32, clock_time_get, (void*, U32, U64, U32))
DECL2(U32, clock_res_get, (void*, U32, U32))
DECL2(U32, random_get, (void*, U32, U32))
DECL2(void, proc_exit, (void*, U32))
#define CALL(abi, name, args) ((abi) == 'p' ? wasi_snapshot_preview1__##name args : wasi_unstable__##name args)

static volatile long alarms;
static void on_alarm(int sig) { (void)sig; alarms++; }
static void* burner(void* p) {
    long ms = *(long*)p; struct timespec t; volatile unsigned long x = 0;
    do { int i; for (i = 0; i < 100000; i++) x += (unsigned long)i; clock_gettime(CLOCK_THREAD_CPUTIME_ID, &t); }
    while (t.tv_sec * 1000 + t.tv_nsec / 1000000 < ms);
    return NULL;
}
enum { R1 = 0x100, R2 = 0x110, IOV = 0x200, PATH1 = 0x400, WBUF = 0x1000, RBUF = 0x2000, STAT = 0x3000, DIRBUF = 0x4000, PATH2 = 0xC000, BIG = 0x10000 };
#define MEMSIZE (40 * 65536)
static U8* before;
static int callno;
#ifdef VERIF_FAULTS
extern const char* fault_family; extern int fault_errno, fault_fired;
static char pending_family[32]; static int pending_errno, was_armed;
#define ARM() do { if (pending_family[0]) { fault_fired = 0; fault_errno = pending_errno; fault_family = pending_family; was_armed = 1; } else was_armed = 0; } while (0)
#define DISARM() do { fault_family = NULL; pending_family[0] = 0; } while (0)
#else
#define ARM() ((void)0)
#define DISARM() ((void)0)
#endif

static int unhex(const char* s, U8* out) {
    int n = 0;
    if (!strcmp(s, "-")) return 0;
    while (s[0] && s[1]) { unsigned v; sscanf(s, "%2x", &v); out[n++] = (U8)v; s += 2; }
    return n;
}
static void begin(void) { memset(mem->data + R1, 0xEE, 0x100); memset(mem->data + STAT, 0xEE, 0x100); memcpy(before, mem->data, MEMSIZE); }
static void report(const char* call, U32 err) {
    U32 a = 0; int first = 1;
    printf("{\"i\":%d,\"call\":\"%s\",\"errno\":%u,", callno, call, err);
#ifdef VERIF_FAULTS
    if (was_armed) printf("\"fired\":%d,", fault_fired);
#endif
    printf("\"writes\":[");
    while (a < MEMSIZE) {
        if (mem->data[a] != before[a]) {
            U32 b = a;
            printf("%s[%u,\"", first ? "" : ",", a); first = 0;
            /* a run ends after 8 unchanged bytes */
            while (b < MEMSIZE) { U32 k, same = 1; for (k = 0; k < 8 && b + k < MEMSIZE; k++) if (mem->data[b + k] != before[b + k]) same = 0; if (same) break; printf("%02x", mem->data[b]); b++; }
            printf("\"]"); a = b;
        } else a++;
    }
    printf("]}\n"); OBS_FLUSH();
}
static void ls_dir(const char* root, const char* rel, int depth, int* first) {
    char path[4096]; DIR* d; struct dirent* e;
    snprintf(path, sizeof path, "%s/%s", root, rel);
    d = opendir(path);
    if (!d) return;
    while ((e = readdir(d))) {
        char p[4096], r[4096]; struct stat st;
        if (!strcmp(e->d_name, ".") || !strcmp(e->d_name, "..")) continue;
        snprintf(r, sizeof r, "%s%s%s", rel, rel[0] ? "/" : "", e->d_name);
        snprintf(p, sizeof p, "%s/%s", root, r);
        if (lstat(p, &st)) continue;
        printf("%s{\"name\":\"", *first ? "" : ",");
        { const char* q; for (q = r; *q; q++) { if (*q == '"' || *q == '\\') printf("\\%c", *q); else if ((unsigned char)*q < 0x20) printf("\\u%04x", *q); else printf("%c", *q); } }
        printf("\",\"type\":\"%s\",\"size\":%lld,\"ino\":%llu", S_ISDIR(st.st_mode) ? "dir" : S_ISLNK(st.st_mode) ? "link" : S_ISREG(st.st_mode) ? "file" : "other", (long long)st.st_size, (unsigned long long)st.st_ino);
        *first = 0;
        if (S_ISREG(st.st_mode)) {
            FILE* f = fopen(p, "rb"); U8 buf[64]; size_t n, k; long long sz = (long long)st.st_size;
            printf(",\"head\":\"");
            n = f ? fread(buf, 1, 64, f) : 0; for (k = 0; k < n; k++) printf("%02x", buf[k]);
            printf("\",\"tail\":\"");
            if (f && sz > 64) { fseeko(f, sz - 16, SEEK_SET); n = fread(buf, 1, 16, f); for (k = 0; k < n; k++) printf("%02x", buf[k]); }
            printf("\""); if (f) fclose(f);
        } else if (S_ISLNK(st.st_mode)) {
            char t[1024]; ssize_t n = readlink(p, t, sizeof t - 1); size_t k;
            printf(",\"target\":\""); for (k = 0; n > 0 && k < (size_t)n; k++) printf("%02x", (U8)t[k]); printf("\"");
        }
        printf("}");
        if (S_ISDIR(st.st_mode) && depth < 6) ls_dir(root, r, depth + 1, first);
    }
    closedir(d);
}
static U32 putpath(U32 at, const char* hex) { return (U32)unhex(hex, mem->data + at); }
/* the first path of a call lies at PATH1 - or, after "pathsatend 1", so that its last byte is the last byte of linear memory */
static int paths_at_end; static U32 p1;
/* where the segments of a scatter/gather vector lie ("iovlayout N"): 0 each in a slot of its own (S bytes apart), 1 one directly behind the
 * other (an empty segment then points at the end of its predecessor), 2 slots, but an empty segment points at the START of its successor */
static int iov_layout;
static U32 putpath1(const char* hex) { static U8 tmp[70000]; U32 len = (U32)unhex(hex, tmp); p1 = paths_at_end ? (U32)MEMSIZE - len : PATH1; memcpy(mem->data + p1, tmp, len); return len; }

int main(int argc, char** argv) {
    FILE* sc; char line[70000]; const char* sandbox; int ai, nargs = 0, nenv = 0; char* wargv[64]; char* wenv[64];
    if (argc < 3) return 2;
    obs = fdopen(fcntl(1, F_DUPFD, 100), "w");      /* (far away from the numbers 0-2: a host started without one of its standard streams keeps that slot free) */
    if (!obs) return 2;
    sandbox = argv[1];
    for (ai = 3; ai < argc && strcmp(argv[ai], "--"); ai++) wargv[nargs++] = argv[ai];
    for (ai++; ai < argc; ai++) wenv[nenv++] = argv[ai];
    wenv[nenv] = NULL;
    /* how the vectors handed to wasiInit lie in host memory is the embedder's business: VERIF_VEC_LAYOUT = "malloc" (every string
       allocated separately, later entries first), "rotate" (the pointers rotated by one inside the contiguous block of strings that
       the process received - what a permuting getopt leaves; the command line lists the strings rotated the other way, so the
       logical vector is the same), "tails" (an entry that is a suffix of its predecessor points into the predecessor) */
    if (getenv("VERIF_VEC_LAYOUT")) {
        const char* lay = getenv("VERIF_VEC_LAYOUT"); int v_; char** vecs[2]; int cnt[2]; vecs[0] = wargv; vecs[1] = wenv; cnt[0] = nargs; cnt[1] = nenv;
        for (v_ = 0; v_ < 2; v_++) {
            char** vec = vecs[v_]; int n = cnt[v_], k;
            if (!strcmp(lay, "malloc")) { for (k = n - 1; k >= 0; k--) vec[k] = strdup(vec[k]); }
            else if (!strcmp(lay, "rotate") && n > 1) { char* last = vec[n - 1]; for (k = n - 1; k > 0; k--) vec[k] = vec[k - 1]; vec[0] = last; }
            else if (!strcmp(lay, "midrev") && n > 3) { int a = 1, b = n - 2; while (a < b) { char* t_ = vec[a]; vec[a] = vec[b]; vec[b] = t_; a++; b--; } }   /* first and last stay, the middle is reversed */
            else if (!strcmp(lay, "prefix") && v_ == 0 && n + 2 < 64) { vec[n] = "beyond-the-count"; vec[n + 1] = "also-beyond"; }   /* argc names a leading part of a longer array without terminator */
            else if (!strcmp(lay, "tails")) { for (k = 1; k < n; k++) { size_t a = strlen(vec[k - 1]), b = strlen(vec[k]); if (b <= a && !strcmp(vec[k - 1] + a - b, vec[k])) vec[k] = vec[k - 1] + a - b; } }
        }
    }
    mem = wasmMemoryAllocate(40, 40, false);
    before = malloc(MEMSIZE);
    if (!wasiInit(nargs, wargv, wenv)) return 2;
    if (getenv("VERIF_BAD_PREOPENS")) {
        /* an embedder that offers pre-opens the host refuses (no path, a path beyond the host's limit) and carries on: they take no number */
        static char toolong[3 * PATH_MAX]; int r1, r2;
        memset(toolong, 'p', sizeof toolong - 1); toolong[0] = '/';
        r1 = wasiFileDescriptorAdd(-1, "", NULL); r2 = wasiFileDescriptorAdd(-1, toolong, NULL);
        if (r1 || r2) { fprintf(stderr, "pre-open accepted: empty %d, too long %d\n", r1, r2); }
    }
    /* descriptor 3: the pre-opened sandbox - by path only (what the examples do) or, with VERIF_PREOPEN_NATIVE, together with
       a directory descriptor the embedder has opened itself */
    if (!wasiFileDescriptorAdd(getenv("VERIF_PREOPEN_NATIVE") ? open(sandbox, O_RDONLY | O_DIRECTORY) : -1, (char*)sandbox, NULL)) return 2;
    sc = fopen(argv[2], "r");
    while (sc && fgets(line, sizeof line, sc)) {
        char cmd[32], abi = 'p'; char* tok[80]; int nt = 0, k; char* save = NULL, *p;
        U32 err = 0;
        line[strcspn(line, "\n")] = 0;
        for (p = strtok_r(line, " ", &save); p && nt < 80; p = strtok_r(NULL, " ", &save)) tok[nt++] = p;
        if (nt == 0) continue;
        strncpy(cmd, tok[0], 31); cmd[31] = 0;
        if (nt > 1) abi = tok[1][0];
        if (!strcmp(cmd, "pathsatend")) { paths_at_end = atoi(tok[1]); continue; }
        if (!strcmp(cmd, "iovlayout")) { iov_layout = atoi(tok[1]); continue; }
#ifdef VERIF_FAULTS
        if (!strcmp(cmd, "inject")) { strncpy(pending_family, tok[1], 31); pending_errno = atoi(tok[2]); continue; }
#endif
        callno++;
        if (!strcmp(cmd, "ls")) {
            int first = 1; printf("{\"i\":%d,\"call\":\"ls\",\"entries\":[", callno); ls_dir(sandbox, "", 0, &first); printf("]}\n"); OBS_FLUSH(); continue;
        }
        begin();
        ARM();          /* the marshalling below calls no host function */
        if (!strcmp(cmd, "open")) {
            U32 len = putpath1(tok[3]); memcpy(before, mem->data, MEMSIZE);
            err = CALL(abi, path_open, (NULL, (U32)strtoul(tok[2], 0, 10), 0, p1, len, (U32)strtoul(tok[4], 0, 10), strtoull(tok[5], 0, 16), strtoull(tok[5], 0, 16), (U32)strtoul(tok[6], 0, 10), R1));
        } else if (!strcmp(cmd, "write") || !strcmp(cmd, "pwrite")) {
            /* up to 16 segments: 256 bytes apart; more (up to 64): 16 bytes apart */
            int pw = cmd[0] == 'p', base = pw ? 4 : 3, n = nt - base; U32 S = n > 16 ? 0x10 : 0x100;
            { static U8 tmpseg[70000]; U32 lens[80], at = WBUF;
              for (k = 0; k < n; k++) lens[k] = (U32)unhex(tok[base + k], tmpseg);
              for (k = 0; k < n; k++) { U32 l, ptr = iov_layout == 1 ? at : (iov_layout == 2 && lens[k] == 0 && k + 1 < n) ? WBUF + S * (k + 1) : WBUF + S * k;
                  l = (U32)unhex(tok[base + k], mem->data + ptr); at += l; i32_store(mem, IOV + 8 * k, ptr); i32_store(mem, IOV + 8 * k + 4, l); } }
            memcpy(before, mem->data, MEMSIZE);
            err = pw ? CALL(abi, fd_pwrite, (NULL, (U32)strtoul(tok[2], 0, 10), IOV, (U32)n, strtoull(tok[3], 0, 10), R1))
                     : CALL(abi, fd_write, (NULL, (U32)strtoul(tok[2], 0, 10), IOV, (U32)n, R1));
        } else if (!strcmp(cmd, "read") || !strcmp(cmd, "pread")) {
            int pr = cmd[0] == 'p', base = pr ? 4 : 3, n = nt - base; U32 S = n > 16 ? 0x10 : 0x100;
            { U32 at = RBUF;
              for (k = 0; k < n; k++) memset(mem->data + RBUF + S * k, 0xEE, S);
              for (k = 0; k < n; k++) { U32 l = (U32)strtoul(tok[base + k], 0, 10), ptr = iov_layout == 1 ? at : (iov_layout == 2 && l == 0 && k + 1 < n) ? RBUF + S * (k + 1) : RBUF + S * k;
                  at += l; i32_store(mem, IOV + 8 * k, ptr); i32_store(mem, IOV + 8 * k + 4, l); } }
            memcpy(before, mem->data, MEMSIZE);
            err = pr ? CALL(abi, fd_pread, (NULL, (U32)strtoul(tok[2], 0, 10), IOV, (U32)n, strtoull(tok[3], 0, 10), R1))
                     : CALL(abi, fd_read, (NULL, (U32)strtoul(tok[2], 0, 10), IOV, (U32)n, R1));
        } else if (!strcmp(cmd, "seek")) err = CALL(abi, fd_seek, (NULL, (U32)strtoul(tok[2], 0, 10), (U64)strtoll(tok[3], 0, 10), (U32)strtoul(tok[4], 0, 10), R1));
        else if (!strcmp(cmd, "tell")) err = CALL(abi, fd_tell, (NULL, (U32)strtoul(tok[2], 0, 10), R1));
        else if (!strcmp(cmd, "filestat")) err = CALL(abi, fd_filestat_get, (NULL, (U32)strtoul(tok[2], 0, 10), STAT));
        else if (!strcmp(cmd, "close")) err = CALL(abi, fd_close, (NULL, (U32)strtoul(tok[2], 0, 10)));
        else if (!strcmp(cmd, "prestat")) err = CALL(abi, fd_prestat_get, (NULL, (U32)strtoul(tok[2], 0, 10), R1));
        else if (!strcmp(cmd, "prestatname")) { memset(mem->data + PATH2, 0xEE, 0x1000); memcpy(before, mem->data, MEMSIZE); err = CALL(abi, fd_prestat_dir_name, (NULL, (U32)strtoul(tok[2], 0, 10), PATH2, (U32)strtoul(tok[3], 0, 10))); }
        else if (!strcmp(cmd, "fdstat")) err = CALL(abi, fd_fdstat_get, (NULL, (U32)strtoul(tok[2], 0, 10), STAT));
        else if (!strcmp(cmd, "sync")) err = CALL(abi, fd_sync, (NULL, (U32)strtoul(tok[2], 0, 10)));
        else if (!strcmp(cmd, "datasync")) err = CALL(abi, fd_datasync, (NULL, (U32)strtoul(tok[2], 0, 10)));
        else if (!strcmp(cmd, "readdir")) { U32 bl = (U32)strtoul(tok[3], 0, 10); memset(mem->data + DIRBUF, 0xEE, 0x8000); memcpy(before, mem->data, MEMSIZE);
            err = CALL(abi, fd_readdir, (NULL, (U32)strtoul(tok[2], 0, 10), DIRBUF, bl, strtoull(tok[4], 0, 10), R1)); }
        else if (!strcmp(cmd, "mkdir") || !strcmp(cmd, "rmdir") || !strcmp(cmd, "unlink")) {
            U32 len = putpath1(tok[3]), fd = (U32)strtoul(tok[2], 0, 10); memcpy(before, mem->data, MEMSIZE);
            err = cmd[0] == 'm' ? CALL(abi, path_create_directory, (NULL, fd, p1, len)) : cmd[0] == 'r' ? CALL(abi, path_remove_directory, (NULL, fd, p1, len)) : CALL(abi, path_unlink_file, (NULL, fd, p1, len));
        } else if (!strcmp(cmd, "rename")) {
            U32 l1 = putpath1(tok[3]), l2 = putpath(PATH2, tok[5]); memcpy(before, mem->data, MEMSIZE);
            err = CALL(abi, path_rename, (NULL, (U32)strtoul(tok[2], 0, 10), p1, l1, (U32)strtoul(tok[4], 0, 10), PATH2, l2));
        } else if (!strcmp(cmd, "symlink")) {
            U32 l1 = putpath1(tok[2]), l2 = putpath(PATH2, tok[4]); memcpy(before, mem->data, MEMSIZE);
            err = CALL(abi, path_symlink, (NULL, p1, l1, (U32)strtoul(tok[3], 0, 10), PATH2, l2));
        } else if (!strcmp(cmd, "readlink")) {
            U32 l1 = putpath1(tok[3]); memset(mem->data + RBUF, 0xEE, 0x400); memcpy(before, mem->data, MEMSIZE);
            err = CALL(abi, path_readlink, (NULL, (U32)strtoul(tok[2], 0, 10), p1, l1, RBUF, (U32)strtoul(tok[4], 0, 10), R1));
        } else if (!strcmp(cmd, "pathstat")) {
            U32 l1 = putpath1(tok[3]); memcpy(before, mem->data, MEMSIZE);
            err = CALL(abi, path_filestat_get, (NULL, (U32)strtoul(tok[2], 0, 10), 0, p1, l1, STAT));
        } else if (!strcmp(cmd, "argsizes")) err = CALL(abi, args_sizes_get, (NULL, R1, R2));
        else if (!strcmp(cmd, "args")) {
            /* args ABI [ptrs buf nptrbytes nbufbytes]: where the guest wants the pointer array and the strings (default BIG, BIG + 0x1000) */
            U32 pa = nt > 5 ? (U32)strtoul(tok[2], 0, 10) : BIG, ba = nt > 5 ? (U32)strtoul(tok[3], 0, 10) : BIG + 0x1000;
            if (nt > 5) { U32 np = (U32)strtoul(tok[4], 0, 10), nb = (U32)strtoul(tok[5], 0, 10); memset(mem->data + pa, 0xEE, np); memset(mem->data + ba, 0xEE, nb); }
            else memset(mem->data + BIG, 0xEE, 0x40000);
            memcpy(before, mem->data, MEMSIZE); err = CALL(abi, args_get, (NULL, pa, ba)); }
        else if (!strcmp(cmd, "envsizes")) err = CALL(abi, environ_sizes_get, (NULL, R1, R2));
        else if (!strcmp(cmd, "env")) {
            /* env ABI [ptrs buf nptrbytes nbufbytes]: where the guest wants the pointer array and the strings (default BIG, BIG + 0x1000) */
            U32 pa = nt > 5 ? (U32)strtoul(tok[2], 0, 10) : BIG, ba = nt > 5 ? (U32)strtoul(tok[3], 0, 10) : BIG + 0x1000;
            if (nt > 5) { U32 np = (U32)strtoul(tok[4], 0, 10), nb = (U32)strtoul(tok[5], 0, 10); memset(mem->data + pa, 0xEE, np); memset(mem->data + ba, 0xEE, nb); }
            else memset(mem->data + BIG, 0xEE, 0x40000);
            memcpy(before, mem->data, MEMSIZE); err = CALL(abi, environ_get, (NULL, pa, ba)); }
        else if (!strcmp(cmd, "bigargs") || !strcmp(cmd, "bigenv")) {
            /* bigargs|bigenv ABI ptrs buf: the same calls in a memory of 65536 pages (4 GiB of address space, reserved, touched only where
             * the call writes): any placement a 32-bit guest address can name.  Reports the pointer array, the string area and whether the
             * 16 bytes on either side of both stayed as they were. */
            static wasmMemory bigm; wasmMemory* small = mem; int isargs = cmd[3] == 'a';
            unsigned long long pa = strtoull(tok[2], 0, 10), ba = strtoull(tok[3], 0, 10), q; U32 count, total, k2; int guards = 1;
            if (!bigm.data) {
                bigm.data = mmap(NULL, (size_t)1 << 32, PROT_READ | PROT_WRITE, MAP_PRIVATE | MAP_ANONYMOUS | MAP_NORESERVE, -1, 0);
                if (bigm.data == MAP_FAILED) { printf("{\"i\":%d,\"call\":\"%s\",\"nomem\":true}\n", callno, cmd); bigm.data = NULL; continue; }
                bigm.pages = bigm.maxPages = 65536; bigm.size = 0;
            }
            mem = &bigm;
            err = isargs ? CALL(abi, args_sizes_get, (NULL, R1, R2)) : CALL(abi, environ_sizes_get, (NULL, R1, R2));
            memcpy(&count, bigm.data + R1, 4); memcpy(&total, bigm.data + R2, 4);
#define WIN(lo, n, body) for (q = (lo) >= 16 ? (lo) - 16 : 0; q < (lo) + (n) + 16 && q < (1ULL << 32); q++) { body; }
            WIN(pa, 4ULL * count, bigm.data[q] = 0xEE) WIN(ba, (unsigned long long)total, bigm.data[q] = 0xEE)
            if (!err) err = isargs ? CALL(abi, args_get, (NULL, (U32)pa, (U32)ba)) : CALL(abi, environ_get, (NULL, (U32)pa, (U32)ba));
            WIN(pa, 4ULL * count, if ((q < pa || q >= pa + 4ULL * count) && !(q >= ba && q < ba + total) && bigm.data[q] != 0xEE) guards = 0)
            WIN(ba, (unsigned long long)total, if ((q < ba || q >= ba + total) && !(q >= pa && q < pa + 4ULL * count) && bigm.data[q] != 0xEE) guards = 0)
            printf("{\"i\":%d,\"call\":\"%s\",\"errno\":%u,\"count\":%u,\"total\":%u,\"guards\":%s,\"ptrs\":[", callno, cmd, err, count, total, guards ? "true" : "false");
            for (k2 = 0; k2 < count; k2++) { U32 v_; memcpy(&v_, bigm.data + pa + 4ULL * k2, 4); printf("%s%u", k2 ? "," : "", v_); }
            printf("],\"bytes\":\"");
            for (k2 = 0; k2 < total; k2++) printf("%02x", bigm.data[ba + k2]);
            printf("\"}\n"); OBS_FLUSH();
            mem = small; continue;
        }
        else if (!strcmp(cmd, "clock")) {
            /* the same clock is read by this thread before and after the call: the WASI value must lie in between */
            struct timespec t0, t1; unsigned long wid = strtoul(tok[2], 0, 10);
            clockid_t cid = wid == 1 ? CLOCK_MONOTONIC : wid == 2 ? CLOCK_PROCESS_CPUTIME_ID : wid == 3 ? CLOCK_THREAD_CPUTIME_ID : CLOCK_REALTIME;
            clock_gettime(cid, &t0);
            err = CALL(abi, clock_time_get, (NULL, (U32)strtoul(tok[2], 0, 10), nt > 3 ? strtoull(tok[3], 0, 10) : 1, R1));
            clock_gettime(cid, &t1);
            printf("{\"i\":%d,\"bracket\":[%ld,%ld,%ld,%ld]}\n", callno, (long)t0.tv_sec, (long)t0.tv_nsec, (long)t1.tv_sec, (long)t1.tv_nsec);
        } else if (!strcmp(cmd, "clockres")) {
            /* the resolution the host reports for the same clock */
            struct timespec r; unsigned long wid = strtoul(tok[2], 0, 10);
            clockid_t cid = wid == 1 ? CLOCK_MONOTONIC : wid == 2 ? CLOCK_PROCESS_CPUTIME_ID : wid == 3 ? CLOCK_THREAD_CPUTIME_ID : CLOCK_REALTIME;
            clock_getres(cid, &r);
            err = CALL(abi, clock_res_get, (NULL, (U32)wid, R1));
            printf("{\"i\":%d,\"hostres\":[%ld,%ld]}\n", callno, (long)r.tv_sec, (long)r.tv_nsec);
        } else if (!strcmp(cmd, "clockseq")) {
            /* clockseq ABI id precision...: the calls follow each other directly (no snapshotting in between), results at BIG + 8k */
            int n = nt - 3; U32 e = 0, bad = 0; U32 wid = (U32)strtoul(tok[2], 0, 10);
            for (k = 0; k < n; k++) { e = CALL(abi, clock_time_get, (NULL, wid, strtoull(tok[3 + k], 0, 10), BIG + 8 * (U32)k)); if (e) bad = e; }
            printf("{\"i\":%d,\"call\":\"clockseq\",\"errno\":%u,\"ts\":[", callno, bad);
            for (k = 0; k < n; k++) printf("%s%llu", k ? "," : "", (unsigned long long)i64_load(mem, BIG + 8 * (U32)k));
            printf("]}\n"); OBS_FLUSH();
            continue;
        } else if (!strcmp(cmd, "burn")) {
            /* a helper thread uses the given milliseconds of CPU: afterwards the process CPU clock is far ahead of this thread's */
            pthread_t th; long ms = strtol(tok[2], 0, 10);
            pthread_create(&th, NULL, burner, &ms); pthread_join(th, NULL);
            printf("{\"i\":%d,\"call\":\"burn\",\"errno\":0,\"changed\":[]}\n", callno); OBS_FLUSH();
            continue;
        } else if (!strcmp(cmd, "random")) {
            U32 len = (U32)strtoul(tok[2], 0, 10), fill = (U32)strtoul(tok[3], 0, 10); memset(mem->data + BIG - 64, (int)fill, len + 128);
            memcpy(before, mem->data, MEMSIZE);
            err = CALL(abi, random_get, (NULL, BIG, len));
            { U32 a, run = 0, maxrun = 0, outside = 0;
              for (a = 0; a < len; a++) { if (mem->data[BIG + a] == (U8)fill) { run++; if (run > maxrun) maxrun = run; } else run = 0; }
              for (a = 0; a < 64; a++) { if (mem->data[BIG - 64 + a] != (U8)fill) outside++; if (BIG + len + a < MEMSIZE && mem->data[BIG + len + a] != (U8)fill) outside++; }
              printf("{\"i\":%d,\"call\":\"random\",\"errno\":%u,\"len\":%u,\"longest_unchanged_run\":%u,\"outside_changed\":%u}\n", callno, err, len, maxrun, outside); OBS_FLUSH(); }
            continue;
        } else if (!strcmp(cmd, "sigrandom")) {
            /* random_get while signals keep arriving (an interval timer without SA_RESTART): a request the host serves in pieces,
               or that is interrupted, is still filled completely */
            U32 len = (U32)strtoul(tok[2], 0, 10), fill = 0x5A, a, run = 0, maxrun = 0; struct sigaction sa; struct itimerval itv;
            memset(mem->data + BIG, (int)fill, len + 64);
            memset(&sa, 0, sizeof sa); sa.sa_handler = on_alarm; sigaction(SIGALRM, &sa, NULL);
            itv.it_interval.tv_sec = 0; itv.it_interval.tv_usec = 40; itv.it_value = itv.it_interval; setitimer(ITIMER_REAL, &itv, NULL);
            err = CALL(abi, random_get, (NULL, BIG, len));
            memset(&itv, 0, sizeof itv); setitimer(ITIMER_REAL, &itv, NULL);
            for (a = 0; a < len; a++) { if (mem->data[BIG + a] == (U8)fill) { run++; if (run > maxrun) maxrun = run; } else run = 0; }
            printf("{\"i\":%d,\"call\":\"sigrandom\",\"errno\":%u,\"len\":%u,\"longest_unchanged_run\":%u,\"signals\":%ld}\n", callno, err, len, maxrun, alarms); OBS_FLUSH();
            continue;
        } else if (!strcmp(cmd, "exit")) { OBS_FLUSH(); CALL(abi, proc_exit, (NULL, (U32)strtoul(tok[2], 0, 10))); printf("{\"i\":%d,\"call\":\"exit\",\"returned\":true}\n", callno); continue; }
        else { printf("{\"i\":%d,\"unknown\":\"%s\"}\n", callno, cmd); continue; }
        DISARM();
        report(cmd, err);
    }
    return 0;
}
