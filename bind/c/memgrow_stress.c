/* C18 stress on real threads (no sanitizer): fitting grows, grows that can never fit (too large, wrapping) and grow(0)
 * against size queries.  Reports what the specification forbids: a size outside [initial, maximum], a size that goes down
 * for one observer, two successful grows returning the same old size, a final size different from initial + sum of deltas,
 * a failing grow returning anything but -1.  usage: memgrow_stress <rounds> */
#include <stdio.h>
#include <stdlib.h>
#include <string.h>
#include <pthread.h>
#include "w2c2_base.h"
void trap(Trap t) { (void)t; abort(); }
#define INIT 1
#define MAXP 8
static wasmMemory* mem;
static pthread_barrier_t bar;
static volatile int stop;
static long bad_range, bad_down, bad_dup, bad_final, bad_fail, bad_zero;
static U32 olds[64]; static int nolds; static pthread_mutex_t lg = PTHREAD_MUTEX_INITIALIZER;
static void* fitting(void* a) { int i; (void)a; pthread_barrier_wait(&bar);
    for (i = 0; i < 4; i++) { U32 r = wasmMemoryGrow(mem, 1); if (r != (U32)-1) { pthread_mutex_lock(&lg); olds[nolds++] = r; pthread_mutex_unlock(&lg); } }
    return NULL; }
static void* unfitting(void* a) { long k = (long)a; int i; pthread_barrier_wait(&bar);
    for (i = 0; i < 200; i++) { U32 r = wasmMemoryGrow(mem, k % 2 ? 0xFFFFFFFFu : 100u); if (r != (U32)-1) __atomic_add_fetch(&bad_fail, 1, __ATOMIC_RELAXED); }
    return NULL; }
static void* zero(void* a) { int i; U32 last = INIT; (void)a; pthread_barrier_wait(&bar);
    for (i = 0; i < 400; i++) { U32 r = wasmMemoryGrow(mem, 0);
        if (r == (U32)-1 || r < INIT || r > MAXP) __atomic_add_fetch(&bad_zero, 1, __ATOMIC_RELAXED);
        else { if (r < last) __atomic_add_fetch(&bad_down, 1, __ATOMIC_RELAXED); last = r; } }
    return NULL; }
static void* sizer(void* a) { U32 last = INIT; (void)a; pthread_barrier_wait(&bar);
    while (!stop) { U32 p = __atomic_load_n(&mem->pages, __ATOMIC_RELAXED);       /* what memory.size reads */
        if (p < INIT || p > MAXP) __atomic_add_fetch(&bad_range, 1, __ATOMIC_RELAXED);
        if (p < last) __atomic_add_fetch(&bad_down, 1, __ATOMIC_RELAXED);
        last = p; }
    return NULL; }
int main(int argc, char** argv) {
    int rounds = argc > 1 ? atoi(argv[1]) : 30, r, i, j;
    for (r = 0; r < rounds; r++) {
        pthread_t t[8]; U32 fin;
        mem = WASM_MEMORY_ALLOCATE_SHARED(INIT, MAXP); nolds = 0; stop = 0;
        pthread_barrier_init(&bar, NULL, 8);
        pthread_create(&t[0], NULL, fitting, NULL); pthread_create(&t[1], NULL, fitting, NULL);
        pthread_create(&t[2], NULL, unfitting, (void*)0L); pthread_create(&t[3], NULL, unfitting, (void*)1L);
        pthread_create(&t[4], NULL, zero, NULL); pthread_create(&t[5], NULL, zero, NULL);
        pthread_create(&t[6], NULL, sizer, NULL); pthread_create(&t[7], NULL, sizer, NULL);
        for (i = 0; i < 6; i++) pthread_join(t[i], NULL);
        stop = 1; pthread_join(t[6], NULL); pthread_join(t[7], NULL);
        fin = mem->pages;
        for (i = 0; i < nolds; i++) for (j = i + 1; j < nolds; j++) if (olds[i] == olds[j]) bad_dup++;
        if (fin != (U32)(INIT + nolds) || mem->size != fin * 65536u) bad_final++;
        wasmMemoryFree(mem);
    }
    printf("{\"rounds\":%d,\"size_out_of_range\":%ld,\"size_went_down\":%ld,\"duplicate_old_sizes\":%ld,\"final_mismatch\":%ld,"
           "\"impossible_grow_succeeded\":%ld,\"grow0_out_of_range\":%ld}\n", rounds, bad_range, bad_down, bad_dup, bad_final, bad_fail, bad_zero);
    return 0;
}
