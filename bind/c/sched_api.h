/* Interface of the deterministic thread layer (sched.c); sched_shim.h maps the runtime's thread macros to it,
 * sched_pthread.c the pthread functions (linked with --wrap).
 * Deterministic thread layer for the w2c2 runtime (C17, C18, C16).
 * Force-included (-include) before w2c2_base.h, with neither WASM_THREADS_PTHREADS
 * nor WASM_THREADS_WIN32 defined: the runtime and futex.c then reach threads,
 * mutexes and condition variables only through the macros below - no source change.
 *
 * Every macro is a scheduling point of a controller that lets exactly one
 * logical thread run (sched.c).  What may happen at a point is a list of
 * options; which one happens is read from the schedule prefix in $SCHED and
 * otherwise the default (keep running the current thread).  The explorer
 * enumerates prefixes depth-first, so all interleavings (up to a preemption
 * bound) are visited, including spurious condition-variable wake-ups and
 * time-outs, which are scheduler choices, not wall-clock events.
 */
#ifndef SCHED_API_H
#define SCHED_API_H
#include <stddef.h>
typedef struct sh_thread { int id; } sh_thread;
typedef struct sh_mutex { int id; int owner; } sh_mutex;
typedef struct sh_cond { int id; } sh_cond;
int  sh_thread_create(sh_thread* t, void* (*fn)(void*), void* arg);
void sh_thread_join(sh_thread t);
int  sh_mutex_init(sh_mutex* m);
void sh_mutex_free(sh_mutex* m);
void sh_mutex_lock(sh_mutex* m);
void sh_mutex_unlock(sh_mutex* m);
int  sh_cond_init(sh_cond* c);
void sh_cond_free(sh_cond* c);
void sh_cond_wait(sh_cond* c, sh_mutex* m);
int  sh_cond_timedwait(sh_cond* c, sh_mutex* m, long long timeout);   /* 0 = timed out */
void sh_cond_signal(sh_cond* c);
void sh_point(const char* what);      /* plain scheduling point (e.g. around a shared access) */
void sh_api(const char* ev, const char* op, long long a, long long b, long long c, long long res);
#endif
