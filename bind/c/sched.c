/* Controller for sched_shim.h: cooperative scheduling of logical threads on real
 * pthreads (a baton makes exactly one run), schedule replay from $SCHED, logging of
 * API-level and sync-level events as ndjson on the file descriptor in $SCHED_OUT_FD
 * (default stdout).  See sched_shim.h. */
#include <pthread.h>
#include <stdio.h>
#include <stdlib.h>
#include <string.h>
#include <unistd.h>
#include "sched_shim.h"

#define MAXT 12
enum { ST_UNUSED, ST_RUNNABLE, ST_BLOCK_MUTEX, ST_BLOCK_COND, ST_BLOCK_JOIN, ST_DONE };
typedef struct {
    int state;
    pthread_t pt;
    pthread_cond_t go;
    void* (*fn)(void*); void* arg;
    sh_mutex* mutex; sh_cond* cond; int timed; int joinee;
    int signalled;        /* a signal was delivered to this waiter */
    int wake_reason;      /* 1 signal, 2 spurious, 3 timeout */
} LT;
static LT lt[MAXT];
static int nthreads, current = -1;
static pthread_mutex_t big = PTHREAD_MUTEX_INITIALIZER;
static int next_mutex_id, next_cond_id;
static FILE* logf;
static long seq;

/* schedule */
static int prefix[4096], nprefix, pos;
static int chosen[4096], nopts[4096];
static int preemptions, max_preemptions = 2, spurious_budget = 1, max_steps = 3000;
static int sync_log = 1;

static int misuse;          /* unlocks and condition waits by a thread that does not own the mutex (undefined for real mutexes) */
static void out_choices(const char* outcome) {
    int i;
    fprintf(logf, "{\"ev\":\"end\",\"outcome\":\"%s\",\"misuse\":%d,\"choices\":[", outcome, misuse);
    for (i = 0; i < pos; i++) fprintf(logf, "%s[%d,%d]", i ? "," : "", chosen[i], nopts[i]);
    fprintf(logf, "]}\n");
    fflush(logf);
}

static void slog(const char* ev, int obj, const char* why) {
    if (!sync_log) return;
    fprintf(logf, "{\"ev\":\"%s\",\"t\":%d,\"obj\":%d,\"why\":\"%s\",\"seq\":%ld}\n", ev, current, obj, why, ++seq);
}

/* "has started blocking": the first time a thread goes to sleep on a condition variable inside a wait call of the API is
 * logged as an event of its own (a later notify on that address has to see this waiter) */
static int in_wait_call[MAXT], block_logged[MAXT];
void sh_api(const char* ev, const char* op, long long a, long long b, long long c, long long res) {
    if (current >= 0 && current < MAXT) {
        if (ev[0] == 'c') { in_wait_call[current] = op[0] == 'w' && op[1] == 'a'; block_logged[current] = 0; }
        else if (ev[0] == 'r') in_wait_call[current] = 0;
    }
    fprintf(logf, "{\"ev\":\"%s\",\"t\":%d,\"op\":\"%s\",\"a\":%lld,\"b\":%lld,\"c\":%lld,\"res\":%lld,\"seq\":%ld}\n",
            ev, current, op, a, b, c, res, ++seq);
}

typedef struct { int t; int how; } Opt;   /* how: 0 run, 1 wake by signal, 2 spurious, 3 timeout */

static int enabled(Opt* o) {
    int n = 0, i, k, order[MAXT], no = 0;
    /* the current thread first (option 0 = no context switch), then the others by id */
    if (current >= 0) order[no++] = current;
    for (i = 0; i < nthreads; i++) if (i != current) order[no++] = i;
    for (k = 0; k < no; k++) {
        i = order[k];
        switch (lt[i].state) {
        case ST_RUNNABLE: o[n].t = i; o[n].how = 0; n++; break;
        case ST_BLOCK_MUTEX: if (lt[i].mutex->owner < 0) { o[n].t = i; o[n].how = 0; n++; } break;
        case ST_BLOCK_JOIN: if (lt[lt[i].joinee].state == ST_DONE) { o[n].t = i; o[n].how = 0; n++; } break;
        case ST_BLOCK_COND:
            if (lt[i].signalled) { o[n].t = i; o[n].how = 1; n++; }
            else {
                if (spurious_budget > 0) { o[n].t = i; o[n].how = 2; n++; }
                if (lt[i].timed) { o[n].t = i; o[n].how = 3; n++; }
            }
            break;
        default: break;
        }
    }
    return n;
}

/* called with `big` held by the thread that currently has the baton (or by main at start) */
static void schedule(void) {
    Opt o[4 * MAXT];
    int me = current, n, c, i, alldone = 1;
    for (;;) {
        n = enabled(o);
        if (n == 0) {
            for (i = 0; i < nthreads; i++) if (lt[i].state != ST_DONE) alldone = 0;
            out_choices(alldone ? "complete" : "deadlock");
            _exit(0);
        }
        if (pos >= max_steps) { out_choices("steplimit"); _exit(0); }
        {
            int cur_enabled = (me >= 0 && o[0].t == me);
            int nn = n;
            if (cur_enabled && preemptions >= max_preemptions) nn = 1;     /* no further preemption */
            c = pos < nprefix ? prefix[pos] : 0;
            if (c >= nn) c = 0;
            chosen[pos] = c; nopts[pos] = nn; pos++;
            if (cur_enabled && c != 0) preemptions++;
        }
        /* apply the option */
        i = o[c].t;
        if (lt[i].state == ST_BLOCK_COND) {
            lt[i].wake_reason = o[c].how;
            if (o[c].how == 2) spurious_budget--;
            lt[i].signalled = 0;
            /* the waiter now has to reacquire its mutex */
            lt[i].state = ST_BLOCK_MUTEX;
            current = i; slog("cwake", lt[i].cond->id, o[c].how == 1 ? "signal" : o[c].how == 2 ? "spurious" : "timeout"); current = me;
            continue;                       /* choosing who runs is a further step */
        }
        if (lt[i].state == ST_BLOCK_MUTEX) { lt[i].mutex->owner = i; }
        lt[i].state = ST_RUNNABLE;
        current = i;
        if (i != me) {
            pthread_cond_signal(&lt[i].go);
            if (me >= 0) {
                while (current != me) pthread_cond_wait(&lt[me].go, &big);
            }
        }
        return;
    }
}

static void* trampoline(void* p) {
    LT* t = (LT*)p;
    int me = (int)(t - lt);
    pthread_mutex_lock(&big);
    while (current != me) pthread_cond_wait(&t->go, &big);
    pthread_mutex_unlock(&big);
    t->fn(t->arg);
    pthread_mutex_lock(&big);
    t->state = ST_DONE;
    slog("exit", me, "");
    schedule();                               /* never returns to a finished thread */
    pthread_mutex_unlock(&big);
    for (;;) pause();
    return NULL;
}

int sh_thread_create(sh_thread* t, void* (*fn)(void*), void* arg) {
    int id;
    pthread_mutex_lock(&big);
    id = nthreads++;
    lt[id].state = ST_RUNNABLE; lt[id].fn = fn; lt[id].arg = arg;
    pthread_cond_init(&lt[id].go, NULL);
    pthread_create(&lt[id].pt, NULL, trampoline, &lt[id]);
    t->id = id;
    pthread_mutex_unlock(&big);
    return 1;
}

void sh_thread_join(sh_thread t) {
    pthread_mutex_lock(&big);
    if (lt[t.id].state != ST_DONE) {
        lt[current].state = ST_BLOCK_JOIN; lt[current].joinee = t.id;
        schedule();
    }
    pthread_mutex_unlock(&big);
}

int sh_mutex_init(sh_mutex* m) { m->id = ++next_mutex_id; m->owner = -1; return 1; }
void sh_mutex_free(sh_mutex* m) { (void)m; }
/* creating a condition variable is a scheduling point too: in futex.c it sits between the value check of a wait and
 * the publication of the waiter, so a preemption here lets others run while the waiter is half registered */
int sh_fail_cond_init(void) __attribute__((weak));   /* a driver may make the next initialisation fail (host resource exhaustion) */
int sh_cond_init(sh_cond* c) {
    if (sh_fail_cond_init && sh_fail_cond_init()) return 0;
    pthread_mutex_lock(&big);
    c->id = ++next_cond_id;
    if (current >= 0) schedule();
    pthread_mutex_unlock(&big);
    return 1;
}
void sh_cond_free(sh_cond* c) { c->id = -c->id; }

void sh_point(const char* what) {
    pthread_mutex_lock(&big);
    (void)what;
    schedule();
    pthread_mutex_unlock(&big);
}

void sh_mutex_lock(sh_mutex* m) {
    pthread_mutex_lock(&big);
    lt[current].state = ST_BLOCK_MUTEX; lt[current].mutex = m;
    schedule();                               /* returns when this thread owns m */
    slog("lock", m->id, "");
    pthread_mutex_unlock(&big);
}

void sh_mutex_unlock(sh_mutex* m) {
    pthread_mutex_lock(&big);
    if (m->owner != current) { misuse++; slog("badunlock", m->id, ""); }
    m->owner = -1;
    slog("unlock", m->id, "");
    schedule();
    pthread_mutex_unlock(&big);
}

static int cond_block(sh_cond* c, sh_mutex* m, int timed) {
    int me, r;
    pthread_mutex_lock(&big);
    me = current;
    slog("cwait", c->id, timed ? "timed" : "");
    if (in_wait_call[me] && !block_logged[me]) { block_logged[me] = 1; fprintf(logf, "{\"ev\":\"blocked\",\"t\":%d,\"seq\":%ld}\n", me, ++seq); }
    if (m->owner != me) { misuse++; slog("badwait", m->id, ""); }
    m->owner = -1;
    lt[me].state = ST_BLOCK_COND; lt[me].cond = c; lt[me].mutex = m; lt[me].timed = timed; lt[me].signalled = 0;
    schedule();                               /* returns after wake-up AND reacquisition of m */
    r = lt[me].wake_reason;
    slog("creturn", c->id, r == 1 ? "signal" : r == 2 ? "spurious" : "timeout");
    pthread_mutex_unlock(&big);
    return r;
}

void sh_cond_wait(sh_cond* c, sh_mutex* m) { (void)cond_block(c, m, 0); }
int sh_cond_timedwait(sh_cond* c, sh_mutex* m, long long timeout) { (void)timeout; return cond_block(c, m, 1) != 3; }

void sh_cond_signal(sh_cond* c) {
    int i;
    pthread_mutex_lock(&big);
    slog("signal", c->id, "");
    /* POSIX: unblocks at least one waiter, if any; here exactly one (per-waiter condition variables in futex.c) */
    for (i = 0; i < nthreads; i++)
        if (lt[i].state == ST_BLOCK_COND && lt[i].cond == c && !lt[i].signalled) { lt[i].signalled = 1; break; }
    schedule();
    pthread_mutex_unlock(&big);
}

/* entry: the test program calls sh_run(main_fn) */
void sh_run(void* (*mainfn)(void*), void* arg) {
    const char* s = getenv("SCHED");
    const char* e;
    sh_thread t;
    logf = stdout;
    if ((e = getenv("SCHED_PREEMPT"))) max_preemptions = atoi(e);
    if ((e = getenv("SCHED_SPURIOUS"))) spurious_budget = atoi(e);
    if ((e = getenv("SCHED_SYNCLOG"))) sync_log = atoi(e);
    while (s && *s) {
        prefix[nprefix++] = (int)strtol(s, (char**)&s, 10);
        if (*s == ',') s++;
    }
    sh_thread_create(&t, mainfn, arg);
    pthread_mutex_lock(&big);
    current = -1;
    schedule();                               /* hands the baton to thread 0; main only waits */
    pthread_mutex_unlock(&big);
    for (;;) pause();
}
