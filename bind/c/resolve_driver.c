/* C14 driver for resolvePath: stdin lines "dirLen dirSlash pathLen abs"; the guest path is placed UNTERMINATED directly in front of a
 * PROT_NONE page, the result buffer (PATH_MAX bytes) directly in front of another; prints "ret resultLen ok" (ok = result equals
 * the expected concatenation and is NUL-terminated inside the buffer). */
#define _GNU_SOURCE
#include <stdio.h>
#include <stdlib.h>
#include <string.h>
#include <limits.h>
#include <sys/mman.h>
#include <unistd.h>
#include "w2c2_base.h"
void trap(Trap t) { (void)t; abort(); }
wasmMemory* wasiMemory(void* i) { (void)i; return NULL; }
bool resolvePath(char* directory, char* path, U32 pathLength, char result[PATH_MAX]);
static char* guarded(size_t n, size_t pages) {      /* n usable bytes ending exactly at an inaccessible page */
    size_t pg = (size_t)sysconf(_SC_PAGESIZE), total = (pages + 1) * pg;
    char* base = mmap(NULL, total, PROT_READ | PROT_WRITE, MAP_PRIVATE | MAP_ANONYMOUS, -1, 0);
    mprotect(base + pages * pg, pg, PROT_NONE);
    return base + pages * pg - n;
}
int main(void) {
    long dl, ds, pl, ab;
    while (scanf("%ld %ld %ld %ld", &dl, &ds, &pl, &ab) == 4) {
        char* dir = malloc((size_t)dl + 1); char* path = guarded((size_t)pl, 4); char* res = guarded(PATH_MAX, 2);
        char* want = malloc((size_t)dl + (size_t)pl + 8); size_t wl = 0; bool r; long k;
        dir[0] = '/'; for (k = 1; k < dl; k++) dir[k] = 'd'; if (ds && dl > 1) dir[dl - 1] = '/'; dir[dl] = 0;
        for (k = 0; k < pl; k++) path[k] = 'p'; if (ab && pl > 0) path[0] = '/';
        memset(res, 0x55, PATH_MAX);
        if (ab) { memcpy(want, path, (size_t)pl); wl = (size_t)pl; }
        else { memcpy(want, dir, (size_t)dl); wl = (size_t)dl; if (dir[dl - 1] != '/') want[wl++] = '/'; memcpy(want + wl, path, (size_t)pl); wl += (size_t)pl; }
        r = resolvePath(dir, path, (U32)pl, res);
        printf("%d %ld %d\n", r ? 1 : 0, r ? (long)strnlen(res, PATH_MAX) : -1L, r ? (strnlen(res, PATH_MAX) == wl && wl < PATH_MAX && memcmp(res, want, wl) == 0) : 1);
        fflush(stdout);
    }
    return 0;
}
