/* C18 race observer: real threads on a real shared memory, built with -fsanitize=thread.
 * Threads grow, query the size (as memory.size is translated: a plain read of .pages) and access data. */
#include <stdio.h>
#include <stdlib.h>
#include "w2c2_base.h"
void trap(Trap t) { (void)t; abort(); }
static wasmMemory* mem;
static volatile U32 sink;
static void* grower(void* a) { int i; (void)a; for (i = 0; i < 3; i++) (void)wasmMemoryGrow(mem, 1); return NULL; }
static void* sizer(void* a) { int i; (void)a; for (i = 0; i < 2000; i++) sink += mem->pages; return NULL; }
static void* toucher(void* a) { int i; (void)a; for (i = 0; i < 2000; i++) { i32_store(mem, (U64)(64 + 4 * (i % 8)), (U32)i); sink += i32_load(mem, 128); } return NULL; }
int main(int argc, char** argv) {
    pthread_t t[4]; int i, mode = argc > 1 ? atoi(argv[1]) : 0;
    mem = WASM_MEMORY_ALLOCATE_SHARED(1, 8);
    pthread_create(&t[0], NULL, grower, NULL);
    pthread_create(&t[1], NULL, mode == 0 ? grower : mode == 1 ? sizer : toucher, NULL);
    for (i = 0; i < 2; i++) pthread_join(t[i], NULL);
    printf("pages=%u\n", mem->pages);
    return 0;
}
