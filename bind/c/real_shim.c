/* Real-thread counterpart of sched.c for the futex driver (C17): the driver is built with -DWASM_THREADS_PTHREADS, so the
 * runtime's own pthread macros and its timed condition wait (real deadlines) are in use; this file only provides the
 * logging entry points the driver calls.  A watchdog reports a run that does not finish. */
#include <stdio.h>
#include <stdlib.h>
#include <string.h>
#include <pthread.h>
#include <signal.h>
#include <time.h>
#include <unistd.h>
static pthread_mutex_t lg = PTHREAD_MUTEX_INITIALIZER;
static long seq;
static pthread_t tids[32]; static int ntids;
static int me(void) { int i; pthread_t s = pthread_self(); for (i = 0; i < ntids; i++) if (pthread_equal(tids[i], s)) return i; if (ntids < 32) { tids[ntids] = s; return ntids++; } return -1; }
static double now_ms(void) { struct timespec t; clock_gettime(CLOCK_MONOTONIC, &t); return t.tv_sec * 1000.0 + t.tv_nsec / 1e6; }
void sh_api(const char* ev, const char* op, long long a, long long b, long long c, long long res) {
    pthread_mutex_lock(&lg);
    printf("{\"ev\":\"%s\",\"t\":%d,\"op\":\"%s\",\"a\":%lld,\"b\":%lld,\"c\":%lld,\"res\":%lld,\"seq\":%ld,\"ms\":%.3f}\n", ev, me(), op, a, b, c, res, ++seq, now_ms());
    fflush(stdout);
    pthread_mutex_unlock(&lg);
}
void sh_point(const char* what) { (void)what; }
static void hang(int s) { static const char m[] = "{\"ev\":\"hang\"}\n"; (void)s; if (write(1, m, sizeof m - 1)) {} _exit(4); }
void sh_run(void* (*mainfn)(void*), void* arg) {
    signal(SIGALRM, hang); alarm(8);
    (void)me();
    mainfn(arg);
    printf("{\"ev\":\"end\",\"outcome\":\"complete\",\"choices\":[]}\n"); fflush(stdout);
}
