/* Real-thread counterpart of sched.c for the futex driver (C17): the driver is built with -DWASM_THREADS_PTHREADS, so the
 * runtime's own pthread macros and its timed condition wait (real deadlines) are in use; this file only provides the
 * logging entry points the driver calls.  A watchdog reports a run that does not finish. */
#include <stdio.h>
#include <stdlib.h>
#include <string.h>
#include <pthread.h>
#include <signal.h>
#include <time.h>
#include <unistd.h>
#include <errno.h>
static pthread_mutex_t lg = PTHREAD_MUTEX_INITIALIZER;
static long seq;
static pthread_t tids[32]; static int ntids;
static int me(void) { int i; pthread_t s = pthread_self(); for (i = 0; i < ntids; i++) if (pthread_equal(tids[i], s)) return i; if (ntids < 32) { tids[ntids] = s; return ntids++; } return -1; }
static double now_ms(void) { struct timespec t; clock_gettime(CLOCK_MONOTONIC, &t); return t.tv_sec * 1000.0 + t.tv_nsec / 1e6; }
void sh_api(const char* ev, const char* op, long long a, long long b, long long c, long long res) {
    pthread_mutex_lock(&lg);
    printf("{\"ev\":\"%s\",\"t\":%d,\"op\":\"%s\",\"a\":%lld,\"b\":%lld,\"c\":%lld,\"res\":%lld,\"seq\":%ld,\"ms\":%.3f}\n", ev, me(), op, a, b, c, res, ++seq, now_ms());
    fflush(stdout);
    pthread_mutex_unlock(&lg);
}
void sh_point(const char* what) { (void)what; }

/* Spurious wake-ups at chosen moments (POSIX allows them at any time): FX_SPURIOUS="120,260" makes a thread's timed condition
 * waits return without signal or time-out 120 ms and 260 ms after that thread's first timed wait.  Linked with
 * -Wl,--wrap=pthread_cond_timedwait. */
int __real_pthread_cond_timedwait(pthread_cond_t*, pthread_mutex_t*, const struct timespec*);
static __thread double first_ms; static __thread int nsp;
int __wrap_pthread_cond_timedwait(pthread_cond_t* c, pthread_mutex_t* m, const struct timespec* abst) {
    const char* e = getenv("FX_SPURIOUS"); double at = -1; int i, r;
    if (!e) return __real_pthread_cond_timedwait(c, m, abst);
    if (first_ms == 0) first_ms = now_ms();
    { const char* p = e; for (i = 0; i <= nsp && p; i++) { at = i == nsp ? atof(p) : at; p = strchr(p, ','); if (p) p++; else if (i < nsp) { at = -1; break; } } if (i <= nsp && nsp > 0 && at < 0) at = -1; }
    if (at >= 0) {
        struct timespec rt, mono, cut; double remain_ms = first_ms + at - now_ms();
        clock_gettime(CLOCK_REALTIME, &rt); (void)mono;
        if (remain_ms < 0) remain_ms = 0;
        cut.tv_sec = rt.tv_sec + (time_t)(remain_ms / 1000); cut.tv_nsec = rt.tv_nsec + (long)((remain_ms - 1000.0 * (long)(remain_ms / 1000)) * 1e6);
        if (cut.tv_nsec >= 1000000000L) { cut.tv_nsec -= 1000000000L; cut.tv_sec++; }
        if (cut.tv_sec < abst->tv_sec || (cut.tv_sec == abst->tv_sec && cut.tv_nsec < abst->tv_nsec)) {
            r = __real_pthread_cond_timedwait(c, m, &cut);
            if (r == ETIMEDOUT) { nsp++; return 0; }          /* woken "for no reason" */
            return r;
        }
    }
    return __real_pthread_cond_timedwait(c, m, abst);
}
static void hang(int s) { static const char m[] = "{\"ev\":\"hang\"}\n"; (void)s; if (write(1, m, sizeof m - 1)) {} _exit(4); }
void sh_run(void* (*mainfn)(void*), void* arg) {
    signal(SIGALRM, hang); alarm(8);
    (void)me();
    mainfn(arg);
    printf("{\"ev\":\"end\",\"outcome\":\"complete\",\"choices\":[]}\n"); fflush(stdout);
}
