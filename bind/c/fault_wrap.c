/* Host-fault seam for the WASI driver (C12-C14): linked with -Wl,--wrap=<f> for every function below.  While a fault
 * is armed, every call of a function of the armed FAMILY fails with the armed errno (and is counted); otherwise the
 * real function runs.  The driver arms a fault only around one WASI call ("inject FAMILY ERRNO" script line), so its
 * own snapshot code is never affected.  No source change in wasi.c is needed. */
#define _GNU_SOURCE
#include <errno.h>
#include <fcntl.h>
#include <stdarg.h>
#include <string.h>
#include <sys/stat.h>
#include <sys/types.h>
#include <sys/uio.h>
#include <unistd.h>

const char* fault_family = NULL;   /* armed family or NULL */
int fault_errno = 0;
int fault_fired = 0;

static int hit(const char* fam) {
    if (fault_family && !strcmp(fault_family, fam)) { fault_fired++; errno = fault_errno; return 1; }
    return 0;
}

#define WRAP(ret, fam, name, params, args) \
    ret __real_##name params; \
    ret __wrap_##name params { if (hit(fam)) return (ret)-1; return __real_##name args; }

int __real_open(const char*, int, ...);
int __wrap_open(const char* p, int fl, ...) { va_list ap; mode_t m; va_start(ap, fl); m = (mode_t)va_arg(ap, int); va_end(ap); if (hit("open")) return -1; return __real_open(p, fl, m); }
int __real_open64(const char*, int, ...);
int __wrap_open64(const char* p, int fl, ...) { va_list ap; mode_t m; va_start(ap, fl); m = (mode_t)va_arg(ap, int); va_end(ap); if (hit("open")) return -1; return __real_open64(p, fl, m); }
int __real_openat(int, const char*, int, ...);
int __wrap_openat(int d, const char* p, int fl, ...) { va_list ap; mode_t m; va_start(ap, fl); m = (mode_t)va_arg(ap, int); va_end(ap); if (hit("open")) return -1; return __real_openat(d, p, fl, m); }

WRAP(ssize_t, "read", read, (int fd, void* b, size_t n), (fd, b, n))
WRAP(ssize_t, "read", readv, (int fd, const struct iovec* v, int n), (fd, v, n))
WRAP(ssize_t, "read", pread, (int fd, void* b, size_t n, off_t o), (fd, b, n, o))
WRAP(ssize_t, "read", preadv, (int fd, const struct iovec* v, int n, off_t o), (fd, v, n, o))
WRAP(ssize_t, "write", write, (int fd, const void* b, size_t n), (fd, b, n))
WRAP(ssize_t, "write", writev, (int fd, const struct iovec* v, int n), (fd, v, n))
WRAP(ssize_t, "write", pwrite, (int fd, const void* b, size_t n, off_t o), (fd, b, n, o))
WRAP(ssize_t, "write", pwritev, (int fd, const struct iovec* v, int n, off_t o), (fd, v, n, o))
WRAP(off_t, "seek", lseek, (int fd, off_t o, int w), (fd, o, w))
WRAP(int, "stat", stat, (const char* p, struct stat* s), (p, s))
WRAP(int, "stat", lstat, (const char* p, struct stat* s), (p, s))
WRAP(int, "stat", fstat, (int fd, struct stat* s), (fd, s))
WRAP(int, "stat", fstatat, (int d, const char* p, struct stat* s, int f), (d, p, s, f))
WRAP(int, "close", close, (int fd), (fd))
WRAP(int, "sync", fsync, (int fd), (fd))
WRAP(int, "sync", fdatasync, (int fd), (fd))
WRAP(int, "mkdir", mkdir, (const char* p, mode_t m), (p, m))
WRAP(int, "mkdir", mkdirat, (int d, const char* p, mode_t m), (d, p, m))
WRAP(int, "rmdir", rmdir, (const char* p), (p))
WRAP(int, "unlink", unlink, (const char* p), (p))
WRAP(int, "unlink", unlinkat, (int d, const char* p, int f), (d, p, f))
WRAP(int, "rename", rename, (const char* a, const char* b), (a, b))
WRAP(int, "rename", renameat, (int d1, const char* a, int d2, const char* b), (d1, a, d2, b))
WRAP(int, "symlink", symlink, (const char* a, const char* b), (a, b))
WRAP(int, "symlink", symlinkat, (const char* a, int d, const char* b), (a, d, b))
WRAP(ssize_t, "readlink", readlink, (const char* p, char* b, size_t n), (p, b, n))
WRAP(ssize_t, "readlink", readlinkat, (int d, const char* p, char* b, size_t n), (d, p, b, n))
