/* C16/C17/C18 at the level of a translated module whose shared memory is either DEFINED by the module or IMPORTED (-DIMPORTED_MEMORY,
 * the wasi-threads arrangement), with the threads arranged in the three ways embedders use:
 *   MODE 0  all threads call into one instance
 *   MODE 1  one instance per thread, each instantiated over the same imported memory (imported memory only)
 *   MODE 2  one child instance per thread (the instance's newChild, what thread-spawn does)
 * In every round, at the same time:
 *   - four threads grow the memory through two different exported functions by deltas 1, 17, 24 and 3 pages (C18: the page ranges handed
 *     out are pairwise disjoint, the final size is the initial size plus the successful deltas, a grow fails only when it would not fit,
 *     the size never goes down for an observer),
 *   - two threads add 1 to one cell with i32.atomic.rmw.add (C16: no update is lost, whatever the growers do),
 *   - one thread waits on another cell (30 s time-out) and the main thread notifies that address until somebody was woken (C17: the
 *     notify counts exactly the one waiter, the waiter returns 0).
 * usage: shared_module <rounds> */
#include <stdio.h>
#include <stdlib.h>
#include <string.h>
#include <pthread.h>
#include <time.h>
#include "sm.h"
void trap(Trap t) { (void)t; abort(); }
#ifndef MODE
#define MODE 0
#endif
#define INIT 1
#ifdef BIGMEMORY
/* a memory of several thousand pages, grown in a few large steps past 4096 pages while the other threads are at work */
#define MAXP 5000
#define PER 6
#define NADD 300000
static const U32 DELTA[4] = {150, 220, 280, 100};
#else
#define MAXP 300
#define PER 8
static const U32 DELTA[4] = {1, 17, 24, 3};
#endif
#ifndef NADD
#define NADD 20000
#endif
#define NT 8
static smInstance root; static smInstance* inst[NT];
static pthread_barrier_t bar;
static volatile int stop;
static U32 olds[4][PER]; static int nold[4]; static long bad_fail, bad_down, wait_result = -1;
#ifdef IMPORTED_MEMORY
static wasmMemory* hostmem;
static void* resolve(const char* module, const char* name) { (void)module; return strcmp(name, "mem") ? NULL : (void*)hostmem; }
#else
#define resolve NULL
#endif
static void* grower(void* a) { long me = (long)a; int i; pthread_barrier_wait(&bar);
    for (i = 0; i < PER; i++) {
        U32 d = DELTA[me], r = (me & 1) ? sm_growB(inst[me], d) : sm_growA(inst[me], d);
        if (r != (U32)-1) olds[me][nold[me]++] = r;
        else if (sm_size(inst[me]) + d <= MAXP) { struct timespec ts; ts.tv_sec = 0; ts.tv_nsec = 1000000; nanosleep(&ts, NULL);
                                                  if (sm_size(inst[me]) + d <= MAXP) __atomic_add_fetch(&bad_fail, 1, __ATOMIC_RELAXED); }
    }
    return NULL; }
static void* sizer(void* a) { U32 last = INIT; (void)a; pthread_barrier_wait(&bar);
    while (!stop) { U32 p = sm_size(inst[4]); if (p < last) __atomic_add_fetch(&bad_down, 1, __ATOMIC_RELAXED); last = p; }
    return NULL; }
static void* adder(void* a) { long me = (long)a; int i; pthread_barrier_wait(&bar);
    for (i = 0; i < NADD; i++) sm_add(inst[me], 256, 1);
    return NULL; }
static void* waiter(void* a) { (void)a; pthread_barrier_wait(&bar); wait_result = (long)sm_wait(inst[7], 128, 0, 30000); return NULL; }
int main(int argc, char** argv) {
    long rounds = argc > 1 ? atol(argv[1]) : 10, r, dup = 0, badfinal = 0, range = 0, lost = 0, badwait = 0, badnotify = 0; pthread_t th[NT]; long t;
    for (r = 0; r < rounds; r++) {
        static U8 seen[MAXP + 64]; long sum = 0, woken = 0, tries = 0; int i;
        memset(&root, 0xA5, sizeof root);
#ifdef IMPORTED_MEMORY
        hostmem = wasmMemoryAllocate(INIT, MAXP, true);
#endif
        smInstantiate(&root, resolve);
        for (t = 0; t < NT; t++) {
            if (MODE == 0) inst[t] = &root;
            else if (MODE == 1) { inst[t] = (smInstance*)malloc(sizeof(smInstance)); memset(inst[t], 0xA5, sizeof(smInstance)); smInstantiate(inst[t], resolve); }
            else inst[t] = (smInstance*)root.common.newChild((wasmModuleInstance*)&root);
        }
        memset(seen, 0, sizeof seen); memset(nold, 0, sizeof nold); stop = 0; wait_result = -1;
        pthread_barrier_init(&bar, NULL, NT + 1);
        for (t = 0; t < 4; t++) pthread_create(&th[t], NULL, grower, (void*)t);
        pthread_create(&th[4], NULL, sizer, NULL);
        pthread_create(&th[5], NULL, adder, (void*)5L); pthread_create(&th[6], NULL, adder, (void*)6L);
        pthread_create(&th[7], NULL, waiter, NULL);
        pthread_barrier_wait(&bar);
        /* notify until the waiter was counted (it may not be asleep yet), at most 25 s (a loaded machine may start threads late) */
        while (woken == 0 && tries++ < 12500) { struct timespec ts; ts.tv_sec = 0; ts.tv_nsec = 2000000; woken += sm_notify(&root, 128, 1); if (!woken) nanosleep(&ts, NULL); }
        for (t = 0; t < 4; t++) pthread_join(th[t], NULL);
        pthread_join(th[5], NULL); pthread_join(th[6], NULL); pthread_join(th[7], NULL);
        stop = 1; pthread_join(th[4], NULL);
        for (t = 0; t < 4; t++) for (i = 0; i < nold[t]; i++) { U32 o = olds[t][i], k; sum += DELTA[t];
            if (o < INIT || o + DELTA[t] > MAXP) range++; else for (k = 0; k < DELTA[t]; k++) if (seen[o + k]++) { dup++; break; } }
        if (sm_size(&root) != (U32)(INIT + sum) || sm_size(&root) > MAXP) badfinal++;
        if (sm_load(&root, 256) != 2 * NADD) lost++;
        if (wait_result != 0) badwait++;
        if (woken != 1) badnotify++;
        for (t = 0; t < NT; t++) if (MODE == 1) { smFreeInstance(inst[t]); free(inst[t]); } else if (MODE == 2) { free(inst[t]); }
        smFreeInstance(&root);
#ifdef IMPORTED_MEMORY
        wasmMemoryFree(hostmem);
#endif
    }
    printf("{\"rounds\":%ld,\"overlapping_page_ranges\":%ld,\"bad_final_size\":%ld,\"old_size_out_of_range\":%ld,\"failed_although_it_fits\":%ld,\"size_went_down\":%ld,"
           "\"lost_atomic_adds\":%ld,\"waiter_not_woken\":%ld,\"notify_count_wrong\":%ld}\n", rounds, dup, badfinal, range, bad_fail, bad_down, lost, badwait, badnotify);
    return 0;
}
