/* C16 driver: REAL threads (one instance per thread, created with <module>NewChild, sharing the parent's shared memory)
 * execute atomic operations through the functions w2c2 generated for module "at" (uniform signature
 * (addr, v, e) -> old for ld/st/add/xchg/cas x seven width flavours).
 *   <program file> <threads>      : per-thread programs, lines "t op addr v e"; every operation is logged with tickets
 *                                   from one global atomic counter taken before and after the call
 *   hammer <threads> <n>          : per flavour, all threads exchange unique tokens (xchg) resp. add 1 (add) n times on one
 *                                   cell; prints the conservation counts that atomicity implies
 *   stress <2> <rounds>           : one thread adds in a loop, the other stores once: the completed store must survive */
#include <stdio.h>
#include <stdlib.h>
#include <string.h>
#include <pthread.h>
#include "at.h"
void trap(Trap t) { fprintf(stderr, "trap %d\n", (int)t); abort(); }
typedef U64 (*fn)(atInstance*, U32, U64, U64);
#define F5(tag) {"ld" #tag, at_ld##tag}, {"st" #tag, at_st##tag}, {"add" #tag, at_add##tag}, {"xchg" #tag, at_xchg##tag}, {"cas" #tag, at_cas##tag}
static struct { const char* name; fn f; } table[] = { F5(8), F5(16), F5(32), F5(8l), F5(16l), F5(32l), F5(64),
    {"mpw32", at_mpw32}, {"mpr32", at_mpr32}, {"mpw64", at_mpw64}, {"mpr64", at_mpr64}, {NULL, NULL} };
static fn lookup(const char* n) { int i; for (i = 0; table[i].name; i++) if (!strcmp(table[i].name, n)) return table[i].f; fprintf(stderr, "no op %s\n", n); abort(); }
#define MAXOPS 4096
typedef struct { int t; char op[12]; fn f; U32 a; U64 v, e, old; long tb, te; } Op;
static Op ops[MAXOPS]; static int nops;
static long ticket;
static atInstance root; static atInstance* inst[16];
static pthread_barrier_t bar;
static void* worker(void* arg) {
    int me = (int)(long)arg, i;
    pthread_barrier_wait(&bar);
    for (i = 0; i < nops; i++) {
        Op* o = &ops[i];
        if (o->t != me) continue;
        o->tb = __atomic_fetch_add(&ticket, 1, __ATOMIC_SEQ_CST);
        o->old = o->f(inst[me], o->a, o->v, o->e);
        o->te = __atomic_fetch_add(&ticket, 1, __ATOMIC_SEQ_CST);
    }
    return NULL;
}
/* hammer */
static fn hf; static U32 haddr; static long hn; static int hthreads; static U64 hmask; static U64* hret[16];
static void* hammer_xchg(void* arg) { long me = (long)arg, i; pthread_barrier_wait(&bar);
    for (i = 0; i < hn; i++) hret[me][i] = hf(inst[me], haddr, (U64)((me * hn + i + 1) & hmask), 0); return NULL; }
static void* hammer_add(void* arg) { long me = (long)arg, i; pthread_barrier_wait(&bar);
    for (i = 0; i < hn; i++) hret[me][i] = hf(inst[me], haddr, 1, 0); return NULL; }
/* store against read-modify-write: thread 0 alone writes the low bits (plain atomic stores of ever new values, top bit clear) and
 * reads them back; the others only flip the top bit by adding 2^(width-1).  A completed store whose low bits are not read
 * back was overwritten by the write half of somebody's read-modify-write: the RMW was not atomic with respect to the store. */
static fn hst, hld; static U64 htop; static volatile int hstop; static long hbad;
static void* svr_owner(void* arg) { long i; U64 low = htop - 1; (void)arg; pthread_barrier_wait(&bar);
    for (i = 0; i < hn; i++) { U64 v = (U64)(i * 7 + 1) & low, x; hst(inst[0], haddr, v, 0); x = hld(inst[0], haddr, 0, 0); if ((x & low) != v) hbad++; }
    hstop = 1; return NULL; }
static void* svr_flipper(void* arg) { long me = (long)arg; pthread_barrier_wait(&bar);
    while (!hstop) (void)hf(inst[me], haddr, htop, 0); return NULL; }
#define TORN_P1 0x1122334455667788ULL
#define TORN_P2 0xEEDDCCBBAA998877ULL
static void* torn_writer(void* a) { long i; (void)a; pthread_barrier_wait(&bar);
    for (i = 0; i < hn; i++) hst(inst[0], haddr, (i & 1 ? TORN_P1 : TORN_P2) & hmask, 0);
    hstop = 1; return NULL; }
static void* torn_reader(void* a) { (void)a; pthread_barrier_wait(&bar);
    while (!hstop) { U64 x = hld(inst[1], haddr, 0, 0) & hmask; if (x != 0 && x != (TORN_P1 & hmask) && x != (TORN_P2 & hmask)) hbad++; }
    return NULL; }
/* accesses of DIFFERENT widths to one cell at the same time: two threads own the outer bytes of a 32-bit cell (8-bit additions through
 * the i32 and the i64 flavour), a third adds to its two middle bytes with a 32-bit addition (0x100, fewer than 65536 times: no carry
 * leaves them).  Memory is bytes: nobody's additions may be lost, in either byte order of the host. */
static void* wm_byte(void* arg) { long me = (long)arg, i; fn f = lookup(me == 0 ? "add8" : "add8l"); pthread_barrier_wait(&bar);
    for (i = 0; i < hn; i++) (void)f(inst[me], 96 + (me == 0 ? 0 : 3), 1, 0);
    return NULL; }
static void* wm_word(void* arg) { long me = (long)arg, i; fn f = lookup(me == 2 ? "add32" : "add32l"); pthread_barrier_wait(&bar);
    for (i = 0; i < hn; i++) (void)f(inst[me], 96, 0x100, 0);
    return NULL; }
/* the i32 and the i64 flavour of one access width are the same access: threads using either add to one cell, which lies at a multiple of
 * the access width that is not a multiple of 4 resp. 8 */
static fn fm_f[2]; static U32 fm_addr;
static void* fm_adder(void* arg) { long me = (long)arg, i; pthread_barrier_wait(&bar);
    for (i = 0; i < hn; i++) (void)fm_f[me & 1](inst[me], fm_addr, 1, 0);
    return NULL; }
static fn hxchg; static U64 hdrained; static volatile long hadders;
static void* mix_adder(void* arg) { long me = (long)arg, i; pthread_barrier_wait(&bar);
    for (i = 0; i < hn; i++) (void)hf(inst[me], haddr, 1, 0);
    __atomic_sub_fetch(&hadders, 1, __ATOMIC_SEQ_CST); return NULL; }
static void* mix_drainer(void* arg) { (void)arg; pthread_barrier_wait(&bar);
    while (__atomic_load_n(&hadders, __ATOMIC_SEQ_CST) > 0) hdrained += hxchg(inst[0], haddr, 0, 0) & hmask;
    return NULL; }
/* store buffering: thread 0 stores X[i] then loads Y[i], thread 1 stores Y[i] then loads X[i], for the same i at about the same
 * time.  With sequentially consistent atomic accesses at least one of the two loads sees the other thread's store. */
#define SBN 1500
static U32 sbx(int i) { return 1024 + 16 * (U32)i; }
static U32 sby(int i) { return 1024 + 16 * SBN + 16 * (U32)i; }
static U64 sbr[2][SBN]; static volatile int sbturn[2];
static void* sb_thread(void* arg) { long me = (long)arg; int i, r; long rounds = hn;
    for (r = 0; r < rounds; r++) {
        /* rendezvous per round; inside a round the two threads run through the indices side by side */
        __atomic_store_n(&sbturn[me], 2 * r + 1, __ATOMIC_SEQ_CST); while (__atomic_load_n(&sbturn[1 - me], __ATOMIC_SEQ_CST) < 2 * r + 1) {}
        for (i = 0; i < SBN; i++) {
            hst(inst[me], me ? sby(i) : sbx(i), 1, 0);
            sbr[me][i] = hld(inst[me], me ? sbx(i) : sby(i), 0, 0);
        }
        __atomic_store_n(&sbturn[me], 2 * r + 2, __ATOMIC_SEQ_CST); while (__atomic_load_n(&sbturn[1 - me], __ATOMIC_SEQ_CST) < 2 * r + 2) {}
        if (me == 0) { for (i = 0; i < SBN; i++) { if (sbr[0][i] == 0 && sbr[1][i] == 0) hbad++; hst(&root, sbx(i), 0, 0); hst(&root, sby(i), 0, 0); } }
    }
    return NULL; }
/* compare-exchange increments: a thread counts an increment only when the exchange reports success (returned old value =
 * expected).  If two threads can win the same exchange, the cell ends up below the number of reported successes. */
static fn hcas;
static void* cas_inc(void* arg) { long me = (long)arg, i; pthread_barrier_wait(&bar);
    for (i = 0; i < hn; i++) {
        U64 old = hld(inst[me], haddr, 0, 0) & hmask, got;
        while ((got = hcas(inst[me], haddr, (old + 1) & hmask, old) & hmask) != old) old = got;
    }
    return NULL; }
static void* mp_writer(void* a) { long r; (void)a;
    for (r = 1; r <= hn; r++) {
        __atomic_store_n(&sbturn[0], (int)r, __ATOMIC_SEQ_CST); while (__atomic_load_n(&sbturn[1], __ATOMIC_SEQ_CST) < (int)r) {}
        hst(inst[0], haddr, (U64)r, 0);
    }
    return NULL; }
static void* mp_reader(void* a) { long r; (void)a;
    for (r = 1; r <= hn; r++) {
        __atomic_store_n(&sbturn[1], (int)r, __ATOMIC_SEQ_CST); while (__atomic_load_n(&sbturn[0], __ATOMIC_SEQ_CST) < (int)r) {}
        { U64 x; do { x = hld(inst[1], haddr, (U64)r, 0); } while (x == ~(U64)0); if (x != (U64)r) hbad++; }
    }
    return NULL; }
static int cmp64(const void* a, const void* b) { U64 x = *(const U64*)a, y = *(const U64*)b; return x < y ? -1 : x > y; }
static volatile int go;
static void* adder(void* arg) { long n = (long)arg, i; while (!go) {} for (i = 0; i < n; i++) (void)at_add32(inst[0], 80, 1, 0); return NULL; }
static void* storer(void* arg) { long spin = (long)arg, i; volatile long s = 0; while (!go) {} for (i = 0; i < spin; i++) s += i; at_st32(inst[1], 80, 1u << 28, 0); return NULL; }
int main(int argc, char** argv) {
    int nt = argc > 2 ? atoi(argv[2]) : 2, i;
    pthread_t th[16];
    atInstantiate(&root, NULL);
    for (i = 0; i < nt; i++) inst[i] = (atInstance*)root.common.newChild((wasmModuleInstance*)&root);
    if (!strcmp(argv[1], "stress")) {
        int lost = 0, rounds = argc > 3 ? atoi(argv[3]) : 50, r;
        for (r = 0; r < rounds; r++) {
            at_st32(&root, 80, 0, 0); go = 0;
            pthread_create(&th[0], NULL, adder, (void*)200000L);
            pthread_create(&th[1], NULL, storer, (void*)(long)(1000 + 997 * r));
            go = 1;
            pthread_join(th[0], NULL); pthread_join(th[1], NULL);
            if (at_ld32(&root, 80, 0, 0) < (1u << 28)) lost++;          /* the completed store is gone */
        }
        printf("{\"rounds\":%d,\"lost_stores\":%d}\n", rounds, lost);
        return 0;
    }
    if (!strcmp(argv[1], "mp")) {
        /* message passing: per round the writer calls mpw(addr, round), the reader mpr(addr, round) (one wasm function each) */
        static const char* tg[] = {"32", "64"}; int k; long stale = 0, rounds = argc > 3 ? atol(argv[3]) : 3000;
        for (k = 0; k < 2; k++) {
            char nm[16]; pthread_t w, r;
            snprintf(nm, sizeof nm, "mpw%s", tg[k]); hst = lookup(nm); snprintf(nm, sizeof nm, "mpr%s", tg[k]); hld = lookup(nm);
            haddr = 256; hn = rounds; hbad = 0; sbturn[0] = sbturn[1] = 0;
            lookup("st64")(&root, 256, 0, 0); lookup("st64")(&root, 264, 0, 0);
            pthread_create(&w, NULL, mp_writer, NULL); pthread_create(&r, NULL, mp_reader, NULL);
            pthread_join(w, NULL); pthread_join(r, NULL);
            stale += hbad;
        }
        printf("{\"op\":\"mp\",\"rounds\":%ld,\"stale\":%ld}\n", rounds, stale);
        return 0;
    }
    if (!strcmp(argv[1], "torn")) {
        /* an atomic load returns a value that was stored: one thread keeps storing two patterns whose bytes all differ, the other
         * loads; anything else than one of the two patterns (or the initial 0) was never in memory */
        static const char* tags[] = {"16", "32", "32l", "64"}; static const int widths[] = {16, 32, 32, 64}; static const U32 cells[] = {72, 80, 80, 88};
        int k; hn = argc > 3 ? atol(argv[3]) : 200000;
        for (k = 0; k < 4; k++) {
            char nm[16];
            snprintf(nm, sizeof nm, "st%s", tags[k]); hst = lookup(nm); snprintf(nm, sizeof nm, "ld%s", tags[k]); hld = lookup(nm);
            haddr = cells[k]; hmask = widths[k] == 64 ? ~(U64)0 : (((U64)1 << widths[k]) - 1); hstop = 0; hbad = 0;
            hst(&root, haddr, 0, 0);
            pthread_barrier_init(&bar, NULL, 2);
            pthread_create(&th[0], NULL, torn_writer, NULL); pthread_create(&th[1], NULL, torn_reader, NULL);
            pthread_join(th[0], NULL); pthread_join(th[1], NULL);
            printf("{\"op\":\"torn%s\",\"threads\":2,\"per_thread\":%ld,\"lost\":%ld,\"bad_final\":0}\n", tags[k], hn, hbad);
        }
        return 0;
    }
    if (!strcmp(argv[1], "hammer")) {
        static const char* tags[] = {"8", "16", "32", "8l", "16l", "32l", "64"}; static const int widths[] = {8, 16, 32, 8, 16, 32, 64};
        static const U32 cells[] = {64, 72, 80, 64, 72, 80, 88};
        int k, mode; long t;
        hn = argc > 3 ? atol(argv[3]) : 20000; hthreads = nt;
        for (t = 0; t < nt; t++) hret[t] = malloc(sizeof(U64) * (size_t)hn);
        for (k = 0; k < 7; k++) {
            char nm[16]; long t2;
            snprintf(nm, sizeof nm, "st%s", tags[k]); hst = lookup(nm); snprintf(nm, sizeof nm, "ld%s", tags[k]); hld = lookup(nm);
            snprintf(nm, sizeof nm, "add%s", tags[k]); hf = lookup(nm);
            haddr = cells[k]; htop = (U64)1 << (widths[k] - 1); hstop = 0; hbad = 0;
            hst(&root, haddr, 0, 0);
            pthread_barrier_init(&bar, NULL, (unsigned)nt);
            pthread_create(&th[0], NULL, svr_owner, NULL);
            for (t2 = 1; t2 < nt; t2++) pthread_create(&th[t2], NULL, svr_flipper, (void*)t2);
            for (t2 = 0; t2 < nt; t2++) pthread_join(th[t2], NULL);
            printf("{\"op\":\"stvsrmw%s\",\"threads\":%d,\"per_thread\":%ld,\"lost\":%ld,\"bad_final\":0}\n", tags[k], nt, hn, hbad);
        }
        for (k = 0; k < 7; k++) {
            char nm[16]; long saved = hn;
            snprintf(nm, sizeof nm, "st%s", tags[k]); hst = lookup(nm); snprintf(nm, sizeof nm, "ld%s", tags[k]); hld = lookup(nm);
            hbad = 0; hn = hn / 100 < 20 ? 20 : hn / 100; sbturn[0] = sbturn[1] = 0;
            { int i; for (i = 0; i < SBN; i++) { hst(&root, sbx(i), 0, 0); hst(&root, sby(i), 0, 0); } }
            pthread_create(&th[0], NULL, sb_thread, (void*)0L); pthread_create(&th[1], NULL, sb_thread, (void*)1L);
            pthread_join(th[0], NULL); pthread_join(th[1], NULL);
            printf("{\"op\":\"storebuffer%s\",\"threads\":2,\"per_thread\":%ld,\"lost\":%ld,\"bad_final\":0}\n", tags[k], hn * SBN, hbad);
            hn = saved;
        }
        for (k = 0; k < 7; k++) {
            char nm[16]; long t2, saved = hn; U64 final;
            snprintf(nm, sizeof nm, "cas%s", tags[k]); hcas = lookup(nm); snprintf(nm, sizeof nm, "ld%s", tags[k]); hld = lookup(nm);
            snprintf(nm, sizeof nm, "st%s", tags[k]); hst = lookup(nm);
            haddr = cells[k]; hmask = widths[k] == 64 ? ~(U64)0 : (((U64)1 << widths[k]) - 1); hn = hn / 4;
            hst(&root, haddr, 0, 0);
            pthread_barrier_init(&bar, NULL, (unsigned)nt);
            for (t2 = 0; t2 < nt; t2++) pthread_create(&th[t2], NULL, cas_inc, (void*)t2);
            for (t2 = 0; t2 < nt; t2++) pthread_join(th[t2], NULL);
            final = hld(&root, haddr, 0, 0) & hmask;
            printf("{\"op\":\"casinc%s\",\"threads\":%d,\"per_thread\":%ld,\"lost\":%llu,\"bad_final\":%d}\n", tags[k], nt, hn,
                   (unsigned long long)((((U64)nt * (U64)hn) & hmask) - final), final != (((U64)nt * (U64)hn) & hmask));
            hn = saved;
        }
        /* different read-modify-write operations on one cell: thread 0 drains it (exchange with 0) and adds up what it took out,
         * the others add 1.  What was drained plus what is left is the number of additions (modulo the width), whichever way the
         * two operations are implemented: an exchange that lands inside somebody's addition is lost or counted twice. */
        for (k = 0; k < 7; k++) {
            char nm[16]; long t2; U64 final, want;
            snprintf(nm, sizeof nm, "xchg%s", tags[k]); hxchg = lookup(nm); snprintf(nm, sizeof nm, "add%s", tags[k]); hf = lookup(nm);
            snprintf(nm, sizeof nm, "ld%s", tags[k]); hld = lookup(nm); snprintf(nm, sizeof nm, "st%s", tags[k]); hst = lookup(nm);
            haddr = cells[k]; hmask = widths[k] == 64 ? ~(U64)0 : (((U64)1 << widths[k]) - 1); hstop = 0; hdrained = 0; hadders = nt - 1;
            hst(&root, haddr, 0, 0);
            pthread_barrier_init(&bar, NULL, (unsigned)nt);
            pthread_create(&th[0], NULL, mix_drainer, NULL);
            for (t2 = 1; t2 < nt; t2++) pthread_create(&th[t2], NULL, mix_adder, (void*)t2);
            for (t2 = 0; t2 < nt; t2++) pthread_join(th[t2], NULL);
            final = hld(&root, haddr, 0, 0) & hmask;
            want = ((U64)(nt - 1) * (U64)hn) & hmask;
            printf("{\"op\":\"mixrmw%s\",\"threads\":%d,\"per_thread\":%ld,\"lost\":%llu,\"bad_final\":%d}\n", tags[k], nt, hn,
                   (unsigned long long)((want - ((hdrained + final) & hmask)) & hmask), ((hdrained + final) & hmask) != want);
        }
        if (nt >= 2) {
            static const char* ft[] = {"8", "16", "32"}; static const U32 fa[3][2] = {{97, 103}, {98, 110}, {100, 116}}; static const U64 fmk[] = {0xFF, 0xFFFF, 0xFFFFFFFFu};
            int w, ai; long t2; char nm[16];
            for (w = 0; w < 3; w++) for (ai = 0; ai < 2; ai++) {
                U64 final, want = ((U64)nt * (U64)hn) & fmk[w];
                snprintf(nm, sizeof nm, "add%s", ft[w]); fm_f[0] = lookup(nm); snprintf(nm, sizeof nm, "add%sl", ft[w]); fm_f[1] = lookup(nm);
                fm_addr = fa[w][ai];
                snprintf(nm, sizeof nm, "st%s", ft[w]); lookup(nm)(&root, fm_addr, 0, 0);
                pthread_barrier_init(&bar, NULL, (unsigned)nt);
                for (t2 = 0; t2 < nt; t2++) pthread_create(&th[t2], NULL, fm_adder, (void*)t2);
                for (t2 = 0; t2 < nt; t2++) pthread_join(th[t2], NULL);
                snprintf(nm, sizeof nm, "ld%s", ft[w]); final = lookup(nm)(&root, fm_addr, 0, 0) & fmk[w];
                printf("{\"op\":\"flavourmix%s@%u\",\"threads\":%d,\"per_thread\":%ld,\"lost\":%llu,\"bad_final\":%d}\n", ft[w], fm_addr, nt, hn,
                       (unsigned long long)((want - final) & fmk[w]), final != want);
            }
        }
        if (nt >= 3) {
            long saved = hn, t2; U64 b0, b3, mid;
            if (hn > 60000) hn = 60000;
            lookup("st32")(&root, 96, 0, 0);
            pthread_barrier_init(&bar, NULL, 3);
            pthread_create(&th[0], NULL, wm_byte, (void*)0L); pthread_create(&th[1], NULL, wm_byte, (void*)1L); pthread_create(&th[2], NULL, wm_word, (void*)2L);
            for (t2 = 0; t2 < 3; t2++) pthread_join(th[t2], NULL);
            b0 = lookup("ld8")(&root, 96, 0, 0) & 0xFF; b3 = lookup("ld8")(&root, 99, 0, 0) & 0xFF; mid = (lookup("ld32")(&root, 96, 0, 0) >> 8) & 0xFFFF;
            printf("{\"op\":\"widthmix\",\"threads\":3,\"per_thread\":%ld,\"lost\":%llu,\"bad_final\":%d}\n", hn,
                   (unsigned long long)((((U64)hn & 0xFF) - b0) & 0xFF) + ((((U64)hn & 0xFF) - b3) & 0xFF) + ((((U64)hn & 0xFFFF) - mid) & 0xFFFF),
                   b0 != ((U64)hn & 0xFF) || b3 != ((U64)hn & 0xFF) || mid != ((U64)hn & 0xFFFF));
            hn = saved;
        }
        for (k = 0; k < 7; k++) for (mode = 0; mode < 2; mode++) {
            char name[16]; U64 total = (U64)nt * (U64)hn, lost = 0, final; U64* all; U64 j, n = 0; int bad_final = 0;
            snprintf(name, sizeof name, "%s%s", mode ? "add" : "xchg", tags[k]);
            hf = lookup(name); haddr = cells[k]; hmask = widths[k] == 64 ? ~(U64)0 : (((U64)1 << widths[k]) - 1);
            { char st[16]; snprintf(st, sizeof st, "st%s", tags[k]); lookup(st)(&root, haddr, 0, 0); }
            pthread_barrier_init(&bar, NULL, (unsigned)nt);
            for (t = 0; t < nt; t++) pthread_create(&th[t], NULL, mode ? hammer_add : hammer_xchg, (void*)t);
            for (t = 0; t < nt; t++) pthread_join(th[t], NULL);
            { char ld[16]; snprintf(ld, sizeof ld, "ld%s", tags[k]); final = lookup(ld)(&root, haddr, 0, 0); }
            all = malloc(sizeof(U64) * (size_t)(total + 1));
            for (t = 0; t < nt; t++) for (j = 0; j < (U64)hn; j++) all[n++] = hret[t][j];
            all[n++] = final;
            qsort(all, (size_t)n, sizeof(U64), cmp64);
            if (mode) {
                /* returned old values + final = {0, 1, ..., total} taken modulo 2^width, as a multiset */
                U64* want = malloc(sizeof(U64) * (size_t)(total + 1));
                for (j = 0; j <= total; j++) want[j] = j & hmask;
                qsort(want, (size_t)(total + 1), sizeof(U64), cmp64);
                for (j = 0; j <= total; j++) if (want[j] != all[j]) lost++;
                bad_final = final != (total & hmask);
                free(want);
            } else {
                /* returned old values + final = written tokens + initial 0, as a multiset */
                U64* want = malloc(sizeof(U64) * (size_t)(total + 1));
                for (j = 0; j < total; j++) want[j] = (j + 1) & hmask;
                want[total] = 0;
                qsort(want, (size_t)(total + 1), sizeof(U64), cmp64);
                for (j = 0; j <= total; j++) if (want[j] != all[j]) lost++;
                free(want);
            }
            printf("{\"op\":\"%s\",\"threads\":%d,\"per_thread\":%ld,\"lost\":%llu,\"bad_final\":%d}\n", name, nt, hn, (unsigned long long)lost, bad_final);
            free(all);
        }
        return 0;
    }
    {
        FILE* f = fopen(argv[1], "r"); char line[128];
        while (f && fgets(line, sizeof line, f) && nops < MAXOPS) {
            Op* o = &ops[nops]; unsigned long long v, e;
            if (sscanf(line, "%d %11s %u %llu %llu", &o->t, o->op, &o->a, &v, &e) == 5) { o->v = v; o->e = e; o->f = lookup(o->op); nops++; }
        }
    }
    pthread_barrier_init(&bar, NULL, (unsigned)nt);
    for (i = 0; i < nt; i++) pthread_create(&th[i], NULL, worker, (void*)(long)i);
    for (i = 0; i < nt; i++) pthread_join(th[i], NULL);
    for (i = 0; i < nops; i++)
        printf("{\"t\":%d,\"op\":\"%s\",\"a\":%u,\"v\":%llu,\"e\":%llu,\"old\":%llu,\"tb\":%ld,\"te\":%ld}\n",
               ops[i].t, ops[i].op, ops[i].a, (unsigned long long)(ops[i].v & 0x3FFFFFFF), (unsigned long long)(ops[i].e & 0x3FFFFFFF),
               (unsigned long long)(ops[i].old & 0x3FFFFFFF), ops[i].tb, ops[i].te);
    printf("{\"op\":\"final\",\"c8\":%llu,\"c16\":%llu,\"c32\":%llu,\"c64\":%llu}\n", (unsigned long long)at_ld8(&root, 64, 0, 0), (unsigned long long)at_ld16(&root, 72, 0, 0),
           (unsigned long long)at_ld32(&root, 80, 0, 0), (unsigned long long)at_ld64(&root, 88, 0, 0));
    return 0;
}
