/* C16 driver: REAL threads (one instance per thread, created with <module>NewChild, sharing the parent's
 * shared memory) execute per-thread programs of atomic operations through the functions w2c2 generated
 * for module "at".  Every operation is logged with tickets taken from one global atomic counter before
 * and after the call, so that real-time order is known.
 * argv[1]: program file, lines "t op addr v e" (op: ld st add xchg cas); argv[2]: number of threads.
 * mode "stress" (argv[1] == "stress"): thread 0 adds 1 in a loop, thread 1 stores one token once; prints
 * whether the store survived. */
#include <stdio.h>
#include <stdlib.h>
#include <string.h>
#include <pthread.h>
#include "at.h"
void trap(Trap t) { fprintf(stderr, "trap %d\n", (int)t); abort(); }
#define MAXOPS 4096
typedef struct { int t; char op[8]; U32 a, v, e, old; long tb, te; } Op;
static Op ops[MAXOPS]; static int nops;
static long ticket;
static atInstance root; static atInstance* inst[16];
static pthread_barrier_t bar;
static void* worker(void* arg) {
    int me = (int)(long)arg, i;
    pthread_barrier_wait(&bar);
    for (i = 0; i < nops; i++) {
        Op* o = &ops[i];
        if (o->t != me) continue;
        o->tb = __atomic_fetch_add(&ticket, 1, __ATOMIC_SEQ_CST);
        if (!strcmp(o->op, "ld")) o->old = at_ld(inst[me], o->a);
        else if (!strcmp(o->op, "st")) { at_st(inst[me], o->a, o->v); o->old = 0; }
        else if (!strcmp(o->op, "add")) o->old = at_add(inst[me], o->a, o->v);
        else if (!strcmp(o->op, "xchg")) o->old = at_xchg(inst[me], o->a, o->v);
        else if (!strcmp(o->op, "cas")) o->old = at_cas(inst[me], o->a, o->e, o->v);
        o->te = __atomic_fetch_add(&ticket, 1, __ATOMIC_SEQ_CST);
    }
    return NULL;
}
static volatile int go;
static void* adder(void* arg) { long n = (long)arg, i; while (!go) {} for (i = 0; i < n; i++) (void)at_add(inst[0], 64, 1); return NULL; }
static void* storer(void* arg) { long spin = (long)arg, i; volatile long s = 0; while (!go) {} for (i = 0; i < spin; i++) s += i; at_st(inst[1], 64, 1u << 28); return NULL; }
int main(int argc, char** argv) {
    int nt = argc > 2 ? atoi(argv[2]) : 2, i;
    pthread_t th[16];
    atInstantiate(&root, NULL);
    for (i = 0; i < nt; i++) inst[i] = (atInstance*)root.common.newChild((wasmModuleInstance*)&root);
    if (!strcmp(argv[1], "stress")) {
        int lost = 0, rounds = argc > 3 ? atoi(argv[3]) : 50, r;
        for (r = 0; r < rounds; r++) {
            at_st(&root, 64, 0); go = 0;
            pthread_create(&th[0], NULL, adder, (void*)200000L);
            pthread_create(&th[1], NULL, storer, (void*)(long)(1000 + 997 * r));
            go = 1;
            pthread_join(th[0], NULL); pthread_join(th[1], NULL);
            if (at_ld(&root, 64) < (1u << 28)) lost++;          /* the completed store is gone */
        }
        printf("{\"rounds\":%d,\"lost_stores\":%d}\n", rounds, lost);
        return 0;
    }
    {
        FILE* f = fopen(argv[1], "r"); char line[128];
        while (f && fgets(line, sizeof line, f) && nops < MAXOPS) {
            Op* o = &ops[nops];
            if (sscanf(line, "%d %7s %u %u %u", &o->t, o->op, &o->a, &o->v, &o->e) == 5) nops++;
        }
    }
    pthread_barrier_init(&bar, NULL, (unsigned)nt);
    for (i = 0; i < nt; i++) pthread_create(&th[i], NULL, worker, (void*)(long)i);
    for (i = 0; i < nt; i++) pthread_join(th[i], NULL);
    for (i = 0; i < nops; i++)
        printf("{\"t\":%d,\"op\":\"%s\",\"a\":%u,\"v\":%u,\"e\":%u,\"old\":%u,\"tb\":%ld,\"te\":%ld}\n",
               ops[i].t, ops[i].op, ops[i].a, ops[i].v, ops[i].e, ops[i].old, ops[i].tb, ops[i].te);
    printf("{\"op\":\"final\",\"m64\":%u,\"m128\":%u}\n", at_ld(&root, 64), at_ld(&root, 128));
    return 0;
}
