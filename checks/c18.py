#!/usr/bin/env python3
"""C18 - growing a shared memory from several threads is linearizable and race-free (DESIGN.md 3/C18)."""
import json
import os
import re
import shutil
import sys
sys.path.insert(0, os.path.join(os.path.dirname(os.path.abspath(__file__)), "..", "bind", "py"))
import common
import explore
import tracecheck
from common import BINDC, REPO, Verdict, main_wrap, run, tlc, tlc_ok

SCRIPTS = ["G:1|G:1", "G:1|G:2|Z", "G:1;G:1|G:1;Z", "G:3|G:1|G:1", "G:1|G:1|G:1|Z;Z", "G:0|G:4|G:1", "G:2;Z|G:2;Z", "G:1|Z;L:8;Z",
           # contents: a store into the newest page must survive, pages start out zero, old contents are kept
           # deltas whose sum with the current size wraps 32 bits
           "G:4294967295|G:1;Z", "G:4294967294;Z|G:2;Z", "G:4294967293;Z;G:1",
           # a notify (nobody waits) on the growing memory: it uses the same mutex
           "G:1;G:1|G:1;Z|N:8;N:8", "G:2|N:16|G:1;N:16",
           "G:1|W:7;R:1;R:1", "W:5;G:1;R:0|R:1;W:9;R:1", "G:1;R:1|G:1;W:3;R:2;R:1", "W:4;G:2|R:0;W:6;R:0;R:2"]


def history_of(r):
    h, final = [], None
    for e in r["events"]:
        if e["ev"] == "call" and e["op"] in ("grow", "size", "store", "load"):
            # TLC's integers are 32 bits wide: any delta above the maximum fails in the same way, so huge ones are capped for the model
            h.append({"ev": "call", "t": e["t"], "op": e["op"], "d": min(e["a"], 1000000), "v": e["b"], "res": 0, "pages": 0})
        elif e["ev"] == "ret" and e["op"] in ("grow", "size", "store", "load"):
            h.append({"ev": "ret", "t": e["t"], "op": e["op"], "d": 0, "v": 0, "res": e["res"], "pages": 0})
        elif e["ev"] == "final":
            final = e
    h.append({"ev": "final", "t": 0, "op": "", "d": 0, "v": 0, "res": 0, "pages": final["pages"] if final else -7})
    return h, final


def main():
    tier = sys.argv[1] if len(sys.argv) > 1 else os.environ.get("VERIF_TIER", "quick")
    v = Verdict("C18", tier)
    # 1. design level.  The repaired order (read under the lock) refines the atomic specification; the order
    #    before the repair must NOT (this keeps the model honest: it can tell the two apart); the race clause.
    m_fixed = tlc_ok(tlc("MCMemGrow", cfg="MemGrowImpl_fixed.cfg", workers=4, timeout=900), "MemGrowImpl fixed")
    m_old = tlc("MCMemGrow", cfg="MemGrowImpl_ascoded.cfg", workers=4, timeout=900)
    if m_old["rc"] == 0:
        raise common.MachineryError("the model does not distinguish read-before-lock from read-under-lock")
    m_race = tlc("MCMemGrow", cfg="MemGrowImpl_race.cfg", workers=4, timeout=900)       # size as a plain read
    m_norace = tlc_ok(tlc("MCMemGrow", cfg="MemGrowImpl_racefree.cfg", workers=4, timeout=900), "MemGrowImpl racefree")
    wd = common.scratch("c18-")
    stats = {"schedules": 0}
    if tier != "quick":
        # bounds of the abstract protocol for ANY set of threads and any maximum (TLA+ proof system)
        stats["proof_MemGrowProof"] = common.tlapm("MemGrowProof")
    try:
        exe = os.path.join(wd, "mg")
        rc, out, err = run(["gcc", "-O1", "-g", "-w", "-fsanitize=address", "-include", os.path.join(BINDC, "sched_shim.h"),
                            "-I", os.path.join(REPO, "w2c2"), "-I", BINDC, os.path.join(BINDC, "memgrow_driver.c"),
                            os.path.join(BINDC, "sched.c"), *[os.path.join(REPO, "futex", f_) for f_ in ("futex.c", "map.c", "list.c")],
                            "-o", exe, "-lpthread", "-lm"], timeout=300)
        shim_ok = rc == 0
        if not shim_ok:
            # the scheduler one level lower, under the pthread functions the tree's own configuration calls
            try:
                exe = explore.build_pthread_level(wd, "mgp", os.path.join(BINDC, "memgrow_driver.c"), [os.path.join(REPO, "futex", f_) for f_ in ("futex.c", "map.c", "list.c")])
                shim_ok = True
                stats["exploration_seam"] = "pthread functions"
            except common.MachineryError as e_:
                stats["pthread_level_skipped"] = str(e_)[-300:]
        if not shim_ok:
            # the tree uses thread primitives the deterministic layer does not provide (it knows the macros of the pinned runtime):
            # no exploration; the real-thread observers below still run
            stats["exploration_skipped"] = err[-300:]
        histories, meta, seen = [], [], set()
        for s in (SCRIPTS if shim_ok else []):
            nthr = s.count("|") + 1
            env = {"SCHED_SYNCLOG": "0", "SCHED_PREEMPT": ("3" if nthr <= 2 else "2") if tier == "quick" else ("6" if nthr <= 2 else "3"),
                   "ASAN_OPTIONS": "detect_leaks=0"}
            for r in explore.explore(exe, [s], env=env, jobs=common.NCPU, max_runs=20000 if tier == "quick" else 200000):
                stats["schedules"] += 1
                if r["rc"] != 0 or r["end"] is None or r["end"]["outcome"] != "complete":
                    v.deviation("grow:%s" % ("asan" if "Sanitizer" in r["stderr"] else (r["end"] or {}).get("outcome", "crash")),
                                {"script": s, "schedule": r["prefix"], "stderr": r["stderr"][-1200:]})
                    continue
                if r["end"].get("misuse"):
                    v.deviation("grow:mutex-misuse", {"script": s, "schedule": r["prefix"], "count": r["end"]["misuse"]})
                h, final = history_of(r)
                if final and final["size"] != final["pages"] * 65536:
                    v.deviation("grow:size-field", {"script": s, "final": final})
                key = json.dumps(h)
                if key not in seen:
                    seen.add(key)
                    histories.append(h)
                    meta.append({"script": s, "schedule": [c for c, n in r["end"]["choices"]]})
        rejected, tst = tracecheck.validate("MemGrowTrace", "MemGrowTrace.cfg", histories)
        for idx, at in rejected:
            h = histories[idx]
            grows = [e for e in h if e["ev"] == "ret"]
            v.deviation("grow:not-linearizable", {"script": meta[idx]["script"], "schedule": meta[idx]["schedule"], "history": h,
                                                  "first_unexplained_event": h[at - 1] if 0 < at <= len(h) else None},
                        {"history.ndjson": "\n".join(json.dumps(e) for e in h) + "\n", "schedule.json": json.dumps(meta[idx])})
        # 2b. real threads: what no interleaving may show, counted over many rounds (lock-free variants of grow have no scheduling
        #     points for the deterministic scheduler to explore)
        stress = os.path.join(wd, "mgstress")
        rc, out, err = run(["gcc", "-O2", "-g", "-w", "-DWASM_THREADS_PTHREADS", "-I", os.path.join(REPO, "w2c2"),
                            os.path.join(BINDC, "memgrow_stress.c"), "-o", stress, "-lpthread", "-lm"], timeout=300)
        if rc != 0:
            raise common.MachineryError("cannot build the grow stress test: " + err[-2000:])
        rc, out, err = run([stress, "60" if tier == "quick" else "1500"], timeout=600)
        try:
            sres = json.loads(out.strip().splitlines()[-1])
        except (ValueError, IndexError):
            sres = None
            v.deviation("grow:stress:%s" % ("hang" if rc == -999 else "crash"), {"rc": rc, "stderr": err[-600:]})
        if sres:
            for k_, n_ in sres.items():
                if k_ != "rounds" and n_:
                    v.deviation("grow:stress:%s" % k_, sres)
        # 2b. a shared memory with the largest maximum, grown far beyond what the other drivers reach: its storage never moves
        bigx = os.path.join(wd, "mgbig")
        rc, out, err = run(["gcc", "-O1", "-g", "-w", "-fsanitize=address", "-DWASM_THREADS_PTHREADS", "-I", os.path.join(REPO, "w2c2"),
                            os.path.join(BINDC, "memgrow_big.c"), "-o", bigx, "-lpthread", "-lm"], timeout=300)
        if rc != 0:
            raise common.MachineryError("cannot build the big-memory grow test: " + err[-2000:])
        rc, out, err = run([bigx], timeout=300, env={"ASAN_OPTIONS": "detect_leaks=0"})
        try:
            bres = json.loads(out.strip().splitlines()[-1])
        except (ValueError, IndexError):
            bres = None
            v.deviation("grow:big:%s" % ("hang" if rc == -999 else "crash"), {"rc": rc, "stderr": err[-800:]})
        if bres and bres.get("alloc"):
            for k_ in ("moved", "badpages", "lost", "dirty"):
                if bres[k_]:
                    v.deviation("grow:big:%s" % k_, bres)
        stats["big_memory"] = bres
        # 2c. the same at the level of a translated module: threads grow through different exported functions (with -f 1 in
        #     different C files), built with and without -DNDEBUG (what release builds of embedders define)
        import wasm_encode, machine
        from wasmgen import b32
        gbody = [["local.get", 0], ["memory.grow"], ["end"]]
        gm = {"types": [{"p": ["i32"], "r": ["i32"]}, {"p": [], "r": ["i32"]}],
              "funcs": [{"type": 0, "locals": [], "body": gbody}, {"type": 0, "locals": [], "body": [["nop"]] + gbody}, {"type": 1, "locals": [], "body": [["memory.size"], ["end"]]}],
              "memory": {"min": 1, "max": 40, "shared": True},
              "exports": [{"name": "growA", "kind": "func", "idx": 0}, {"name": "growB", "kind": "func", "idx": 1}, {"name": "size", "kind": "func", "idx": 2}]}
        w2c2 = common.build_w2c2(os.path.join(wd, "w2c2bin"))
        modres = {}
        for split in ("one-file", "file-per-function"):
            md = os.path.join(wd, "mg-" + split)
            os.makedirs(md)
            open(os.path.join(md, "mg.wasm"), "wb").write(wasm_encode.encode(machine.enc_module(machine.norm_module(gm))))
            rc, out, err = run([w2c2, "-t", "1"] + (["-f", "1"] if split != "one-file" else []) + ["mg.wasm", "mg.c"], cwd=md, timeout=60)
            if rc != 0:
                v.deviation("grow:module:translate", {"split": split, "stderr": err[-400:]})
                continue
            srcs = sorted(f_ for f_ in os.listdir(md) if f_.endswith(".c"))
            for ndebug in (False, True):
                exe_m = os.path.join(md, "mg" + ("-ndebug" if ndebug else ""))
                rc, out, err = run(["gcc", "-O2", "-w", "-DWASM_THREADS_PTHREADS"] + (["-DNDEBUG"] if ndebug else []) + ["-I", md, "-I", os.path.join(REPO, "w2c2"),
                                    os.path.join(BINDC, "memgrow_module.c")] + srcs + ["-o", exe_m, "-lpthread", "-lm"], cwd=md, timeout=300)
                if rc != 0:
                    v.deviation("grow:module:compile", {"split": split, "ndebug": ndebug, "stderr": err[-600:]})
                    continue
                rc, out, err = run([exe_m, "40" if tier == "quick" else "600"], timeout=300)
                key = "%s%s" % (split, "-ndebug" if ndebug else "")
                try:
                    modres[key] = json.loads(out.strip().splitlines()[-1])
                except (ValueError, IndexError):
                    v.deviation("grow:module:%s" % ("hang" if rc == -999 else "crash"), {"configuration": key, "rc": rc, "stderr": err[-400:]})
                    continue
                for k_, n_ in modres[key].items():
                    if k_ != "rounds" and n_:
                        v.deviation("grow:module:%s" % k_, dict(modres[key], configuration=key))
        stats["module_level"] = modres
        # ... and with the memory imported as well as defined, deltas above 16 pages, a maximum that is reached, and the threads arranged
        # on one instance, on instances of their own over the same memory, on child instances (bind/c/shared_module.c)
        import sharedmod
        smres, smprobs = sharedmod.run_all(wd, w2c2, tier, "C18")
        for what, det in smprobs:
            v.deviation("grow:module:%s" % what, det)
        stats["module_level_arrangements"] = {k_: {f_: r_[f_] for f_ in ("rounds",) + sharedmod.FIELDS["C18"]} for k_, r_ in smres.items()}
        # 3. race clause: ThreadSanitizer on real threads
        tsan = os.path.join(wd, "tsan")
        rc, out, err = run(["gcc", "-O1", "-g", "-w", "-fsanitize=thread", "-DWASM_THREADS_PTHREADS", "-I", os.path.join(REPO, "w2c2"),
                            os.path.join(BINDC, "memgrow_tsan.c"), "-o", tsan, "-lpthread", "-lm"], timeout=300)
        if rc != 0:
            raise common.MachineryError("cannot build tsan observer: " + err[-2000:])
        races = {}
        for mode, what in ((0, "grow-grow"), (1, "grow-size"), (2, "grow-data")):
            for rep in range(3 if tier == "quick" else 15):
                rc, out, err = run([tsan, str(mode)], timeout=120, env={"TSAN_OPTIONS": "halt_on_error=0 report_signal_unsafe=0"})
                if "ThreadSanitizer: data race" in err:
                    fields = sorted(set(re.findall(r"in (wasm\w+|sizer|toucher|grower)", err)))
                    races[what] = fields
                    break
        for what, fields in races.items():
            v.deviation("race:%s" % what, {"tsan_frames": fields, "model_says_racefree_violated": m_race["rc"] != 0})
    finally:
        shutil.rmtree(wd, ignore_errors=True)
    cov = {"states": m_fixed["distinct"] + m_old["distinct"] + m_race["distinct"] + m_norace["distinct"] + tst["states"],
           "transitions": m_fixed["generated"] + m_old["generated"] + m_race["generated"] + m_norace["generated"] + tst["transitions"],
           "traces_validated_against_impl": len(histories),
           "samples": [{"script": meta[j]["script"], "history": histories[j]} for j in range(0, len(histories), max(1, len(histories) // 3))][:4],
           "evaluations": stats["schedules"], "distinct_nontrivial": len(histories),
           "rule": "2-4 threads x grow deltas {0..4} / memory.size / data access on one shared memory (initial 1, max 4) through the real "
                   "wasmMemoryGrow under the deterministic scheduler, all schedules up to the preemption bound; distinct = distinct API "
                   "histories, each validated by TLC against MemGrowAbs incl. the final page count; ThreadSanitizer observes real threads",
           "model_read_before_lock_rejected": m_old["rc"] != 0, "model_plain_size_read_races": m_race["rc"] != 0,
           "tsan_races": races, "schedules_run": stats["schedules"], "proofs": stats.get("proof_MemGrowProof"), "big_memory": stats.get("big_memory"), "module_level": stats.get("module_level"),
           "exploration": {k_: v_ for k_, v_ in stats.items() if "seam" in k_ or "skipped" in k_}, "exhaustive": False}
    return v.finish("model_checking", cov,
                    ["schedules exhaustive up to the preemption bound only", "data-race freedom is observed by ThreadSanitizer on sampled real executions and "
                     "stated in the model as a lockset condition; the C11 memory model itself is outside TLA+",
                     "<= 4 threads"])


main_wrap(main)
