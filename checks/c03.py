#!/usr/bin/env python3
"""C03 - structured control flow, operand stack and locals (DESIGN.md 3/C03)."""
import os
import random
import sys
sys.path.insert(0, os.path.join(os.path.dirname(os.path.abspath(__file__)), "..", "bind", "py"))
import machine
import wasmgen
from common import SEED, Verdict, main_wrap, tlc, tlc_ok
from wasmgen import b32, b64

INST = {"op": "instantiate", "binds": {"mem": 0, "table": 0, "globals": []}}


def arg(t, v):
    return {"t": t, "b": b32(v) if t in ("i32", "f32") else b64(v)}


def strip_dead(body):
    """Remove instructions made unreachable by br / br_table / return / unreachable
    (up to the else/end that closes the block they are in)."""
    out, skip_depth = [], None
    depth = 0
    for ins in body:
        op = ins[0]
        if skip_depth is not None:
            if op in ("block", "loop", "if"):
                depth += 1
                continue
            if op == "end":
                if depth == skip_depth:
                    skip_depth = None
                    depth -= 1
                    out.append(ins)
                else:
                    depth -= 1
                continue
            if op == "else" and depth == skip_depth:
                skip_depth = None
                out.append(ins)
            continue
        out.append(ins)
        if op in ("block", "loop", "if"):
            depth += 1
        elif op == "end":
            depth -= 1
        elif op in ("br", "br_table", "return", "unreachable"):
            skip_depth = depth
    return out


def directed(rng, tier):
    """Hand-shaped families the random generator reaches only rarely."""
    items = []
    # (a) br_table with n targets at different nesting heights, every index incl. out of range
    for n in ([0, 1, 3, 8] if tier == "quick" else [0, 1, 2, 3, 5, 8, 12]):
        depth = n + 1
        body = []
        for d in range(depth):
            body.append(["block", "i32"])
        # innermost: push a marker that identifies the carrier, extra operands below it
        body += [["i64.const", b64(99)], ["i32.const", b32(1000)], ["local.get", 0],
                 ["br_table", list(range(n)), n], ["end"]]
        for d in range(1, depth):
            body += [["i32.const", b32(d)], ["i32.add"], ["end"]]
        body += [["end"]]
        m = {"types": [{"p": ["i32"], "r": ["i32"]}], "funcs": [{"type": 0, "locals": [], "body": body}],
             "exports": [{"name": "t", "kind": "func", "idx": 0}]}
        idx = list(range(n + 2)) + [0xFFFFFFFF, 0x80000000, 1 << 16]
        items.append({"id": "brt%d" % n, "module": m,
                      "script": [INST] + [{"op": "call", "inst": 1, "export": "t", "args": [arg("i32", i)]} for i in idx]})
    # (b) br out of depth d carrying a value, with k extra operands below it at each level
    for d in ([1, 4, 12] if tier == "quick" else [1, 2, 4, 8, 12, 20]):
        for extra in (0, 2):
            body = [["block", "i64"]]
            for _ in range(d):
                body += [["i32.const", b32(5)]] * extra + [["block", ""]]
            body += [["i32.const", b32(7)]] * extra + [["local.get", 0], ["local.get", 1], ["br_if", d], ["drop"]] + [["drop"]] * extra
            for _ in range(d):
                body += [["end"]] + [["drop"]] * extra
            body += [["i64.const", b64(-1)], ["end"], ["end"]]
            m = {"types": [{"p": ["i64", "i32"], "r": ["i64"]}], "funcs": [{"type": 0, "locals": [], "body": body}],
                 "exports": [{"name": "t", "kind": "func", "idx": 0}]}
            items.append({"id": "brd%d_%d" % (d, extra), "module": m,
                          "script": [INST] + [{"op": "call", "inst": 1, "export": "t", "args": [arg("i64", 0x1122334455667788), arg("i32", c)]}
                                              for c in (0, 1, 0x80000000)]})
    # (b2) a branch that targets the label of an IF with a result, from inside either arm, with extra operands
    #      below the carried value; also br_table and br_if to that label, and nested in a block
    for extra in (0, 1, 3):
        for how in ("br", "br_if", "br_table"):
            ex = [["i32.const", b32(500 + j)] for j in range(extra)]
            dr = [["drop"]] * extra
            def arm(v):
                a = list(ex) + [["i32.const", b32(v)]]
                if how == "br":
                    a += [["br", 0]]
                elif how == "br_if":
                    a += [["local.get", 1], ["br_if", 0]] + [["drop"]] + dr + [["i32.const", b32(v + 1)]]
                else:
                    a += [["local.get", 1], ["br_table", [0, 1, 0], 0]]
                return a
            body = [["i32.const", b32(9000)],                 # an operand below the whole construct
                    ["block", "i32"],
                    ["i32.const", b32(70)],                   # operand below the if inside the block
                    ["local.get", 0],
                    ["if", "i32"]] + arm(42) + [["else"]] + arm(77) + [["end"],
                    ["i32.add"],
                    ["end"],
                    ["i32.add"], ["end"]]
            m = {"types": [{"p": ["i32", "i32"], "r": ["i32"]}], "funcs": [{"type": 0, "locals": [], "body": body}],
                 "exports": [{"name": "t", "kind": "func", "idx": 0}]}
            items.append({"id": "ifbr_%s_%d" % (how, extra), "module": m,
                          "script": [INST] + [{"op": "call", "inst": 1, "export": "t", "args": [arg("i32", c), arg("i32", k)]}
                                              for c in (0, 1) for k in (0, 1, 2, 7)]})
    # (b3) bodies that never produce their result on a live path: only unreachable / an unconditional branch / return
    funcs, exports, tys = [], [], []
    for rt in ("", "i32", "i64", "f32", "f64"):
        ty = {"p": ["i32"], "r": [rt] if rt else []}
        if ty not in tys:
            tys.append(ty)
        zero = [[rt + ".const", b32(0) if rt in ("i32", "f32") else b64(0)]] if rt else []
        for nm, body in (("never", [["unreachable"], ["end"]]),
                         ("blk", [["block", rt], ["unreachable"], ["end"], ["end"]]),
                         ("ret", zero + [["return"], ["end"]]),
                         ("cond", [["local.get", 0], ["if", ""], ["unreachable"], ["end"]] + zero + [["end"]])):
            funcs.append({"type": tys.index(ty), "locals": [], "body": body})
            exports.append({"name": "%s_%s" % (nm, rt or "void"), "kind": "func", "idx": len(funcs) - 1})
    items.append({"id": "stubs", "module": {"types": tys, "funcs": funcs, "exports": exports},
                  "script": [INST] + [{"op": "call", "inst": 1, "export": e["name"], "args": [arg("i32", a)]} for e in exports for a in (0, 1)]})
    # (c) locals: zero-initialised, any number and type; params keep the arguments; set/tee visible
    for nloc in ([0, 3, 40] if tier == "quick" else [0, 1, 3, 17, 40, 200]):
        types = [rng.choice(["i32", "i64", "f32", "f64"]) for _ in range(nloc)]
        params = ["i32", "f64", "i64", "f32"]
        runs = []
        for t in types:
            if runs and runs[-1][0] == t:
                runs[-1][1] += 1
            else:
                runs.append([t, 1])
        funcs, exports, tys = [], [], []
        script = [INST]
        args = [arg("i32", 0xDEADBEEF), arg("f64", 0x7FF0000000000001), arg("i64", 1 << 63), arg("f32", 0x80000000)]
        for k, t in list(enumerate(params + types))[::max(1, (nloc + 4) // 12)]:
            ty = {"p": params, "r": [t]}
            if ty not in tys:
                tys.append(ty)
            funcs.append({"type": tys.index(ty), "locals": runs, "body": [["local.get", k], ["end"]]})
            exports.append({"name": "get%d" % k, "kind": "func", "idx": len(funcs) - 1})
            script.append({"op": "call", "inst": 1, "export": "get%d" % k, "args": args})
        # set then get through tee, on the last local and on a parameter
        ty = {"p": params, "r": ["i32"]}
        if ty not in tys:
            tys.append(ty)
        last = len(params) + nloc - 1 if nloc and types[-1] == "i32" else 0
        funcs.append({"type": tys.index(ty), "locals": runs,
                      "body": [["i32.const", b32(41)], ["local.tee", last], ["i32.const", b32(1)], ["i32.add"], ["local.set", last],
                               ["local.get", last], ["local.get", 0], ["i32.add"], ["end"]]})
        exports.append({"name": "tee", "kind": "func", "idx": len(funcs) - 1})
        script.append({"op": "call", "inst": 1, "export": "tee", "args": args})
        items.append({"id": "loc%d" % nloc, "module": {"types": tys, "funcs": funcs, "exports": exports}, "script": script})
    # (d) if/else with and without result, nested in loops; select
    body = [["i32.const", b32(0)], ["local.set", 2],
            ["loop", ""],
            ["local.get", 0], ["i32.const", b32(1)], ["i32.and"],
            ["if", "i32"], ["local.get", 1], ["else"], ["i32.const", b32(100)], ["local.get", 0], ["i32.eqz"], ["br_if", 0], ["drop"], ["i32.const", b32(3)], ["end"],
            ["local.get", 2], ["i32.add"], ["local.set", 2],
            ["local.get", 0], ["i32.const", b32(1)], ["i32.shr_u"], ["local.tee", 0], ["br_if", 0],
            ["end"],
            ["local.get", 2], ["i32.const", b32(-5)], ["local.get", 1], ["select"], ["end"]]
    m = {"types": [{"p": ["i32", "i32"], "r": ["i32"]}], "funcs": [{"type": 0, "locals": [["i32", 1]], "body": body}],
         "exports": [{"name": "t", "kind": "func", "idx": 0}]}
    items.append({"id": "ifloop", "module": m,
                  "script": [INST] + [{"op": "call", "inst": 1, "export": "t", "args": [arg("i32", a), arg("i32", b)]}
                                      for a in (0, 1, 2, 5, 0xFF, 0x80000000) for b in (0, 7)]})
    # (w) a branch carrying a value of type T to a block of type T, with an extra operand below, while blocks / loops / ifs of OTHER
    #     result types are opened (nested, already closed, or in dead code) between the target's opening and the branch
    cst = {"i32": ["i32.const", b32(42)], "i64": ["i64.const", b64(43)], "f32": ["f32.const", b32(0x42280000)], "f64": ["f64.const", b64(0x4045800000000000)]}
    toi32 = {"i32": [], "i64": [["i32.wrap_i64"]], "f32": [["i32.trunc_sat_f32_s"]], "f64": [["i32.trunc_sat_f64_s"]]}
    jw = 0
    for T in ("i32", "i64", "f32", "f64"):
        for U in ("i32", "i64", "f32", "f64"):
            if U == T:
                continue
            for where in ("closed", "nested", "dead"):
                for br in ("br", "br_if", "br_table"):
                    # inside the target block: an extra operand (i32 7), then the other-typed construct, then the carried value
                    inner_closed = [["block", U], cst[U], ["end"], ["drop"]]
                    if where == "nested":
                        # the branch sits inside a block of type U and leaves it as well (label 1)
                        brn = {"br": [["br", 1]], "br_if": [["local.get", 0], ["br_if", 1], ["drop"], cst[U]], "br_table": [["local.get", 0], ["br_table", [1], 1]]}[br]
                        body_in = [["i32.const", b32(7)], ["block", U], cst[T]] + brn + [["end"], ["drop"], ["drop"], cst[T]]
                    else:
                        tail_ = {"br": [["br", 0]], "br_if": [["local.get", 0], ["br_if", 0], ["drop"], ["drop"], cst[T]], "br_table": [["local.get", 0], ["br_table", [0], 0]]}[br]
                        if where == "closed":
                            body_in = [["i32.const", b32(7)]] + inner_closed + [cst[T]] + tail_
                        else:   # dead: the other-typed construct follows an unconditional branch out of a void block
                            body_in = [["i32.const", b32(7)], ["block", ""], ["br", 0]] + inner_closed + [["end"], cst[T]] + tail_
                    # target block of type T entered with one extra operand (an i32) below its result
                    body = [["i32.const", b32(1000)], ["block", T]] + body_in + [["end"]] + toi32[T] + [["i32.add"], ["end"]]
                    m = {"types": [{"p": ["i32"], "r": ["i32"]}], "funcs": [{"type": 0, "locals": [], "body": body}], "exports": [{"name": "t", "kind": "func", "idx": 0}]}
                    items.append({"id": "mix%d" % jw, "module": m, "script": [INST] + [{"op": "call", "inst": 1, "export": "t", "args": [arg("i32", n)]} for n in (0, 1)]})
                    jw += 1
    # (y) every activation has its own zeroed locals: self calls in tail position (last instruction, before `return`, inside an
    #     `if`), the callee reads a local the caller has written
    for shape in ("last", "return", "ifarm"):
        tail = {"last": [["local.get", 0], ["i32.const", b32(1)], ["i32.sub"], ["call", 0]],
                "return": [["local.get", 0], ["i32.const", b32(1)], ["i32.sub"], ["call", 0], ["return"]],
                "ifarm": [["local.get", 0], ["i32.const", b32(1)], ["i32.sub"], ["call", 0]]}[shape]
        setl = [["i32.const", b32(40)], ["local.get", 0], ["i32.add"], ["local.set", 1], ["i64.const", b64(1000)], ["local.set", 2]]
        readl = [["local.get", 1], ["local.get", 2], ["i32.wrap_i64"], ["i32.add"]]
        if shape == "ifarm":
            body = [["local.get", 0], ["i32.eqz"], ["if", "i32"]] + readl + [["else"]] + setl + tail + [["end"], ["end"]]
        else:
            body = [["local.get", 0], ["i32.eqz"], ["if", ""]] + readl + [["return"], ["end"]] + setl + tail + [["end"]]
        m = {"types": [{"p": ["i32"], "r": ["i32"]}], "funcs": [{"type": 0, "locals": [["i32", 1], ["i64", 1]], "body": body}],
             "exports": [{"name": "t", "kind": "func", "idx": 0}]}
        items.append({"id": "tail_%s" % shape, "module": m, "script": [INST] + [{"op": "call", "inst": 1, "export": "t", "args": [arg("i32", n)]} for n in (0, 1, 2, 5)]})
    # (x) br_table whose targets were entered at different operand-stack heights (operands pushed between the blocks),
    #     incl. the function label; every target, value-carrying
    for nt in (2, 3, 5):
        body = []
        for d in range(nt):
            body += [["block", "i32"], ["i32.const", b32(100 * (d + 1))]]          # one more operand below every inner block
        body += [["i32.const", b32(7777)], ["local.get", 0], ["br_table", list(range(nt)), nt], ["end"]]
        for d in range(nt - 1):
            # back in the enclosing block: its own operand lies below the inner block's result: combine, then end it
            body += [["i32.add"], ["end"]]
        body += [["end"]]
        m = {"types": [{"p": ["i32"], "r": ["i32"]}], "funcs": [{"type": 0, "locals": [], "body": body}], "exports": [{"name": "t", "kind": "func", "idx": 0}]}
        items.append({"id": "brth%d" % nt, "module": m, "script": [INST] + [{"op": "call", "inst": 1, "export": "t", "args": [arg("i32", n)]} for n in range(nt + 2)]})
    # (z) declared locals start at zero: groups of several locals of every type, each read before any write, after the
    #     C stack has been dirtied by other calls; the pattern-initialising build makes a missing initialiser visible
    groups = [["i32", 3], ["i64", 2], ["f32", 2], ["f64", 3], ["i32", 1], ["i64", 4]]
    flat = [t for t, n in groups for _ in range(n)]
    funcs = []
    for j, t in enumerate(flat):
        # rd<j>(x): returns local j (must be zero) combined with the parameter so that the call is not constant
        conv = {"i32": [], "i64": [["i32.wrap_i64"]], "f32": [["i32.reinterpret_f32"]], "f64": [["i64.reinterpret_f64"], ["i32.wrap_i64"]]}[t]
        funcs.append({"type": 0, "locals": [list(g) for g in groups], "body": [["local.get", 1 + j]] + conv + [["local.get", 0], ["i32.add"], ["end"]]})
    # dirty(x): deep arithmetic on many stack slots with non-zero values
    funcs.append({"type": 0, "locals": [["i32", 6], ["i64", 6]],
                  "body": [x for k in range(1, 7) for x in ([["local.get", 0], ["i32.const", b32(0x5A5A5A5A + k)], ["i32.xor"], ["local.set", k]])] +
                          [x for k in range(7, 13) for x in ([["i64.const", b64(0x7777777777777777)], ["local.set", k]])] +
                          [["local.get", 1]] + [x for k in range(2, 7) for x in ([["local.get", k], ["i32.add"]])] + [["end"]]})
    m = {"types": [{"p": ["i32"], "r": ["i32"]}], "funcs": funcs,
         "exports": [{"name": "rd%d" % j, "kind": "func", "idx": j} for j in range(len(flat))] + [{"name": "dirty", "kind": "func", "idx": len(flat)}]}
    script = [INST]
    for j in range(len(flat)):
        script += [{"op": "call", "inst": 1, "export": "dirty", "args": [arg("i32", 0x01010101 * (j + 1))]},
                   {"op": "call", "inst": 1, "export": "rd%d" % j, "args": [arg("i32", 5)]}]
    items.append({"id": "zero", "module": m, "script": script})
    # (z2) a declared local whose FIRST access in program order is a write that does not happen on every path (inside an `if`
    #      arm or an else arm, behind a br_if / br / br_table out of a block, in a loop's later iteration), read afterwards on
    #      the path that skipped the write: still zero.  Every value type; after the C stack has been dirtied.
    funcs, exps, script = [], [], [INST]
    K = {"i32": ["i32.const", b32(5)], "i64": ["i64.const", b64(5)], "f32": ["f32.const", b32(0x40A00000)], "f64": ["f64.const", b64(0x4014000000000000)]}
    conv = {"i32": [], "i64": [["i32.wrap_i64"]], "f32": [["i32.reinterpret_f32"]], "f64": [["i64.reinterpret_f64"], ["i32.wrap_i64"]]}
    shapes = {
        "ifset": lambda t: [["local.get", 0], ["if", ""], K[t], ["local.set", 1], ["end"], ["local.get", 1]],
        "elseset": lambda t: [["local.get", 0], ["if", ""], ["nop"], ["else"], K[t], ["local.set", 1], ["end"], ["local.get", 1]],
        "brifskip": lambda t: [["block", ""], ["local.get", 0], ["br_if", 0], K[t], ["local.set", 1], ["end"], ["local.get", 1]],
        "brifskip2": lambda t: [["block", ""], ["block", ""], ["local.get", 0], ["br_if", 1], ["end"], K[t], ["local.tee", 1], ["drop"], ["end"], ["local.get", 1]],
        "brtableskip": lambda t: [["block", ""], ["block", ""], ["local.get", 0], ["br_table", [0, 1], 1], ["end"], K[t], ["local.set", 1], ["end"], ["local.get", 1]],
        "loopsecond": lambda t: [["loop", ""], ["local.get", 1]] + conv[t] + [["local.get", 2], ["i32.add"], ["local.set", 2], K[t], ["local.set", 1],
                                 ["local.get", 0], ["i32.const", b32(1)], ["i32.sub"], ["local.tee", 0], ["br_if", 0], ["end"], ["local.get", 2], ["return"]],
        "ifsetnested": lambda t: [["block", ""], ["local.get", 0], ["i32.eqz"], ["br_if", 0], ["local.get", 0], ["i32.const", b32(2)], ["i32.eq"], ["if", ""], K[t], ["local.set", 1], ["end"], ["end"], ["local.get", 1]],
    }
    for t in ("i32", "i64", "f32", "f64"):
        for sh, mk in shapes.items():
            body = mk(t)
            if sh != "loopsecond":
                body = body + conv[t]
            funcs.append({"type": 0, "locals": [[t, 1], ["i32", 1]], "body": body + [["end"]]})
            exps.append({"name": "%s_%s" % (sh, t), "kind": "func", "idx": len(funcs) - 1})
    funcs.append(dict(m["funcs"][-1]))          # dirty(x) from the family above
    exps.append({"name": "dirty", "kind": "func", "idx": len(funcs) - 1})
    for e_ in exps[:-1]:
        for a_ in (0, 1, 2, 3):
            script += [{"op": "call", "inst": 1, "export": "dirty", "args": [arg("i32", 0x01010101 * (a_ + 3))]},
                       {"op": "call", "inst": 1, "export": e_["name"], "args": [arg("i32", a_)]}]
    # (z3) dead code pops what it likes (the stack is polymorphic there): more drops / sets / stores in the dead tail of a block than
    #      operands were pushed inside it, with operands of every type waiting BELOW the block for consumers that name their type
    #      (comparison, select, a branch that carries the value, an if condition)
    dfuncs, dexps, dscript = [], [], [INST]
    KC = {"i32": (["i32.const", b32(77)], ["i32.const", b32(78)]), "i64": (["i64.const", b64(0x1122334455)], ["i64.const", b64(78)]),
          "f32": (["f32.const", b32(0x3FC00000)], ["f32.const", b32(0x40200000)]), "f64": (["f64.const", b64(0x3FF8000000000000)], ["f64.const", b64(0x4004000000000000)])}
    for t in ("i32", "i64", "f32", "f64"):
        a_, b_ = KC[t]
        for nd in (1, 2, 4):
            for kname, killer in (("br", [["br", 0]]), ("unreachable", [["local.get", 0], ["br_if", 0], ["unreachable"]]), ("return", [["i32.const", b32(5)], ["return"]])):
                dead = [["drop"]] * nd + [["unreachable"]]
                shapes_ = {
                    "eq": [a_, a_, ["block", ""]] + killer + dead + [["end"], [t + ".eq"], ["end"]],
                    "sel": [a_, b_, ["block", ""]] + killer + dead + [["end"], ["local.get", 0], ["select"]] + conv[t] + [["end"]],
                    "carry": [["block", t], a_, ["block", ""]] + killer + dead + [["end"], ["br", 0], ["end"]] + conv[t] + [["end"]],
                    "under": [["i32.const", b32(9)], a_, ["block", ""]] + killer + dead + [["end"]] + conv[t] + [["i32.add"], ["end"]],
                }
                for sh, body in shapes_.items():
                    dfuncs.append({"type": 0, "locals": [], "body": body})
                    nm_ = "dd_%s_%s_%d_%s" % (t, sh, nd, kname)
                    dexps.append({"name": nm_, "kind": "func", "idx": len(dfuncs) - 1})
                    for x_ in (0, 1):
                        dscript.append({"op": "call", "inst": 1, "export": nm_, "args": [arg("i32", x_)]})
    items.append({"id": "deaddrops", "module": {"types": [{"p": ["i32"], "r": ["i32"]}], "funcs": dfuncs, "exports": dexps}, "script": dscript})
    items.append({"id": "condset", "module": {"types": [{"p": ["i32"], "r": ["i32"]}], "funcs": funcs, "exports": exps}, "script": script})
    return items


def residue_items(rng):
    """Function bodies that END in dead code with operands still on the stack (more than the function has results: after return, br,
    br_table, unreachable the stack is polymorphic), next to functions whose result reaches the end of the body normally.  The translator
    writes functions in an order of its own (and several per file): whatever one body leaves behind must not reach the next."""
    c32, c64 = (lambda x: ["i32.const", b32(x)]), (lambda x: ["i64.const", b64(x)])
    items = []
    for salt in range(3):
        funcs, exps, script = [], [], [INST]
        types = [{"p": ["i32"], "r": []}, {"p": ["i32"], "r": ["i32"]}, {"p": ["i32"], "r": ["i64"]}, {"p": ["i32"], "r": ["f64"]}]
        # (operands pushed BEFORE the instruction that ends reachability: they are simply abandoned)
        leftovers = [[["local.get", 0], ["return"]],
                     [c32(1 + salt), c64(2), ["local.get", 0], ["br", 0]],
                     [c64(5), c32(6 + salt), ["f64.const", [0] * 8], ["unreachable"]],
                     [c32(3), c32(4 + salt), ["local.get", 0], ["br_table", [0, 0], 0]],
                     [c32(salt), ["local.get", 0], ["i32.add"], c64(1), c64(2), ["return"]],
                     [["local.get", 0], ["local.get", 0], ["block", ""], ["br", 1], ["end"], ["local.get", 0], ["return"]]]
        falling = [(1, [["local.get", 0], c32(9 + salt), ["i32.add"]]),
                   (2, [["local.get", 0], ["i64.extend_i32_u"], c64(1000 + salt), ["i64.add"]]),
                   (3, [["local.get", 0], ["f64.convert_i32_u"]]),
                   (1, [c32(7), ["local.get", 0], ["if", "i32"], c32(11 + salt), ["else"], c32(12), ["end"], ["i32.add"]]),
                   (1, [["block", "i32"], ["local.get", 0], c32(salt), ["i32.add"], ["end"]]),
                   (2, [c64(77), ["local.get", 0], ["i64.extend_i32_s"], ["i64.sub"]])]
        order = [("L", k) for k in range(len(leftovers))] + [("F", k) for k in range(len(falling))]
        rng.shuffle(order)
        for kind, k in order * 2:          # twice: every body appears with two different neighbours (bodies differ by a nop)
            pad = [["nop"]] * (len(funcs) // len(order))
            if kind == "L":
                funcs.append({"type": 0, "locals": [], "body": pad + leftovers[k] + [["end"]]})
            else:
                funcs.append({"type": falling[k][0], "locals": [], "body": pad + falling[k][1] + [["end"]]})
            exps.append({"name": "r%d" % len(funcs), "kind": "func", "idx": len(funcs) - 1})
            for x_ in (0, 5):
                script.append({"op": "call", "inst": 1, "export": "r%d" % len(funcs), "args": [arg("i32", x_)]})
        items.append({"id": "residue%d" % salt, "module": {"types": types, "funcs": funcs, "exports": exps}, "script": script})
    return items


def manylocals_items():
    """Functions with parameters and several hundred locals in groups of different types: every local near a group boundary and around
    index 256 is written and read with its own type (a local's type is that of ITS group, parameters counted in)."""
    groups = [("i32", 150), ("i64", 100), ("f32", 3), ("f64", 30), ("i32", 20), ("i64", 1), ("f64", 2)]
    items = []
    for pi, params in enumerate((["i32", "i64"], ["i64"], ["i32", "i64", "f64", "i32"])):
        tys = list(params)
        for t, n in groups:
            tys += [t] * n
        bounds, at = set(), len(params)
        for t, n in groups:
            bounds |= {at - 1, at, at + 1, at + n - 2, at + n - 1}
            at += n
        idxs = sorted(i for i in bounds | {254, 255, 256, 257, 258, len(tys) - 1, len(tys) - len(params), len(tys) - len(params) - 1} if len(params) <= i < len(tys))
        p64 = params.index("i64")
        to = {"i32": [["i32.wrap_i64"]], "i64": [], "f32": [["f32.convert_i64_s"]], "f64": [["f64.convert_i64_s"]]}
        back = {"i32": [["i64.extend_i32_u"]], "i64": [], "f32": [["i64.trunc_sat_f32_s"]], "f64": [["i64.trunc_sat_f64_s"]]}
        funcs, exps, script = [], [], [INST]
        for i in idxs:
            t = tys[i]
            # local i := p64 (as t); a neighbour of another index is written too; result: local i back as i64, plus the untouched local i-1 (0)
            body = [["local.get", p64]] + to[t] + [["local.set", i]] + [["local.get", i]] + back[t] + \
                   ([["local.get", i - 1]] + back[tys[i - 1]] + [["i64.add"]] if i - 1 >= len(params) else []) + [["end"]]
            funcs.append({"type": 0, "locals": [[t_, n_] for t_, n_ in groups], "body": body})
            exps.append({"name": "l%d" % i, "kind": "func", "idx": len(funcs) - 1})
            args = [arg(t_, 0x900000005 if t_ == "i64" else 3) if t_ in ("i32", "i64") else {"t": "f64", "b": [0] * 8} for t_ in params]
            script.append({"op": "call", "inst": 1, "export": "l%d" % i, "args": args})
        items.append({"id": "manylocals%d" % pi, "module": {"types": [{"p": params, "r": ["i64"]}], "funcs": funcs, "exports": exps}, "script": script})
    return items


def dead_everything(rng):
    """Every instruction of the feature set, with immediates whose bytes look like structure (end, else, block, loop, if), once in
    code made unreachable by br / return / unreachable / br_table; the code after the enclosing block must run as if it were not there."""
    import wasm_encode
    ops = sorted(wasm_encode.OPS)
    structural = {"block", "loop", "if", "else", "end"}
    killers = [[["br", 0]], [["return"]], [["unreachable"]], [["i32.const", b32(0)], ["br_table", [0, 0], 0]]]
    funny32 = [b32(x) for x in (0x0B, 0x05, 0x02, 0x03, 0x04, 0x0B0B0B0B & 0x7FFFFFFF, 0x40, 11 << 7 | 5)]
    funny64 = [b64(x) for x in (0x0B, 0x05, 0x0B0B0B0B0B, 0x02 << 35 | 0x0B)]
    funcs, exps, script = [], [], [INST]
    n = 0
    for op in ops:
        if op in structural:
            continue
        kind = None
        variants = []
        if op in ("br", "br_if"):
            variants = [[op, 0], [op, 1]]
        elif op == "br_table":
            variants = [[op, [0, 1, 0, 1, 0, 1, 0, 1, 0, 1, 0], 1], [op, [], 0], [op, [1] * 5, 0]]
        elif op == "call":
            variants = [[op, 0]]
        elif op == "call_indirect":
            variants = [[op, 0, 0]]
        elif op in ("local.get", "local.set", "local.tee"):
            variants = [[op, 0]]
        elif op in ("global.get", "global.set"):
            variants = [[op, 0]]
        elif op in wasm_encode.MEMOPS:
            al = wasm_encode.natural_align(op)
            variants = [[op, al, 11], [op, 0 if ".atomic." not in op else al, 5], [op, al, 0x0B0B]]
        elif op == "i32.const":
            variants = [[op, x] for x in funny32[:4]]
        elif op == "i64.const":
            variants = [[op, x] for x in funny64[:3]]
        elif op == "f32.const":
            variants = [[op, [0x0B, 0x05, 0x02, 0x0B]], [op, [0x04, 0x03, 0x40, 0x0B]]]
        elif op == "f64.const":
            variants = [[op, [0x0B, 0x05, 0x02, 0x03, 0x04, 0x0B, 0x40, 0x0B]]]
        elif op in ("memory.init", "data.drop"):
            variants = [[op, 0]]
        else:
            variants = [[op]]
        for ins in variants:
            kl = killers[n % len(killers)]
            # the function's own result travels in a local so that `return` in the dead prelude is harmless to validate
            # two enclosing void blocks: labels 0 and 1 have the same (empty) type whatever the dead instruction names
            if kl[0][0] == "return":
                body = [["block", ""], ["block", ""], ["local.get", 0], ["i32.const", b32(100)], ["i32.add"], ["return"], ins, ["unreachable"], ["end"], ["end"], ["i32.const", b32(0)]]
            elif kl[0][0] == "unreachable":
                body = [["block", ""], ["block", ""], ["local.get", 0], ["br_if", 0], ["unreachable"], ins, ["unreachable"], ["end"], ["end"], ["local.get", 0], ["i32.const", b32(1)], ["i32.add"]]
            else:
                body = [["block", ""], ["block", ""]] + kl + [ins, ["unreachable"], ["end"], ["end"], ["local.get", 0], ["i32.const", b32(1)], ["i32.add"]]
            funcs.append({"type": 0, "locals": [], "body": body + [["end"]]})
            exps.append({"name": "d%d" % n, "kind": "func", "idx": len(funcs) - 1})
            script.append({"op": "call", "inst": 1, "export": "d%d" % n, "args": [arg("i32", 7 + n % 5)]})
            n += 1
    m = {"types": [{"p": ["i32"], "r": ["i32"]}], "funcs": funcs, "exports": exps, "memory": {"min": 1, "max": 1, "shared": True},
         "table": {"min": 1, "max": 1}, "globals": [{"t": "i32", "mut": True, "init": ["i32.const", b32(0)]}],
         "data": [{"mode": "passive", "bytes": [1, 2, 3]}], "datacount": True, "uses_memory_init": True}
    # split over a few modules so that TLC shards and compiler invocations balance
    items = []
    per = 120
    for c in range(0, len(funcs), per):
        fs = funcs[c:c + per]
        items.append({"id": "deadall%d" % (c // per), "module": dict(m, funcs=fs, exports=[{"name": "d%d" % (c + k), "kind": "func", "idx": k} for k in range(len(fs))]),
                      "script": [INST] + script[1 + c:1 + c + per]})
    return items


def sig(it, k, why, build, e, a):
    return "%s:%s" % (it["id"], why.split(":")[0])


def main():
    tier = sys.argv[1] if len(sys.argv) > 1 else os.environ.get("VERIF_TIER", "quick")
    rng = random.Random(SEED)
    v = Verdict("C03", tier)
    gst = {}
    nprog = 400 if tier == "quick" else 6000
    gen = wasmgen.programs("control", nprog, SEED, args_per_prog=4 if tier == "quick" else 6, stats=gst)
    # dead-code inertness: the same module with every dead instruction removed must behave identically
    stripped = []
    for it in gen:
        m2 = dict(it["module"], funcs=[dict(f, body=strip_dead(f["body"])) for f in it["module"]["funcs"]])
        if any(len(f2["body"]) != len(f["body"]) for f, f2 in zip(it["module"]["funcs"], m2["funcs"])):
            stripped.append({"id": it["id"] + "_s", "module": m2, "script": it["script"]})
    items = gen + stripped + directed(rng, tier) + dead_everything(rng) + residue_items(rng) + manylocals_items()
    # gcc-O0-pattern: automatic variables the generated code does not initialise hold 0xFE.. instead of whatever was there
    # the validator that gates every replayed scenario accepts / rejects its control modules for the stated reasons
    wv = tlc_ok(tlc("WasmValidCheck", timeout=300), "WasmValidCheck")
    builds = [{"name": "gcc-O1", "cc": "gcc", "cflags": ("-O1",)},
              {"name": "gcc-O0-pattern", "cc": "gcc", "cflags": ("-O0", "-ftrivial-auto-var-init=pattern")}]
    if tier != "quick":
        builds += [{"name": "clang-O2", "cc": "clang", "cflags": ("-O2",)}, {"name": "gcc-O0", "cc": "gcc", "cflags": ("-O0",)}]
    st, exp = machine.replay(v, items, builds, sigfn=sig)
    # model-level DeadCodeInert: TLC's own results for P and Strip(P) agree
    inert = 0
    for s in stripped:
        base = s["id"][:-2]
        for k in range(1, len(s["script"]) + 1):
            e1, e2 = exp.get((base, k)), exp.get((s["id"], k))
            if e1 is None or e2 is None or e1["status"] not in ("returned", "trapped", "done"):
                break
            inert += 1
            if (e1["status"], e1["trap"], e1["res"], e1["host"]) != (e2["status"], e2["trap"], e2["res"], e2["host"]):
                raise machine.MachineryError("model: dead code is not inert in %s op %d" % (base, k))
    samples = [{"item": it["id"], "body": it["module"]["funcs"][0]["body"][:40], "call": it["script"][1],
                "spec_says": {k2: exp[(it["id"], 2)][k2] for k2 in ("status", "trap", "res", "host")}}
               for it in (gen[:2] + items[-3:]) if (it["id"], 2) in exp]
    cov = {"states": st["states"] + gst.get("states", 0), "transitions": st["transitions"] + gst.get("transitions", 0),
           "traces_validated_against_impl": st["ops_compared"], "samples": samples,
           "evaluations": st["ops_compared"], "distinct_nontrivial": st["distinct_nontrivial"],
           "rule": "bodies generated by WasmGen (profile control: block/loop/if/else/br/br_if/br_table/return/unreachable/"
                   "select/drop/nop/locals/one logging host import), each also with its dead code stripped, plus directed "
                   "families (br_table arms incl. out-of-range, branches out of depth d with extra operands, 0..200 locals "
                   "of mixed type, if/else in loops); one evaluation = one call compared (result, trap, ordered host trace)",
           "generated_bodies": gst.get("bodies", 0), "stripped_variants": len(stripped), "dead_code_inert_ops": inert,
           "generator_states": gst.get("states", 0), "replay_states": st["states"],
           "builds": [b["name"] for b in builds], "ops_skipped_undefined": st["ops_skipped_undefined"], "exhaustive": False}
    # the repository's own spec-suite corpus for this instruction family: model vs the suite's expectations, w2c2 vs model
    sys.path.insert(0, os.path.dirname(os.path.abspath(__file__)))
    import corpus
    cov.update(corpus.phase(v, "C03", tier))
    return v.finish("model_checking", cov,
                    ["dead code generated is a conservative subset of what validation allows",
                     "loops are bounded idioms (at most 8 iterations per entry); unbounded executions are cut by fuel and not compared",
                     "gcc 12 / clang 14 on x86-64"])


main_wrap(main)
