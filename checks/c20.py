#!/usr/bin/env python3
"""C20 - the translator touches only its own output files (DESIGN.md 3/C20)."""
import hashlib
import os
import random
import shutil
import sys
sys.path.insert(0, os.path.join(os.path.dirname(os.path.abspath(__file__)), "..", "bind", "py"))
import common
import machine
import wasm_encode
from common import SEED, Verdict, main_wrap, tlc, tlc_ok, run, write_ndjson, read_ndjson, pmap
from wasmgen import b32

BASE = "s0123456789.c"


def near_misses():
    repl = "sdxS09a.ch+- \t_eE,'"          # incl. what number parsers skip or accept: signs, blanks, exponents, separators
    out = set()
    for p in range(13):
        for c in repl:
            out.add(BASE[:p] + c + BASE[p + 1:])
        out.add(BASE[:p] + BASE[p + 1:])
        out.add(BASE[:p + 1] + BASE[p] + BASE[p + 1:])
    out |= {BASE + "c", BASE + ".c", "d" + BASE[1:], "s0000000000.c", "d0000000001.c", "s0000000001.c", "d9999999999.c",
            "s0000000000.h", "s0000000000.cc", "s0000000000", "x0000000000.c", "S0000000000.c", "s000000000.c", "s00000000000.c",
            "s00000a0000.c", "out.c", "out.h", "datasegments", "notes.txt", "Makefile", "keep.c", "s.c", "d.c", ".c"}
    return sorted(n for n in out if n and "/" not in n and n not in (".", ".."))


def module(nfuncs, ndata):
    funcs = [{"type": 0, "locals": [], "body": [["i32.const", b32(1000 + k)], ["end"]]} for k in range(nfuncs)]
    m = {"types": [{"p": [], "r": ["i32"]}], "funcs": funcs,
         "exports": [{"name": "fn%d" % k, "kind": "func", "idx": k} for k in range(nfuncs)]}
    if ndata:
        m["memory"] = {"min": 1, "max": 1}
        m["data"] = [{"mode": "active", "offset": ["i32.const", b32(8 * k)], "bytes": [k + 1, 2, 3]} for k in range(ndata)]
    return m


def snapshot(root):
    snap = {}
    for d, dirs, files in os.walk(root):
        for n in dirs:
            p = os.path.join(d, n)
            snap[os.path.relpath(p, root)] = ("link", os.readlink(p)) if os.path.islink(p) else ("dir",)
        for n in files:
            p = os.path.join(d, n)
            if os.path.islink(p):
                snap[os.path.relpath(p, root)] = ("link", os.readlink(p))
                continue
            snap[os.path.relpath(p, root)] = ("file", os.path.getsize(p), hashlib.sha256(open(p, "rb").read()).hexdigest())
    return snap


def codes(s):
    return list(s.encode())


META = [("out[12]", ["out1", "out2"]), ("gen?", ["genA", "gen1"]), ("b*d", ["build", "bd"]), ("a\\b", ["ab"]), ("v[0-9]x", ["v1x", "v[0-9]"]),
        ("{a,b}", ["a", "b"]), ("~", ["home"]), ("o ut", ["o", "ut"]), ("$HOME", ["HOME"])]


def main():
    tier = sys.argv[1] if len(sys.argv) > 1 else os.environ.get("VERIF_TIER", "quick")
    rng = random.Random(SEED)
    v = Verdict("C20", tier)
    nm = near_misses()
    nscen = 160 if tier == "quick" else 3000
    scen = []
    for j in range(nscen):
        nfuncs = rng.choice([1, 2, 3, 5, 7])
        perfile = rng.choice([0, 0, 1, 2, 3, nfuncs, nfuncs + 1])
        nref = rng.choice([None, None, 0, 1, nfuncs - 1, nfuncs])         # bodies shared with the reference module
        nstatic, ndyn = (nfuncs, 0) if nref is None else (min(nref, nfuncs), nfuncs - min(nref, nfuncs))
        external = rng.random() < 0.25
        out = rng.choice(["out.c", "out.c", "mod.c", "noext", "a.b.c", "s0000000000.c", "x.C"])
        pre = rng.sample(nm, rng.randint(0, 14)) + rng.sample(["s0000000000.c", "d0000000000.c", "s0000000001.c", "d0000000003.c", "s0000000007.c"], rng.randint(0, 4))
        form = rng.choice(["rel", "dotrel", "abs", "nested", "inputinside", "long", "longabs", "missingdir"] if j % 9 == 8 else
                          ["rel", "dotrel", "abs", "nested", "inputinside", "long", "longabs"])
        if j % 7 == 5:
            # the output path ends in a separator: the name is the last component all the same
            form = "trailing"
        if j % 11 == 7:
            # the output name already exists as a symbolic link to a file somewhere else (the requested output file is then that file;
            # header, implementation files and datasegments belong into the directory of the output PATH all the same), or the directory
            # of the output path is itself reached through a symbolic link
            form = ["linkout", "linkoutabs", "linkdir"][(j // 11) % 3]
            if form != "linkdir":
                out = rng.choice(["out.c", "mod.c", "noext", "a.b.c"])          # (a link NAMED like an implementation file is -c's to delete)
        if j % 7 == 3:
            # an output directory whose NAME contains pattern characters: it is a name, taken literally; sibling directories
            # that such a pattern would select hold implementation-file names of their own
            form = "meta"
        clean = rng.random() < 0.6
        fail = None
        if j % 8 == 6 and form not in ("missingdir",):
            # a run that fails half-way: the same rules bound what it may have touched by then
            fail = ["simd", "header-is-directory", "output-is-directory", "truncated-input", "reference-missing", "reference-garbage"][(j // 8) % 6]
            # implementation files of an earlier build are lying around; mostly without -c (then nothing at all may vanish), in
            # single-file and in multi-file mode
            pre = pre + ["s0000000000.c", "d0000000009.c", "s0000000002.c"]
            clean = (j // 8) % 5 == 4
            perfile = perfile if (j // 8) % 2 else 0
        if j * 12 < len(nm):
            # every near-miss name is present in at least one run with the clean option
            pre, clean = nm[j * 12:(j + 1) * 12] + pre[-2:], True
        scen.append({"pre": sorted(set(pre)), "form": form, "nref": nref, "meta": META[(j // 7) % len(META)], "fail": fail,
                     "o": {"nfuncs": nfuncs, "perfile": perfile, "nstatic": nstatic, "ndynamic": ndyn, "external": external,
                           "clean": clean, "out": out}})
    wd = common.scratch("c20-")
    try:
        inf, outf = os.path.join(wd, "scen.ndjson"), os.path.join(wd, "pred.ndjson")
        write_ndjson(inf, [{"pre": [codes(n) for n in s["pre"]], "o": dict(s["o"], out=codes(s["o"]["out"]))} for s in scen])
        mc = tlc_ok(tlc("OutputFs", env={"INFILE": inf, "OUTFILE": outf}, timeout=1800), "OutputFs")
        pred = read_ndjson(outf)
        w2c2_default = common.build_w2c2(os.path.join(wd, "bin"))
        # the configuration for hosts without <libgen.h>: the translator's own dirname/basename take the path apart
        w2c2_nolibgen = common.build_w2c2(os.path.join(wd, "bin"), name="w2c2-nolibgen",
                                          defs=[d for d in common.W2C2_DEFS if "HAS_LIBGEN" not in d] + ["-DHAS_LIBGEN=0"])

        def one(j):
            s, p = scen[j], pred[j]
            w2c2 = w2c2_nolibgen if j % 4 in (1, 2) else w2c2_default
            o = s["o"]
            root = os.path.join(wd, "r%d" % j)
            # "long": an output path of more than 255 (NAME_MAX) but less than PATH_MAX characters, made of ordinary components
            LONG = os.path.join("Makefile.d", "L" * 100, "M" * 100, "N" * 60)
            outdir = {"rel": root, "dotrel": os.path.join(root, "sub"), "abs": os.path.join(root, "o"),
                      "nested": os.path.join(root, "a", "b"), "inputinside": root, "long": os.path.join(root, LONG),
                      "longabs": os.path.join(root, LONG), "missingdir": root, "meta": os.path.join(root, s["meta"][0]),
                      "trailing": os.path.join(root, "t"), "linkout": os.path.join(root, "lo"), "linkoutabs": os.path.join(root, "lo"),
                      "linkdir": os.path.join(root, "realdir")}[s["form"]]
            os.makedirs(outdir, exist_ok=True)
            if s["form"] == "meta":
                for sib in s["meta"][1]:
                    os.makedirs(os.path.join(root, sib), exist_ok=True)
                    for n in ("s0000000000.c", "d0000000001.c", "s0000000002.c"):
                        open(os.path.join(root, sib, n), "w").write("bystander in a directory the name would match as a pattern\n")
            os.makedirs(os.path.join(root, "elsewhere"), exist_ok=True)
            if s["form"] in ("linkout", "linkoutabs"):
                open(os.path.join(root, "elsewhere", "realout.c"), "w").write("the file the output name points to\n")
                if os.path.lexists(os.path.join(outdir, o["out"])):
                    os.remove(os.path.join(outdir, o["out"]))
                os.symlink("../elsewhere/realout.c", os.path.join(outdir, o["out"]))
            if s["form"] == "linkdir":
                os.symlink("realdir", os.path.join(root, "ld"))
            indir = outdir if s["form"] == "inputinside" else os.path.join(root, "elsewhere")
            # bystanders: the same near-miss names in a sibling directory and in a subdirectory of the output directory
            for n in s["pre"]:
                open(os.path.join(outdir, n), "w").write("pre-existing %s\n" % n)
            os.makedirs(os.path.join(outdir, "subdir"), exist_ok=True)
            for n in ("s0000000000.c", "d0000000000.c"):
                open(os.path.join(outdir, "subdir", n), "w").write("nested bystander\n")
                open(os.path.join(root, "elsewhere", n), "w").write("sibling bystander\n")
            m = module(o["nfuncs"], 2 if o["external"] or rng.random() < 0.3 else 0)
            inp = os.path.join(indir, "input.wasm")
            open(inp, "wb").write(wasm_encode.encode(machine.enc_module(m)))
            args = [w2c2, "-t", str(rng.choice([1, 2, 5]))]
            if o["perfile"]:
                args += ["-f", str(o["perfile"])]
            if o["clean"]:
                args += ["-c"]
            if o["external"]:
                args += ["-d", "gnu-ld"]
            if s["nref"] is not None:
                ref = os.path.join(indir, "ref.wasm")
                rm = module(o["nfuncs"], 0)
                # the reference shares the first nref bodies, the others differ
                for k in range(s["nref"], o["nfuncs"]):
                    rm["funcs"][k]["body"] = [["i32.const", b32(5000 + k)], ["end"]]
                open(ref, "wb").write(wasm_encode.encode(machine.enc_module(rm)))
                args += ["-r", ref]
            if s["fail"] == "simd":
                # one function whose body uses an instruction outside the feature set (v128.const; drop): reading succeeds, writing stops there
                body = [0x00, 0xFD, 0x0C] + [7] * 16 + [0x1A, 0x0B]
                raw = [0, 0x61, 0x73, 0x6D, 1, 0, 0, 0, 1, 4, 1, 0x60, 0, 0, 3, 2, 1, 0, 10, len(body) + 2, 1, len(body)] + body
                open(inp, "wb").write(bytes(raw))
            elif s["fail"] == "truncated-input":
                data = open(inp, "rb").read()
                open(inp, "wb").write(data[:max(9, len(data) - rng.randint(1, 12))])
            elif s["fail"] == "header-is-directory":
                hn = o["out"][:o["out"].rindex(".")] + ".h" if "." in o["out"] else o["out"] + ".h"
                if not os.path.exists(os.path.join(outdir, hn)):
                    os.makedirs(os.path.join(outdir, hn))
            elif s["fail"] == "output-is-directory":
                if not os.path.exists(os.path.join(outdir, o["out"])):
                    os.makedirs(os.path.join(outdir, o["out"]))
            elif s["fail"] == "reference-missing":
                args = [a for a in args if a != "-r" and not a.endswith("ref.wasm")] + ["-r", os.path.join(indir, "no-such-reference.wasm")]
            elif s["fail"] == "reference-garbage":
                open(os.path.join(indir, "garbage.wasm"), "wb").write(b"\0asm\1\0\0\0\x01\x7f")
                args = [a for a in args if a != "-r" and not a.endswith("ref.wasm")] + ["-r", os.path.join(indir, "garbage.wasm")]
            cwd = root
            outarg = {"rel": o["out"], "dotrel": "./sub/" + o["out"], "abs": os.path.join(outdir, o["out"]),
                      "nested": "a/b/" + o["out"], "inputinside": o["out"], "long": LONG + "/" + o["out"],
                      "longabs": os.path.join(outdir, o["out"]), "meta": s["meta"][0] + "/" + o["out"],
                      "linkout": "lo/" + o["out"], "linkoutabs": os.path.join(outdir, o["out"]), "linkdir": "ld/" + o["out"],
                      "trailing": (os.path.join(outdir, o["out"]) if j % 3 == 0 else "t/" + o["out"]) + ("/" if j % 2 else "//"),
                      # the directory of the output path does not exist: nothing may be written or deleted anywhere (the pre-existing
                      # names lie in the invocation directory, where a translator that carried on would find them)
                      "missingdir": rng.choice(["nosuchdir/", "input.wasm/", os.path.join(root, "absent", "deeper") + "/"]) + o["out"]}[s["form"]]
            # bystanders where the relative output path would lead if it were resolved once more from the output directory (or from the
            # sibling): files of the run's own names there are none of its business
            relarg = outarg.rstrip("/")
            if not os.path.isabs(relarg) and os.path.dirname(relarg) not in ("", ".") and s["form"] != "missingdir" and len(relarg) < 200:
                hn_ = o["out"][:o["out"].rindex(".")] + ".h" if "." in o["out"] else o["out"] + ".h"
                for base in (outdir, os.path.join(root, "elsewhere")):
                    md = os.path.normpath(os.path.join(base, os.path.dirname(relarg)))
                    os.makedirs(md, exist_ok=True)
                    for n in (o["out"], hn_, "s0000000000.c", "datasegments"):
                        if not os.path.lexists(os.path.join(md, n)):
                            open(os.path.join(md, n), "w").write("bystander one relative path further down\n")
            before = snapshot(root)
            rc, so, se = run(args + [inp, outarg], cwd=cwd, timeout=120)
            after = snapshot(root)
            devs = []
            if s["form"] == "missingdir":
                if rc == 0:
                    devs.append(("exit", "status 0 although the output directory does not exist"))
                if after != before:
                    devs.append(("touched", "files changed although the output directory does not exist: %s" %
                                 sorted(set(after.items()) ^ set(before.items()))[:4]))
                shutil.rmtree(root, ignore_errors=True)
                return j, devs, " ".join([os.path.basename(w2c2)] + args[1:] + ["input.wasm", outarg])
            if s["fail"]:
                # whatever the status: created or changed files are among the run's own outputs, vanished ones among those -c selects
                rel = os.path.relpath(outdir, root)
                pref = "" if rel == "." else rel + "/"
                own = set(pref + bytes(n).decode() for n in p["written"])
                # (the module such a run reads is not the one the prediction was made for - one function, or a truncated one whose bodies no
                #  longer match the reference -: its implementation files may be of either kind, numbered below the function count)
                own |= {pref + "%s%010d.c" % (sd_, k_) for sd_ in "sd" for k_ in range(max(1, o["nfuncs"]))}
                if s["form"] in ("linkout", "linkoutabs"):
                    own.add("elsewhere/realout.c")                              # (the output name is a link to it: it IS the output file)
                mayvanish = set(pref + bytes(n).decode() for n in p["deleted"])
                for k in set(before) | set(after):
                    if before.get(k) == after.get(k):
                        continue
                    if k not in after:
                        if k not in mayvanish and k not in own:
                            devs.append(("failed-run-deleted", "%s (%s)" % (k, s["fail"])))
                    elif k not in own:
                        devs.append(("failed-run-touched", "%s (%s)" % (k, s["fail"])))
                shutil.rmtree(root, ignore_errors=True)
                return j, devs, " ".join([os.path.basename(w2c2)] + args[1:] + ["input.wasm", outarg])
            if rc != 0:
                devs.append(("exit", "status %s: %s" % (rc, se[-300:])))
            rel = os.path.relpath(outdir, root)
            pref = "" if rel == "." else rel + "/"
            exp_post = set(bytes(n).decode() for n in p["post"])
            written = set(bytes(n).decode() for n in p["written"])
            got = set(k[len(pref):] for k in after if k.startswith(pref) and "/" not in k[len(pref):] and after[k][0] == "file")
            got -= {"input.wasm", "ref.wasm"} if s["form"] == "inputinside" else set()
            linked = s["form"] in ("linkout", "linkoutabs")
            if linked:
                # the output name is still the link; the file it points to took the output
                if after.get(pref + o["out"]) == ("link", "../elsewhere/realout.c"):
                    got.add(o["out"])
                else:
                    devs.append(("link-replaced", "%s is no longer the symbolic link it was: %s" % (o["out"], after.get(pref + o["out"]))))
                if after.get("elsewhere/realout.c") == before.get("elsewhere/realout.c"):
                    devs.append(("link-target-not-written", "the file the output name points to did not receive the output"))
            if got != exp_post:
                devs.append(("names", "unexpected %s, missing %s" % (sorted(got - exp_post)[:5], sorted(exp_post - got)[:5])))
            for k, val in before.items():
                name = k[len(pref):] if k.startswith(pref) else None
                in_outdir = name is not None and "/" not in name
                if in_outdir and (name in written or (name not in exp_post)):
                    continue            # overwritten or (predicted) deleted
                if after.get(k) != val and not (linked and k == "elsewhere/realout.c"):
                    devs.append(("touched", "%s changed or vanished" % k))
            for k in after:
                if k not in before:
                    name = k[len(pref):] if k.startswith(pref) else None
                    if not (name is not None and "/" not in name and name in written):
                        devs.append(("created", k))
            shutil.rmtree(root, ignore_errors=True)
            return j, devs, " ".join([os.path.basename(w2c2)] + args[1:] + ["input.wasm", outarg])
        results = pmap(one, range(len(scen)))
        for j, devs, cmd in results:
            for kind, text in devs:
                v.deviation("fs:%s" % kind, {"scenario": scen[j], "what": text, "command": cmd})
    finally:
        shutil.rmtree(wd, ignore_errors=True)
    cov = {"states": mc["distinct"], "transitions": mc["generated"], "traces_validated_against_impl": len(scen),
           "samples": [{"pre": s["pre"][:6], "options": s["o"], "path_form": s["form"],
                        "predicted_deleted": [bytes(n).decode() for n in pred[j]["deleted"]],
                        "predicted_written": [bytes(n).decode() for n in pred[j]["written"]]} for j, s in list(enumerate(scen))[:3]],
           "evaluations": len(scen), "distinct_nontrivial": len({(tuple(s["pre"]), str(s["o"]), s["form"]) for s in scen}),
           "rule": "scenario = pre-existing names drawn from the near-miss family of the implementation-file pattern (every single "
                   "character replacement / deletion / duplication, other extensions, other prefixes) x options (-f, -c, -d gnu-ld, -r "
                   "with k shared bodies, -t) x output-path form (relative, ./sub/, absolute, nested, input inside the output directory); "
                   "TLC (OutputFs.tla) predicts deleted / written / resulting names; the directory tree is snapshotted (type, size, SHA-256) "
                   "before and after the real run and compared",
           "near_miss_names": len(nm), "exhaustive": False}
    return v.finish("model_checking", cov,
                    ["a directory whose name matches the pattern is not placed in the output directory (remove() on it is outside the property's wording)",
                     "Linux glob semantics"])


main_wrap(main)
