#!/usr/bin/env python3
"""C08 - translation depends on the decoded module, not on its byte encoding (DESIGN.md 3/C08)."""
import os
import random
import re
import shutil
import sys
sys.path.insert(0, os.path.join(os.path.dirname(os.path.abspath(__file__)), "..", "bind", "py"))
import binfmt
import common
import machine
import wasm_encode
import wasmgen
from common import BINDC, REPO, SEED, Verdict, main_wrap, tlc, tlc_ok, run, write_ndjson, read_ndjson, pmap
from wasmgen import b32, b64

# any function definition that starts at column 0 and opens its body on the signature line (internal and exported ones alike)
DEFRE = re.compile(r"^(?:static )?(?:W2C2_INLINE )?[A-Za-z_]\w*[ \*]+(\w+)\((.*)\) ?\{$")
INST = {"op": "instantiate", "binds": {"mem": 0, "table": 0, "globals": []}}


def split_c(text):
    """(sorted function definitions, the remaining text).  A definition runs from its signature line to the
    brace that closes it (generated bodies contain nested braces at column 0)."""
    funcs, rest, cur, depth = [], [], None, 0
    # comments and blank lines are not definitions
    text = re.sub(r"/\*.*?\*/", "", text, flags=re.S)
    for line in text.splitlines():
        if cur is None and not line.strip():
            continue
        if cur is None:
            if DEFRE.match(line):
                cur, depth = [line], line.count("{") - line.count("}")
            else:
                rest.append(line)
            continue
        cur.append(line)
        depth += line.count("{") - line.count("}")
        if depth == 0:
            funcs.append("\n".join(cur))
            cur = None
    return sorted(funcs), "\n".join(rest)


def directed_module():
    """One module with every section kind."""
    return {"types": [{"p": ["i32"], "r": ["i32"]}, {"p": [], "r": []}, {"p": ["i64", "f64"], "r": ["i64"]}],
            "imports": [{"mod": "env", "name": "h", "kind": "func", "type": 0, "ret": b32(5)},
                        {"mod": "env", "name": "g", "kind": "global", "t": "i32", "mut": False}],
            "funcs": [{"type": 0, "locals": [["i64", 2], ["f32", 1]],
                       "body": [["block", "i32"], ["local.get", 0], ["i32.const", b32(-129)], ["i32.add"], ["local.get", 0], ["br_table", [0, 0], 0], ["end"],
                                ["i32.const", b32(300)], ["i32.load16_s", 1, 2], ["i32.add"], ["call", 0], ["global.get", 0], ["i32.add"],
                                ["i32.const", b32(2)], ["call_indirect", 0, 0], ["end"]]},
                      {"type": 1, "locals": [], "body": [["i32.const", b32(308)], ["i64.const", b64(-0x123456789)], ["i64.store", 3, 0],
                                                         # instructions behind the 0xFC and 0xFE prefixes (their number is a LEB128 field too)
                                                         ["i32.const", b32(320)], ["i32.const", b32(5)], ["i32.atomic.rmw.add", 2, 0], ["drop"], ["atomic.fence"],
                                                         ["i32.const", b32(330)], ["i32.const", b32(0xAB)], ["i32.const", b32(3)], ["memory.fill"],
                                                         ["i32.const", b32(340)], ["i32.const", b32(330)], ["i32.const", b32(2)], ["memory.copy"], ["end"]]},
                      {"type": 2, "locals": [], "body": [["local.get", 0], ["i64.const", b64(1 << 62)], ["i64.add"], ["local.get", 1], ["f64.const", b64(0x7FF8000000000001)],
                                                         ["f64.add"], ["i64.trunc_sat_f64_s"], ["i64.add"], ["end"]]},
                      {"type": 0, "locals": [], "body": [["local.get", 0], ["i32.const", b32(1)], ["i32.shl"], ["end"]]},
                      # locals of all types in several groups, each used with its own type
                      {"type": 0, "locals": [["f32", 2], ["i32", 1], ["f64", 2], ["i32", 3], ["i64", 2], ["i32", 1]],
                       "body": [["f32.const", b32(0x3FC00000)], ["local.set", 2], ["local.get", 0], ["local.set", 3], ["f64.const", b64(0x4004000000000000)], ["local.set", 5],
                                ["i32.const", b32(7)], ["local.set", 8], ["i64.const", b64(1 << 40)], ["local.set", 10], ["i32.const", b32(9)], ["local.set", 11],
                                ["local.get", 2], ["i32.trunc_f32_s"], ["local.get", 3], ["i32.add"], ["local.get", 5], ["i32.trunc_f64_s"], ["i32.add"],
                                ["local.get", 8], ["i32.add"], ["local.get", 10], ["i64.const", b64(38)], ["i64.shr_u"], ["i32.wrap_i64"], ["i32.add"],
                                ["local.get", 11], ["i32.add"], ["local.get", 6], ["i32.add"], ["local.get", 1], ["i32.trunc_f32_s"], ["i32.add"], ["end"]]}],
            "table": {"min": 4, "max": 4}, "memory": {"min": 1, "max": 3},
            "globals": [{"t": "i64", "mut": True, "init": ["i64.const", b64(-1)]}, {"t": "i32", "mut": False, "init": ["global.get", 0]}],
            "exports": [{"name": "run", "kind": "func", "idx": 1}, {"name": "mix", "kind": "func", "idx": 3}, {"name": "memory", "kind": "memory", "idx": 0},
                        {"name": "locs", "kind": "func", "idx": 5}],
            "start": 2,
            "elems": [{"offset": ["i32.const", b32(1)], "funcs": [1, 4, 0]}],
            "data": [{"mode": "active", "offset": ["i32.const", b32(300)], "bytes": [1, 0x80, 0xFF, 0x7F]}, {"mode": "passive", "bytes": [7, 7]},
                     {"mode": "active", "offset": ["global.get", 0], "bytes": [3]}],
            "datacount": True}


def tails_module():
    """Every kind of instruction with immediates as the LAST instruction of a function body (directly before the body's final end, not
    inside a block): the reader's bounds are exact there.  Returns (module, script)."""
    c = lambda x: ["i32.const", b32(x)]
    g0 = ["local.get", 0]
    bodies = [("brt1", 0, [c(7), g0, ["br_table", [0], 0]]), ("brt0", 0, [c(8), g0, ["br_table", [], 0]]), ("brt5", 0, [c(9), g0, ["br_table", [0, 0, 0, 0, 0], 0]]),
              ("brtv", 1, [g0, ["br_table", [0, 0], 0]]), ("brtv0", 1, [g0, ["br_table", [], 0]]),
              ("br", 0, [c(5), ["br", 0]]), ("ret", 0, [c(6), ["return"]]), ("un", 0, [["unreachable"]]),
              ("call", 0, [g0, ["call", 0]]), ("calli", 0, [g0, c(0), ["call_indirect", 0, 0]]), ("load", 0, [g0, ["i32.load", 2, 4]]),
              ("load8", 0, [g0, ["i32.load8_u", 0, 0]]), ("const", 0, [c(-1)]), ("c64", 0, [["i64.const", b64(-(1 << 63))], ["i32.wrap_i64"], ["drop"], g0]),
              ("size", 0, [["memory.size"]]), ("gget", 0, [["global.get", 0]]), ("lget", 0, [g0]), ("tee", 0, [g0, ["local.tee", 0]]),
              ("store", 1, [g0, c(77), ["i32.store", 2, 0]]), ("gset", 1, [g0, ["global.set", 0]]), ("lset", 1, [g0, ["local.set", 0]]),
              ("fill", 1, [c(64), g0, c(4), ["memory.fill"]]), ("copy", 1, [c(80), c(64), c(4), ["memory.copy"]]), ("drop", 1, [["data.drop", 0]]),
              ("init", 1, [c(96), c(0), c(0), ["memory.init", 0]]), ("grow", 0, [c(0), ["memory.grow"]]), ("fence", 1, [["atomic.fence"]]),
              ("f32c", 0, [g0, ["f32.const", b32(0x3F800000)], ["drop"]]), ("f64c", 0, [g0, ["f64.const", b64(0x3FF0000000000000)], ["drop"]])]
    funcs = [{"type": 0, "locals": [], "body": [g0, c(1), ["i32.add"], ["end"]]}]
    exps, script = [], [dict(INST)]
    for nm, ty, body in bodies:
        funcs.append({"type": ty, "locals": [], "body": body + [["end"]]})
        exps.append({"name": nm, "kind": "func", "idx": len(funcs) - 1})
        for x in (0, 1, 9):
            script.append({"op": "call", "inst": 1, "export": nm, "args": [{"t": "i32", "b": b32(x)}]})
    m = {"types": [{"p": ["i32"], "r": ["i32"]}, {"p": ["i32"], "r": []}], "funcs": funcs, "exports": exps,
         "memory": {"min": 1, "max": 2}, "table": {"min": 1, "max": 1}, "elems": [{"offset": ["i32.const", b32(0)], "funcs": [0]}],
         "globals": [{"t": "i32", "mut": True, "init": ["i32.const", b32(3)]}],
         "data": [{"mode": "passive", "bytes": [1, 2, 3]}], "datacount": True}
    return m, script


def directed_imports():
    """Memory, table and a global all imported (no defined memory or table): segments go to the embedder's objects."""
    return {"types": [{"p": ["i32"], "r": ["i32"]}, {"p": [], "r": ["i32"]}],
            "imports": [{"mod": "env", "name": "mem", "kind": "memory", "min": 1, "max": 2},
                        {"mod": "env", "name": "tab", "kind": "table", "min": 4, "max": 8},
                        {"mod": "env", "name": "g", "kind": "global", "t": "i32", "mut": False}],
            "funcs": [{"type": 0, "locals": [], "body": [["local.get", 0], ["i32.load8_u", 0, 0], ["end"]]},
                      {"type": 1, "locals": [], "body": [["i32.const", b32(41)], ["end"]]},
                      {"type": 1, "locals": [], "body": [["i32.const", b32(42)], ["end"]]},
                      {"type": 0, "locals": [], "body": [["local.get", 0], ["call_indirect", 1, 0], ["end"]]}],
            "exports": [{"name": "peek", "kind": "func", "idx": 0}, {"name": "icall", "kind": "func", "idx": 3}],
            "elems": [{"offset": ["i32.const", b32(1)], "funcs": [1, 2]}, {"offset": ["global.get", 0], "funcs": [2]}],
            "data": [{"mode": "active", "offset": ["i32.const", b32(10)], "bytes": [9, 8, 7]}, {"mode": "active", "offset": ["global.get", 0], "bytes": [5]},
                     {"mode": "active", "offset": ["i32.const", b32(11)], "bytes": [0]}]}


IMPSCRIPT = [{"op": "hostmem", "pages": 1, "max": 2, "shared": False}, {"op": "hosttable", "size": 6}, {"op": "hostglobal", "t": "i32", "b": b32(3)},
             {"op": "instantiate", "binds": {"mem": 1, "table": 1, "globals": [1]}}] + \
            [{"op": "call", "inst": 1, "export": "peek", "args": [{"t": "i32", "b": b32(a)}]} for a in (3, 10, 11, 12)] + \
            [{"op": "call", "inst": 1, "export": "icall", "args": [{"t": "i32", "b": b32(a)}]} for a in (1, 2, 3)]


def choice_vectors(rng, m, n):
    wasm_encode.encode(m)
    fields = list(dict.fromkeys(wasm_encode.encode.last_fields))
    vecs = [{"padall": 1}, {"padall": 1, "custom": [{"at": k, "name": nm, "payload": pl} for k, (nm, pl) in
                                                    enumerate([("", []), ("x", [0xFF] * 9), ("producers", [0]), (".debug_info", [1, 2, 3]), ("name2", [0x80] * 3),
                                                               ("linking", []), ("a", [0]), ("b", [1]), ("c", [2]), ("d", [3]), ("e", [4]), ("f", [5]), ("g", [6])])],
                            "dataForm": {"0": "flag2", "2": "flag2"}},
            {"custom": [{"at": k, "name": "c%d" % k, "payload": [k] * k} for k in range(14)]},
            # sections of a DWARF producer: in front, in the middle, at the end, empty and not
            {"custom": [{"at": 99, "name": ".debug_info", "payload": [1, 2, 3, 4, 5]}, {"at": 99, "name": ".debug_abbrev", "payload": []}, {"at": 99, "name": ".debug_line", "payload": [0] * 40}]},
            {"custom": [{"at": 4, "name": ".debug_str", "payload": list(b"clang version 14\0")}, {"at": 0, "name": ".debug_loc", "payload": [9]}]},
            {"dataForm": {"0": "flag2"}, "emitEmpty": ["type", "import", "function", "table", "memory", "global", "export", "element", "code", "data"]},
            # a custom section that happens to be called "name" is still only a custom section: anywhere, with any content
            # (a well-formed function-name subsection before the function section, stale indices, garbage)
            {"custom": [{"at": 0, "name": "name", "payload": [1, 5, 1, 0, 2, 0x66, 0x30]}]},
            {"custom": [{"at": 3, "name": "name", "payload": [1, 7, 1, 0xE7, 0x07, 3, 0x61, 0x62, 0x63]}]},
            {"custom": [{"at": 5, "name": "name", "payload": [0xFF, 0xFF, 0xFF, 0xFF, 0xFF, 0xFF]}, {"at": 99, "name": "name", "payload": []}]},
            {"custom": [{"at": 11, "name": "name", "payload": [0, 2, 1, 0x6D, 1, 4, 1, 0, 1, 0x78, 2, 1, 0]}]},
            # tool-convention sections are custom sections like any other: feature lists naming features the module does not use
            # (or explicitly disallows), producers, linking, dylink
            {"custom": [{"at": 99, "name": "target_features", "payload": [3, 0x2B, 7] + list(b"simd128") + [0x2D, 9] + list(b"tail-call") + [0x2B, 8] + list(b"memory64")}]},
            {"custom": [{"at": 0, "name": "target_features", "payload": [1, 0x2D, 7] + list(b"simd128")},
                        {"at": 99, "name": "producers", "payload": [1, 8] + list(b"language") + [1, 1, 0x43, 2] + list(b"99")},
                        {"at": 4, "name": "dylink.0", "payload": [1, 4, 0, 0, 0, 0]}, {"at": 6, "name": "linking", "payload": [2]}]},
            # names are UTF-8: code points at every boundary of the encoding (1/2/3/4 bytes, around the surrogate gap, the last one)
            {"custom": [{"at": k, "name": {"bytes": list(chr(cp).encode("utf-8"))}, "payload": [k]} for k, cp in
                        enumerate([0x7F, 0x80, 0x7FF, 0x800, 0xD3FF, 0xD400, 0xD55C, 0xD7FF, 0xE000, 0xFFFD, 0xFFFF, 0x10000, 0x10FFFF])]},
            {"custom": [{"at": 99, "name": {"bytes": list("\ud55c\uae00 \u00e9\u00df \U0001F600 \u4e2d".encode("utf-8"))}, "payload": []}]},
            {"explicitElse": True}, {"explicitElse": True, "padall": 1},
            {"splitLocals": "single"}, {"splitLocals": "pairs"}, {"splitLocals": "empties"}, {"splitLocals": "single", "padall": 1}]
    for _ in range(n):
        pad = {f: rng.choice([0, 0, 1, 2, 4, 9]) for f in rng.sample(fields, max(1, len(fields) // rng.choice([2, 3, 6])))}
        c = {"pad": pad}
        if rng.random() < 0.5:
            c["custom"] = [{"at": rng.randrange(0, 13), "name": rng.choice(["", "n", "name", "name", "name_", ".debug_str", ".debug_info", ".debug_line", "target_features", "target_features", "producers", "sourceMappingURL"]),
                            "payload": [rng.randrange(256) for _ in range(rng.choice([0, 1, 5, 200]))]} for _ in range(rng.randint(1, 3))]
        if rng.random() < 0.4:
            c["dataForm"] = {str(k): "flag2" for k in range(4) if rng.random() < 0.5}
        if rng.random() < 0.3:
            c["splitLocals"] = rng.choice(["single", "pairs", "empties"])
        if rng.random() < 0.3:
            c["explicitElse"] = True
        if rng.random() < 0.3:
            c["emitEmpty"] = rng.sample(["type", "import", "function", "table", "memory", "global", "export", "element", "data"], 3)
        vecs.append(c)
    return vecs


def main():
    tier = sys.argv[1] if len(sys.argv) > 1 else os.environ.get("VERIF_TIER", "quick")
    rng = random.Random(SEED)
    v = Verdict("C08", tier)
    wd = common.scratch("c08-")
    try:
        # 1. Leb128: the decoder refines the specification on all byte strings over the class alphabet (TLC), and the
        #    REAL decoder returns the specified value and length on every valid string TLC enumerated
        outs = {}

        def lebrun(n):
            of = os.path.join(wd, "leb%d.ndjson" % n)
            r = tlc_ok(tlc("Leb128", cfg="Leb128_%d.cfg" % n, env={"OUTFILE": of}, timeout=1800, xmx="6g"), "Leb128_%d" % n)
            return n, r, read_ndjson(of)
        res = pmap(lebrun, [32, 64], jobs=2)
        lstates = sum(r["distinct"] for _, r, _ in res)
        ltrans = sum(r["generated"] for _, r, _ in res)
        exe = os.path.join(wd, "lebdrv")
        rc, so, se = run(["gcc", "-O1", "-w", "-I", os.path.join(REPO, "w2c2"), os.path.join(BINDC, "leb_driver.c"), "-o", exe], timeout=120)
        if rc != 0:
            raise common.MachineryError("cannot build leb driver: " + se[-1000:])
        nvec = 0
        for n, r, vecs in res:
            inp = "\n".join("".join("%02x" % b for b in x["bytes"]) for x in vecs) + "\n"
            rc, so, se = run([exe], stdin=inp.encode(), timeout=120)
            lines = so.splitlines()
            for x, l in zip(vecs, lines):
                c32u, u32, c32s, i32, c64u, u64, c64s, i64 = [int(y) for y in l.split()]
                cu, vu, cs, vs = (c32u, u32, c32s, i32) if n == 32 else (c64u, u64, c64s, i64)
                if x["validU"]:
                    nvec += 1
                    if (cu, vu) != (len(x["bytes"]), int.from_bytes(bytes(x["u"]), "little")):
                        v.deviation("leb:u%d" % n, {"bytes": x["bytes"], "spec": x["u"], "code_value": vu, "code_count": cu})
                if x["validS"]:
                    nvec += 1
                    if (cs, vs) != (len(x["bytes"]), int.from_bytes(bytes(x["sv"]), "little")):
                        v.deviation("leb:s%d" % n, {"bytes": x["bytes"], "spec": x["sv"], "code_value": vs, "code_count": cs})
        # 2. equivalent encodings of whole modules
        w2c2 = common.build_w2c2(os.path.join(wd, "bin"))
        tm_, ts_ = tails_module()
        mods = [("directed", directed_module()), ("dimports", machine.norm_module(directed_imports()), IMPSCRIPT), ("tails", machine.norm_module(tm_), ts_)]
        for it in wasmgen.programs("mixed", 16 if tier == "quick" else 200, SEED, args_per_prog=3)[:6 if tier == "quick" else 80]:
            mods.append((it["id"], it["module"], it["script"]))
        for it in wasmgen.programs("calls", 12 if tier == "quick" else 150, SEED, args_per_prog=3)[:4 if tier == "quick" else 60]:
            mods.append((it["id"], it["module"], it["script"]))
        # the directed module imports a global: the embedder's object comes first, the instance is bound to it
        dscript = [{"op": "hostglobal", "t": "i32", "b": b32(400)}, dict(INST, binds={"mem": 0, "table": 0, "globals": [1]}),
                   {"op": "call", "inst": 1, "export": "mix", "args": [{"t": "i64", "b": b64(5)}, {"t": "f64", "b": b64(0x4000000000000000)}]},
                   {"op": "call", "inst": 1, "export": "locs", "args": [{"t": "i32", "b": b32(100)}]}]
        jobs, items, fields_checked = [], [], []
        for mm in mods:
            name, m = mm[0], mm[1]
            script = mm[2] if len(mm) > 2 else dscript
            em = machine.enc_module(m)
            canon = wasm_encode.encode(em)
            for ci, c in enumerate(choice_vectors(rng, em, 6 if tier == "quick" else 60)):
                data = wasm_encode.encode(em, c)
                jobs.append((name, ci, c, canon, data))
                if name in ("directed", "dimports") or ci < 2 or (c.get("explicitElse") and ci < 12):
                    items.append({"id": "%s_c%d" % (name, ci), "module": m, "script": script, "wasm": data})
        # sparse modules: most sections absent; every absent section may instead be present with a zero count, one at a
        # time, in pairs, and in random subsets (function and code sections independently: both have zero entries)
        ALLSEC = ["type", "import", "function", "table", "memory", "global", "export", "element", "code", "data"]
        sparse = [("empty", {}),
                  ("memonly", {"memory": {"min": 1, "max": 2}, "data": [{"mode": "active", "offset": ["i32.const", b32(4)], "bytes": [1, 2, 3]}],
                               "exports": [{"name": "memory", "kind": "memory", "idx": 0}]}),
                  ("globonly", {"globals": [{"t": "i64", "mut": True, "init": ["i64.const", b64(-7)]}], "exports": [{"name": "g", "kind": "global", "idx": 0}]}),
                  ("typesonly", {"types": [{"p": ["i32"], "r": []}, {"p": [], "r": ["f64"]}]}),
                  ("importsonly", {"types": [{"p": ["i32"], "r": []}], "imports": [{"mod": "env", "name": "h", "kind": "func", "type": 0, "ret": []},
                                                                                   {"mod": "env", "name": "g", "kind": "global", "t": "i32", "mut": False}]}),
                  ("tableonly", {"table": {"min": 2, "max": 5}, "exports": [{"name": "t", "kind": "table", "idx": 0}]})]
        for name, m in sparse:
            em = machine.enc_module(machine.norm_module(m))
            canon = wasm_encode.encode(em)
            subsets = [[x] for x in ALLSEC] + [["function", "code"], ["code", "data"], ["type", "function"], ALLSEC]
            subsets += [rng.sample(ALLSEC, rng.randint(2, 6)) for _ in range(4 if tier == "quick" else 40)]
            for ci, sub in enumerate(subsets):
                c = {"emitEmpty": sub}
                if ci % 5 == 4:
                    c["padall"] = 1
                jobs.append((name, 1000 + ci, c, canon, wasm_encode.encode(em, c)))
        # the same module as a file of a particular size (a trailing custom section makes up the difference): block sizes of
        # buffered readers and their neighbours
        def pad_to(data, total):
            for ll in (1, 2, 3):
                size = total - len(data) - 1 - ll
                if size >= 2 and len(wasm_encode.Enc().u(size, "x")) == ll:
                    return data + bytes([0]) + bytes(wasm_encode.Enc().u(size, "x")) + bytes([1, 0x70]) + bytes(size - 2)
            return None
        dm_ = machine.enc_module(directed_module())
        dcanon = wasm_encode.encode(dm_)
        for total in (512, 1023, 1024, 1025, 4095, 4096, 4097, 8192, 12288, 65535, 65536, 65537):
            alt = pad_to(dcanon, total)
            if alt is not None and len(alt) == total:
                jobs.append(("directed", 2000 + total, {"custom": [{"at": 99, "name": "p", "payload": "to %d bytes" % total}]}, dcanon, alt))
        # the binder's padded LEB fields are themselves checked against Leb128.tla (a sample)
        for n in (32, 64):
            e = wasm_encode.Enc({"padall": 1})
            fl = []
            for val in [0, 1, 63, 64, 127, 128, 300, 2 ** 31 - 1, 2 ** 32 - 1 if n == 32 else 2 ** 64 - 1, 2 ** (n - 1)]:
                for extra in range(0, (n + 6) // 7):
                    e2 = wasm_encode.Enc({"pad": {"f": extra}})
                    fl.append({"bytes": e2.u(val, "f", n), "signed": False, "value": list(val.to_bytes(n // 8, "little"))})
            for val in [0, 1, -1, 63, 64, -64, -65, 2 ** (n - 1) - 1, -2 ** (n - 1), -129, 8191, -8192]:
                for extra in range(0, (n + 6) // 7):
                    e2 = wasm_encode.Enc({"pad": {"f": extra}})
                    fl.append({"bytes": e2.s(val, "f", n), "signed": True, "value": list((val & (2 ** n - 1)).to_bytes(n // 8, "little"))})
            inf = os.path.join(wd, "fields%d.ndjson" % n)
            write_ndjson(inf, fl)
            fr = tlc_ok(tlc("Leb128", cfg="LebFields_%d.cfg" % n, env={"INFILE": inf}, timeout=900), "LebFields_%d (the binder's LEB padding is not a valid encoding)" % n)
            lstates += fr["distinct"]
            ltrans += fr["generated"]
            fields_checked.append(len(fl))

        # 3. the binary format itself (WasmBinary.tla).  First the model is held against the expectations of the WebAssembly
        #    authors (the repository's spec-suite files: accepted, malformed, invalid); then TLC decodes every encoding used
        #    below: each must be a valid module and decode to exactly the abstract module the behaviour is predicted from -
        #    "the same module under the specification" is decided by the specification, not assumed of the binder's encoder
        binstat = binfmt.selfcheck(wd, tier, SEED)
        asts = {mm[0]: binfmt.canon(mm[1]) for mm in mods}
        asts.update({name: binfmt.canon(machine.norm_module(m)) for name, m in sparse})
        named = {}
        for j, (name, ci, c, canon, data) in enumerate(jobs):
            named["%d:canon:%s" % (j, name)] = canon
            named["%d:alt:%s" % (j, name)] = data
        uniq = {}
        for k, b in named.items():
            uniq.setdefault(bytes(b), []).append(k)
        verdicts, bst = binfmt.decode([(ks[0], b) for b, ks in uniq.items()], wd)
        for b, ks in uniq.items():
            o = verdicts[ks[0]]
            name = ks[0].split(":", 2)[2]
            if o["status"] != "ok" or o["valid"] != "":
                raise common.MachineryError("the binder produced an encoding that WasmBinary/WasmValid reject (%s %s %s): %s" % (o["status"], o["why"], o["valid"], ks[0]))
            if binfmt.canon(o["module"]) != asts[name]:
                raise common.MachineryError("the binder produced an encoding that decodes to another module: %s" % ks[0])
        lstates += binstat["states"] + bst["states"]
        ltrans += binstat["transitions"] + bst["transitions"]
        # 4. absent sections mean empty: from valid encodings, leave out sections (each one, pairs, every cut at a section
        #    boundary).  WasmBinary.tla + WasmValid.tla decide which of the results are valid modules; w2c2 must accept those
        #    and the output must behave as WasmExec says for the module TLC decoded from the very bytes w2c2 is given.
        subs, nsub_valid, nsub_rejected = {}, 0, 0
        for mm in mods:
            name, m = mm[0], mm[1]
            script = mm[2] if len(mm) > 2 else dscript
            em = machine.enc_module(m)
            if name == "directed":
                # without the data count section (nothing in this variant names a data segment), so that the data section is optional
                em = dict(em, datacount=False)
            base = wasm_encode.encode(em)
            secs = binfmt.sections(base)
            ids = [sid for sid, _, _ in secs]
            drops = [[k] for k in range(len(secs))] + [list(range(k, len(secs))) for k in range(1, len(secs))]
            drops += [[a, b] for a in range(len(secs)) for b in range(a + 1, len(secs)) if ids[a] in (6, 7, 8, 9, 11, 12) and ids[b] in (7, 8, 9, 11, 12)]
            for dr in drops:
                data = base[:8] + b"".join(base[a:b] for k, (sid, a, b) in enumerate(secs) if k not in dr)
                key = "sub:%s:-%s" % (name, ".".join(str(ids[k]) for k in dr))
                if data != base and key not in subs:
                    subs[key] = (name, m, script, data, [ids[k] for k in dr])
        sverd, sst = binfmt.decode([(k, x[3]) for k, x in subs.items()], wd)
        lstates += sst["states"]
        ltrans += sst["transitions"]
        subjobs = []
        for key, (name, m, script, data, dropped) in sorted(subs.items()):
            o = sverd[key]
            if o["status"] != "ok" or o["valid"] != "":
                nsub_rejected += 1
                continue
            nsub_valid += 1
            rets = {(bytes(binfmt._name(im["mod"])), bytes(binfmt._name(im["name"]))): im.get("ret", []) for im in m.get("imports", []) if im["kind"] == "func"}
            dm = binfmt.to_ast(o["module"], rets)
            names = {x["name"] for x in dm["exports"] if x["kind"] == "func" and isinstance(x["name"], str)}
            sc = [op for op in script if op["op"] != "call" or op["export"] in names]
            subjobs.append(key)
            items.append({"id": key.replace(":", "_").replace("-", "m").replace(".", "_"), "module": dm, "script": sc, "wasm": data})
            jobs.append((key, 3000, {"dropped": dropped}, data, data))

        def job(j):
            name, ci, c, canon, data = jobs[j]
            d = os.path.join(wd, "e%d" % j)
            os.makedirs(d)
            out = []
            for tag, bts in (("canon", canon), ("alt", data)):
                os.makedirs(os.path.join(d, tag))
                open(os.path.join(d, tag, "m.wasm"), "wb").write(bts)
                rc, so, se = run([w2c2, "-t", "1", "m.wasm", "m.c"], cwd=os.path.join(d, tag), timeout=120)
                out.append((rc, se, open(os.path.join(d, tag, "m.c")).read() if rc == 0 else "", open(os.path.join(d, tag, "m.h")).read() if rc == 0 else ""))
            # debug output asked for (-g): custom sections are still none of the translator's business, whatever they are called (.debug_*,
            # producers, ...) and whether or not it was built with a DWARF library - and a section called "name" whose contents or place are
            # not what a name section's should be is read as far as it makes sense and never invalidates the module
            cnames = [x["name"] for x in c.get("custom", [])] if isinstance(c, dict) else []
            grc, gse = 0, ""
            if cnames:
                grc, _, gse = run([w2c2, "-t", "1", "-g", "m.wasm", "g.c"], cwd=os.path.join(d, "alt"), timeout=120)
            shutil.rmtree(d, ignore_errors=True)
            devs = []
            if grc != 0 and out[1][0] == 0:
                return [("encoding-rejected-with-g", gse[-300:])]
            if out[0][0] != 0:
                # the module is valid (WasmValid gates the replayed ones; the sparse ones are valid by inspection): a rejected
                # canonical encoding is a rejected valid encoding
                return [("canonical-encoding-rejected", out[0][1][-300:])]
            if out[1][0] != 0:
                return [("encoding-rejected", out[1][1][-300:])]
            # an `if` written with an explicit empty else arm comes out with an empty `else{ }`: no statement, the same definition
            emptyelse = (lambda t: re.sub(r"\}\s*else\s*\{\s*\}", "}", t)) if c.get("explicitElse") else (lambda t: t)
            f0, r0 = split_c(emptyelse(out[0][2]))
            f1, r1 = split_c(emptyelse(out[1][2]))
            if f0 != f1:
                devs.append(("function-definitions-differ", "%d vs %d definitions" % (len(f0), len(f1))))
            if r0 != r1:
                a, b = r0.splitlines(), r1.splitlines()
                diff = [(x, y) for x, y in zip(a, b) if x != y][:2]
                devs.append(("other-definitions-differ", str(diff)[:400]))
            if sorted(out[0][3].splitlines()) != sorted(out[1][3].splitlines()):
                devs.append(("header-differs", ""))
            return devs
        for j, devs in enumerate(pmap(job, range(len(jobs)))):
            for kind, text in devs:
                if kind == "machinery":
                    raise common.MachineryError(text)
                c = jobs[j][2]
                what = "absent-sections" if "dropped" in c else "custom-sections" if c.get("custom") and not c.get("pad") and not c.get("padall") else \
                       "padding" if (c.get("pad") or c.get("padall")) and not c.get("custom") else "mixed"
                v.deviation("enc:%s:%s" % (kind, what), {"module": jobs[j][0], "choice": {k: (c[k] if k != "pad" else dict(list(c[k].items())[:6])) for k in c}, "what": text},
                            {"alt.wasm": jobs[j][4], "canonical.wasm": jobs[j][3]})
        st, exp = machine.replay(v, items, [{"name": "gcc-O1", "cc": "gcc", "cflags": ("-O1",)}],
                                 sigfn=lambda it, k, why, b, e, a: "enc:behaviour:%s" % why.split(":")[0])
    finally:
        shutil.rmtree(wd, ignore_errors=True)
    cov = {"states": lstates + st["states"], "transitions": ltrans + st["transitions"], "traces_validated_against_impl": nvec + len(jobs),
           "samples": [{"leb_bytes": res[0][2][k]["bytes"], "spec_u32": res[0][2][k]["u"], "valid_u": res[0][2][k]["validU"], "valid_s": res[0][2][k]["validS"]} for k in (7, 200, 9000)] +
                      [{"module": jobs[0][0], "choice": "padall"}],
           "evaluations": nvec + len(jobs) + st["ops_compared"], "distinct_nontrivial": nvec + len(jobs),
           "rule": "LEB128: every byte string of length <= 5 (32-bit, 16-symbol class alphabet) / <= 10 (64-bit, 6 symbols) is enumerated by TLC, "
                   "the serial decoder is checked against the specification in the model, and each VALID string is fed to the real "
                   "leb128ReadU32/I32/U64/I64 (value and byte count compared); modules: a directed module with every section kind plus WasmGen "
                   "modules x choice vectors (every field padded to its maximum, random per-field padding, custom sections of arbitrary name "
                   "and payload at every boundary, data segments as flag 0 / flag 2, empty sections present) -> w2c2 must accept, produce the "
                   "same multiset of function definitions and the same other definitions as for the canonical encoding, and behave as WasmExec says; "
                   "WasmBinary.tla (the binary format as a TLA+ decoder, first held against the accepted / malformed / invalid files of the "
                   "repository's spec suite) decodes every encoding used: all variants of a module must decode to the abstract module the "
                   "behaviour is predicted from; section subsets (each section left out, pairs, every cut at a section boundary) are classified "
                   "by WasmBinary + WasmValid, and the valid ones must be accepted by w2c2 and behave like the module TLC decoded from those bytes",
           "binary_format_model_vs_spec_suite": binstat, "encodings_decoded_by_tlc": len(uniq) + len(subs),
           "section_subsets": {"built": len(subs), "valid_by_model": nsub_valid, "rejected_by_model": nsub_rejected},
           "leb_vectors_checked": nvec, "encodings": len(jobs), "encoder_fields_cross_checked": fields_checked, "exhaustive": False}
    return v.finish("model_checking", cov,
                    ["module-level encodings are produced by bind/py/wasm_encode.py; its LEB padding is cross-checked against Leb128.tla and every "
                     "encoding it produced is decoded by WasmBinary.tla and compared with the abstract module (a wrong encoder is a machinery error)", "with -g the name section is parsed: only acceptance is checked here (c09 checks what the names are used for)"])


main_wrap(main)
