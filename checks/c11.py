#!/usr/bin/env python3
"""C11 - generated C is well-defined: same results for every compiler and -O level (DESIGN.md 3/C11)."""
import importlib.util
import os
import random
import sys
HERE = os.path.dirname(os.path.abspath(__file__))
sys.path.insert(0, os.path.join(HERE, "..", "bind", "py"))
import machine
import wasmgen
from common import SEED, Verdict, main_wrap
from wasmgen import b32, b64

SAN = ("-fsanitize=address", "-fsanitize=signed-integer-overflow,shift,float-cast-overflow,alignment,bounds,null",
       "-fno-sanitize-recover=all", "-fno-omit-frame-pointer")


def load(name):
    """Borrow the item generators of another check (without running it)."""
    src = open(os.path.join(HERE, name + ".py")).read().replace("main_wrap(main)", "")
    ns = {"__file__": os.path.join(HERE, name + ".py"), "__name__": "borrowed_" + name}
    exec(compile(src, name, "exec"), ns)
    return ns


def matrix(tier, rng):
    cells = []
    for cc in ("gcc", "clang"):
        for o in ("-O0", "-O1", "-O2", "-O3", "-Os"):
            for std in ("-std=gnu89", None):
                for san in (False, True):
                    fl = (o,) + ((std,) if std else ()) + (SAN if san else ())
                    cells.append({"name": "%s%s%s%s" % (cc, o, std or "", "-san" if san else ""), "cc": cc, "cflags": fl})
    if tier == "quick":
        # a covering subset: every compiler x level once, every std/sanitizer value with every compiler
        pick = []
        for cc in ("gcc", "clang"):
            for j, o in enumerate(("-O0", "-O1", "-O2", "-O3", "-Os")):
                std = "-std=gnu89" if (j + (cc == "clang")) % 2 == 0 else ""
                san = "-san" if j in (0, 2) else ""
                pick.append("%s%s%s%s" % (cc, o, std, san))
        pick += ["gcc-O2-std=gnu89-san", "clang-O3-san"]
        cells = [c for c in cells if c["name"] in pick]
    return cells


def name_items():
    """Names with characters that need escaping inside C string literals."""
    items = []
    for j, (exp, impmod, impname) in enumerate([('q"x', "env", "plain"), ("back\\slash", "env", "plain"), ("ok", "e\"m", "n\\m"),
                                                ("per%cent", "env", "p%s"), ("tab\there", "env", "plain")]):
        m = {"types": [{"p": [], "r": ["i32"]}],
             "imports": [{"mod": impmod, "name": impname, "kind": "func", "type": 0, "ret": b32(11)}],
             "funcs": [{"type": 0, "locals": [], "body": [["call", 0], ["i32.const", b32(1)], ["i32.add"], ["end"]]}],
             "exports": [{"name": exp, "kind": "func", "idx": 1}, {"name": "plainexport", "kind": "func", "idx": 1}]}
        items.append({"id": "name%d" % j, "module": m,
                      "script": [{"op": "instantiate", "binds": {"mem": 0, "table": 0, "globals": []}},
                                 {"op": "call", "inst": 1, "export": "plainexport", "args": []}]})
    # bytes that must be written as escapes, directly followed by characters that could be taken for a continuation of the
    # escape (hexadecimal and octal digits), in export names and in the names of a global import (both end up in C string literals)
    def raw(bs):
        return {"bytes": list(bs)}
    hard = [b"gr\xc3\xb6\xc3\x9fe", b"\xcf\x802", b"\x7fA", b"\x01f0", b"\x1b[0m", "a\u00ffb\u00fec".encode("utf-8"), b"\x079", b"\x0377", b"\xe2\x82\xacd", "??=\u0080a".encode("utf-8")]          # (all well-formed UTF-8: names must be)
    for j, nm in enumerate(hard):
        m = {"types": [{"p": [], "r": ["i32"]}],
             "imports": [{"mod": "m%d" % j, "name": "n%d" % j, "wire_mod": list(nm), "wire_name": list(nm[::-1]), "kind": "global", "t": "i32", "mut": False}],
             "funcs": [{"type": 0, "locals": [], "body": [["global.get", 0], ["i32.const", b32(1)], ["i32.add"], ["end"]]}],
             "exports": [{"name": "hard%d" % j, "wire_name": list(nm), "kind": "func", "idx": 0}, {"name": "plainexport", "kind": "func", "idx": 0}]}
        items.append({"id": "bname%d" % j, "module": m,
                      "script": [{"op": "hostglobal", "t": "i32", "b": b32(41 + j)}, {"op": "instantiate", "binds": {"mem": 0, "table": 0, "globals": [1]}},
                                 {"op": "call", "inst": 1, "export": "plainexport", "args": []}]})
    return items


def sig(it, k, why, build, e, a):
    return "%s:%s:%s" % (build["name"], it["id"].rstrip("0123456789_"), why.split(":")[0])


def main():
    tier = sys.argv[1] if len(sys.argv) > 1 else os.environ.get("VERIF_TIER", "quick")
    rng = random.Random(SEED)
    v = Verdict("C11", tier)
    n = 1 if tier == "quick" else 4
    c01, c05, c02, c03 = load("c01"), load("c05"), load("c02"), load("c03")
    items = c01["grid_items"](rng, (6 if tier == "quick" else 32), (1 if tier == "quick" else 8), bitpos=tier != "quick", narrow=tier != "quick")
    fl, _ = c02["grid_items"](rng, (10 if tier == "quick" else 56), (6 if tier == "quick" else 32), 0 if tier == "quick" else None, classes=tier != "quick")
    items += fl
    mods = {3: c05["build_module"](3)}
    for h in range(16 if tier == "quick" else 120):
        items.append({"id": "h%d" % h, "module": mods[3],
                      "script": [{"op": "instantiate", "binds": {"mem": 0, "table": 0, "globals": []}}] + c05["history"](rng, 3, 12)})
    items += c03["directed"](rng, "quick")
    items += [i for i in load("c04")["directed"](rng, "quick", {}) if i["id"].startswith(("seg", "icallty", "tab_", "reent"))]        # ("seg" includes the fixed run layouts)
    # constants of every class in function bodies and global initialisers: what the translator prints must be C, everywhere
    c07 = load("c07")
    cs = [("f32", x) for x in c07["float_pool"](rng, 8, 23, 4, False)] + [("f64", x) for x in c07["float_pool"](rng, 11, 52, 4, False)] + \
         [("i32", x) for x in c07["int_pool"](rng, 32, 4)] + [("i64", x) for x in c07["int_pool"](rng, 64, 4)]
    if tier == "quick":
        cs = cs[::3]
    items += c07["build_items"](cs)
    gst = {}
    for prof, cnt in (("mixed", 36 if tier == "quick" else 240), ("control", 36 if tier == "quick" else 240), ("calls", 24 if tier == "quick" else 160)):
        items += wasmgen.programs(prof, cnt, SEED, args_per_prog=4, stats=gst)
    names = name_items()
    cells = matrix(tier, rng)
    st, exp = machine.replay(v, items, cells, sigfn=sig, tlc_timeout=3000)
    # names: compile-cleanliness only needs one cell per compiler
    v2 = v
    ncells = ([c for c in cells if c["cc"] == "gcc"][:1] + [c for c in cells if c["cc"] == "clang"][:1]) or cells[:2]
    stn, _ = machine.replay(v2, names, ncells,
                            sigfn=lambda it, k, why, b, e, a: "names:" + it["id"])
    cov = {"evaluations": st["ops_compared"] + stn["ops_compared"], "distinct_nontrivial": st["distinct_nontrivial"],
           "rule": "behaviours of the C01-C07 generators (integer and float operand grids, memory histories, directed control "
                   "flow, WasmGen programs of profiles mixed/control/calls) whose outcome WasmExec defines, replayed over a build "
                   "matrix compiler x optimisation level x {gnu89, default} x {plain, ASan+UBSan subset}; every build must compile "
                   "without error, run without sanitizer report and EQUAL THE MODEL (not merely agree with the other builds); "
                   "distinct = distinct (call, specified outcome)",
           "samples": [{"cell": c["name"], "flags": list(c["cflags"])} for c in cells[:4]] + [{"program": items[-1]["module"]["funcs"][0]["body"][:20]}],
           "cells": [c["name"] for c in cells], "programs": len(items), "states": st["states"], "transitions": st["transitions"],
           "traces_validated_against_impl": st["ops_compared"], "exhaustive": False}
    return v.finish("exploration", cov,
                    ["only gcc 12 and clang 14 on x86-64 are installed; sanitizers observe the executed behaviours only",
                     "float-divide-by-zero is not enabled (IEEE division by zero is required behaviour)"])


main_wrap(main)
