#!/usr/bin/env python3
"""C17 - memory.atomic.wait / notify: no lost wake-ups, exact counts, exact return codes (DESIGN.md 3/C17)."""
import json
import os
import random
import shutil
import sys
sys.path.insert(0, os.path.join(os.path.dirname(os.path.abspath(__file__)), "..", "bind", "py"))
import common
import explore
import machine
import tracecheck
from common import BINDC, REPO, SEED, Verdict, main_wrap, run, tlc, tlc_ok
from wasmgen import b32, b64

A, B, C = 16, 16 + 4096, 48          # A and B collide in the 1024-bucket map (keys differ by a multiple of 1024)

SCRIPTS_QUICK = [
    "W32:%d:0:-1|N:%d:1" % (A, A),
    "W32:%d:0:5|N:%d:1" % (A, A),
    "W32:%d:0:-1|W32:%d:0:-1|N:%d:1;N:%d:1" % (A, A, A, A),
    "W32:%d:0:-1|W32:%d:0:5|N:%d:2" % (A, B, A),
    "W32:%d:0:5|W32:%d:0:5|N:%d:1|N:%d:1" % (A, B, B, A),
    "W32:%d:0:-1|S:%d:7;N:%d:1" % (A, A, A),
    "W32:%d:7:-1|S:%d:7|N:%d:4" % (A, A, A),
    "W64:%d:0:5|N:%d:0;N:%d:1" % (C, C, C),
    "W32:%d:0:5;W32:%d:0:5|N:%d:1;N:%d:1" % (A, B, A, B),
    # waiters WITHOUT timeout asleep on two addresses that share a bucket, drained in either order by one notifier: the one
    # drained second must still be found (a waiter that can time out would hide a lost entry behind its time-out)
    "W32:%d:0:-1|W32:%d:0:-1|N:%d:1;N:%d:1" % (A, B, A, B),
    "W32:%d:0:-1|W32:%d:0:-1|N:%d:1;N:%d:1" % (A, B, B, A),
    # the most recent waiter of an address leaves first (its time-out), an older one stays, a new one arrives: all still counted
    "W32:%d:0:-1|W32:%d:0:5;W32:%d:0:-1|N:%d:2;N:%d:2" % (A, A, A, A, A),
    # EVERY negative timeout means "no timeout", not only -1
    "W32:%d:0:-2|N:%d:1" % (A, A),
    "W64:%d:0:-9223372036854775808|W32:%d:0:-1000000000|N:%d:2" % (C, C, C),
    # a time-out of zero is a time-out like any other: the cell is compared first (1 when it differs), an equal cell gives 2 at once
    "W32:%d:7:0|S:%d:7;N:%d:1" % (A, A, A),
    "W64:%d:5:0;W64:%d:0:0|N:%d:1" % (C, C, C),
    # the host runs out of memory inside a wait (k-th allocation of the call fails; 9: its condition variable cannot be made): the call
    # traps and nothing else changes - waiters already asleep on the same address or in the same bucket are still found afterwards
    "W32:%d:0:-1|X32:%d:0:-1:1;N:%d:1;N:%d:1" % (A, A, A, A),
    "W32:%d:0:-1|X32:%d:0:5:2;N:%d:1;N:%d:1" % (A, B, A, A),
    "W32:%d:0:-1|X32:%d:0:-1:9;W32:%d:0:5|N:%d:2;N:%d:2" % (A, A, A, A, A),
    "X32:%d:0:5:2;X32:%d:0:5:3;X32:%d:0:5:2;W32:%d:0:5|N:%d:1" % (A, A, A, A, A),
]
SCRIPTS_THOROUGH = SCRIPTS_QUICK + [
    "W32:%d:0:-1|W32:%d:0:-1|W32:%d:0:-1|N:%d:1;N:%d:1;N:%d:1" % (A, B, A + 8192, B, A, A + 8192),
    "W32:%d:0:-1|W32:%d:0:-1|W32:%d:0:-1|N:%d:1;N:%d:1;N:%d:1" % (A, B, A + 8192, A, A + 8192, B),
    "W32:%d:0:-1|W32:%d:0:-1|W32:%d:0:5|N:%d:2|N:%d:1" % (A, A, B, A, B),
    "W32:%d:0:5|W32:%d:0:5|W32:%d:0:5|N:%d:2" % (A, A, A, A),
    "W32:%d:0:-1|W32:%d:0:-1|N:%d:1|N:%d:1|S:%d:1" % (A, B, A, B, A),
    "W32:%d:0:5;W32:%d:0:5|W32:%d:0:5|N:%d:1;N:%d:3" % (A, A, B, B, A),
    "W64:%d:0:-1|W32:%d:0:5|N:%d:4294967295" % (C, C, C),
]


def build_driver(wd):
    exe = os.path.join(wd, "fx")
    rc, out, err = run(["gcc", "-O1", "-g", "-w", "-fsanitize=address", "-include", os.path.join(BINDC, "sched_shim.h"),
                        "-I", os.path.join(REPO, "w2c2"), "-I", BINDC,
                        os.path.join(BINDC, "futex_driver.c"), os.path.join(BINDC, "sched.c"),
                        os.path.join(REPO, "futex", "futex.c"), os.path.join(REPO, "futex", "map.c"),
                        os.path.join(REPO, "futex", "list.c"), "-o", exe, "-lpthread", "-Wl,--wrap=calloc"], timeout=300)
    if rc != 0:
        raise common.MachineryError("cannot build the futex driver: " + err[-2000:])
    return exe


def build_driver_pthread_level(wd):
    return explore.build_pthread_level(wd, "fxp", os.path.join(BINDC, "futex_driver.c"), [os.path.join(REPO, "futex", f) for f in ("futex.c", "map.c", "list.c")], wraps=["calloc"])


def history_of(r):
    """API-level history of one run, in the trace spec's vocabulary."""
    h = []
    for e in r["events"]:
        if e["ev"] == "call":
            op = e["op"]
            h.append({"ev": "call", "t": e["t"], "op": op, "a": e["a"], "x": e["b"] % (1 << 31) if op != "notify" else min(e["b"], 1000),
                      "timed": op.startswith("wait") and e["c"] >= 0})
        elif e["ev"] == "ret":
            # a wait that ended in the allocation-failure trap (injected by the driver) is result 3 of FutexAbs.WaitFail
            h.append({"ev": "ret", "t": e["t"], "res": 3 if e["res"] == -1 else e["res"]})
        elif e["ev"] == "blocked":
            h.append({"ev": "blocked", "t": e["t"]})
    h.append({"ev": "reset" if r["end"] and r["end"]["outcome"] == "complete" else "stuck"})
    return h


def emission_items():
    """The emitted code must pass address operand + static offset to wait/notify, and the expected value and the
    timeout unchanged.  One agent: a different cell value gives 1, an equal one gives 2 after the (short) timeout."""
    items = []
    for op, k, vt in (("memory.atomic.wait32", 4, "i32"), ("memory.atomic.wait64", 8, "i64")):
        for off in (0, 8, 4096):
            cst = (lambda n: b32(n)) if vt == "i32" else (lambda n: b64(n))
            # w(addr, expected_low): wait(addr + off, expected, 2 ms)
            body = [["local.get", 0], ["local.get", 1]] + ([["i64.extend_i32_u"]] if vt == "i64" else []) + [["i64.const", b64(2000000)], [op, 2 if k == 4 else 3, off], ["end"]]
            m = {"types": [{"p": ["i32", "i32"], "r": ["i32"]}],
                 "funcs": [{"type": 0, "locals": [], "body": body},
                           {"type": 0, "locals": [], "body": [["local.get", 0], ["local.get", 1], ["memory.atomic.notify", 2, off], ["end"]]}],
                 "memory": {"min": 1, "max": 1, "shared": True},
                 # cells: the one at base + off holds 5 + off, the one at the bare base (when off # 0) holds 5
                 "data": [{"mode": "active", "offset": ["i32.const", b32(64)], "bytes": [5, 0, 0, 0, 0, 0, 0, 0]}] +
                         ([{"mode": "active", "offset": ["i32.const", b32(64 + off)], "bytes": list((5 + off).to_bytes(8, "little"))}] if off else []) +
                         # a cell whose low word equals the expected value while its high word does not: wait64 must see the difference
                         [{"mode": "active", "offset": ["i32.const", b32(80 + off)], "bytes": [5, 0, 0, 0, 9, 0, 0, 0]}],
                 "exports": [{"name": "w", "kind": "func", "idx": 0}, {"name": "n", "kind": "func", "idx": 1},
                             {"name": "memory", "kind": "memory", "idx": 0}]}
            call = lambda e, a, b: {"op": "call", "inst": 1, "export": e, "args": [{"t": "i32", "b": b32(a)}, {"t": "i32", "b": b32(b)}]}
            items.append({"id": "em_%s_%d" % (op.split(".")[-1], off), "module": m,
                          "script": [{"op": "instantiate", "binds": {"mem": 0, "table": 0, "globals": []}},
                                     call("w", 64, 5 + off),          # equal at the effective address: times out (2)
                                     call("w", 64, 5),                # the value at the bare address: 1 unless off = 0
                                     call("w", 64, 0), call("w", 64, off), call("w", 64, 5 + 2 * off), call("w", 64 - off if off <= 64 else 64, 5),
                                     call("w", 80, 5), call("w", 80, 9),
                                     call("n", 64, 3), call("n", 64, 0)]})
    return items


def main():
    tier = sys.argv[1] if len(sys.argv) > 1 else os.environ.get("VERIF_TIER", "quick")
    v = Verdict("C17", tier)
    rng = random.Random(SEED)
    # 1. design level: the implementation-shaped model refines the abstract one (all interleavings, small instances)
    impl = {"distinct": 0, "generated": 0}
    for cfg in (["FutexImplA.cfg", "FutexImplB.cfg", "FutexImplF.cfg", "FutexImplLive.cfg"] + ([] if tier == "quick" else ["FutexImplC.cfg"])):
        r = tlc_ok(tlc("MCFutex", cfg=cfg, workers=8, timeout=3000, xmx="12g"), cfg)
        impl["distinct"] += r["distinct"]
        impl["generated"] += r["generated"]
    # 2. the real futex.c under the deterministic scheduler; every schedule's history against FutexAbs
    wd = common.scratch("c17-")
    stats = {"schedules": 0, "deadlock_ends": 0, "histories": 0}
    if tier != "quick":
        # queue discipline of the abstract protocol for ANY finite set of threads (TLA+ proof system)
        stats["proof_FutexProof"] = common.tlapm("FutexProof")
    try:
        try:
            exe = build_driver(wd)
        except common.MachineryError as e_:
            # thread primitives the deterministic layer does not provide: no exploration, the real-thread runs below still happen
            exe = None
            stats["exploration_skipped"] = str(e_)[-300:]
        # the scheduler one level lower (under the pthread functions): the fallback when the macro-level build is not possible, and
        # always used for a share of the scripts so that both seams stay alive
        try:
            exe_p = build_driver_pthread_level(wd)
        except common.MachineryError as e_:
            exe_p = None
            stats["pthread_level_skipped"] = str(e_)[-300:]
        if exe is None and exe_p is not None:
            stats.pop("exploration_skipped", None)
            stats["exploration_seam"] = "pthread functions (the thread macros of this tree are not the ones the macro-level layer knows)"
        histories, meta = [], []
        seen = set()
        scripts_ = SCRIPTS_QUICK if tier == "quick" else SCRIPTS_THOROUGH
        plan = [(s_, exe) for s_ in scripts_] + [(s_, exe_p) for s_ in scripts_[1::3]] if exe else [(s_, exe_p) for s_ in scripts_]
        for s, exe_ in [(s_, x_) for s_, x_ in plan if x_]:
            nthr = s.count("|") + 1
            env = {"SCHED_SYNCLOG": "0", "SCHED_PREEMPT": "2" if nthr <= 3 else "1", "ASAN_OPTIONS": "detect_leaks=0:abort_on_error=0"}
            runs = explore.explore(exe_, [s], env=env, jobs=common.NCPU, max_runs=4000 if tier == "quick" else 60000)
            if tier != "quick" and nthr > 3:
                runs += explore.explore(exe_, [s], env=dict(env, SCHED_PREEMPT="6"), jobs=common.NCPU, rng=rng, sample=3000)
            for r in runs:
                stats["schedules"] += 1
                if r["rc"] != 0 or "AddressSanitizer" in r["stderr"] or r["end"] is None:
                    kind = "asan" if "AddressSanitizer" in r["stderr"] else ("hang" if r["rc"] == -999 else "crash")
                    v.deviation("futex:%s" % kind, {"script": s, "schedule": r["prefix"], "stderr": r["stderr"][-1500:], "rc": r["rc"]},
                                {"schedule.json": json.dumps({"script": s, "SCHED": r["prefix"], "env": env})})
                    continue
                if r["end"].get("misuse"):
                    v.deviation("futex:mutex-misuse", {"script": s, "schedule": r["prefix"], "count": r["end"]["misuse"]})
                if r["end"]["outcome"] == "steplimit":
                    v.deviation("futex:livelock", {"script": s, "schedule": r["prefix"]})
                    continue
                if r["end"]["outcome"] == "deadlock":
                    stats["deadlock_ends"] += 1
                h = history_of(r)
                key = json.dumps(h)
                if key not in seen:
                    seen.add(key)
                    histories.append(h)
                    meta.append({"script": s, "schedule": [c for c, n in r["end"]["choices"]]})
        # longer lives: every thread waits and notifies several times, on addresses that share a bucket and on one that does not; records,
        # lists and table entries are created, emptied and created again (whatever is recycled must come back clean).  Random schedules.
        lrng = random.Random(SEED + 1717)
        long_scripts = ["W32:%d:0:5;W32:%d:0:5;W32:%d:0:5|W32:%d:0:5;W32:%d:0:5|N:%d:2;N:%d:2;N:%d:1;N:%d:1" % (A, A, B, A, A, A, A, A, B),
                        "W32:%d:0:5;W32:%d:0:5;W32:%d:0:-1|W32:%d:0:5;W32:%d:0:5;N:%d:1|N:%d:2;N:%d:2;N:%d:1" % (A, A, C, A, A, C, A, A, A)]
        for _ in range(10 if tier == "quick" else 150):
            thr = []
            for t_ in range(lrng.choice([3, 3, 4])):
                ops = []
                for _k in range(lrng.choice([3, 4, 5])):
                    a_ = lrng.choice([A, A, B, C])
                    ops.append("N:%d:%d" % (a_, lrng.choice([1, 2, 2, 3])) if lrng.random() < (0.7 if t_ == 0 else 0.25) else
                               "W32:%d:0:%d" % (a_, lrng.choice([5, 5, 5, -1])))
                thr.append(";".join(ops))
            long_scripts.append("|".join(thr))
        for li_, s in enumerate(long_scripts):
            exe_ = exe if (exe and li_ % 3) else exe_p
            env = {"SCHED_SYNCLOG": "0", "SCHED_PREEMPT": "8", "ASAN_OPTIONS": "detect_leaks=0:abort_on_error=0"}
            for r in explore.explore(exe_, [s], env=env, jobs=common.NCPU, rng=lrng, sample=(150 if li_ < 2 else 40) if tier == "quick" else (1500 if li_ < 2 else 300)):
                stats["schedules"] += 1
                if r["rc"] != 0 or "AddressSanitizer" in r["stderr"] or r["end"] is None:
                    kind = "asan" if "AddressSanitizer" in r["stderr"] else ("hang" if r["rc"] == -999 else "crash")
                    v.deviation("futex:%s" % kind, {"script": s, "schedule": r["prefix"], "stderr": r["stderr"][-1500:], "rc": r["rc"]},
                                {"schedule.json": json.dumps({"script": s, "SCHED": r["prefix"], "env": env})})
                    continue
                if r["end"]["outcome"] == "steplimit":
                    continue              # (a random schedule may keep waking a sleeper spuriously for ever: no statement)
                if r["end"]["outcome"] == "deadlock":
                    stats["deadlock_ends"] += 1
                h = history_of(r)
                key = json.dumps(h)
                if key not in seen:
                    seen.add(key)
                    histories.append(h)
                    meta.append({"script": s, "schedule": [c for c, n in r["end"]["choices"]]})
        stats["long_life_scripts"] = len(long_scripts)
        stats["histories"] = len(histories)
        # 2b. real threads and real time: the runtime's own timed condition wait (deadline arithmetic) is only in play here.
        #     Long finite time-outs behave like "until notified" (result 0, the notify counts 1, nobody hangs); short ones with
        #     nobody notifying give 2 after about that long; histories also go to FutexAbs with the others.
        real = os.path.join(wd, "fxreal")
        rc, out, err = run(["gcc", "-O1", "-g", "-w", "-DWASM_THREADS_PTHREADS", "-I", os.path.join(REPO, "w2c2"), "-I", BINDC,
                            os.path.join(BINDC, "futex_driver.c"), os.path.join(BINDC, "real_shim.c"),
                            os.path.join(REPO, "futex", "futex.c"), os.path.join(REPO, "futex", "map.c"),
                            os.path.join(REPO, "futex", "list.c"), "-o", real, "-lpthread", "-Wl,--wrap=pthread_cond_timedwait,--wrap=calloc"], timeout=300)
        if rc != 0:
            raise common.MachineryError("cannot build the real-thread futex driver: " + err[-2000:])
        LONG = [2 ** 63 - 1, 2 ** 62, 10 ** 18, 8 * 10 ** 18, 9 * 10 ** 18, 10 ** 15]
        real_scripts = [("W%d:64:0:%d|D:20;U:64:1:1" % (b, t), "long") for t in LONG for b in (32, 64)] + \
                       [("W%d:64:0:%d|D:20;U:64:1:1" % (b, t), "long") for t in (-2, -(2 ** 63), -10 ** 9, -999999999) for b in (32, 64)] + \
                       [("W32:64:0:20000000", "short"), ("W64:64:0:30000000", "short"), ("W32:64:0:0", "zero"), ("W32:64:0:1", "zero"),
                        ("W32:64:0:%d|W32:64:0:%d|D:20;U:64:5:2" % (2 ** 63 - 1, 10 ** 18), "long2"),
                        # spurious wake-ups during a timed wait: it may last longer, never shorter than its time-out
                        ("W32:64:0:500000000", "short", "120,260"), ("W64:64:0:400000000", "short", "50,100,150,200"),
                        # ... and a notify inside the time-out still finds the waiter
                        ("W32:64:0:900000000|D:450;U:64:1:1", "long", "100,250")]

        # many addresses with a sleeping waiter each at the same time (a table that grows or rehashes does it now), drained in
        # insertion order, in reverse and interleaved: every waiter is found again
        for nadr in (36, 48):
            adrs = [64 + 4 * k for k in range(nadr)]
            for order in (adrs, adrs[::-1], adrs[::2] + adrs[1::2]):
                real_scripts.append(("|".join("W32:%d:0:-1" % a_ for a_ in adrs) + "|D:400;" + ";".join("U:%d:1:1" % a_ for a_ in order), "many"))

        def run_real(sk):
            s, kind = sk[0], sk[1]
            rc_, so_, se_ = run([real, s], timeout=30, env={"FX_SPURIOUS": sk[2]} if len(sk) > 2 else None)
            evs = []
            for l in so_.splitlines():
                try:
                    evs.append(json.loads(l))
                except ValueError:
                    pass
            return s, kind, rc_, evs, se_
        for s, kind, rc_, evs, se_ in common.pmap(run_real, real_scripts, jobs=4):
            stats["schedules"] += 1
            if rc_ != 0 or any(e["ev"] == "hang" for e in evs) or not any(e["ev"] == "end" for e in evs):
                v.deviation("futex:real:hang" if rc_ in (4, -999) or any(e["ev"] == "hang" for e in evs) else "futex:real:crash",
                            {"script": s, "rc": rc_, "events": evs[-6:], "stderr": se_[-600:]})
                continue
            waits = {}
            for e in evs:
                if e["ev"] == "call" and e["op"].startswith("wait"):
                    waits[e["t"]] = e
                elif e["ev"] == "ret" and e["op"].startswith("wait"):
                    c0 = waits[e["t"]]
                    dt = e["ms"] - c0["ms"]
                    if kind in ("long", "long2") and e["res"] != 0:
                        v.deviation("futex:real:long-timeout-result", {"script": s, "result": e["res"], "after_ms": dt})
                    if kind == "short" and (e["res"] != 2 or dt < c0["c"] / 1e6 * 0.9 or dt > c0["c"] / 1e6 + 2000):
                        v.deviation("futex:real:short-timeout", {"script": s, "result": e["res"], "after_ms": dt})
                    if kind == "zero" and (e["res"] != 2 or dt > 1000):
                        v.deviation("futex:real:zero-timeout", {"script": s, "result": e["res"], "after_ms": dt})
            woken = sum(e["res"] for e in evs if e["ev"] == "ret" and e["op"] == "notify")
            if kind == "many":
                res = [e["res"] for e in evs if e["ev"] == "ret" and e["op"].startswith("wait")]
                if len(res) != s.count("W32") or any(r_ != 0 for r_ in res) or woken != len(res):
                    v.deviation("futex:real:many-addresses", {"waiters": s.count("W32"), "wait_results": res, "woken_in_total": woken})
                continue                       # (more threads than the trace specification's constant: judged here)
            if kind in ("long", "long2") and woken != (1 if kind == "long" else 2):
                v.deviation("futex:real:notify-count", {"script": s, "woken_in_total": woken})
            h = history_of({"events": evs, "end": {"outcome": "complete"}})
            if json.dumps(h) not in seen:
                seen.add(json.dumps(h))
                histories.append(h)
                meta.append({"script": s, "schedule": "real threads"})
        rejected, tst = tracecheck.validate("FutexTrace", "FutexTrace.cfg", histories)
        for idx, at in rejected:
            h = histories[idx]
            v.deviation("futex:history-not-explained", {"script": meta[idx]["script"], "schedule": meta[idx]["schedule"],
                                                         "first_unexplained_event": h[at - 1] if 0 < at <= len(h) else None, "history": h},
                        {"history.ndjson": "\n".join(json.dumps(e) for e in h) + "\n",
                         "schedule.json": json.dumps(meta[idx])})
        # 2c. a translated module under real threads, its shared memory defined or imported, threads on one instance, on instances of
        #     their own, on child instances: a waiter that sleeps is found by notify through every one of these arrangements
        import sharedmod
        smres, smprobs = sharedmod.run_all(wd, common.build_w2c2(os.path.join(wd, "smbin")), tier, "C17")
        for what, det in smprobs:
            v.deviation("futex:module:%s" % what, det)
        stats["module_level"] = {k_: {f_: r_[f_] for f_ in ("rounds",) + sharedmod.FIELDS["C17"]} for k_, r_ in smres.items()}
    finally:
        shutil.rmtree(wd, ignore_errors=True)
    # 3. emission: static offset reaches the runtime (machine replay, non-blocking outcomes)
    futex_srcs = [os.path.join(REPO, "futex", f) for f in ("futex.c", "map.c", "list.c")]
    st, exp = machine.replay(v, emission_items(), [{"name": "gcc-O1", "cc": "gcc", "cflags": ("-O1",), "extra_srcs": futex_srcs}],
                             sigfn=lambda it, k, why, b, e, a: "emit:%s:%s" % (it["id"], why.split(":")[0]))
    cov = {"states": impl["distinct"] + tst["states"] + st["states"], "transitions": impl["generated"] + tst["transitions"] + st["transitions"],
           "traces_validated_against_impl": stats["histories"],
           "samples": [{"script": meta[j]["script"], "history": histories[j][:10]} for j in range(0, len(histories), max(1, len(histories) // 3))][:4],
           "evaluations": stats["schedules"], "distinct_nontrivial": stats["histories"],
           "rule": "thread scripts (waiters with infinite/finite timeouts, notifiers with counts 0,1,2,max, stores, colliding "
                   "bucket addresses) run on the real futex.c under the deterministic scheduler; all schedules up to the preemption "
                   "bound incl. spurious wake-ups and time-outs; distinct = distinct API-level histories, each validated by TLC "
                   "against FutexAbs (linearization search); ASan observes heap use; plus emission of static offsets",
           "impl_model_states": impl["distinct"], "proofs": stats.get("proof_FutexProof"), "exploration": {k_: v_ for k_, v_ in stats.items() if "seam" in k_ or "skipped" in k_},
           "schedules_run": stats["schedules"], "deadlock_ended_schedules": stats["deadlock_ends"],
           "emission_ops_compared": st["ops_compared"], "exhaustive": False}
    return v.finish("model_checking", cov,
                    ["schedules are exhaustive only up to the preemption bound (2 for <=3 threads, 1 above, plus random deeper ones in thorough)",
                     "the scheduler shim implements POSIX mutex/condition-variable semantics (spurious wake-ups allowed, timeouts as choices)",
                     "at most 5 threads; any number of threads is not decided"])


main_wrap(main)
