#!/usr/bin/env python3
"""C19 - linear memory is little-endian regardless of host byte order (DESIGN.md 3/C19)."""
import os
import shutil
import sys
sys.path.insert(0, os.path.join(os.path.dirname(os.path.abspath(__file__)), "..", "bind", "py"))
import common
import machine
import wasm_encode
from common import REPO, Verdict, main_wrap, run, tlc, tlc_ok, read_ndjson
from wasmgen import b32, b64

CT = {4: "U32", 8: "U64"}


def c_val(op, b):
    v = int.from_bytes(bytes(b), "little")
    t = op.split(".")[0]
    if t == "f32":
        return "mkf32(%uU)" % v
    if t == "f64":
        return "mkf64(0x%xULL)" % v
    return "%uU" % v if len(b) == 4 else "0x%xULL" % v


def gen_harness(preds, e, shared=True, kinds=None):
    o = ['#include <stdio.h>', '#include <string.h>', '#include "w2c2_base.h"', '#include "buffer.h"',
         "void trap(Trap t) { (void)t; }",
         "static F32 mkf32(U32 x) { F32 f; memcpy(&f, &x, 4); return f; }", "static F64 mkf64(U64 x) { F64 f; memcpy(&f, &x, 8); return f; }",
         "static void dump(int id, wasmMemory* m, const void* ret, int n) { int i; const unsigned char* r = ret; printf(\"%d mem\", id);",
         "  for (i = 0; i < 24; i++) printf(\" %u\", m->data[i]); printf(\" ret\"); for (i = 0; i < n; i++) printf(\" %u\", r[i]); printf(\"\\n\"); }",
         "int main(void) { wasmMemory* m = wasmMemoryAllocate(1, 1, %s); int i;" % ("true" if shared else "false")]
    for idx, p in enumerate(preds):
        if p["e"] != e or (kinds is not None and p["kind"] not in kinds):
            continue
        fn = p["op"].replace(".", "_")
        if p["kind"] == "buffer":
            n = len(p["v"])
            o.append("  { U8 bytes[8] = {%s}; Buffer b; %s r = 0; b.data = bytes; b.length = %d; (void)%s(&b, &r); dump(%d, m, &r, %d); }" % (
                ",".join(map(str, p["v"])), "I32" if n == 4 else "I64", n, p["op"], idx, n))
            continue
        o.append("  for (i = 0; i < 24; i++) m->data[i] = (U8)((i + 1) % 2 ? 128 + (i + 1) : 16 + (i + 1));      /* = Mem0 of Endian.tla */")
        a = p["a"]
        rn = len(p["ret"])
        rt = {"f32": "F32", "f64": "F64"}.get(p["op"].split(".")[0], CT.get(rn, "U32"))
        if p["kind"] == "seq":
            # one straight-line piece of code with a constant address (what an optimising compiler may reorder or forward if the accessors
            # let it think accesses of different widths cannot overlap)
            rn1 = rn // 2
            rt1 = CT.get(rn1, "U32")
            o.append("  { struct { %s r1, r3; } r; r.r1 = %s(m, %d); %s(m, %d, %s); r.r3 = %s(m, %d); dump(%d, m, &r, %d); }" % (
                rt1, fn, a, p["op2"].replace(".", "_"), a, c_val(p["op2"], p["v"]), fn, a, idx, rn))
        elif p["kind"] in ("load", "aload"):
            o.append("  { %s r = %s(m, %d); dump(%d, m, &r, %d); }" % (rt, fn, a, idx, rn))
        elif p["kind"] in ("store", "astore"):
            o.append("  { %s(m, %d, %s); dump(%d, m, NULL, 0); }" % (fn, a, c_val(p["op"], p["v"]), idx))
        elif p["kind"] == "armw":
            o.append("  { %s r = %s(m, %d, %s); dump(%d, m, &r, %d); }" % (rt, fn, a, c_val(p["op"], p["v"]), idx, rn))
        else:   # cmpxchg: expected = what the cell holds (the predicted old value), so the exchange happens
            o.append("  { %s r = %s(m, %d, %s, %s); dump(%d, m, &r, %d); }" % (rt, fn, a, c_val(p["op"], p["ret"]), c_val(p["op"], p["v2"]), idx, rn))
    o.append("  return 0; }")
    return "\n".join(o) + "\n"


def main():
    tier = sys.argv[1] if len(sys.argv) > 1 else os.environ.get("VERIF_TIER", "quick")
    v = Verdict("C19", tier)
    wd = common.scratch("c19-")
    try:
        of = os.path.join(wd, "pred.ndjson")
        mc = tlc_ok(tlc("Endian", env={"OUTFILE": of}, timeout=900, xmx="4g"), "Endian")
        preds = read_ndjson(of)
        checked = 0
        # a shared and a non-shared memory with the threads implementation, and a build without one (where only the plain and the
        # atomic loads and stores exist for the big-endian configuration)
        variants = [("shared", True, ["-DWASM_THREADS_PTHREADS"], None), ("plainmem", False, ["-DWASM_THREADS_PTHREADS"], None),
                    ("nothreads", False, [], ("load", "store", "aload", "astore", "buffer", "seq"))]
        for e, defs, (vname, shared, tdefs, kinds) in [(e_, d_, v_) for e_, d_ in (("LE", []), ("BE", ["-DWASM_ENDIAN=1"])) for v_ in variants]:
            for cc, opt in (("gcc", "-O1"), ("clang", "-O2"), ("gcc", "-O2"), ("gcc", "-O3"), ("gcc", "-Os")) if tier != "quick" else (("gcc", "-O1"), ("gcc", "-O2")):
                src = os.path.join(wd, "h_%s_%s.c" % (e, vname))
                open(src, "w").write(gen_harness(preds, e, shared, kinds))
                exe = os.path.join(wd, "h_%s_%s_%s%s" % (e, vname, cc, opt))
                rc, so, se = run([cc, opt, "-w", "-I", os.path.join(REPO, "w2c2"), *tdefs, *defs, src, "-o", exe, "-lm", "-lpthread"], timeout=300)
                if rc != 0 and vname == "nothreads":
                    continue          # this tree offers no atomic accessors without a threads implementation: nothing to compare
                if rc != 0:
                    v.deviation("endian:%s:header-does-not-compile" % e, {"stderr": se[-800:]})
                    continue
                rc, so, se = run([exe], timeout=60)
                for line in so.splitlines():
                    parts = line.split()
                    idx = int(parts[0])
                    mem = [int(x) for x in parts[2:26]]
                    ret = [int(x) for x in parts[27:]]
                    p = preds[idx]
                    checked += 1
                    if p["kind"] != "buffer" and mem != list(p["mem"]):
                        v.deviation("endian:%s:%s:image" % (e, p["op"]), {"address": p["a"], "operand": p["v"], "spec_image": p["mem"], "code_image": mem, "compiler": cc})
                    elif ret != list(p["ret"]):
                        v.deviation("endian:%s:%s:value" % (e, p["op"]), {"address": p["a"], "spec": p["ret"], "code": ret, "compiler": cc})
        # a translated module run in the forced configuration covers the emitted call sites: loads and stores agree with each other,
        # bulk operations and data segments are not reversed
        inst = {"op": "instantiate", "binds": {"mem": 0, "table": 0, "globals": []}}
        # (a) same-width store/load round trips through emitted code: results independent of the configuration
        RT = (("i64.store", "i64.load"), ("i64.store32", "i64.load32_s"), ("i64.store32", "i64.load32_u"), ("i64.store16", "i64.load16_u"),
              ("i64.store16", "i64.load16_s"), ("i64.store8", "i64.load8_s"), ("i64.store8", "i64.load8_u"))
        rt = {"types": [{"p": ["i32", "i64"], "r": ["i64"]}],
              "funcs": [{"type": 0, "locals": [], "body": [["local.get", 0], ["local.get", 1], [sop, 0, 3], ["local.get", 0], [lop, 0, 3], ["end"]]}
                        for sop, lop in RT],
              "memory": {"min": 1, "max": 1},
              "exports": [{"name": "rt%d" % k, "kind": "func", "idx": k} for k in range(len(RT))]}
        # (b) bulk byte movers and data segments: the raw image must be the same bytes in both configurations
        bulk = {"types": [{"p": [], "r": []}],
                "funcs": [{"type": 0, "locals": [], "body": [["i32.const", b32(40)], ["i32.const", b32(100)], ["i32.const", b32(4)], ["memory.copy"],
                                                             ["i32.const", b32(60)], ["i32.const", b32(0x1A5)], ["i32.const", b32(3)], ["memory.fill"],
                                                             ["i32.const", b32(80)], ["i32.const", b32(1)], ["i32.const", b32(2)], ["memory.init", 1], ["end"]]}],
                "memory": {"min": 1, "max": 1},
                "data": [{"mode": "active", "offset": ["i32.const", b32(100)], "bytes": [0x11, 0x22, 0x33, 0x44]}, {"mode": "passive", "bytes": [7, 8, 9, 10]}],
                "datacount": True,
                "exports": [{"name": "bulk", "kind": "func", "idx": 0}, {"name": "memory", "kind": "memory", "idx": 0}]}
        builds = [{"name": "le", "cc": "gcc", "cflags": ("-O1",)}, {"name": "be-forced", "cc": "gcc", "cflags": ("-O1",), "defs": ("-DWASM_ENDIAN=1",)}]
        sg = lambda it, k, why, b, e_, a: "endian:module:%s:%s:%s" % (it["id"], b["name"], why.split(":")[0])
        st, exp = machine.replay(v, [{"id": "roundtrip", "module": rt, "script": [inst] + [
            {"op": "call", "inst": 1, "export": "rt%d" % k, "args": [{"t": "i32", "b": b32(a_)}, {"t": "i64", "b": b64(val_)}]}
            for k in range(len(RT)) for a_ in (8, 13) for val_ in (0x8877665544332211, 0x1122334455667788, 0x7F80FF01F2E3D4C5)]}], builds, sigfn=sg, observe_mems=False)
        st2, _ = machine.replay(v, [{"id": "bulk", "module": bulk, "script": [inst, {"op": "call", "inst": 1, "export": "bulk", "args": []}]}],
                                builds, sigfn=sg, observe_mems=True)
        # (c) the cell examined by memory.atomic.wait is an atomic access like any other: written by a same-width store, it
        #     compares equal to the value stored (the wait then times out: 2) and unequal to its byte reversal (1)
        wt = {"types": [{"p": ["i32", "i64"], "r": ["i32"]}],
              "funcs": [{"type": 0, "locals": [], "body": [["local.get", 0], ["local.get", 1], ["i32.wrap_i64"], ["i32.store", 2, 0], ["i32.const", b32(0)], ["end"]]},
                        {"type": 0, "locals": [], "body": [["local.get", 0], ["local.get", 1], ["i64.store", 3, 0], ["i32.const", b32(0)], ["end"]]},
                        {"type": 0, "locals": [], "body": [["local.get", 0], ["local.get", 1], ["i32.wrap_i64"], ["i64.const", b64(1000000)], ["memory.atomic.wait32", 2, 0], ["end"]]},
                        {"type": 0, "locals": [], "body": [["local.get", 0], ["local.get", 1], ["i64.const", b64(1000000)], ["memory.atomic.wait64", 3, 0], ["end"]]}],
              "memory": {"min": 1, "max": 1, "shared": True},
              "exports": [{"name": n, "kind": "func", "idx": k} for k, n in enumerate(["s32", "s64", "w32", "w64"])]}
        call = lambda e_, a_, v_: {"op": "call", "inst": 1, "export": e_, "args": [{"t": "i32", "b": b32(a_)}, {"t": "i64", "b": b64(v_)}]}
        futex_srcs = [os.path.join(REPO, "futex", f) for f in ("futex.c", "map.c", "list.c")]
        wbuilds = [dict(b, extra_srcs=futex_srcs) for b in builds]
        st3, _ = machine.replay(v, [{"id": "wait", "module": wt, "script": [inst, call("s32", 64, 0x01020304), call("w32", 64, 0x01020304), call("w32", 64, 0x04030201),
                                                                         call("s32", 64, 1), call("w32", 64, 1), call("w32", 64, 0x01000000),
                                                                         call("s64", 128, 0x0102030405060708), call("w64", 128, 0x0102030405060708), call("w64", 128, 0x0807060504030201),
                                                                         call("s64", 128, 2), call("w64", 128, 2), call("w64", 128, 0x0200000000000000)]}],
                                wbuilds, sigfn=sg, observe_mems=False)
        # (d) every atomic read-modify-write and compare-exchange flavour on cells touched only by accesses of one width (the
        #     scenarios of the C16 check): the results are the same in both configurations
        src16 = open(os.path.join(os.path.dirname(os.path.abspath(__file__)), "c16.py")).read().replace("main_wrap(main)", "")
        ns16 = {"__file__": os.path.join(os.path.dirname(os.path.abspath(__file__)), "c16.py"), "__name__": "borrowed_c16"}
        exec(compile(src16, "c16", "exec"), ns16)
        import random as _random
        st4, _ = machine.replay(v, ns16["isolated_items"](_random.Random(common.SEED)), builds,
                                sigfn=lambda it, k, why, b, e_, a: "endian:atomic:%s:%s:%s" % (b["name"], it["script"][k - 1].get("export", "?"), why.split(":")[0]), observe_mems=False)
        for x in ("states", "transitions", "ops_compared"):
            st[x] += st3[x] + st4[x]
        st["states"] += st2["states"]
        st["transitions"] += st2["transitions"]
        st["ops_compared"] += st2["ops_compared"]
    finally:
        shutil.rmtree(wd, ignore_errors=True)
    cov = {"states": mc["distinct"] + st["states"], "transitions": mc["generated"] + st["transitions"], "traces_validated_against_impl": checked,
           "samples": [preds[0], preds[len(preds) // 2], preds[-1]], "evaluations": checked + st["ops_compared"], "distinct_nontrivial": len(preds),
           "rule": "every plain load/store flavour at addresses 0..8 (all alignments), every atomic load/store/rmw/cmpxchg flavour at aligned "
                   "addresses, with operands whose bytes are pairwise distinct, in both settings of WASM_ENDIAN on this little-endian host; the raw "
                   "24-byte memory image and the returned value of the REAL header functions are compared with Endian.tla's prediction; plus the "
                   "translator's float-immediate reader and a translated module (results independent of the configuration, bulk copy and data "
                   "segments not reversed)",
           "flavours": len({p["op"] for p in preds}), "exhaustive": True}
    return v.finish("model_checking", cov,
                    ["no big-endian host or emulator is available: the statement for h = BE rests on Endian.tla (ASSUME StoreLE, RoundTrip, OneReversal) and on "
                     "the binding of the same definitions at h = LE in both configurations", "compiler byte-swap intrinsics are trusted"])


main_wrap(main)
