#!/usr/bin/env python3
"""Corpus validation (DESIGN.md section 10): the repository's own WebAssembly spec-suite corpus
(tests/gen/*.wasm + *.json, not part of the pinned tests) against WasmExec.

 1. model self-validation: TLC's result for every assert_return / assert_trap must equal the expectation the
    WebAssembly authors wrote down (a disagreement is a MACHINERY-ERROR: the model is wrong);
 2. conformance: the compiled w2c2 output must equal the model on the same calls (deviations are reported under
    the property the opcode family belongs to when run from a check; stand-alone it prints them).

usage: corpus.py [quick|thorough] [name-filter]"""
import json
import os
import sys
sys.path.insert(0, os.path.join(os.path.dirname(os.path.abspath(__file__)), "..", "bind", "py"))
import common
import machine
import wasm_decode
from common import REPO, Verdict, main_wrap

K = {"i32": 4, "i64": 8, "f32": 4, "f64": 8}
TRAPS = {"integer divide by zero": "DivByZero", "integer overflow": "IntOverflow", "invalid conversion to integer": "InvalidConversion",
         "unreachable": "Unreachable"}
UNDEF = ("out of bounds memory access", "undefined element", "uninitialized element", "indirect call type mismatch", "out of bounds table access",
         "uninitialized element 2", "undefined")
SPECTEST_GLOBALS = {"global_i32": ("i32", 666), "global_i64": ("i64", 666), "global_f32": ("f32", 0x4426A666), "global_f64": ("f64", 0x4084D4CCCCCCCCCD)}
SKIP_FILES = {"names"}         # export names beyond what the C harness can spell


def plain(n):
    return isinstance(n, str)


FAMILIES = {
    "C01": ["i32", "i64", "int_exprs", "int_literals"],
    "C02": ["f32", "f32_bitwise", "f32_cmp", "f64", "f64_bitwise", "f64_cmp", "float_exprs", "float_misc", "conversions"],
    "C03": ["block", "loop", "if", "br", "br_if", "br_table", "return", "unreachable", "select", "nop", "stack", "labels", "switch",
            "local_get", "local_set", "local_tee", "unwind", "forward", "fac", "unreached-valid"],
    "C04": ["call", "call_indirect", "func", "func_ptrs", "left-to-right", "type"],
    # (the suite's bulk-memory files fill and compare whole pages byte by byte: too slow for the explicit-state model;
    #  checks/c05.py has its own directed bulk cases)
    "C05": ["memory", "memory_grow", "memory_size", "address", "align", "load", "store", "endianness", "memory_redundancy", "memory_trap",
            "float_memory", "traps"],
    "C06": ["data", "start", "global", "elem", "exports"],
    "C07": ["const", "float_literals"],
    "C08": ["binary-leb128", "binary", "custom"],
}


def phase(v, prop, tier, builds=None):
    """Runs the spec-suite files of one property's family through model and implementation; deviations go to the
    caller's verdict under corpus:<file>:<why>; a disagreement between the model and the suite's own expectations
    is a machinery error (the model, not w2c2, is wrong)."""
    if not os.path.isdir(os.path.join(REPO, "tests", "gen")):
        return {"corpus_modules": 0, "corpus_ops_compared": 0, "corpus_model_agrees_with_suite": 0, "corpus_states": 0}
    items, expectations = build_items("thorough", names=set(FAMILIES[prop]))
    if not items:
        return {"corpus_modules": 0, "corpus_ops_compared": 0, "corpus_model_agrees_with_suite": 0, "corpus_states": 0}
    if tier == "quick":
        items = items[::3]
    for it in items:
        it["id"] = "c_" + it["id"]
    expectations = {("c_" + i, k): w for (i, k), w in expectations.items()}
    st, exp = machine.replay(v, items, builds or [{"name": "gcc-O1", "cc": "gcc", "cflags": ("-O1",)}],
                             sigfn=lambda it, k, why, b, e, a: "corpus:%s:%s" % (it["file"].split(".")[0], why.split(":")[0]), tlc_timeout=1500)
    bad, agreed = check_model(items, exp, expectations)
    if bad:
        raise common.MachineryError("WasmExec disagrees with the spec suite's expectation: %s" % (bad[:5],))
    return {"corpus_modules": len(items), "corpus_ops_compared": st["ops_compared"], "corpus_model_agrees_with_suite": agreed,
            "corpus_states": st["states"]}


def build_items(tier, flt=None, names=None):
    gen = os.path.join(REPO, "tests", "gen")
    items, expectations = [], {}
    for jf in sorted(f for f in os.listdir(gen) if f.endswith(".json")):
        base = jf[:-5]
        if base in SKIP_FILES or (flt and flt not in base) or (names is not None and base not in names):
            continue
        cmds = json.load(open(os.path.join(gen, jf)))["commands"]
        cur = None
        registered = False
        for c in cmds:
            if c["type"] == "register":
                registered = True
            if c["type"] == "module":
                cur = None
                path = os.path.join(gen, c["filename"])
                if not os.path.exists(path) or not c["filename"].endswith(".wasm"):
                    continue
                try:
                    m = wasm_decode.decode(open(path, "rb").read())
                except (wasm_decode.Unsupported, IndexError, KeyError):
                    continue
                if any(im["mod"] != "spectest" for im in m["imports"]) or not all(plain(e["name"]) for e in m["exports"]):
                    continue
                if any(im["kind"] == "func" and im["name"] not in ("print", "print_i32", "print_i64", "print_f32", "print_f64", "print_i32_f32", "print_f64_f64") for im in m["imports"]):
                    continue
                script, binds, ng = [], {"mem": 0, "table": 0, "globals": []}, 0
                ok = True
                for im in m["imports"]:
                    if im["kind"] == "func":
                        im["ret"] = []
                    elif im["kind"] == "global":
                        if im["name"] not in SPECTEST_GLOBALS or SPECTEST_GLOBALS[im["name"]][0] != im["t"]:
                            ok = False
                            break
                        t, v = SPECTEST_GLOBALS[im["name"]]
                        script.append({"op": "hostglobal", "t": t, "b": list(v.to_bytes(K[t], "little"))})
                        ng += 1
                        binds["globals"].append(ng)
                    elif im["kind"] == "memory":
                        script.append({"op": "hostmem", "pages": 1, "max": 2, "shared": False})
                        binds["mem"] = 1
                    elif im["kind"] == "table":
                        script.append({"op": "hosttable", "size": 10})
                        binds["table"] = 1
                if not ok:
                    continue
                if m.get("memory") and (m["memory"]["min"] > 64 or (m["memory"].get("max") or 0) > 65536):
                    continue
                script.append({"op": "instantiate", "binds": binds})
                iid = c["filename"][:-5].replace(".", "_").replace("-", "_")
                cur = {"id": iid, "module": m, "script": script, "fuel": 30000 if tier != "quick" else 6000, "file": c["filename"]}
                items.append(cur)
                continue
            if cur is None or c["type"] not in ("assert_return", "assert_trap", "action", "assert_exhaustion"):
                continue
            a = c.get("action", {})
            if a.get("type") != "invoke" or "module" in a:
                cur = None if c["type"] == "action" else cur     # a get of a global etc.: the state is unaffected
                continue
            exp = [e for e in cur["module"]["exports"] if e["name"] == a["field"] and e["kind"] == "func"]
            if not exp:
                continue
            try:
                args = [{"t": x["type"], "b": list(int(x["value"]).to_bytes(K[x["type"]], "little"))} for x in a["args"]]
            except (ValueError, KeyError):
                cur["script"].append({"op": "call", "inst": 1, "export": "__stop__", "args": []})
                continue
            cur["script"].append({"op": "call", "inst": 1, "export": a["field"], "args": args})
            k = len(cur["script"])
            if c["type"] == "assert_return":
                expectations[(cur["id"], k)] = ("return", c["expected"])
            elif c["type"] == "assert_trap":
                expectations[(cur["id"], k)] = ("trap", c["text"])
    # cut scripts at the first call that could not be expressed
    for it in items:
        for j, op in enumerate(it["script"]):
            if op.get("export") == "__stop__":
                it["script"] = it["script"][:j]
                break
    items = [it for it in items if any(o["op"] == "call" for o in it["script"])]
    if tier == "quick":
        items = items[::4]
    return items, expectations


def check_model(items, exp, expectations):
    """Returns list of (item, k, what) where TLC disagrees with the suite's expectation."""
    bad, agreed = [], 0
    for it in items:
        for k in range(1, len(it["script"]) + 1):
            want = expectations.get((it["id"], k))
            e = exp.get((it["id"], k))
            if want is None or e is None:
                continue
            if e["status"] in ("fuel", "ndnan", "wouldblock"):
                break
            if want[0] == "trap":
                if want[1] in TRAPS:
                    if not (e["status"] == "trapped" and e["trap"] == TRAPS[want[1]]):
                        bad.append((it["id"], k, "suite: trap %s, model: %s %s" % (want[1], e["status"], e["trap"])))
                    else:
                        agreed += 1
                elif e["status"] == "undefined":
                    break
                elif want[1].startswith(UNDEF):
                    bad.append((it["id"], k, "suite: trap %s, model: %s" % (want[1], e["status"])))
                continue
            if e["status"] != "returned":
                if e["status"] == "undefined":
                    bad.append((it["id"], k, "suite: returns, model: undefined"))
                    break
                bad.append((it["id"], k, "suite: returns, model: %s %s" % (e["status"], e["trap"])))
                continue
            ok = len(want[1]) == len(e["res"])
            for w, r in zip(want[1], e["res"]):
                if w["value"].startswith("nan"):
                    ok = ok and (r["nd"] or machine.is_nan(r["t"], r["b"]))
                else:
                    ok = ok and list(int(w["value"]).to_bytes(K[w["type"]], "little")) == list(r["b"]) and not r["nd"]
            if ok:
                agreed += 1
            else:
                bad.append((it["id"], k, "suite: %s, model: %s" % (want[1], e["res"])))
    return bad, agreed


def main():
    tier = sys.argv[1] if len(sys.argv) > 1 else "quick"
    flt = sys.argv[2] if len(sys.argv) > 2 else None
    items, expectations = build_items(tier, flt)
    print("corpus: %d modules, %d calls with expectations" % (len(items), len(expectations)))
    v = Verdict("CORPUS", tier)
    st, exp = machine.replay(v, items, [{"name": "gcc-O1", "cc": "gcc", "cflags": ("-O1",)}],
                             sigfn=lambda it, k, why, b, e, a: "%s:%s" % (it["file"].split(".")[0], why.split(":")[0]), tlc_timeout=3000)
    bad, agreed = check_model(items, exp, expectations)
    print("model vs suite: %d agree, %d disagree" % (agreed, len(bad)))
    for b in bad[:25]:
        print("  MODEL-DISAGREES", b)
    print("w2c2 vs model: %d operations compared, %d deviations" % (st["ops_compared"], len(v.violations)))
    for sgn in sorted(set(x[0] for x in v.violations))[:40]:
        print("  DEVIATION", sgn)
    return 2 if bad else (1 if v.violations else 0)


if __name__ == "__main__":
    main_wrap(main)
