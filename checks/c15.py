#!/usr/bin/env python3
"""C15 - WASI process services: args, environment, clocks, randomness, exit, thread spawn (DESIGN.md 3/C15)."""
import json
import os
import random
import shutil
import sys
sys.path.insert(0, os.path.join(os.path.dirname(os.path.abspath(__file__)), "..", "bind", "py"))
import common
import machine
import wasi
import wasm_encode
from common import BINDC, REPO, SEED, Verdict, main_wrap, run, tlc, tlc_ok, read_ndjson, write_ndjson, pmap
from wasmgen import b32

BIG = wasi.BIG


def rand_vec(rng):
    n = rng.choice([0, 1, 2, 3])
    big = rng.random() < 0.25
    if big:
        n = rng.choice([16, 17, 33, 60])              # many entries (short ones), or few with a very long one
    out = []
    for k in range(n):
        ln = rng.choice([0, 1, 2, 7, 255]) if not big else rng.choice([0, 1, 3, 20])
        if not big and k == 0 and rng.random() < 0.15:
            ln = rng.choice([4095, 4096, 4097])
        out.append(bytes(rng.choice([rng.randrange(1, 128), rng.randrange(128, 256), 0x3D, 0x20]) for _ in range(ln)))
        # now and then an entry is a suffix of its predecessor, or equal to it
        if k > 0 and out[-2] and rng.random() < 0.3:
            out[-1] = out[-2][rng.randrange(0, len(out[-2])):]
    return out


def spawn_module(with_start, tag=0, decoy=None):
    """spawn(arg) calls the WASI import; the start function reports (tid, arg + tag) through a function it reaches via the
    IMPORTED table (a thread's child instance needs every kind of import of its parent) and bumps a shared cell."""
    g = lambda k: ["local.get", k]
    m = {"types": [{"p": ["i32", "i32"], "r": []}, {"p": ["i32"], "r": ["i32"]}, {"p": [], "r": ["i32"]}],
         "imports": [{"mod": "env", "name": "report", "kind": "func", "type": 0, "ret": []},
                     {"mod": "wasi", "name": "thread-spawn", "kind": "func", "type": 1, "ret": b32(0)},
                     {"mod": "env", "name": "tab", "kind": "table", "min": 2, "max": None},
                     {"mod": "env", "name": "bias", "kind": "global", "t": "i32", "mut": False}],
         "funcs": [{"type": 0, "locals": [], "body": [g(0), g(1), ["i32.const", b32(tag)], ["i32.add"], ["global.get", 0], ["i32.add"], ["i32.const", b32(1)], ["call_indirect", 0, 0],
                                                       ["i32.const", b32(64)], ["i32.const", b32(1)], ["i32.atomic.rmw.add", 2, 0], ["drop"], ["end"]]},
                   {"type": 1, "locals": [], "body": [g(0), ["call", 1], ["end"]]},
                   {"type": 2, "locals": [], "body": [["i32.const", b32(64)], ["i32.atomic.load", 2, 0], ["end"]]},
                   {"type": 0, "locals": [], "body": [g(0), g(1), ["call", 0], ["end"]]},
                   # a function with the start function's signature that is NOT it (reports an argument no spawn passed)
                   {"type": 0, "locals": [], "body": [g(0), g(1), ["i32.const", b32(7777)], ["i32.add"], ["call", 0], ["end"]]}],
         "elems": [{"offset": ["i32.const", b32(1)], "funcs": [5]}],
         "memory": {"min": 1, "max": 1, "shared": True},
         # (decoy: an export whose name is near "wasi_thread_start" - a prefix of it, it a prefix of the name, another case - listed first)
         "exports": ([{"name": decoy, "kind": "func", "idx": 6}] if decoy else []) +
                    ([{"name": "wasi_thread_start", "kind": "func", "idx": 2}] if with_start else [{"name": "not_the_start", "kind": "func", "idx": 2}]) +
                    [{"name": "spawn", "kind": "func", "idx": 3}, {"name": "cell", "kind": "func", "idx": 4}, {"name": "memory", "kind": "memory", "idx": 0}]}
    return m


def main():
    tier = sys.argv[1] if len(sys.argv) > 1 else os.environ.get("VERIF_TIER", "quick")
    rng = random.Random(SEED)
    v = Verdict("C15", tier)
    ts_ok = tlc_ok(tlc("ThreadSpawn", cfg="ThreadSpawn_TRUE.cfg", workers=4, timeout=600), "ThreadSpawn atomic")
    ts_bad = tlc("ThreadSpawn", cfg="ThreadSpawn_FALSE.cfg", workers=4, timeout=600)
    if ts_bad["rc"] == 0:
        raise common.MachineryError("the spawn model does not refute a non-atomic identifier counter")
    # for ANY number of concurrent spawners (TLC checks four): the proof system checks that the invariant is inductive
    proof = common.tlapm("ThreadSpawnProof") if tier != "quick" else None
    wd = common.scratch("c15-")
    recs, owner = [], []
    try:
        exe = wasi.build_driver(wd)
        # --- args / environment: one process per configuration
        nv = 40 if tier == "quick" else 1500
        cfgs = [(rand_vec(rng), [e.replace(b"=", b"") + b"=" + e for e in rand_vec(rng)]) for _ in range(nv)]

        layout = [""]

        def run_vec(j):
            argv, env = cfgs[j]
            sf = os.path.join(wd, "as%d.txt" % j)
            # default placement, then the strings ending exactly at the end of memory, then the pointer array ending there
            MEMSIZE = 40 * 65536
            lines = ["argsizes p", "args u", "envsizes u", "env p"]
            for cmd, vec in (("args", argv), ("env", env)):
                total, nptr = sum(len(x) + 1 for x in vec), 4 * len(vec)
                lines.append("%s p %d %d %d %d" % (cmd, BIG, MEMSIZE - total, nptr, total))
                lines.append("%s u %d %d %d %d" % (cmd, MEMSIZE - nptr, BIG + 0x1000, nptr, total))
            open(sf, "w").write("\n".join(lines) + "\n")
            sb = os.path.join(wd, "asb%d" % j)
            os.makedirs(sb, exist_ok=True)
            import subprocess
            # the driver's "rotate" layout turns the pointers by one: hand it the strings turned the other way
            unrot = (lambda x: x[1:] + x[:1]) if layout[0] == "rotate" else \
                    (lambda x: x[:1] + x[1:-1][::-1] + x[-1:] if len(x) > 3 else x) if layout[0] == "midrev" else (lambda x: x)
            p = subprocess.run([exe, sb, sf] + unrot([a for a in argv]) + [b"--"] + unrot([e for e in env]), stdout=subprocess.PIPE, stderr=subprocess.PIPE,
                               env=dict(os.environ, ASAN_OPTIONS="detect_leaks=0", **({"VERIF_VEC_LAYOUT": layout[0]} if layout[0] else {})), timeout=60)
            shutil.rmtree(sb, ignore_errors=True)
            return p.returncode, [json.loads(l) for l in p.stdout.decode().splitlines() if l.startswith("{")], p.stderr.decode("utf8", "replace")
        vec_out = pmap(run_vec, range(nv))
        # several guest threads ask for both vectors at the same time, straight after wasiInit (long vectors: the calls overlap): each gets the
        # vectors given at initialisation
        for asan_ in (True, False):
            tio, tse, trc = wasi.run_threads_io(wd, tier, asan=asan_)
            if tio is None:
                v.deviation(wasi.asan_sig(tse) or "args:threads:crash", {"rc": trc, "stderr": tse[-800:]})
            elif tio["bad_args"]:
                v.deviation("args:threads:wrong-vector", tio)
        # the same calls in a memory of 65536 pages: placements around and above 2^31 and up to the last byte of a 32-bit address space
        def run_big(j):
            argv, env = cfgs[j]
            lines, places = [], []
            for cmd, vec in (("bigargs", argv), ("bigenv", env)):
                total, nptr = sum(len(x) + 1 for x in vec), 4 * len(vec)
                for pa, ba in ((0x10000, 2 ** 31 - total // 2), (2 ** 31 - 4 * (len(vec) // 2 + 1), 0x20000), (0x90000000, 0xA0000001),
                               (2 ** 32 - nptr, 2 ** 32 - nptr - total - 64), (0x7FFFFFF0 - nptr, 2 ** 32 - total)):
                    lines.append("%s %s %d %d" % (cmd, "pu"[(j + len(places)) % 2], pa, ba))
                    places.append((cmd, vec, pa, ba))
            sf = os.path.join(wd, "big%d.txt" % j)
            open(sf, "w").write("\n".join(lines) + "\n")
            sb = os.path.join(wd, "bsb%d" % j)
            os.makedirs(sb, exist_ok=True)
            import subprocess
            p = subprocess.run([exe, sb, sf] + list(argv) + [b"--"] + list(env), stdout=subprocess.PIPE, stderr=subprocess.PIPE,
                               env=dict(os.environ, ASAN_OPTIONS="detect_leaks=0"), timeout=120)
            shutil.rmtree(sb, ignore_errors=True)
            return places, p.returncode, [json.loads(l) for l in p.stdout.decode().splitlines() if l.startswith("{")], p.stderr.decode("utf8", "replace")
        big_sel = [j_ for j_ in range(nv) if cfgs[j_][0] and cfgs[j_][1]][:8 if tier == "quick" else 200]
        big_out = dict(zip(big_sel, pmap(run_big, big_sel)))
        # the same vectors in the configuration of a big-endian host (forced on this machine: every multi-byte value the
        # host stores into guest memory is then byte-swapped with respect to the raw bytes, consistently for loads and stores,
        # so the raw image must hold the pointers and sizes most significant byte first)
        exe_le = exe
        exe = wasi.build_driver(wd, name="wasidrv-be", extra=["-DWASM_ENDIAN=1"])
        vec_out_be = pmap(run_vec, range(0, nv, 2 if tier == "quick" else 1))
        vec_out_be = dict(zip(range(0, nv, 2 if tier == "quick" else 1), vec_out_be))
        exe = exe_le
        # the same vectors lying differently in the embedder's memory (separate allocations, pointers permuted within one block
        # of strings, entries sharing their tails): what the guest is told depends on the vector, not on where its strings are
        vec_out_lay = {}
        for ln_, name_ in enumerate(("malloc", "rotate", "tails", "prefix", "midrev")):
            layout[0] = name_
            sel = range(ln_ % 3, nv, 3) if name_ != "midrev" else [j_ for j_ in range(nv) if len(cfgs[j_][0]) > 3 or len(cfgs[j_][1]) > 3]
            vec_out_lay[name_] = dict(zip(sel, pmap(run_vec, sel)))
        layout[0] = ""
        for j, (argv, env) in enumerate(cfgs):
            for which, vec in (("args", argv), ("env", env)):
                total = sum(len(x) + 1 for x in vec)
                for buf in (BIG + 0x1000, 40 * 65536 - total, BIG + 0x1000):
                    recs.append({"kind": "layout", "vec": [list(x) for x in vec], "buf": buf})
                    owner.append(("layout", j, which))
        # --- clocks
        clock_lines = []
        ids = [0, 1, 1, 2, 3, 1, 4, 7, 0xFFFFFFFF, 1, 0, 1] + [1] * 24 + [0] * 6
        if tier != "quick":
            ids = ids * 17
        sf = os.path.join(wd, "clk.txt")
        # ids -1: a helper thread burns CPU first, so that afterwards the process CPU clock (2) and this thread's (3) differ widely
        ids = ids[:4] + [-1] + ids[4:] + [2, 3, 3, 2]
        # the precision argument is the lag the caller tolerates: values may be that much behind the host's reading taken
        # before the call, never ahead of the one taken after it, and the monotonic clock never steps back whatever
        # precisions are mixed
        precs = [rng.choice([0, 1, 1, 1000, 10 ** 6, 10 ** 7, 10 ** 8, 10 ** 9, 5 * 10 ** 9]) for _ in ids]
        open(sf, "w").write("".join(("clock %s %d %d\n" % (rng.choice("pu"), i, p)) if i >= 0 else "burn x 120\n" for i, p in zip(ids, precs)))
        os.makedirs(os.path.join(wd, "csb"), exist_ok=True)
        rc, so, se = run([exe, os.path.join(wd, "csb"), sf, "--"], timeout=120, env={"ASAN_OPTIONS": "detect_leaks=0"})
        lines = [json.loads(l) for l in so.splitlines() if l.startswith("{")]
        prev = [0, 0]
        for n, cid in enumerate(ids):
            if cid < 0:
                continue
            br = next((l for l in lines if l.get("i") == n + 1 and "bracket" in l), None)
            ob = next((l for l in lines if l.get("i") == n + 1 and "call" in l), None)
            if br is None or ob is None:
                v.deviation("clock:no-observation", {"id": cid, "stderr": se[-300:]})
                continue
            ch = wasi.changed(ob)
            wrote = any(wasi.R1 <= a < wasi.R1 + 8 for a in ch)
            ns = int.from_bytes(bytes(ch.get(wasi.R1 + k, 0xEE) for k in range(8)), "little") if wrote else 0
            t = [ns // 10 ** 9, ns % 10 ** 9] if ns < 2 ** 62 else [2 ** 31 - 1, 0]
            lo = max(0, br["bracket"][0] * 10 ** 9 + br["bracket"][1] - precs[n])
            recs.append({"kind": "clock", "id": cid if cid < 2 ** 31 else 2 ** 31 - 1, "errno": ob["errno"], "wrote": wrote, "t": t,
                         "before": [lo // 10 ** 9, lo % 10 ** 9], "after": br["bracket"][2:], "prev": list(prev)})
            owner.append(("clock", cid, ob))
            if cid == 1 and ob["errno"] == 0:
                prev = t
        # --- the configuration for hosts without POSIX timers (gettimeofday / getrusage): realtime and process CPU time are still
        #     the host's, to the microsecond; the other two clocks do not exist there and are not asked for
        exe_fb = wasi.build_driver(wd, name="wasidrv-fb", extra=["-DWASI_FALLBACK_TIMERS_ENABLED=1"])
        fids = [0, 2, -1, 2, 0, 2, 2]
        sf = os.path.join(wd, "clkfb.txt")
        open(sf, "w").write("".join(("clock %s %d 1\n" % (rng.choice("pu"), i)) if i >= 0 else "burn x 150\n" for i in fids))
        rc, so, se = run([exe_fb, os.path.join(wd, "csb"), sf, "--"], timeout=120, env={"ASAN_OPTIONS": "detect_leaks=0"})
        fl_ = [json.loads(l) for l in so.splitlines() if l.startswith("{")]
        SLACK = 5 * 10 ** 6
        for n, cid in enumerate(fids):
            if cid < 0:
                continue
            br = next((l for l in fl_ if l.get("i") == n + 1 and "bracket" in l), None)
            ob = next((l for l in fl_ if l.get("i") == n + 1 and "call" in l), None)
            if br is None or ob is None:
                v.deviation("clock:no-observation", {"id": cid, "configuration": "fallback timers", "stderr": se[-300:]})
                continue
            ch = wasi.changed(ob)
            wrote = any(wasi.R1 <= a < wasi.R1 + 8 for a in ch)
            ns = int.from_bytes(bytes(ch.get(wasi.R1 + k, 0xEE) for k in range(8)), "little") if wrote else 0
            lo = max(0, br["bracket"][0] * 10 ** 9 + br["bracket"][1] - SLACK)
            hi = br["bracket"][2] * 10 ** 9 + br["bracket"][3] + SLACK
            recs.append({"kind": "clock", "id": cid, "errno": ob["errno"], "wrote": wrote, "t": [ns // 10 ** 9, ns % 10 ** 9] if ns < 2 ** 62 else [2 ** 31 - 1, 0],
                         "before": [lo // 10 ** 9, lo % 10 ** 9], "after": [hi // 10 ** 9, hi % 10 ** 9], "prev": [0, 0]})
            owner.append(("clock", 20 + cid, ob))
        # --- clock_res_get: the resolution of the same host clock, EINVAL for unknown identifiers
        rids = [0, 1, 2, 3, 4, 9, 0xFFFFFFFF, 1, 0]
        sf = os.path.join(wd, "clkres.txt")
        open(sf, "w").write("".join("clockres %s %d\n" % (rng.choice("pu"), i) for i in rids))
        rc, so, se = run([exe, os.path.join(wd, "csb"), sf, "--"], timeout=120, env={"ASAN_OPTIONS": "detect_leaks=0"})
        rl_ = [json.loads(l) for l in so.splitlines() if l.startswith("{")]
        for n, cid in enumerate(rids):
            hr = next((l for l in rl_ if l.get("i") == n + 1 and "hostres" in l), None)
            ob = next((l for l in rl_ if l.get("i") == n + 1 and "call" in l), None)
            if hr is None or ob is None:
                v.deviation("clock:no-observation", {"id": cid, "stderr": se[-300:]})
                continue
            ch = wasi.changed(ob)
            wrote = any(wasi.R1 <= a < wasi.R1 + 8 for a in ch)
            ns = int.from_bytes(bytes(ch.get(wasi.R1 + k, 0xEE) for k in range(8)), "little") if wrote else 0
            recs.append({"kind": "clockres", "id": cid if cid < 2 ** 31 else 2 ** 31 - 1, "errno": ob["errno"], "wrote": wrote,
                         "t": [ns // 10 ** 9, ns % 10 ** 9] if ns < 2 ** 62 else [2 ** 31 - 1, 0], "before": hr["hostres"],
                         "outside": len([a for a in ch if not wasi.R1 <= a < wasi.R1 + 8])})
            owner.append(("clockres", cid, ob))
        # --- back-to-back readings of one clock with mixed precisions: the monotonic clock never steps back
        seqs = [(1, [rng.choice([0, 1, 1, 10 ** 7, 10 ** 8, 10 ** 9]) for _ in range(60)]) for _ in range(6 if tier == "quick" else 60)] + \
               [(1, [1, 10 ** 9] * 30), (1, [10 ** 9, 0] * 30), (0, [1, 10 ** 8] * 10)]
        sf = os.path.join(wd, "clkseq.txt")
        open(sf, "w").write("".join("clockseq %s %d %s\n" % (rng.choice("pu"), cid, " ".join(map(str, ps))) for cid, ps in seqs))
        rc, so, se = run([exe, os.path.join(wd, "csb"), sf, "--"], timeout=120, env={"ASAN_OPTIONS": "detect_leaks=0"})
        sl = [json.loads(l) for l in so.splitlines() if '"clockseq"' in l]
        for n, (cid, ps) in enumerate(seqs):
            if n >= len(sl):
                v.deviation("clock:no-observation", {"id": cid, "stderr": se[-300:]})
                continue
            recs.append({"kind": "clockseq", "id": cid, "errno": sl[n]["errno"], "ts": [[x // 10 ** 9, x % 10 ** 9] for x in sl[n]["ts"]]})
            owner.append(("clockseq", cid, {"precisions": ps, "values": sl[n]["ts"]}))
        # --- randomness: two fills with different patterns per length
        lens = [0, 1, 15, 16, 255, 256, 257, 4096, 65536] + ([2 ** 20] if tier != "quick" else [100000])
        sf = os.path.join(wd, "rnd.txt")
        open(sf, "w").write("".join("random %s %d 170\nrandom %s %d 85\n" % (rng.choice("pu"), n, rng.choice("pu"), n) for n in lens))
        rc, so, se = run([exe, os.path.join(wd, "csb"), sf, "--"], timeout=300, env={"ASAN_OPTIONS": "detect_leaks=0"})
        rl = [json.loads(l) for l in so.splitlines() if '"random"' in l]
        for n, ln in enumerate(lens):
            pair = rl[2 * n:2 * n + 2]
            if len(pair) < 2:
                v.deviation("random:no-observation", {"len": ln, "stderr": se[-400:], "rc": rc})
                continue
            recs.append({"kind": "random", "len": ln, "errno": max(pair[0]["errno"], pair[1]["errno"]), "outside": pair[0]["outside_changed"] + pair[1]["outside_changed"],
                         "run1": pair[0]["longest_unchanged_run"], "run2": pair[1]["longest_unchanged_run"]})
            owner.append(("random", ln, pair))
        # ... and while signals keep arriving (a host call that is interrupted or serves a large request in pieces)
        sf = os.path.join(wd, "sigrnd.txt")
        slens = [8192, 100000, 1000000, 70000]
        open(sf, "w").write("".join("sigrandom %s %d\n" % (rng.choice("pu"), n) for n in slens))
        rc, so, se = run([exe, os.path.join(wd, "csb"), sf, "--"], timeout=300, env={"ASAN_OPTIONS": "detect_leaks=0"})
        srl = [json.loads(l) for l in so.splitlines() if '"sigrandom"' in l]
        if len(srl) != len(slens):
            v.deviation("random:under-signals:no-observation", {"stderr": se[-400:], "rc": rc})
        for r_ in srl:
            if r_["errno"] != 0 or r_["longest_unchanged_run"] > 16:
                v.deviation("random:under-signals", r_)
        # --- exit statuses in child processes
        codes = [0, 1, 2, 127, 128, 255] if tier == "quick" else list(range(256))

        # whatever the process did before - files created, written and closed, a descriptor still open, a standard stream closed, calls
        # that failed - the status is the one the guest gave
        hx = lambda b: bytes(b).hex() if b else "-"
        opn = lambda name: wasi.script_line({"call": "open", "abi": "p", "dirfd": 3, "path": name, "oflags": 1, "rd": True, "wr": True}, "")
        PRELUDES = [[],
                    [opn("xf"), "write p 4 %s" % hx(b"data"), "close p 4"],
                    [opn("xg"), "write u 4 %s" % hx(b"left open")],
                    ["close p 0"],
                    ["close u 2", opn("xh"), "close p 4", "close p 4"],
                    ["close p 9", "mkdir p 3 %s" % hx(b"xd"), "rmdir p 3 %s" % hx(b"nope")],
                    [opn("xi"), opn("xj"), "close p 4", "write p 5 %s" % hx(b"z"), "close u 0", "sync p 5"]]
        exit_jobs = [(code, (code + k_) % len(PRELUDES)) for code in codes for k_ in ((0, 1, 3, 4) if tier == "quick" or code < 4 else (0, code))]
        exit_jobs = sorted(set(exit_jobs))

        def run_exit(job):
            code, pre = job
            sf = os.path.join(wd, "ex%d-%d.txt" % (code, pre))
            sbx = os.path.join(wd, "csb-ex%d-%d" % (code, pre))
            os.makedirs(sbx, exist_ok=True)
            open(sf, "w").write("\n".join(PRELUDES[pre] + ["exit %s %d" % ("p" if code % 2 else "u", code), "tell p 1"]) + "\n")
            rc, so, se = run([exe, sbx, sf, "--"], timeout=60, env={"ASAN_OPTIONS": "detect_leaks=0"})
            shutil.rmtree(sbx, ignore_errors=True)
            return code, rc, so
        for code, rc, so in pmap(run_exit, exit_jobs):
            recs.append({"kind": "exit", "code": code, "status": rc if rc >= 0 else 999, "returned": "returned" in so or '"tell"' in so})
            owner.append(("exit", code, rc))
        # --- thread spawn: translated module + real threads
        w2c2 = common.build_w2c2(os.path.join(wd, "bin"))
        NEAR = ["wasi_thread_started", "wasi_thread_star", "wasi_thread_start_", "_wasi_thread_start", "WASI_THREAD_START", "wasi_thread_start ", "wasi-thread-start",
                "wasi_thread_startwasi_thread_start", "w"]
        near_sel = NEAR[:3] if tier == "quick" else NEAR
        variants = [("start", True, None), ("nostart", False, None), ("decoyfirst", True, "wasi_thread_started"), ("decoyfirst2", True, "wasi_thread_star")] + \
                   [("near%d" % i_, False, nm_) for i_, nm_ in enumerate(near_sel)]
        for tag, with_start, decoy in variants:
            d = os.path.join(wd, "ts-" + tag)
            os.makedirs(d)
            open(os.path.join(d, "ts.wasm"), "wb").write(wasm_encode.encode(machine.enc_module(spawn_module(with_start, 0, decoy))))
            rc, so, se = run([w2c2, "-t", "1", "ts.wasm", "ts.c"], cwd=d, timeout=60)
            if rc != 0:
                raise common.MachineryError("cannot translate the spawn module: " + se[-400:])
            exe_s = os.path.join(d, "spawn")
            rc, so, se = run(["gcc", "-O1", "-w", "-I", d, "-I", os.path.join(REPO, "w2c2"), "-I", os.path.join(REPO, "wasi"), *wasi.WDEFS,
                              os.path.join(BINDC, "spawn_driver.c"), os.path.join(d, "ts.c"), os.path.join(REPO, "wasi", "wasi.c"), "-o", exe_s, "-lpthread", "-lm"], timeout=300)
            if rc != 0:
                raise common.MachineryError("cannot build the spawn driver: " + se[-1500:])
            for K in ([1, 2, 4, 8] if tier == "quick" else [1, 2, 3, 4, 8, 8, 16, 32, 32]) if (with_start and not decoy) else [2]:
                for rep in range(3 if tier == "quick" else 30):
                    # the last repetition: every thread spawns many times, all meeting before each call
                    M_ = (25 if tier == "quick" else 60) if (with_start and K >= 4 and rep == 2) else 1
                    # ... and once with every started thread staying alive until all have been spawned (200 resp. 480 live threads):
                    # "any number of concurrent thread-spawn calls"
                    stay_ = ["stay"] if (with_start and K == 8 and rep == 2) else []
                    rc, so, se = run([exe_s, str(K), str(M_)] + stay_, timeout=120)
                    try:
                        h = json.loads(so.strip().splitlines()[-1])
                    except (ValueError, IndexError):
                        v.deviation("spawn:crash", {"K": K, "rc": rc, "stderr": se[-400:]})
                        continue
                    recs.append({"kind": "spawn",
                                 "spawns": [{"arg": s["arg"], "tid": max(s["ret"], 0), "neg": s["ret"] < 0, "mod": 0, "hasStart": with_start} for s in h["spawns"]],
                                 "starts": [{"tid": s["tid"] % 2 ** 31, "arg": s["arg"], "mod": 0, "shared": bool(s["shared"]), "parentinstance": bool(s["parent"])} for s in h["starts"]],
                                 "cell": h["cell"]})
                    owner.append(("spawn", K, h))
        # a module that exports no function at all (only its memory) and spawns from its start function: there is no wasi_thread_start, so the
        # spawn answers with a negative number - and the process lives on
        d = os.path.join(wd, "ts-noexports")
        os.makedirs(d)
        nx = {"types": [{"p": ["i32"], "r": ["i32"]}, {"p": [], "r": []}],
              "imports": [{"mod": "wasi", "name": "thread-spawn", "kind": "func", "type": 0, "ret": b32(0)}],
              "funcs": [{"type": 1, "locals": [], "body": [["i32.const", b32(72)], ["i32.const", b32(7)], ["call", 0], ["i32.store", 2, 0],
                                                           ["i32.const", b32(76)], ["i32.const", b32(1)], ["i32.store", 2, 0], ["end"]]}],
              "memory": {"min": 1, "max": 1, "shared": True}, "start": 1, "exports": [{"name": "memory", "kind": "memory", "idx": 0}]}
        open(os.path.join(d, "ts.wasm"), "wb").write(wasm_encode.encode(machine.enc_module(nx)))
        rc, so, se = run([w2c2, "-t", "1", "ts.wasm", "ts.c"], cwd=d, timeout=60)
        if rc != 0:
            raise common.MachineryError("cannot translate the export-less spawn module: " + se[-400:])
        open(os.path.join(d, "main.c"), "w").write(
            '#include <stdio.h>\n#include <stdlib.h>\n#include "ts.h"\n#include "wasi.h"\nvoid trap(Trap t) { fprintf(stderr, "trap %d\\n", (int)t); abort(); }\n'
            'static tsInstance root;\nwasmMemory* wasiMemory(void* i) { return ts_memory((tsInstance*)i); }\n'
            'int main(void) { char* none[1] = {NULL}; wasiInit(0, none, none); tsInstantiate(&root, NULL);\n'
            '  printf("%d %d\\n", (int)i32_load(ts_memory(&root), 72), (int)i32_load(ts_memory(&root), 76)); return 0; }\n')
        rc, so, se = run(["gcc", "-O1", "-w", "-I", d, "-I", os.path.join(REPO, "w2c2"), "-I", os.path.join(REPO, "wasi"), *wasi.WDEFS, "main.c", "ts.c", os.path.join(REPO, "wasi", "wasi.c"),
                          "-o", "nx", "-lpthread", "-lm"], cwd=d, timeout=300)
        if rc != 0:
            raise common.MachineryError("cannot build the export-less spawn program: " + se[-800:])
        rc, so, se = run([os.path.join(d, "nx")], timeout=60)
        try:
            r_, done_ = [int(x) for x in so.split()]
        except ValueError:
            r_, done_ = None, None
        if rc != 0 or r_ is None or r_ >= 0 or done_ != 1:
            v.deviation("spawn:module-without-function-exports", {"rc": rc, "stdout": so[-100:], "stderr": se[-300:]})
        # several modules in one process: the start function of the SPAWNING module runs, whatever was spawned before
        d = os.path.join(wd, "ts-multi")
        os.makedirs(d)
        TAGS = {"ta": 100000, "tb": 200000, "tn": 300000}
        for name, ws in (("ta", True), ("tb", True), ("tn", False)):
            open(os.path.join(d, name + ".wasm"), "wb").write(wasm_encode.encode(machine.enc_module(spawn_module(ws, TAGS[name]))))
            rc, so, se = run([w2c2, "-m", "-t", "1", name + ".wasm", name + ".c"], cwd=d, timeout=60)
            if rc != 0:
                raise common.MachineryError("cannot translate the spawn module: " + se[-400:])
        exe_m = os.path.join(d, "spawn2")
        rc, so, se = run(["gcc", "-O1", "-w", "-I", d, "-I", os.path.join(REPO, "w2c2"), "-I", os.path.join(REPO, "wasi"), *wasi.WDEFS,
                          os.path.join(BINDC, "spawn2_driver.c"), *[os.path.join(d, n + ".c") for n in TAGS], os.path.join(REPO, "wasi", "wasi.c"),
                          "-Wl,--wrap=pthread_create", "-o", exe_m, "-lpthread", "-lm"], timeout=300)
        if rc != 0:
            raise common.MachineryError("cannot build the multi-module spawn driver: " + se[-1500:])
        orders = ["naabbnab", "bna", "abab", "nn", "anb"] if tier == "quick" else ["naabbnab", "bna", "abab", "nn", "anb", "ba", "ab", "nbnanb", "aaaa", "bbbbna"] * 4
        # (the last runs: the host cannot create every third thread - those spawns fail, the others keep distinct identifiers)
        runs_ = [(order, [0, 2, 4, 8][oi % 4], 0) for oi, order in enumerate(orders)] + [("ab", 8, 3), ("aabb", 12, 2)] * (1 if tier == "quick" else 10)
        for order, K, fail_every in runs_:
            rc, so, se = run([exe_m, str(K), order], timeout=60, env={"SPAWN_FAIL_EVERY": str(fail_every)} if fail_every else None)
            try:
                h = json.loads(so.strip().splitlines()[-1])
            except (ValueError, IndexError):
                v.deviation("spawn:crash", {"order": order, "K": K, "rc": rc, "stderr": se[-400:]})
                continue
            modtag = {1: TAGS["ta"], 2: TAGS["tb"], 3: TAGS["tn"]}
            recs.append({"kind": "spawn",
                         "spawns": [{"arg": s["arg"], "tid": max(s["ret"], 0), "neg": s["ret"] < 0, "mod": s["mod"],
                                     # (a spawn can succeed if its module has the start function and the host could create the thread)
                                     "hasStart": s["mod"] != 3 and not s.get("fail")} for s in h["spawns"]],
                         # which start function ran is read from the tag it added to the argument; on which module's instance from the callback used
                         "starts": [{"tid": s["tid"] % 2 ** 31, "arg": (s["arg"] - modtag[s["mod"]]) % 2 ** 31, "mod": s["mod"] if 0 <= s["arg"] - modtag[s["mod"]] < 100000 else 99,
                                     "shared": bool(s["shared"]), "parentinstance": bool(s["parent"])} for s in h["starts"]],
                         "cell": h["cell"]})
            owner.append(("spawn", "multi:" + order + (":host-cannot-create-every-%d" % fail_every if fail_every else ""), h))
        # --- TLC judges everything and computes the layouts
        inf, outf = os.path.join(wd, "proc.ndjson"), os.path.join(wd, "judged.ndjson")
        # uniform records for TLC
        keys = {"kind": "", "vec": [], "buf": 0, "id": 0, "errno": 0, "wrote": False, "t": [0, 0], "before": [0, 0], "after": [0, 0], "prev": [0, 0], "len": 0,
                "ts": [], "outside": 0, "run1": 0, "run2": 0, "code": 0, "status": 0, "returned": False, "hasStart": False, "spawns": [], "starts": [], "cell": 0}
        write_ndjson(inf, [dict(keys, **r) for r in recs])
        jr = tlc_ok(tlc("WasiProc", env={"INFILE": inf, "OUTFILE": outf}, timeout=1800, xmx="6g"), "WasiProc")
        judged = read_ndjson(outf)[0]
        for k in judged["bad"]:
            kind, a, b = owner[k - 1]
            sig = ("random:%s" % ("fails-above-256-bytes" if a > 256 else "len-%d" % a)) if kind == "random" else \
                  "clock:steps-back" if kind == "clockseq" else \
                  ("clock:resolution-id-%d" % (a if a < 10 else 99)) if kind == "clockres" else \
                  ("clock:id-%d" % (a if a < 10 else 99) if a < 20 or a > 29 else "clock:fallback-timers:id-%d" % (a - 20)) if kind == "clock" else \
                  {"exit": "exit:%s" % a, "spawn": "spawn:%s" % (a if isinstance(a, str) else "K=%s" % a), "layout": "layout:model"}[kind]
            if kind == "layout":
                raise common.MachineryError("the layout function violates its own disjointness conditions")
            v.deviation(sig, {"observation": b if kind != "spawn" else {"spawns": b["spawns"][:6], "starts": b["starts"][:6], "cell": b["cell"]}})
        # layouts vs what the real calls wrote
        compared = 0
        for order, tagb, outs in [("little", "", dict(enumerate(vec_out))), ("big", ":big-endian-host", vec_out_be)] + \
                                 [("little", ":strings-" + k_, o_) for k_, o_ in vec_out_lay.items()]:
          li = 0
          for j, (argv, env) in enumerate(cfgs):
              if j not in outs:
                  li += 6
                  continue
              rc, out, err = outs[j]
              by = {r["call"]: r for r in out if "call" in r}
              byi = {r["i"]: r for r in out if "call" in r}
              for wi, (which, vec) in enumerate((("args", argv), ("env", env))):
                total = sum(len(x) + 1 for x in vec)
                for variant, (PA, BA, line) in enumerate(((BIG, BIG + 0x1000, None), (BIG, 40 * 65536 - total, 5 + 2 * wi), (40 * 65536 - 4 * len(vec), BIG + 0x1000, 6 + 2 * wi))):
                  lay = judged["layouts"][li]
                  li += 1
                  sizes, L = lay["s"], lay["l"]
                  if variant == 0 and order == "little" and tagb == "" and j in big_out:
                      # the big-memory placements: the specification's layout, rebased (TLC's integers end at 2^31 - 1)
                      places, brc, bout, berr = big_out[j]
                      for pi, (bcmd, bvec, bpa, bba) in enumerate(places):
                          if bvec is not vec or (bcmd == "bigargs") != (which == "args"):
                              continue
                          r_ = next((x for x in bout if x.get("i") == pi + 1), None)
                          if r_ is None:
                              v.deviation(wasi.asan_sig(berr) or "%s:crash:memory-of-65536-pages" % which, {"vector": [x.hex() for x in vec], "ptrs_at": hex(bpa), "strings_at": hex(bba), "stderr": berr[-400:]})
                              break
                          if r_.get("nomem"):
                              continue
                          compared += 1
                          want_ptrs = [p_ - (BIG + 0x1000) + bba for p_ in L["ptrs"]]
                          if r_["errno"] != 0 or r_["ptrs"] != want_ptrs or bytes.fromhex(r_["bytes"]) != bytes(L["bytes"]) or not r_["guards"] or \
                                  (r_["count"], r_["total"]) != (sizes["count"], sizes["total"]):
                              v.deviation("%s:layout:memory-of-65536-pages" % which, {"vector": [x.hex() for x in vec], "ptrs_at": hex(bpa), "strings_at": hex(bba), "errno": r_["errno"],
                                                                                      "guards_intact": r_["guards"], "ptrs": r_["ptrs"][:4], "expected_ptrs": want_ptrs[:4]})
                  sz, gt = by.get("argsizes" if which == "args" else "envsizes"), (by.get(which) if line is None else byi.get(line))
                  if line is None:
                      gt = next((r for r in out if r.get("call") == which and r["i"] <= 4), None)
                  if sz is None or gt is None:
                      v.deviation(wasi.asan_sig(err) or "%s:crash" % which, {"vector": [x.hex() for x in vec], "stderr": err[-400:]})
                      continue
                  compared += 2
                  if variant == 0:
                      ch = wasi.changed(sz)
                      got = (int.from_bytes(bytes(ch.get(wasi.R1 + k, 0xEE) for k in range(4)), order), int.from_bytes(bytes(ch.get(wasi.R2 + k, 0xEE) for k in range(4)), order))
                      if sz["errno"] != 0 or got != (sizes["count"], sizes["total"]) or set(ch) - set(range(wasi.R1, wasi.R1 + 4)) - set(range(wasi.R2, wasi.R2 + 4)):
                          v.deviation("%s:sizes%s" % (which, tagb), {"vector": [x.hex() for x in vec], "spec": sizes, "code": got, "errno": sz["errno"]})
                  ch = wasi.changed(gt)
                  exp = {}
                  for i, p in enumerate(L["ptrs"]):
                      for k, bb in enumerate(p.to_bytes(4, order)):
                          exp[PA + 4 * i + k] = bb
                  for k, bb in enumerate(L["bytes"]):
                      exp[BA + k] = bb
                  bad = [a for a in exp if ch.get(a, 0xEE) != exp[a]] + [a for a in ch if a not in exp]
                  if gt["errno"] != 0 or bad:
                      v.deviation("%s:layout%s%s" % (which, ["", ":strings-end-at-memory-end", ":pointers-end-at-memory-end"][variant], tagb),
                                  {"vector": [x.hex() for x in vec], "first_bad_address": hex(min(bad)) if bad else None, "errno": gt["errno"]})
    finally:
        shutil.rmtree(wd, ignore_errors=True)
    cov = {"states": ts_ok["distinct"] + ts_bad["distinct"] + jr["distinct"], "transitions": ts_ok["generated"] + ts_bad["generated"] + jr["generated"],
           "traces_validated_against_impl": len(recs), "proof_ThreadSpawnProof": proof,
           "samples": [r for r in recs if r["kind"] in ("clock", "random", "spawn")][:3] + [{"argv": [x.hex() for x in cfgs[0][0]], "env": [x.hex() for x in cfgs[0][1]]}],
           "evaluations": len(recs) + compared, "distinct_nontrivial": len({json.dumps(r, sort_keys=True) for r in recs}),
           "rule": "args/env: vectors of 0..3 strings of length {0,1,2,7,255} with bytes incl. >= 0x80, one process each: sizes and the exact bytes "
                   "args_get/environ_get leave in guest memory vs WasiProc.tla's Layout (whose disjointness conditions TLC checks); clocks: ids "
                   "0..3 and invalid ones, value between the driver's own readings, monotonic readings non-decreasing; random_get: lengths "
                   "0,1,15,16,255,256,257,4096,65536,(2^20) filled twice over different patterns; proc_exit: statuses in child processes; thread-"
                   "spawn: K in {1..32} real threads spawn concurrently on a translated shared-memory module with and without wasi_thread_start, "
                   "the history (ids, starts, instance, shared cell) judged by TLC; ThreadSpawn.tla refutes a non-atomic id counter",
           "exhaustive": False}
    return v.finish("model_checking", cov,
                    ["wall-clock values are only bracketed by the driver's own clock reads", "thread start-up is awaited for at most 3 s",
                     "proc_exit is observed through the child's wait status"])


main_wrap(main)
