#!/usr/bin/env python3
"""C10 - the translator is total and memory-safe on valid modules and on truncated files (DESIGN.md 3/C10)."""
import os
import random
import re
import shutil
import sys
sys.path.insert(0, os.path.join(os.path.dirname(os.path.abspath(__file__)), "..", "bind", "py"))
import common
import machine
import wasm_encode
import wasmgen
from common import SEED, Verdict, main_wrap, tlc, tlc_ok, run, write_ndjson, read_ndjson, pmap
from wasmgen import b32, b64

SAN_FLAGS = ("-O1", "-g", "-fsanitize=address,undefined", "-fno-sanitize-recover=undefined", "-fno-omit-frame-pointer")

NAME_CLASSES = {
    "alnum": b"name1", "underscores": b"a__b___c_", "escape": b"XxX20", "punct": b"q\"x\\y%s%n$.-/ ", "utf8_2": "é".encode(),
    "utf8_3": "日本".encode(), "utf8_4": "😀".encode(), "highbytes": "\u0080\u00ff\u00c3(\ud7ff\U0010ffff".encode(), "empty": b"",
    "long1k": b"n" * 1024, "long5k": b"L_" * 2560, "ctrl": bytes([1, 9, 10, 13, 27]), "cident": b"main", "digits": b"0123",
}


def nm(b):
    return {"bytes": list(b)}


def shape_modules(rng, tier):
    """Valid modules stressing names, counts and nesting."""
    mods = []
    # names in every position
    for cls, b in NAME_CLASSES.items():
        m = {"types": [{"p": ["i32"], "r": ["i32"]}, {"p": [], "r": []}],
             "imports": [{"mod": nm(b), "name": nm(b + b"f"), "kind": "func", "type": 0},
                         {"mod": nm(b"env"), "name": nm(b), "kind": "func", "type": 1},
                         {"mod": nm(b), "name": nm(b"g" + b), "kind": "global", "t": "i32", "mut": False},
                         {"mod": nm(b"env"), "name": nm(b + b"m"), "kind": "memory", "min": 1, "max": 2}],
             "funcs": [{"type": 0, "locals": [["i32", 1]], "body": [["local.get", 0], ["call", 0], ["call", 1], ["global.get", 0], ["i32.add"], ["end"]]},
                       {"type": 1, "locals": [], "body": [["end"]]}],
             "exports": [{"name": nm(b), "kind": "func", "idx": 2}, {"name": nm(b + b"2"), "kind": "func", "idx": 3},
                         {"name": nm(b + b"_again"), "kind": "func", "idx": 0}, {"name": nm(b + b"_again2"), "kind": "func", "idx": 1},     # imported functions exported again
                         {"name": nm(b"m" + b), "kind": "memory", "idx": 0}],
             "names": {"2": nm(b), "3": nm(b + b"_")}}
        mods.append(("names-" + cls, m))
    # counts
    big = 40 if tier == "quick" else 3000
    for nf in (0, 1, big):
        m = {"types": [{"p": [], "r": ["i32"]}], "funcs": [{"type": 0, "locals": [], "body": [["i32.const", b32(k)], ["end"]]} for k in range(nf)],
             "exports": [{"name": "e%d" % k, "kind": "func", "idx": k} for k in range(0, nf, max(1, nf // 7))]}
        mods.append(("funcs-%d" % nf, m))
    nl = 300 if tier == "quick" else 5000
    m = {"types": [{"p": ["i64"] * 20, "r": ["f64"]}],
         "funcs": [{"type": 0, "locals": [[rng.choice(["i32", "i64", "f32", "f64"]), rng.randint(1, 3)] for _ in range(nl)],
                    "body": [["local.get", 20 + nl // 2], ["drop"], ["f64.const", b64(0)], ["end"]]}],
         "exports": [{"name": "manylocals", "kind": "func", "idx": 0}]}
    mods.append(("locals-%d" % nl, m))
    depth = 120 if tier == "quick" else 600
    body = []
    for d in range(depth):
        body.append([["block", "i32"], ["loop", "i32"], ["block", ""]][d % 3] if d % 3 != 1 else ["loop", "i32"])
    # close from the inside with correctly typed results
    stackt = []
    body2 = []
    kinds = []
    for d in range(depth):
        k = ("block", "i32") if d % 3 == 0 else ("loop", "i32") if d % 3 == 1 else ("block", "")
        kinds.append(k)
        body2.append([k[0], k[1]])
    body2.append(["i32.const", b32(7)])
    body2.append(["drop"])
    for k in reversed(kinds):
        if k[1] == "i32":
            body2.append(["i32.const", b32(1)])
            body2.append(["end"])
            body2.append(["drop"])
        else:
            body2.append(["end"])
    body2 += [["i32.const", b32(3)], ["local.get", 0], ["br_table", list(range(0, 1)) * 200, 0], ["end"]]
    m = {"types": [{"p": ["i32"], "r": ["i32"]}], "funcs": [{"type": 0, "locals": [], "body": body2}],
         "exports": [{"name": "deep", "kind": "func", "idx": 0}]}
    mods.append(("depth-%d" % depth, m))
    nd = 30 if tier == "quick" else 800
    m = {"types": [{"p": [], "r": []}], "funcs": [{"type": 0, "locals": [], "body": [["end"]]}], "memory": {"min": 1, "max": None},
         "data": [{"mode": "active" if k % 3 else "passive", "offset": ["i32.const", b32(k * 7)], "bytes": [k % 256] * (k % 11)} for k in range(nd)],
         "datacount": True, "exports": [{"name": "f", "kind": "func", "idx": 0}, {"name": "memory", "kind": "memory", "idx": 0}]}
    mods.append(("data-%d" % nd, m))
    # every vector length in a range: br_table targets, parameters, locals groups, call arguments (fixed-size inline
    # buffers and growth thresholds of the translator sit at particular lengths)
    rngs = list(range(0, 41)) + [63, 64, 65, 127, 128, 129, 255, 256, 257]
    types = [{"p": ["i32"], "r": ["i32"]}]
    funcs = []
    for n in rngs:
        funcs.append({"type": 0, "locals": [["i64", 1]] * (n % 9),
                      "body": [["block", ""], ["local.get", 0], ["br_table", [0] * n, 0], ["end"], ["i32.const", b32(n)], ["end"]]})
    for n in list(range(0, 41)) + [64, 65, 100]:
        types.append({"p": ["i32", "i64", "f32", "f64"][:0] + [["i32", "i64", "f32", "f64"][k % 4] for k in range(n)], "r": []})
        funcs.append({"type": len(types) - 1, "locals": [], "body": [["end"]]})
    # nesting depths around the growth points of the label and type stacks
    for dpt in list(range(1, 70)) + [95, 96, 97, 98, 99, 127, 128, 129, 146, 147, 148, 255, 256, 257]:
        kinds = [("block", "i32") if d % 3 == 0 else ("loop", "") if d % 3 == 1 else ("block", "") for d in range(dpt)]
        # the branch carries a value if its target wants one and leaves it on the stack otherwise
        b_ = [[k[0], k[1]] for k in kinds] + [["i32.const", b32(5)], ["local.get", 0], ["br_if", dpt - 1], ["drop"]]
        for k in reversed(kinds):
            b_ += ([["i32.const", b32(1)], ["end"], ["drop"]] if k[1] == "i32" else [["end"]])
        funcs.append({"type": 0, "locals": [], "body": b_ + [["i32.const", b32(dpt)], ["end"]]})
    mods.append(("vectorsizes", {"types": types, "funcs": funcs, "exports": [{"name": "f%d" % k, "kind": "func", "idx": k} for k in range(0, len(funcs), 7)]}))
    # float and integer constants of every class in bodies and global initialisers (number formatting in fixed buffers)
    src7 = open(os.path.join(os.path.dirname(os.path.abspath(__file__)), "c07.py")).read().replace("main_wrap(main)", "")
    ns7 = {"__file__": os.path.join(os.path.dirname(os.path.abspath(__file__)), "c07.py"), "__name__": "borrowed_c07"}
    exec(compile(src7, "c07", "exec"), ns7)
    cs = [("f32", x) for x in ns7["float_pool"](rng, 8, 23, 4, False)] + [("f64", x) for x in ns7["float_pool"](rng, 11, 52, 4, False)] + \
         [("i32", x) for x in ns7["int_pool"](rng, 32, 4)] + [("i64", x) for x in ns7["int_pool"](rng, 64, 4)]
    for k_, it_ in enumerate(ns7["build_items"](cs, chunk=400)):
        mods.append(("consts-%d" % k_, it_["module"]))
    # numbers of entities around powers of two: types, imports, functions, globals, exports, data and element segments
    for cnt in (0, 1, 2, 15, 16, 17, 31, 32, 33, 63, 64, 65, 127, 128, 129, 255, 256, 257):
        tys = [{"p": ["i32"] * (k % 5), "r": ["i32"] if k % 2 else []} for k in range(max(cnt, 1))]
        fns = [{"type": k % len(tys), "locals": [], "body": ([["i32.const", b32(k)]] if tys[k % len(tys)]["r"] else []) + [["end"]]} for k in range(cnt)]
        m = {"types": tys, "imports": [{"mod": "env", "name": "i%d" % k, "kind": "global", "t": "i32", "mut": False} for k in range(cnt)],
             "funcs": fns, "globals": [{"t": "i64", "mut": bool(k % 2), "init": ["i64.const", b64(k)]} for k in range(cnt)],
             "memory": {"min": 1, "max": 1}, "table": {"min": max(cnt, 1), "max": max(cnt, 1)},
             "data": [{"mode": "active" if k % 4 else "passive", "offset": ["i32.const", b32(k * 3)], "bytes": [k % 251, 1]} for k in range(cnt)],
             "elems": [{"offset": ["i32.const", b32(k)], "funcs": [k]} for k in range(cnt)],
             "exports": [{"name": "e%d" % k, "kind": "func", "idx": k} for k in range(cnt)] + [{"name": "g%d" % k, "kind": "global", "idx": k} for k in range(cnt)],
             "datacount": True}
        mods.append(("counts-%d" % cnt, m))
    # limits: a table's limits count entries (any u32), a memory's count pages (up to 65536); defined and imported, with and without maximum
    U32M = 0x7FFFFFFF          # (the largest number the model's integers hold)
    for tag_, tab_, mem_, imp_ in (("tabmax100000", {"min": 1, "max": 100000}, {"min": 1, "max": 1}, False), ("tabmaxu32", {"min": 0, "max": U32M}, None, False),
                                   ("tabmin70000", {"min": 70000, "max": None}, {"min": 0, "max": 65536}, False), ("tabeq65537", {"min": 65537, "max": 65537}, {"min": 65536, "max": 65536}, False),
                                   ("imptabmax", {"min": 2, "max": 1 << 20}, {"min": 1, "max": 65536}, True), ("imptabnomax", {"min": 3, "max": None}, {"min": 0, "max": None}, True)):
        m = {"types": [{"p": [], "r": ["i32"]}], "funcs": [{"type": 0, "locals": [], "body": [["i32.const", b32(1)], ["end"]]}], "exports": [{"name": "f", "kind": "func", "idx": 0}]}
        if imp_:
            m["imports"] = [dict({"mod": "env", "name": "t", "kind": "table"}, **tab_)] + ([dict({"mod": "env", "name": "m", "kind": "memory"}, **mem_)] if mem_ else [])
        else:
            m["table"] = tab_
            if mem_:
                m["memory"] = mem_
        mods.append(("limits-" + tag_, m))
    # br_table in code that cannot be reached, with no / one / many targets, whose labels carry results while the operand stack the
    # translator tracks is empty (everything above the unreachable point is polymorphic)
    dead = []
    for killer in (["br", 0], ["return"], ["unreachable"]):
        for targets in ([], [0], [0, 0, 0]):
            dead.append({"type": 0, "locals": [], "body": [["block", "i32"], ["i32.const", b32(1)], killer if killer[0] != "return" else ["return"],
                                                           ["i32.const", b32(0)], ["br_table", targets, 0], ["end"], ["end"]]})
            dead.append({"type": 0, "locals": [], "body": [["i32.const", b32(2)], killer if killer[0] != "br" else ["return"], ["br_table", targets, 0], ["end"]]})
            dead.append({"type": 0, "locals": [], "body": [["block", "i32"], ["unreachable"], ["br_table", targets, 0], ["end"], ["end"]]})
    mods.append(("deadbrtable", {"types": [{"p": [], "r": ["i32"]}], "funcs": dead, "exports": [{"name": "d%d" % k, "kind": "func", "idx": k} for k in range(len(dead))]}))
    # one module with every section kind (the directed module of checks/c08.py), with a name section: swept byte by byte
    src = open(os.path.join(os.path.dirname(os.path.abspath(__file__)), "c08.py")).read().replace("main_wrap(main)", "")
    ns = {"__file__": os.path.join(os.path.dirname(os.path.abspath(__file__)), "c08.py"), "__name__": "borrowed_c08"}
    exec(compile(src, "c08", "exec"), ns)
    allsec = machine.enc_module(machine.norm_module(ns["directed_module"]()))
    allsec["names"] = {"0": "host", "1": "first", "3": "third_function_with_a_longer_name"}
    mods.append(("allsections", allsec))
    # generated programs of the mixed / calls profiles
    for it in wasmgen.programs("mixed", 30 if tier == "quick" else 300, SEED, args_per_prog=1)[:12 if tier == "quick" else 120]:
        mods.append(("gen-" + it["id"], machine.enc_module(it["module"])))
    for it in wasmgen.programs("calls", 24 if tier == "quick" else 200, SEED, args_per_prog=1)[:6 if tier == "quick" else 60]:
        mods.append(("gen-" + it["id"], machine.enc_module(it["module"])))
    return mods


def option_vectors(rng, nfuncs, tier):
    vecs = [{"t": 1, "f": 0, "p": False, "g": False, "m": False, "d": "arrays", "c": False},
            {"t": 3, "f": 1, "p": True, "g": True, "m": True, "d": "gnu-ld", "c": True},
            {"t": 2, "f": 1, "p": False, "g": True, "m": False, "d": "arrays", "c": False},
            {"t": 64, "f": max(1, nfuncs // 2), "p": True, "g": False, "m": False, "d": "arrays", "c": True}]
    for _ in range(2 if tier == "quick" else 8):
        vecs.append({"t": rng.choice([1, 2, 7, 16]), "f": rng.choice([0, 1, 2, nfuncs, nfuncs + 1]), "p": rng.random() < 0.5, "g": rng.random() < 0.5,
                     "m": rng.random() < 0.5, "d": rng.choice(["arrays", "gnu-ld"]), "c": rng.random() < 0.5})
    return vecs


INPUT_NAMES = ["a.wasm", "m" * 50 + ".wasm", "m" * 51 + ".wasm", "0123456789abcdef" * 4 + ".wasm", "n" * 65 + ".wasm", "Q" * 100 + ".wasm",
               "z" * 200 + ".wasm", "w" * 250 + ".wasm", "x" * 255, "with-dashes_and.dots.v1.2.wasm", "\u00e4\u00f6\u00fc\u00df" * 20 + ".wasm", "1", ".wasm", "%s%d%n.wasm"]


def argv_of(o):
    a = ["-t", str(o["t"])]
    if o["f"]:
        a += ["-f", str(o["f"])]
    for k in "pgmc":
        if o[k]:
            a.append("-" + k)
    if o["d"] != "arrays":
        a += ["-d", o["d"]]
    return a


def classify(stderr):
    # (a request the allocator declines - malloc returns NULL, which the translator handles - is a warning of the observer, not an error)
    stderr = "\n".join(l for l in stderr.splitlines() if "WARNING: AddressSanitizer failed to allocate" not in l)
    if "AddressSanitizer" in stderr:
        m = re.search(r"AddressSanitizer: ([\w-]+)", stderr)
        fr = re.findall(r"#\d+ \S+ in (\w+)", stderr)
        fr = [f for f in fr if not f.startswith(("__", "_start", "main")) or f == "main"]
        return "asan:%s:%s" % (m.group(1) if m else "?", fr[1] if len(fr) > 1 and fr[0].startswith(("str", "mem", "sprintf", "vsprintf", "printf", "__interceptor")) else (fr[0] if fr else "?"))
    # `p + 0` with a null p (an empty array's begin and end) is reported by clang's pointer-overflow check; it touches no memory
    # and is outside what the property speaks about
    stderr = "\n".join(l for l in stderr.splitlines() if "applying zero offset to null pointer" not in l)
    if "runtime error" in stderr:
        m = re.search(r"(\w+\.[ch]):(\d+):\d+: runtime error: ([^\n]{0,60})", stderr)
        return "ubsan:%s:%s" % (m.group(1), re.sub(r"[0-9x]+", "N", m.group(3)).strip().replace(" ", "_")[:40]) if m else "ubsan:?"
    return ""


def main():
    tier = sys.argv[1] if len(sys.argv) > 1 else os.environ.get("VERIF_TIER", "quick")
    rng = random.Random(SEED)
    v = Verdict("C10", tier)
    wd = common.scratch("c10-")
    try:
        san = common.build_w2c2(os.path.join(wd, "san"), flags=SAN_FLAGS, cc="clang", name="w2c2san")
        plain = common.build_w2c2(os.path.join(wd, "plain"), flags=("-O2",), name="w2c2plain")
        mods = shape_modules(rng, tier)
        bad = machine.validate_modules([(n_, machine.norm_module(m_)) for n_, m_ in mods], wd)
        if bad:
            raise common.MachineryError("shape modules rejected by WasmValid: %s" % dict(list(bad.items())[:3]))
        jobs = []
        # the all-sections module is swept a second time with every LEB128 field padded to its maximum length
        base_all = [m_ for n_, m_ in mods if n_ == "allsections"][0]
        mods = mods + [("allsections-padded", dict(base_all, **{"__choices": {"padall": 1}})),
                       # custom sections with an empty name, a one-letter name, a long name, with and without content, first, between and last
                       ("allsections-customs", dict(base_all, **{"__choices": {"custom": [{"at": 0, "name": "", "payload": []}, {"at": 2, "name": "", "payload": [1, 2, 3]},
                                                                                          {"at": 5, "name": "x", "payload": []}, {"at": 7, "name": "n" * 300, "payload": [0] * 40},
                                                                                          {"at": 99, "name": "", "payload": []}]}}))]
        # name sections that are misplaced (before the functions they name), name functions that do not exist, end in the middle of an
        # entry, announce more than they hold: a custom section's contents and placement never invalidate the module, and -g reads them
        NAMEPAYLOADS = [("first", 0, [1, 5, 1, 0, 2, 0x66, 0x30]), ("index", 99, [1, 5, 1, 0xE7, 0x07, 2, 0x66, 0x30]), ("cut", 99, [1, 7, 1, 0]), ("count", 99, [1, 3, 9, 0, 0]),
                        ("subsize", 99, [1, 50, 1, 0, 2, 0x66, 0x30]), ("ff", 99, [0xFF] * 6), ("mid", 5, [1, 5, 1, 0x7F, 2, 0x66, 0x30]), ("empty", 3, []),
                        ("namelen", 99, [1, 4, 1, 0, 0xFF, 0x66]), ("locals", 99, [2, 6, 1, 0, 1, 7, 1, 0x78])]
        for tag_, at_, pl_ in NAMEPAYLOADS:
            mods.append(("allsections-name-" + tag_, dict(base_all, **{"__choices": {"custom": [{"at": at_, "name": "name", "payload": pl_}]}})))
        for name, m in mods:
            ch = m.get("__choices")
            if ch:
                m = {k_: v_ for k_, v_ in m.items() if k_ != "__choices"}
            data = wasm_encode.encode(m, ch)
            bounds = list(wasm_encode.encode.last_boundaries)
            nfuncs = len(m.get("funcs", []))
            for o in option_vectors(rng, nfuncs, tier):
                for form in rng.sample(["plain", "dotdir", "abs", "nested"], 2 if tier == "quick" else 4):
                    jobs.append((name, data, len(data), "valid", o, form))
            if name.startswith("allsections-name-"):
                for f_ in (0, 1):
                    for mflag in (False, True):
                        jobs.append((name, data, len(data), "valid", {"t": 2, "f": f_, "p": False, "g": True, "m": mflag, "d": "arrays", "c": False}, "plain"))
            # the module arrives through a pipe (cat m.wasm | w2c2 /dev/stdin out.c) or a FIFO: short ones and ones of many kilobytes
            if name in ("allsections", "allsections-padded") or len(data) > 6000:
                for form in ("pipe", "fifo"):
                    jobs.append((name, data, len(data), "unseekable", {"t": 2, "f": 0, "p": False, "g": False, "m": False, "d": "arrays", "c": False}, form))
            if name == "allsections":
                # the NAME of the input file (the module name under -m comes from it): one letter to the longest a directory entry
                # can have, letters, digits and other characters, under every data-segment mode with and without -m
                for iname in INPUT_NAMES:
                    for dmode in ("arrays", "gnu-ld", "sectcreate1", "sectcreate2"):
                        for mflag in (False, True):
                            if tier == "quick" and not (mflag or dmode == "arrays"):
                                continue
                            jobs.append((name, data, len(data), "valid", {"t": 2, "f": rng.choice([0, 1]), "p": False, "g": False, "m": mflag, "d": dmode, "c": False, "iname": iname}, "plain"))
            # truncation points: every structural boundary and its neighbours, plus a stride (thorough: every byte for small modules)
            cuts = set()
            for bnd in bounds:
                cuts |= {bnd - 1, bnd, bnd + 1}
            cuts |= set(range(1, len(data), max(1, len(data) // (12 if tier == "quick" else 200))))
            if (tier != "quick" and len(data) <= 2048) or name.startswith("allsections"):
                cuts |= set(range(1, len(data)))
            cuts = sorted(c for c in cuts if 0 < c < len(data))
            if tier == "quick" and len(cuts) > 40 and not name.startswith("allsections"):
                cuts = sorted(rng.sample(cuts, 40))
            for c in cuts:
                jobs.append((name, data[:c], c, "prefix", rng.choice(option_vectors(rng, nfuncs, "quick")[:3]), "plain"))
            if name == "allsections":
                # the reference module of -r is read by the same reader: complete (the run must succeed), truncated at every byte,
                # not a module at all, missing (a diagnostic or success, never a memory error)
                ov = {"t": 2, "f": 1, "p": False, "g": False, "m": False, "d": "arrays", "c": False}
                jobs.append((name, data, len(data), "valid", dict(ov, ref=data), "plain"))
                for c in range(0, len(data), 1 if tier != "quick" else 3):
                    jobs.append((name, data, c, "prefix", dict(ov, ref=data[:c], g=c % 2 == 0), "plain"))
                jobs.append((name, data, -1, "prefix", dict(ov, ref=b"\x7fELF not a module"), "plain"))
                jobs.append((name, data, -2, "prefix", dict(ov, ref=None, refmissing=True), "plain"))

        def one(j):
            name, data, cut, cls, o, form = jobs[j]
            d = os.path.join(wd, "j%d" % j)
            os.makedirs(os.path.join(d, "x", "y"))
            inp = os.path.join(d, o.get("iname", "in.wasm"))
            open(inp, "wb").write(data)
            outarg = {"plain": "out.c", "dotdir": "./x/out.c", "abs": os.path.join(d, "x", "out.c"), "nested": "x/y/out.c", "pipe": "out.c", "fifo": "out.c"}[form]
            if o.get("c"):
                # -c meets what earlier runs (finished, interrupted, on a full disk) and editors left under implementation-file names: an empty
                # file, a blank first line, CRLF line ends, one very long line, binary content
                od = os.path.dirname(os.path.join(d, outarg))
                for sn, content in (("s0000000000.c", b""), ("s0000000001.c", b"\n#include \"w2c2_base.h\"\n"), ("d0000000002.c", b"#include \"w2c2_base.h\"\r\nint x;\r\n"),
                                    ("s0000000003.c", b"/" * 5000), ("d0000000004.c", bytes(range(256)) * 4), ("s0000000005.c", b"\r"), ("d0000000006.c", b"\0")):
                    open(os.path.join(od, sn), "wb").write(content)
            res = []
            refargs = []
            if o.get("ref") is not None:
                open(os.path.join(d, "ref.wasm"), "wb").write(o["ref"])
                refargs = ["-r", "ref.wasm"]
            elif o.get("refmissing"):
                refargs = ["-r", "no-such-file.wasm"]
            o = {k_: v_ for k_, v_ in o.items() if k_ not in ("ref", "refmissing", "iname")}
            for exe, kind in ((san, "san"), (plain, "plain")):
                senv = {"ASAN_OPTIONS": "detect_leaks=0:exitcode=99:allocator_may_return_null=1", "UBSAN_OPTIONS": "print_stacktrace=1:exitcode=98"}
                if form == "pipe":
                    import subprocess
                    try:
                        p_ = subprocess.run([exe] + argv_of(o) + ["/dev/stdin", outarg], cwd=d, input=data, stdout=subprocess.PIPE, stderr=subprocess.PIPE, timeout=120, env=dict(os.environ, **senv))
                        rc, so, se = p_.returncode, p_.stdout.decode("utf8", "replace"), p_.stderr.decode("utf8", "replace")
                    except subprocess.TimeoutExpired:
                        rc, so, se = -999, "", ""
                elif form == "fifo":
                    import subprocess, threading
                    ff = os.path.join(d, "in-%s.fifo" % kind)
                    os.mkfifo(ff)

                    def feed():
                        try:
                            with open(ff, "wb") as w_:
                                w_.write(data)
                        except OSError:
                            pass
                    th_ = threading.Thread(target=feed, daemon=True)
                    th_.start()
                    rc, so, se = run([exe] + argv_of(o) + [ff, outarg], cwd=d, timeout=120, env=senv)
                    if th_.is_alive():
                        # the translator never opened (or stopped reading) the FIFO: release the writer
                        try:
                            fd_ = os.open(ff, os.O_RDONLY | os.O_NONBLOCK)
                            os.close(fd_)
                        except OSError:
                            pass
                    th_.join(5)
                else:
                    rc, so, se = run([exe] + argv_of(o) + refargs + [inp, outarg], cwd=d, timeout=300, env=senv)
                se = "\n".join(l for l in se.splitlines() if "WARNING: AddressSanitizer failed to allocate" not in l)
                res.append({"cls": cls, "status": rc if 0 <= rc < 98 else (0 if rc in (98, 99) else 255), "signal": -rc if -64 < rc < 0 else 0,
                            "timedout": rc == -999, "diagnostic": bool(re.sub(r"==\d+==.*", "", se, flags=re.S).strip()) if rc not in (98, 99) else True,
                            "sanitizer": classify(se), "opts": o, "module": name, "cut": cut, "form": form, "build": kind,
                            "stderr": se[-700:]})
            shutil.rmtree(d, ignore_errors=True)
            return res
        obs = [r for rs in pmap(one, range(len(jobs))) for r in rs]
        inf, outf = os.path.join(wd, "obs.ndjson"), os.path.join(wd, "judged.ndjson")
        write_ndjson(inf, [{k: o[k] for k in ("cls", "status", "signal", "timedout", "diagnostic", "sanitizer", "opts")} for o in obs])
        jr = tlc_ok(tlc("Outcome", env={"INFILE": inf, "OUTFILE": outf}, timeout=1800, xmx="8g"), "Outcome")
        illegal = read_ndjson(outf)[0]["illegal"]
        for k in illegal:
            o = obs[k - 1]
            if o["sanitizer"]:
                sig = o["sanitizer"]
            elif o["signal"]:
                sig = "signal-%d:%s" % (o["signal"], "-g-multifile" if o["opts"]["g"] and o["opts"]["f"] and o["opts"]["t"] > 1 else o["cls"])
            elif o["timedout"]:
                sig = "hang:" + o["cls"]
            elif o["cls"] == "valid":
                sig = "valid-rejected:" + o["module"].split("-")[0]
            else:
                sig = "prefix-silent-failure"
            v.deviation(sig, {"module": o["module"], "class": o["cls"], "cut": o["cut"], "options": argv_of(o["opts"]), "path_form": o["form"],
                              "build": o["build"], "status": o["status"], "signal": o["signal"], "stderr": o["stderr"]})
    finally:
        shutil.rmtree(wd, ignore_errors=True)
    distinct = len({(o["module"], o["cut"], str(o["opts"]), o["form"]) for o in obs})
    cov = {"evaluations": len(obs), "distinct_nontrivial": distinct,
           "rule": "inputs: valid modules stressing names (14 classes incl. quotes, backslash, %, UTF-8, bytes >= 0x80, empty, 1 KiB, 5 KiB in "
                   "import/export/debug-name position), counts (functions, locals, data segments), nesting depth, br_table size, plus WasmGen "
                   "modules; each under several option vectors and output-path forms; and proper prefixes cut at every section boundary +-1 and a "
                   "stride. Each input is run through an ASan+UBSan build and a plain build; the observation (status, signal, diagnostic, "
                   "sanitizer verdict, time-out) is judged by TLC against Outcome.tla; distinct = distinct (module, cut, options, path form)",
           "samples": [{k: o[k] for k in ("module", "cls", "cut", "form", "build", "status")} for o in obs[:3]] + [{"options": argv_of(obs[0]["opts"])}],
           "modules": len(mods), "valid_runs": sum(1 for o in obs if o["cls"] == "valid"), "prefix_runs": sum(1 for o in obs if o["cls"] == "prefix"),
           "states": jr["distinct"], "transitions": jr["generated"], "exhaustive": False}
    return v.finish("exploration", cov,
                    ["memory errors are observed by AddressSanitizer / UBSan, not by the model; the model supplies input classes and legal outcomes",
                     "leaks are not counted as errors"])


main_wrap(main)
