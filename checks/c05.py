#!/usr/bin/env python3
"""C05 - linear-memory instructions read and write the specified bytes (DESIGN.md 3/C05)."""
import os
import random
import sys
sys.path.insert(0, os.path.join(os.path.dirname(os.path.abspath(__file__)), "..", "bind", "py"))
import common
import machine
import wasm_encode
import wasmgen
from common import SEED, Verdict, main_wrap, tlc, tlc_ok
from wasm_encode import OPS, natural_align
from wasmgen import b32, b64

PAGE = 65536
LOADS = [n for n in sorted(OPS) if ".load" in n and "atomic" not in n]
STORES = [n for n in sorted(OPS) if ".store" in n and "atomic" not in n]
OFFS = [0, 5, 65531]
# bytes that need care when a translator writes segments as C text: quotes, backslashes, trigraph sequences, NUL, high bytes
SEG0 = [0xA0 + i for i in range(16)] + [0x3F, 0x3F, 0x3D, 0x3F, 0x3F, 0x2F, 0x22, 0x5C, 0x00, 0x3F, 0x3F, 0x28, 0x0A, 0x25, 0x73]
SEG1 = [0x11 * (i + 1) for i in range(9)] + [0x3F, 0x3F, 0x27, 0x3F, 0x3F, 0x21, 0xFF, 0x30]


def arg(t, v):
    return {"t": t, "b": b32(v) if t in ("i32", "f32") else b64(v)}


def build_module(maxpages, memimport=False, minpages=1, shared=False):
    # (SEG0 / SEG1 contain '?' sequences that a C compiler with trigraph replacement would rewrite inside a string literal)
    types, funcs, exports = [], [], []

    def ty(p, r):
        t = {"p": p, "r": r}
        if t not in types:
            types.append(t)
        return types.index(t)

    def add(name, p, r, body):
        funcs.append({"type": ty(p, r), "locals": [], "body": body + [["end"]]})
        exports.append({"name": name, "kind": "func", "idx": len(funcs) - 1})
    for op in LOADS:
        t = op.split(".")[0]
        for o in OFFS:
            add("ld_%s_%d" % (op.replace(".", "_"), o), ["i32"], [t], [["local.get", 0], [op, 0, o]])
    for op in STORES:
        t = op.split(".")[0]
        for o in OFFS:
            add("st_%s_%d" % (op.replace(".", "_"), o), ["i32", t], [], [["local.get", 0], ["local.get", 1], [op, 0, o]])
    add("size", [], ["i32"], [["memory.size"]])
    add("grow", ["i32"], ["i32"], [["local.get", 0], ["memory.grow"]])
    add("fill", ["i32", "i32", "i32"], [], [["local.get", 0], ["local.get", 1], ["local.get", 2], ["memory.fill"]])
    add("copy", ["i32", "i32", "i32"], [], [["local.get", 0], ["local.get", 1], ["local.get", 2], ["memory.copy"]])
    add("init0", ["i32", "i32", "i32"], [], [["local.get", 0], ["local.get", 1], ["local.get", 2], ["memory.init", 0]])
    add("init1", ["i32", "i32", "i32"], [], [["local.get", 0], ["local.get", 1], ["local.get", 2], ["memory.init", 1]])
    add("drop0", [], [], [["data.drop", 0]])
    add("drop1", [], [], [["data.drop", 1]])
    add("fence", [], ["i32"], [["atomic.fence"], ["i32.const", b32(1)]])
    m = {"types": types, "funcs": funcs, "exports": exports,
         "memory": dict({"min": minpages, "max": maxpages}, **({"shared": True} if shared else {})),
         "data": [{"mode": "passive", "bytes": SEG0}, {"mode": "passive", "bytes": SEG1}] +
                 ([{"mode": "active", "offset": ["i32.const", b32(PAGE - 4)], "bytes": [1, 2, 3, 4]}] if minpages else []),
         "uses_memory_init": True}
    m["exports"].append({"name": "memory", "kind": "memory", "idx": 0})
    return m


def width(op):
    return 1 << natural_align(op)


def punning_items():
    """Accesses of DIFFERENT types to the same or overlapping bytes inside ONE function: store A, store B over (part of) it,
    load with A's type again (and with another type).  Linear memory is bytes; which C types the generated code uses to reach
    them must not let an optimising compiler forward or reorder across types."""
    stores = ["i32.store", "i64.store", "f32.store", "f64.store", "i32.store16", "i64.store8", "i64.store32"]
    ldof = {"i32.store": "i32.load", "i64.store": "i64.load", "f32.store": "f32.load", "f64.store": "f64.load", "i32.store16": "i32.load16_u",
            "i64.store8": "i64.load8_u", "i64.store32": "i64.load32_u"}
    cvt = {"i32": [["i32.wrap_i64"]], "i64": [], "f32": [["i32.wrap_i64"], ["f32.reinterpret_i32"]], "f64": [["f64.reinterpret_i64"]]}
    back = {"i32": [["i64.extend_i32_u"]], "i64": [], "f32": [["i32.reinterpret_f32"], ["i64.extend_i32_u"]], "f64": [["i64.reinterpret_f64"]]}
    funcs, exports, calls = [], [], []
    for a in stores:
        for b in stores:
            if a == b:
                continue
            for delta in sorted({0, 2 if width(b) <= 2 or width(a) > 2 else 0}):
                ta, tb = a.split(".")[0], b.split(".")[0]
                la = ldof[a]
                # f(addr, x, y): A.store addr x; B.store addr+delta y; A.load addr  (+ a second, wider look at the same bytes)
                body = [["local.get", 0], ["local.get", 1]] + cvt[ta] + [[a, 0, 0]] + \
                       [["local.get", 0], ["local.get", 2]] + cvt[tb] + [[b, 0, delta]] + \
                       [["local.get", 0], [la, 0, 0]] + back[la.split(".")[0]] + \
                       [["local.get", 0], ["i64.load", 0, 0], ["i64.const", b64(0x9E3779B97F4A7C15)], ["i64.mul"], ["i64.xor"], ["end"]]
                funcs.append({"type": 0, "locals": [], "body": body})
                nm = "pun_%s_%s_%d" % (a.replace(".", "_"), b.replace(".", "_"), delta)
                exports.append({"name": nm, "kind": "func", "idx": len(funcs) - 1})
                for x, y in ((0x1122334455667788, 0xA1B2C3D4E5F60718), (0xFFFFFFFFFFFFFFFF, 0)):
                    calls.append({"op": "call", "inst": 1, "export": nm, "args": [arg("i32", 256 + 16 * (len(calls) % 8)), arg("i64", x), arg("i64", y)]})
    m = {"types": [{"p": ["i32", "i64", "i64"], "r": ["i64"]}], "funcs": funcs, "exports": exports + [{"name": "memory", "kind": "memory", "idx": 0}],
         "memory": {"min": 1, "max": 1}}
    return [{"id": "pun%d" % (j // 60), "module": m, "script": [{"op": "instantiate", "binds": {"mem": 0, "table": 0, "globals": []}}] + calls[j:j + 60]}
            for j in range(0, len(calls), 60)]


def bigseg_items(tier):
    """Data segments longer than the largest object a C89 compiler must accept (32767 bytes), of lengths around that number and its
    multiples: active ones land whole at their offsets, memory.init copies from any source offset (within one such stretch, across one,
    across two)."""
    pat = lambda n, k: [(i * 7 + 3 * k + (i >> 8)) % 251 for i in range(n)]
    g = lambda k: ["local.get", k]
    m = {"types": [{"p": ["i32"], "r": ["i32"]}, {"p": ["i32", "i32", "i32"], "r": []}],
         "funcs": [{"type": 0, "locals": [], "body": [g(0), ["i32.load8_u", 0, 0], ["end"]]},
                   {"type": 0, "locals": [], "body": [g(0), ["i32.load", 0, 0], ["end"]]},
                   {"type": 1, "locals": [], "body": [g(0), g(1), g(2), ["memory.init", 2], ["end"]]},
                   {"type": 1, "locals": [], "body": [g(0), g(1), g(2), ["memory.init", 0], ["end"]]}],
         "memory": {"min": 4, "max": 4},
         "data": [{"mode": "active", "offset": ["i32.const", b32(64)], "bytes": pat(65534, 1)},          # 2 x 32767
                  {"mode": "active", "offset": ["i32.const", b32(66000)], "bytes": pat(32767, 2)},
                  {"mode": "passive", "bytes": pat(70001, 3)},
                  {"mode": "active", "offset": ["i32.const", b32(99000)], "bytes": pat(32768, 4)}],
         "datacount": True, "uses_memory_init": True,
         "exports": [{"name": n_, "kind": "func", "idx": i_} for i_, n_ in enumerate(("b", "w", "init", "init0"))] + [{"name": "memory", "kind": "memory", "idx": 0}]}
    call = lambda e, *a: {"op": "call", "inst": 1, "export": e, "args": [arg("i32", x) for x in a]}
    script = [{"op": "instantiate", "binds": {"mem": 0, "table": 0, "globals": []}}]
    quick = tier == "quick"          # (every step carries the whole memory through the model: the quick tier takes the decisive ones)
    for base, n in ((64, 65534), (66000, 32767), (99000, 32768)):
        pts = {base + 32766, base + 32767, base + n - 1, base + n} if quick else \
              {base, base + 1, base + 32765, base + 32766, base + 32767, base + 32768, base + n - 2, base + n - 1, base + n}
        for a in sorted(pts & set(range(base, base + n + 1))):
            script.append(call("b", a))
        if not quick:
            script.append(call("w", base + n - 4))
    D = 140000
    for src, n in (((1, 40000), (32760, 20), (30000, 40001)) if quick else
                   ((0, 70001), (1, 40000), (32767, 10), (32760, 20), (32766, 2), (30000, 40001), (65530, 10), (1, 70000), (70001, 0), (65534, 4467))):
        script.append(call("init", D, src, n))
        pts = {D + n - 1, D + (32767 - src) % 32767, D + (65534 - src) % 65534} if quick else \
              {D, D + 1, D + n - 1, D + n, D + (32767 - src) % 32767, D + (32767 - src) % 32767 - 1, D + (65534 - src) % 65534}
        for a in sorted(pts & set(range(D, D + max(n, 1) + 1))):
            script.append(call("b", a))
        if not quick:
            script.append(call("w", D + max(n - 4, 0)))
    # an active segment is empty once applied: only the empty copy is defined
    script += [call("init0", D, 0, 0), call("init0", D, 0, 1)]
    return [{"id": "bigseg", "module": m, "script": script}]


def history(rng, maxpages, length):
    """A seeded history of memory operations; pages is tracked only to aim at in-bounds
    addresses (the model, not this tracker, decides what is defined)."""
    pages = 1
    mx = maxpages if maxpages is not None else 65536
    ops = []
    vals = {"i32": [0x81828384, 0xFFFFFFFF, 0x7F80FF01, 0x00000080, 0x8000, 0x12345678],
            "i64": [0x8182838485868788, (1 << 64) - 1, 0x00000000FFFFFFFF, 0x0102030480FF7F00, 0x80000000, 0x8000],
            "f32": [0x7FC00001, 0xFF800000, 0x80000000, 0x3F800000, 0x7F800001],
            "f64": [0x7FF8000000000001, 0xFFF0000000000000, 1 << 63, 0x3FF0000000000000, 0x7FF0000000000001]}
    hot = []   # recently written effective addresses, so loads hit interesting bytes
    dropped = set()

    def pick_ea(w):
        size = pages * PAGE
        c = [0, 1, 3, 7, size - w, size - w - 1, PAGE - w, PAGE - 1 if size > PAGE else 0, PAGE - 3 if size > PAGE else 0,
             rng.randrange(0, size - w + 1)] + hot[-6:] + [max(0, h - rng.randint(1, 7)) for h in hot[-3:]]
        c = [x for x in c if 0 <= x and x + w <= size]
        return rng.choice(c)
    for _ in range(length):
        r = rng.random()
        if r < 0.30:
            op = rng.choice(STORES)
            t = op.split(".")[0]
            w = width(op)
            ea = pick_ea(w)
            offs = [o for o in OFFS if o <= ea]
            o = rng.choice(offs)
            ops.append({"op": "call", "inst": 1, "export": "st_%s_%d" % (op.replace(".", "_"), o),
                        "args": [arg("i32", ea - o), arg(t, rng.choice(vals[t]))]})
            hot.append(ea)
        elif r < 0.60:
            op = rng.choice(LOADS)
            w = width(op)
            ea = pick_ea(w)
            o = rng.choice([o for o in OFFS if o <= ea])
            ops.append({"op": "call", "inst": 1, "export": "ld_%s_%d" % (op.replace(".", "_"), o), "args": [arg("i32", ea - o)]})
        elif r < 0.68:
            ops.append({"op": "call", "inst": 1, "export": "size", "args": []})
        elif r < 0.80:
            d = rng.choice([0, 1, 1, 2, mx - pages, mx - pages + 1, 65535, 65536, (1 << 32) - pages, (1 << 32) - 1,
                            (1 << 32) - pages + 1, 0x80000000, 65536 - pages, 65537 - pages])
            if maxpages in (None, 65536) and pages + d <= 65536 and d > 3:
                d = 65537 - pages       # do not really allocate gigabytes
            d &= 0xFFFFFFFF
            ops.append({"op": "call", "inst": 1, "export": "grow", "args": [arg("i32", d)]})
            if pages + d <= mx and pages + d <= 65536:
                pages += d
        elif r < 0.88:
            n = rng.choice([0, 1, 2, 7, 33, 64])
            ea = pick_ea(max(n, 1)) if n else rng.choice([0, pages * PAGE])
            ops.append({"op": "call", "inst": 1, "export": "fill", "args": [arg("i32", ea), arg("i32", rng.choice([0, 0xAB, 0x1FF, 0xFFFFFF80])), arg("i32", n)]})
            hot.append(ea)
        elif r < 0.95:
            n = rng.choice([0, 1, 3, 8, 17, 40])
            s = pick_ea(max(n, 1))
            delta = rng.choice([0, 1, -1, 2, -2, n - 1, 1 - n, n, -n, n + 3, 100])
            d = s + delta
            if d < 0 or d + n > pages * PAGE:
                d = s
            ops.append({"op": "call", "inst": 1, "export": "copy", "args": [arg("i32", d), arg("i32", s), arg("i32", n)]})
            hot.append(d)
        elif r < 0.985:
            seg, data = rng.choice([("init0", SEG0), ("init1", SEG1)])
            if seg in dropped:
                s = n = 0                # a dropped segment is empty: only the empty copy is defined
            else:
                s = rng.randint(0, len(data))
                n = rng.randint(0, len(data) - s)
            d = pick_ea(max(n, 1))
            ops.append({"op": "call", "inst": 1, "export": seg, "args": [arg("i32", d), arg("i32", s), arg("i32", n)]})
            hot.append(d)
        else:
            x = rng.choice(["drop0", "drop1", "fence"])
            ops.append({"op": "call", "inst": 1, "export": x, "args": []})
            if x != "fence":
                dropped.add("init" + x[-1])
    return ops


def alloc_failure(v, wd):
    """memory.grow may also fail because the host has no memory (the specification allows failure at any time): then, too, it
    returns -1 and changes nothing.  The model's grow is deterministic, so this corner is driven directly: the process limits
    its address space, asks for a gigabyte, and whatever the answer, size and later grows must be consistent with it."""
    m = build_module(None)
    d = os.path.join(wd, "allocfail")
    os.makedirs(d)
    open(os.path.join(d, "af.wasm"), "wb").write(wasm_encode.encode(machine.enc_module(machine.norm_module(m))))
    w2c2 = common.build_w2c2(os.path.join(wd, "w2c2bin"))
    rc, so, se = common.run([w2c2, "-t", "1", "af.wasm", "af.c"], cwd=d, timeout=120)
    if rc != 0:
        raise common.MachineryError("cannot translate the allocation-failure module: " + se[-300:])
    open(os.path.join(d, "main.c"), "w").write(
        '#include <stdio.h>\n#include <sys/resource.h>\n#include "af.h"\nvoid trap(Trap t) { printf("trap %d\\n", (int)t); }\n'
        'int main(void) { static afInstance i; struct rlimit rl; U32 r1, s1, r2, s2; afInstantiate(&i, NULL);\n'
        '  rl.rlim_cur = rl.rlim_max = 512UL << 20; setrlimit(RLIMIT_AS, &rl);\n'
        '  r1 = af_grow(&i, 16384); s1 = af_size(&i); r2 = af_grow(&i, 1); s2 = af_size(&i);\n'
        '  printf("%u %u %u %u\\n", r1, s1, r2, s2); return 0; }\n')
    rc, so, se = common.run(["gcc", "-O1", "-w", "-I", os.path.join(common.REPO, "w2c2"), "-DWASM_THREADS_PTHREADS", "main.c", "af.c", "-o", "af", "-lm", "-lpthread"], cwd=d, timeout=300)
    if rc != 0:
        raise common.MachineryError("cannot build the allocation-failure test: " + se[-400:])
    rc, so, se = common.run([os.path.join(d, "af")], cwd=d, timeout=60)
    try:
        r1, s1, r2, s2 = [int(x) for x in so.split()]
    except ValueError:
        v.deviation("grow:allocation-failure:crash", {"rc": rc, "stdout": so[-200:], "stderr": se[-300:]})
        return 0
    ok = (r1 == 0xFFFFFFFF and s1 == 1 and ((r2 == 1 and s2 == 2) or (r2 == 0xFFFFFFFF and s2 == 1))) or \
         (r1 == 1 and s1 == 16385 and ((r2 == 16385 and s2 == 16386) or (r2 == 0xFFFFFFFF and s2 == 16385)))
    if not ok:
        v.deviation("grow:allocation-failure", {"grow_1GiB": r1, "size_after": s1, "grow_1_page": r2, "size_after_that": s2})
    return 1


def sig(it, k, why, build, e, a):
    op = it["script"][k - 1]
    if it["id"] == "max0":
        return "grow:declared-max-0"
    if op.get("export") == "grow":
        d = int.from_bytes(bytes(op["args"][0]["b"]), "little")
        pages = e["mems"][0]["pages"]
        if why.startswith("result") and d + (pages if e["res"][0]["b"] == [255] * 4 else 0) >= (1 << 32):
            return "grow:wraps-to-zero"
        return "grow:%s" % why.split(":")[0]
    return "%s:%s" % (op.get("export", op["op"]).split("_")[0], why.split(":")[0])


def main():
    tier = sys.argv[1] if len(sys.argv) > 1 else os.environ.get("VERIF_TIER", "quick")
    rng = random.Random(SEED)
    v = Verdict("C05", tier)
    mc = tlc("MemCheck", workers=4, timeout=600)
    tlc_ok(mc, "MemCheck")
    nhist, length = (160, 14) if tier == "quick" else (3000, 24)
    items = []
    # (65536: the largest maximum that can be declared, written out)
    mods = {3: build_module(3), None: build_module(None), 1: build_module(1), 65536: build_module(65536)}
    # a shared memory (allocated at its maximum up front) has the same single-threaded meaning
    shared3 = build_module(3, shared=True)
    # ... and one with the largest maximum that can be declared (4 GiB of address space, touched in its first pages only)
    sharedmax = build_module(65536, shared=True)
    for h in range(nhist):
        mp = rng.choice([3, 3, 3, None, 1, 65536])
        items.append({"id": "h%d" % h, "module": shared3 if mp == 3 and h % 3 == 0 else sharedmax if mp == 65536 and h % 2 == 0 else mods[mp],
                      "script": [{"op": "instantiate", "binds": {"mem": 0, "table": 0, "globals": []}}] + history(rng, mp, length)})
    # a declared maximum of zero pages is a maximum
    zero = build_module(0, minpages=0)
    items.append({"id": "max0", "module": zero,
                  "script": [{"op": "instantiate", "binds": {"mem": 0, "table": 0, "globals": []}}] +
                            [{"op": "call", "inst": 1, "export": e, "args": a} for e, a in
                             [("size", []), ("grow", [arg("i32", 0)]), ("grow", [arg("i32", 1)]), ("size", []),
                              ("grow", [arg("i32", 0xFFFFFFFF)]), ("fill", [arg("i32", 0), arg("i32", 1), arg("i32", 0)])]]})
    gst = {}
    items += wasmgen.programs("mem", 60 if tier == "quick" else 1500, SEED, args_per_prog=4, stats=gst)
    # the second build keeps the data segments in an external blob (memory.init must find its bytes there)
    builds = [{"name": "gcc-O1", "cc": "gcc", "cflags": ("-O1",)},
              {"name": "gcc-O1-gnu-ld", "cc": "gcc", "cflags": ("-O1",), "w2c2_opts": ("-m", "-d", "gnu-ld")},
              # trigraph replacement on (as with -std=c89/c99/c11 or -ansi)
              # ... and plain char unsigned, as in the ARM / PowerPC ABIs
              {"name": "gcc-O1-trigraphs-uchar", "cc": "gcc", "cflags": ("-O1", "-trigraphs", "-funsigned-char")}]
    if tier != "quick":
        builds.append({"name": "clang-O2", "cc": "clang", "cflags": ("-O2",)})
    # the host refuses to give more memory (its realloc fails): memory.grow answers -1 and the memory stays usable, size and contents
    full = build_module(5)
    full["memory"] = dict(full["memory"], hostfull=True)
    fcall = lambda e, *a: {"op": "call", "inst": 1, "export": e, "args": list(a)}
    st_, ld_ = "st_i32_store_0", "ld_i32_load_0"
    fullitems = [{"id": "hostfull", "module": full,
                  "script": [{"op": "instantiate", "binds": {"mem": 0, "table": 0, "globals": []}},
                             fcall(st_, arg("i32", 100), arg("i32", 0x11223344)), fcall("grow", arg("i32", 1)), fcall("size"), fcall(ld_, arg("i32", 100)),
                             fcall("grow", arg("i32", 4)), fcall("grow", arg("i32", 5)), fcall(st_, arg("i32", PAGE - 4), arg("i32", 7)), fcall(ld_, arg("i32", PAGE - 4)),
                             fcall("grow", arg("i32", 0)), fcall("size"), fcall("fill", arg("i32", 0), arg("i32", 9), arg("i32", 16)), fcall(ld_, arg("i32", 8)),
                             fcall(ld_, arg("i32", PAGE)), fcall("size")]}]
    # per-instance segment state: one instance drops a segment, another instance of the same module still initialises from it
    two = build_module(3)
    INSTOP = {"op": "instantiate", "binds": {"mem": 0, "table": 0, "globals": []}}
    items.append({"id": "twoinst", "module": two,
                  "script": [INSTOP, INSTOP] + [{"op": "call", "inst": i_, "export": e_, "args": a_} for i_, e_, a_ in
                                                ((1, "drop1", []), (2, "init1", [arg("i32", 200), arg("i32", 1), arg("i32", 5)]), (1, "init1", [arg("i32", 100), arg("i32", 0), arg("i32", 0)]),
                                                 (2, "drop0", []), (1, "init0", [arg("i32", 300), arg("i32", 2), arg("i32", 9)]), (2, "init1", [arg("i32", 400), arg("i32", 0), arg("i32", 9)]))]})
    # a memory that is big enough for an implementation to reserve room in advance, grown a page at a time: every new page
    # is read before anything is written to it (first, last and a middle word), then written, then the next grow
    big = build_module(16, minpages=8)
    for j, steps in enumerate(([1] * 8, [1, 2, 1, 3, 1], [2, 1, 1, 1, 1, 1, 1])):
        sc, pages = [dict(INSTOP)], 8
        for stp in steps:
            sc.append({"op": "call", "inst": 1, "export": "grow", "args": [arg("i32", stp)]})
            for pg in range(pages, pages + stp):
                for off in (0, PAGE // 2, PAGE - 8):
                    sc.append({"op": "call", "inst": 1, "export": "ld_i64_load_0", "args": [arg("i32", pg * PAGE + off)]})
                sc.append({"op": "call", "inst": 1, "export": "st_i32_store_0", "args": [arg("i32", pg * PAGE + 16), arg("i32", 0x01020304 + pg)]})
            pages += stp
            sc.append({"op": "call", "inst": 1, "export": "size", "args": []})
        items.append({"id": "biggrow%d" % j, "module": big, "script": sc})
    items += punning_items()
    items += bigseg_items(tier)
    # optimising builds of both compilers (type-based alias analysis is on from -O2)
    builds += [{"name": "gcc-O2", "cc": "gcc", "cflags": ("-O2",)}]
    if tier == "quick":
        builds.append({"name": "clang-O2", "cc": "clang", "cflags": ("-O2",)})
    # a C library that is as unhelpful as the standard allows (fresh bytes not zero, realloc moves, overlapping memcpy reported)
    builds.append(machine.HOSTILE_LIBC)
    st, exp = machine.replay(v, items, builds, sigfn=sig)
    stf, _ = machine.replay(v, fullitems, [{"name": "gcc-O1-host-out-of-memory", "cc": "gcc", "cflags": ("-O1",), "defs": ("-Drealloc=verif_failing_realloc",),
                                            "extra_srcs": [os.path.join(common.BINDC, "realloc_fails.c")]},
                                           {"name": "gcc-O2-asan-host-out-of-memory", "cc": "gcc", "cflags": ("-O2", "-fsanitize=address"), "defs": ("-Drealloc=verif_failing_realloc",),
                                            "extra_srcs": [os.path.join(common.BINDC, "realloc_fails.c")], "run_env": {"ASAN_OPTIONS": "detect_leaks=0"}}],
                             sigfn=lambda it, k, why, b, e, a: "grow:host-out-of-memory:%s" % why.split(":")[0])
    for k_ in ("states", "transitions"):
        st[k_] += stf[k_]
    wd2 = common.scratch("c05af-")
    try:
        alloc_failure(v, wd2)
    finally:
        import shutil
        shutil.rmtree(wd2, ignore_errors=True)
    samples = []
    for it in items[:2]:
        samples.append({"item": it["id"], "history": [(o.get("export"), [int.from_bytes(bytes(a["b"]), "little") for a in o.get("args", [])])
                                                         for o in it["script"][1:8]],
                        "spec_says_after_op_4": {k: exp[(it["id"], 4)][k] for k in ("status", "res")} if (it["id"], 4) in exp else None})
    cov = {"states": st["states"] + mc["distinct"] + gst.get("states", 0), "transitions": st["transitions"] + mc["generated"] + gst.get("transitions", 0),
           "traces_validated_against_impl": nhist, "samples": samples,
           "evaluations": st["ops_compared"], "distinct_nontrivial": st["distinct_nontrivial"],
           "rule": "histories of load/store (all 14+9 flavours x static offsets 0,5,65531, any alignment, page-straddling "
                   "addresses), memory.size/grow (delta classes incl. max-cur(+1), 65535, 65536, 2^32-cur, 2^32-1), fill, copy "
                   "(overlap in both directions), init; after EVERY call the result, page count and the complete non-zero "
                   "memory image are compared with WasmExec; plus WasmGen programs of profile mem",
           "histories": nhist, "history_length": length, "memcheck_states": mc["distinct"],
           "ops_skipped_undefined": st["ops_skipped_undefined"], "builds": [b["name"] for b in builds], "exhaustive": False}
    # the repository's own spec-suite corpus for this instruction family: model vs the suite's expectations, w2c2 vs model
    sys.path.insert(0, os.path.dirname(os.path.abspath(__file__)))
    import corpus
    cov.update(corpus.phase(v, "C05", tier))
    return v.finish("model_checking", cov,
                    ["only in-bounds accesses are compared (the property excludes the others); 'effective address without 32-bit "
                     "wrap-around' is therefore not decided (DESIGN.md section 4)",
                     "memories of at most 3 pages are really allocated; grows that would allocate gigabytes are replaced by failing ones"])


main_wrap(main)
