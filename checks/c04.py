#!/usr/bin/env python3
"""C04 - direct, indirect, recursive and imported calls reach the right function (DESIGN.md 3/C04)."""
import os
import random
import shutil
import sys
sys.path.insert(0, os.path.join(os.path.dirname(os.path.abspath(__file__)), "..", "bind", "py"))
import common
import machine
import wasmgen
from common import SEED, Verdict, main_wrap, tlc, tlc_ok, read_ndjson, write_ndjson
from wasmgen import b32, b64, CONSTS

VT4 = ["i32", "i64", "f32", "f64"]


def arg(t, v):
    return {"t": t, "b": b32(v) if t in ("i32", "f32") else b64(v)}


def inst(mem=0, table=0, globals_=()):
    return {"op": "instantiate", "binds": {"mem": mem, "table": table, "globals": list(globals_)}}


def directed(rng, tier, idents):
    items = []
    # (a) argument order and result slot: callee with n mixed parameters returns parameter k;
    #     the caller pushes distinct constants; also through an imported host function
    for n in ([0, 1, 2, 6] if tier == "quick" else [0, 1, 2, 3, 4, 6, 9, 14]):
        params = [rng.choice(VT4) for _ in range(n)]
        types = [{"p": params, "r": ["i32"]}, {"p": [], "r": ["i32"]}, {"p": params, "r": []}]
        consts = [[t + ".const", rng.choice(CONSTS[t])] for t in params]
        funcs, exports = [], []
        imports = [{"mod": "env", "name": "sink", "kind": "func", "type": 2, "ret": []},
                   {"mod": "env", "name": "src", "kind": "func", "type": 0, "ret": b32(424242)}]
        # f(params) -> i32: hash-free observation: pass all params on to the host, return a marker
        funcs.append({"type": 0, "locals": [], "body": [["local.get", k] for k in range(n)] + [["call", 0], ["i32.const", b32(7000 + n)], ["end"]]})
        # caller: extra operand below the arguments, result must land above it
        funcs.append({"type": 1, "locals": [], "body": [["i32.const", b32(5)]] + consts + [["call", 2], ["i32.add"], ["end"]]})
        # caller of the import with a result
        funcs.append({"type": 1, "locals": [], "body": [["i32.const", b32(1)]] + consts + [["call", 1], ["i32.sub"], ["end"]]})
        exports = [{"name": "callee", "kind": "func", "idx": 2}, {"name": "caller", "kind": "func", "idx": 3},
                   {"name": "callimp", "kind": "func", "idx": 4}, {"name": "srcagain", "kind": "func", "idx": 1}]
        args = [arg(t, rng.choice(wasmgen.ARGPOOL[t])) for t in params]
        items.append({"id": "ord%d" % n, "module": {"types": types, "imports": imports, "funcs": funcs, "exports": exports},
                      "script": [inst(), {"op": "call", "inst": 1, "export": "callee", "args": args},
                                 {"op": "call", "inst": 1, "export": "caller", "args": []},
                                 {"op": "call", "inst": 1, "export": "callimp", "args": []},
                                 {"op": "call", "inst": 1, "export": "srcagain", "args": args}]})
    # (b) recursion: factorial (direct), even/odd (mutual), with a host log per level
    m = {"types": [{"p": ["i64"], "r": ["i64"]}, {"p": ["i32"], "r": ["i32"]}, {"p": ["i32"], "r": []}],
         "imports": [{"mod": "env", "name": "lvl", "kind": "func", "type": 2, "ret": []}],
         "funcs": [
             {"type": 0, "locals": [], "body": [["local.get", 0], ["i64.eqz"], ["if", "i64"], ["i64.const", b64(1)], ["else"],
                                                ["local.get", 0], ["local.get", 0], ["i64.const", b64(1)], ["i64.sub"], ["call", 1], ["i64.mul"], ["end"], ["end"]]},
             {"type": 1, "locals": [], "body": [["local.get", 0], ["call", 0], ["local.get", 0], ["i32.eqz"], ["if", "i32"], ["i32.const", b32(1)], ["else"],
                                                ["local.get", 0], ["i32.const", b32(1)], ["i32.sub"], ["call", 3], ["end"], ["end"]]},
             {"type": 1, "locals": [], "body": [["local.get", 0], ["i32.eqz"], ["if", "i32"], ["i32.const", b32(0)], ["else"],
                                                ["local.get", 0], ["i32.const", b32(1)], ["i32.sub"], ["call", 2], ["end"], ["end"]]}],
         "exports": [{"name": "fac", "kind": "func", "idx": 1}, {"name": "even", "kind": "func", "idx": 2}, {"name": "odd", "kind": "func", "idx": 3}]}
    items.append({"id": "rec", "module": m,
                  "script": [inst()] + [{"op": "call", "inst": 1, "export": "fac", "args": [arg("i64", n)]} for n in (0, 1, 5, 20, 25)] +
                            [{"op": "call", "inst": 1, "export": e, "args": [arg("i32", n)]} for e in ("even", "odd") for n in (0, 1, 7, 12)]})
    # (b2) re-entrancy: N operands that depend on the argument are pending below a recursive call (direct and mutual);
    #      each activation must find its own operands when the callee returns
    for N in ((3, 30) if tier == "quick" else (1, 3, 12, 24, 25, 30, 60)):
        def deep(callee):
            return [["local.get", 0], ["i32.eqz"], ["if", "i32"], ["i32.const", b32(1)], ["else"]] + \
                   [x for k in range(N) for x in (["local.get", 0], ["i32.const", b32(k * k + 1)], ["i32.mul"])] + \
                   [["local.get", 0], ["i32.const", b32(1)], ["i32.sub"], ["call", callee]] + [["i32.add"]] * N + [["end"], ["end"]]
        m = {"types": [{"p": ["i32"], "r": ["i32"]}],
             "funcs": [{"type": 0, "locals": [], "body": deep(0)}, {"type": 0, "locals": [], "body": deep(2)}, {"type": 0, "locals": [], "body": deep(1)}],
             "exports": [{"name": "deep", "kind": "func", "idx": 0}, {"name": "ping", "kind": "func", "idx": 1}, {"name": "pong", "kind": "func", "idx": 2}]}
        items.append({"id": "reent%d" % N, "module": m,
                      "script": [inst()] + [{"op": "call", "inst": 1, "export": e, "args": [arg("i32", n)]} for e in ("deep", "ping") for n in (0, 1, 2, 5)]})
    # (b4) every activation starts with fresh locals: functions that call THEMSELVES as the last thing they do (directly before the ends, via
    #      return, inside nested blocks; in a mutual pair) and read a local before writing it - a call is a call, however it could be compiled
    g = lambda k: ["local.get", k]
    c1 = ["i32.const", b32(1)]
    def rows(self_idx, tail):
        # f(n, acc): t (local 2, never initialised by the code) += n; d (local 3, i64) += n; n == 0 ? acc + d : f(n - 1, acc + t)
        return [g(2), g(0), ["i32.add"], ["local.set", 2], g(3), g(0), ["i64.extend_i32_u"], ["i64.add"], ["local.set", 3],
                g(0), ["i32.eqz"], ["if", "i32"], g(1), g(3), ["i32.wrap_i64"], ["i32.add"], ["else"]] + tail(self_idx) + [["end"], ["end"]]
    plain = lambda i_: [g(0), c1, ["i32.sub"], g(1), g(2), ["i32.add"], ["call", i_]]
    viaret = lambda i_: plain(i_) + [["return"]]
    nested = lambda i_: [["block", "i32"], ["block", "i32"]] + plain(i_) + [["end"], ["end"]]
    m = {"types": [{"p": ["i32", "i32"], "r": ["i32"]}],
         "funcs": [{"type": 0, "locals": [["i32", 1], ["i64", 1]], "body": rows(0, plain)},
                   {"type": 0, "locals": [["i32", 1], ["i64", 1]], "body": rows(1, viaret)},
                   {"type": 0, "locals": [["i32", 1], ["i64", 1]], "body": rows(2, nested)},
                   {"type": 0, "locals": [["i32", 1], ["i64", 1]], "body": rows(4, plain)},          # 3 -> 4 -> 3 ...
                   {"type": 0, "locals": [["i32", 1], ["i64", 1]], "body": [["nop"]] + rows(3, plain)},
                   # not in tail position: the same, with the result used afterwards
                   {"type": 0, "locals": [["i32", 1], ["i64", 1]], "body": rows(5, lambda i_: plain(i_) + [c1, ["i32.add"]])}],
         "exports": [{"name": n_, "kind": "func", "idx": i_} for i_, n_ in enumerate(("rows", "rowsret", "rowsnest", "ping", "pong", "rowsplus"))]}
    items.append({"id": "freshlocals", "module": m,
                  "script": [inst()] + [{"op": "call", "inst": 1, "export": e_, "args": [arg("i32", n_), arg("i32", a_)]}
                                        for e_ in ("rows", "rowsret", "rowsnest", "ping", "rowsplus") for n_, a_ in ((0, 7), (1, 0), (4, 0), (9, 100))]})
    # (b3) a callee is called every time the caller says so: getters of memory / globals called twice with a write in between
    #      and in a loop; callees that only trap; callees that do nothing
    m = {"types": [{"p": [], "r": ["i32"]}, {"p": ["i32"], "r": ["i32"]}, {"p": [], "r": []}, {"p": ["i32"], "r": []}],
         "imports": [{"mod": "env", "name": "poke", "kind": "func", "type": 3, "ret": []}],
         "globals": [{"t": "i32", "mut": True, "init": ["i32.const", b32(5)]}],
         "memory": {"min": 1, "max": 1},
         "funcs": [
             {"type": 0, "locals": [], "body": [["global.get", 0], ["end"]]},                                                   # 1 getg
             {"type": 0, "locals": [], "body": [["i32.const", b32(64)], ["i32.load", 2, 0], ["end"]]},                           # 2 getm
             {"type": 1, "locals": [], "body": [["call", 1], ["local.get", 0], ["global.set", 0], ["call", 1], ["i32.const", b32(1000)], ["i32.mul"], ["i32.add"], ["end"]]},   # 3 twiceg
             {"type": 1, "locals": [], "body": [["call", 2], ["i32.const", b32(64)], ["local.get", 0], ["i32.store", 2, 0], ["call", 2], ["i32.const", b32(1000)], ["i32.mul"],
                                                ["i32.add"], ["end"]]},                                                                                                # 4 twicem
             {"type": 1, "locals": [["i32", 2]], "body": [["loop", ""], ["local.get", 1], ["call", 1], ["i32.add"], ["local.set", 1], ["global.get", 0], ["i32.const", b32(1)], ["i32.add"],
                                                          ["global.set", 0], ["local.get", 2], ["i32.const", b32(1)], ["i32.add"], ["local.tee", 2], ["local.get", 0], ["i32.lt_u"], ["br_if", 0],
                                                          ["end"], ["local.get", 1], ["end"]]},                                                                                # 5 loopg
             {"type": 2, "locals": [], "body": [["unreachable"], ["end"]]},                                                      # 6 abort stub
             {"type": 2, "locals": [], "body": [["end"]]},                                                                       # 7 empty
             {"type": 2, "locals": [], "body": [["nop"], ["end"]]},                                                              # 8 nop
             {"type": 1, "locals": [], "body": [["call", 7], ["call", 8], ["local.get", 0], ["if", ""], ["call", 6], ["end"], ["i32.const", b32(77)], ["end"]]},   # 9 maybe_abort
             {"type": 1, "locals": [], "body": [["call", 1], ["local.get", 0], ["call", 0], ["call", 1], ["i32.add"], ["end"]]}],   # 10 host call between two reads of the global
         "exports": [{"name": n_, "kind": "func", "idx": i_} for n_, i_ in (("twiceg", 3), ("twicem", 4), ("loopg", 5), ("maybe_abort", 9), ("hostbetween", 10))]}
    items.append({"id": "purity", "module": m,
                  "script": [inst()] + [{"op": "call", "inst": 1, "export": e_, "args": [arg("i32", x_)]}
                                        for e_, xs_ in (("twiceg", (9, 3)), ("twicem", (7, 8)), ("loopg", (1, 4)), ("maybe_abort", (0, 1, 0)), ("hostbetween", (2,))) for x_ in xs_]})
    # (c) call_indirect with a dynamic index; defined and imported table; element segments with constant and
    #     imported-global offsets; several segments, a later one overwriting an earlier slot; imported function in the table
    for tabk in ("defined", "imported"):
        for goff in (False, True):
            imports = [{"mod": "env", "name": "hostf", "kind": "func", "type": 0, "ret": b32(9999)}]
            if goff:
                imports.append({"mod": "env", "name": "base", "kind": "global", "t": "i32", "mut": False})
            if tabk == "imported":
                imports.append({"mod": "env", "name": "tab", "kind": "table", "min": 12, "max": 12})
            types = [{"p": ["i32"], "r": ["i32"]}, {"p": ["i32", "i32"], "r": ["i32"]}, {"p": ["i64"], "r": ["i64"]}]
            funcs = [{"type": 0, "locals": [], "body": [["local.get", 0], ["i32.const", b32(100 * (k + 1))], ["i32.add"], ["end"]]} for k in range(3)]
            funcs.append({"type": 2, "locals": [], "body": [["local.get", 0], ["i64.const", b64(3)], ["i64.mul"], ["end"]]})
            # icall(idx, x) = table[idx](x)
            funcs.append({"type": 1, "locals": [], "body": [["local.get", 1], ["local.get", 0], ["call_indirect", 0, 0], ["end"]]})
            funcs.append({"type": 1, "locals": [], "body": [["local.get", 1], ["i64.extend_i32_u"], ["local.get", 0], ["call_indirect", 2, 0], ["i32.wrap_i64"], ["end"]]})
            off = (lambda n: ["global.get", 0]) if goff else (lambda n: ["i32.const", b32(n)])
            elems = [{"offset": off(2), "funcs": [1, 2, 3, 0]}, {"offset": ["i32.const", b32(8)], "funcs": [4, 3]},
                     {"offset": ["i32.const", b32(3)], "funcs": [3]} if not goff else {"offset": ["i32.const", b32(9)], "funcs": [1]}]
            m = {"types": types, "imports": imports, "funcs": funcs, "elems": elems,
                 "exports": [{"name": "icall", "kind": "func", "idx": 5}, {"name": "icall64", "kind": "func", "idx": 6}]}
            if tabk == "defined":
                m["table"] = {"min": 12, "max": 12}
            script = []
            g, t = [], 0
            if goff:
                script.append({"op": "hostglobal", "t": "i32", "b": b32(2)})
                g = [1]
            if tabk == "imported":
                script.append({"op": "hosttable", "size": 12})
                t = 1
            script.append(inst(0, t, g))
            slots32 = [2, 3, 4, 5, 9] if not goff else [2, 3, 4, 5, 9]
            if not goff:
                slots32 = [2, 4, 5, 9] + [3]      # slot 3 overwritten by the third segment
            for s_ in sorted(set(slots32)):
                script.append({"op": "call", "inst": 1, "export": "icall", "args": [arg("i32", s_), arg("i32", 1)]})
            script.append({"op": "call", "inst": 1, "export": "icall64", "args": [arg("i32", 8), arg("i32", 5)]})
            items.append({"id": "tab_%s_%d" % (tabk, goff), "module": m, "script": script})
    # (c1) call_indirect with parameters and results of every type (argument promotion, result slots), through a host table that
    #      is LARGER than the declared minimum, with the element segment placed above that minimum
    for j in range(4 if tier == "quick" else 24):
        n = rng.choice([1, 2, 3, 5])
        params = [rng.choice(VT4) for _ in range(n)]
        if j == 0:
            params = ["f32", "i64", "f32", "f64"]
            n = len(params)
        rt = rng.choice(VT4)
        types = [{"p": params, "r": [rt]}, {"p": params + ["i32"], "r": [rt]}, {"p": params, "r": []}]
        pick = rng.randrange(n)
        cv = {"i32": "i32.wrap_i64", "i64": None, "f32": "f32.convert_i64_s", "f64": "f64.convert_i64_s"}
        # callee: hands all parameters to the host, returns parameter `pick` converted to the result type
        conv = {("i32", "i32"): [], ("i64", "i64"): [], ("f32", "f32"): [], ("f64", "f64"): [],
                ("i32", "i64"): [["i64.extend_i32_u"]], ("i32", "f32"): [["f32.convert_i32_u"]], ("i32", "f64"): [["f64.convert_i32_u"]],
                ("i64", "i32"): [["i32.wrap_i64"]], ("i64", "f32"): [["f32.convert_i64_u"]], ("i64", "f64"): [["f64.convert_i64_u"]],
                ("f32", "i32"): [["i32.reinterpret_f32"]], ("f32", "i64"): [["i32.reinterpret_f32"], ["i64.extend_i32_u"]], ("f32", "f64"): [["f64.promote_f32"]],
                ("f64", "i32"): [["i64.reinterpret_f64"], ["i32.wrap_i64"]], ("f64", "i64"): [["i64.reinterpret_f64"]], ("f64", "f32"): [["f32.demote_f64"]]}
        imports = [{"mod": "env", "name": "sink", "kind": "func", "type": 2, "ret": []},
                   {"mod": "env", "name": "base", "kind": "global", "t": "i32", "mut": False},
                   {"mod": "env", "name": "tab", "kind": "table", "min": 4, "max": None}]
        funcs = [{"type": 0, "locals": [], "body": [["local.get", k] for k in range(n)] + [["call", 0], ["local.get", pick]] + conv[(params[pick], rt)] + [["end"]]},
                 # icall(params..., slot): an extra operand below the arguments, the result combined with it afterwards
                 # icall(params..., slot) = table[slot](params...)
                 {"type": 1, "locals": [], "body": [["local.get", k] for k in range(n)] + [["local.get", n], ["call_indirect", 0, 0], ["end"]]}]
        m = {"types": types, "imports": imports, "funcs": funcs, "elems": [{"offset": ["global.get", 0], "funcs": [1, 1]}],
             "exports": [{"name": "icall", "kind": "func", "idx": 2}]}
        args = [arg(t, rng.choice(wasmgen.ARGPOOL[t])) for t in params]
        script = [{"op": "hostglobal", "t": "i32", "b": b32(9)}, {"op": "hosttable", "size": 12}, inst(0, 1, [1])]
        for slot in (9, 10):
            script.append({"op": "call", "inst": 1, "export": "icall", "args": args + [arg("i32", slot)]})
        items.append({"id": "icallty%d" % j, "module": m, "script": script})
    # (c2) random element segment layouts: constant and imported-global offsets in any order, overlaps, empty segments
    for j in range(8 if tier == "quick" else 60):
        tabk = rng.choice(["defined", "imported"])
        gvals = [rng.randrange(0, 10), rng.randrange(0, 10)]
        imports = [{"mod": "env", "name": "hostf", "kind": "func", "type": 0, "ret": b32(9999)},
                   {"mod": "env", "name": "base0", "kind": "global", "t": "i32", "mut": False},
                   {"mod": "env", "name": "base1", "kind": "global", "t": "i32", "mut": False}]
        if tabk == "imported":
            imports.append({"mod": "env", "name": "tab", "kind": "table", "min": 16, "max": 16})
        types = [{"p": ["i32"], "r": ["i32"]}, {"p": ["i32", "i32"], "r": ["i32"]}]
        nfun = 5
        funcs = [{"type": 0, "locals": [], "body": [["local.get", 0], ["i32.const", b32(100 * (k + 1))], ["i32.add"], ["end"]]} for k in range(nfun)]
        funcs.append({"type": 1, "locals": [], "body": [["local.get", 1], ["local.get", 0], ["call_indirect", 0, 0], ["end"]]})
        elems, slot = [], {}
        for _ in range(rng.randint(2, 5)):
            n = rng.choice([0, 1, 1, 2, 3, 4, 9, 12])
            fs = [rng.randrange(0, nfun + 1) for _ in range(n)]
            if n >= 9:
                # runs of one function (loop-compressed initialisers): a run that ends the segment, or one followed by other entries
                run_ = rng.choice([4, 5, 8, n])
                fs = [fs[0]] * run_ + fs[run_:]
            kind = rng.choice(["c", "c", "g0", "g1"])
            base = rng.randrange(0, 16 - n + 1) if kind == "c" else gvals[int(kind[1])]
            if base + n > 16:
                continue
            elems.append({"offset": ["i32.const", b32(base)] if kind == "c" else ["global.get", int(kind[1])], "funcs": fs})
            for i, f in enumerate(fs):
                slot[base + i] = f
        m = {"types": types, "imports": imports, "funcs": funcs, "elems": elems, "exports": [{"name": "icall", "kind": "func", "idx": 1 + nfun}]}
        if tabk == "defined":
            m["table"] = {"min": 16, "max": 16}
        script = [{"op": "hostglobal", "t": "i32", "b": b32(gvals[0])}, {"op": "hostglobal", "t": "i32", "b": b32(gvals[1])}]
        if tabk == "imported":
            script.append({"op": "hosttable", "size": 16})
        script.append(inst(0, 1 if tabk == "imported" else 0, [1, 2]))
        for s_ in sorted(slot):
            script.append({"op": "call", "inst": 1, "export": "icall", "args": [arg("i32", s_), arg("i32", 1)]})
        items.append({"id": "seg%d" % j, "module": m, "script": script})
    # (c3) fixed layouts with runs of one function inside a segment (4, 8 entries), followed by other entries
    for j, layout in enumerate(([(0, [1, 1, 1, 1, 2]), (6, [3, 3, 3, 3, 3, 3, 3, 3, 4, 5])], [(1, [2] * 9), (10, [1, 1, 1, 1]), (14, [5, 5])],
                                [(0, [4, 4, 4, 4, 4, 1, 4, 4, 4, 4, 2])])):
        types = [{"p": ["i32"], "r": ["i32"]}, {"p": ["i32", "i32"], "r": ["i32"]}]
        funcs = [{"type": 0, "locals": [], "body": [["local.get", 0], ["i32.const", b32(100 * (k + 1))], ["i32.add"], ["end"]]} for k in range(6)]
        funcs.append({"type": 1, "locals": [], "body": [["local.get", 1], ["local.get", 0], ["call_indirect", 0, 0], ["end"]]})
        m = {"types": types, "funcs": funcs, "table": {"min": 16, "max": 16},
             "elems": [{"offset": ["i32.const", b32(o_)], "funcs": fs_} for o_, fs_ in layout], "exports": [{"name": "icall", "kind": "func", "idx": 6}]}
        slots = sorted({o_ + i_ for o_, fs_ in layout for i_ in range(len(fs_))})
        items.append({"id": "segrun%d" % j, "module": m,
                      "script": [inst()] + [{"op": "call", "inst": 1, "export": "icall", "args": [arg("i32", s_), arg("i32", 1)]} for s_ in slots]})
    # (e) twins: functions whose locals and code are the same BYTES but whose types differ (the code is valid under both), next
    #     to each other and apart, short and long bodies (padded with nop): each is its own function, arguments and results keep
    #     their types; called directly, through the table and from another function
    vals = {"i32": [0x3FC00001, 0x01000001], "i64": [0x3FF8000000000001, 0x0020000000000001], "f32": [0x3FC00000, 0x4B800001], "f64": [0x3FF8000000000000, 0x4340000000000001]}
    for j, (ta, tb) in enumerate((("i32", "f32"), ("f32", "i32"), ("i64", "f64"), ("f64", "i64"), ("i32", "i64"), ("f32", "f64"), ("f64", "f32"))):
        types = [{"p": [ta], "r": [ta]}, {"p": [tb], "r": [tb]}, {"p": ["i32", ta], "r": [ta]}, {"p": ["i32", tb], "r": [tb]}]
        funcs, exps, script = [], [], [inst()]
        for ln in (0, 6, 22, 30, 62, 200):
            code = [["local.get", 0]] + [["nop"]] * ln + [["local.get", 0], ["drop"], ["end"]]
            base = len(funcs)
            funcs += [{"type": 0, "locals": [], "body": code}, {"type": 1, "locals": [], "body": code},          # adjacent twins
                      {"type": 0, "locals": [], "body": [["local.get", 0], ["call", base], ["end"]]},                # callers (different code)
                      {"type": 1, "locals": [], "body": [["local.get", 0], ["call", base + 1], ["end"]]},
                      {"type": 0, "locals": [], "body": code}]                                                    # a third copy, of the first type, apart
            for k, t in ((0, ta), (1, tb), (2, ta), (3, tb), (4, ta)):
                exps.append({"name": "t%d_%d" % (ln, k), "kind": "func", "idx": base + k})
                script += [{"op": "call", "inst": 1, "export": "t%d_%d" % (ln, k), "args": [arg(t, x)]} for x in vals[t]]
        items.append({"id": "twins%d" % j, "module": {"types": types, "funcs": funcs, "exports": exps}, "script": script})
    # (f) the type section may list one signature several times: call_indirect compares signatures, not their numbers.  Index
    #     given by a constant directly before the call and by a parameter; defined table with constant-offset segments
    types = [{"p": ["i32"], "r": ["i32"]}, {"p": ["i32"], "r": ["i32"]}, {"p": [], "r": ["i32"]}, {"p": ["i32"], "r": ["i32"]}, {"p": [], "r": ["i32"]}]
    funcs = [{"type": 0, "locals": [], "body": [["local.get", 0], ["i32.const", b32(10)], ["i32.add"], ["end"]]},        # slot 0, declared with type 0
             {"type": 1, "locals": [], "body": [["local.get", 0], ["i32.const", b32(20)], ["i32.add"], ["end"]]},        # slot 1, type 1 (same signature)
             {"type": 3, "locals": [], "body": [["local.get", 0], ["i32.const", b32(30)], ["i32.add"], ["end"]]},        # slot 2, type 3
             {"type": 4, "locals": [], "body": [["i32.const", b32(44)], ["end"]]}]                                          # slot 3, type 4 (= type 2)
    exps, script = [], [inst()]
    for slot in range(4):
        for tyi in ((0, 1, 3) if slot < 3 else (2, 4)):
            args_ = [["local.get", 0]] if slot < 3 else []
            funcs.append({"type": 0, "locals": [], "body": args_ + [["i32.const", b32(slot)], ["call_indirect", tyi, 0], ["end"]]})
            exps.append({"name": "k%d_%d" % (slot, tyi), "kind": "func", "idx": len(funcs) - 1})
            script.append({"op": "call", "inst": 1, "export": "k%d_%d" % (slot, tyi), "args": [arg("i32", 5)]})
            funcs.append({"type": 0, "locals": [], "body": args_ + [["local.get", 0], ["i32.const", b32(3)], ["i32.and"], ["call_indirect", tyi, 0], ["end"]]})
            exps.append({"name": "p%d_%d" % (slot, tyi), "kind": "func", "idx": len(funcs) - 1})
            script.append({"op": "call", "inst": 1, "export": "p%d_%d" % (slot, tyi), "args": [arg("i32", slot if slot < 3 else 7)]})
    items.append({"id": "duptypes", "module": {"types": types, "funcs": funcs, "exports": exps, "table": {"min": 4, "max": 4},
                                                "elems": [{"offset": ["i32.const", b32(0)], "funcs": [0, 1]}, {"offset": ["i32.const", b32(2)], "funcs": [2, 3]}]},
                  "script": script})
    # (g) a trap ends the call, nothing else: hundreds of calls that trap deep inside a recursion, each recovered by the embedder,
    #     and the instance answers ordinary calls as before
    rec = [{"type": 0, "locals": [], "body": [["local.get", 0], ["i32.eqz"], ["if", ""], ["unreachable"], ["end"],
                                               ["local.get", 0], ["i32.const", b32(1)], ["i32.sub"], ["call", 0], ["i32.const", b32(1)], ["i32.add"], ["end"]]},
           {"type": 0, "locals": [], "body": [["local.get", 0], ["i32.const", b32(3)], ["i32.mul"], ["end"]]},
           {"type": 0, "locals": [], "body": [["local.get", 0], ["i32.eqz"], ["if", "i32"], ["i32.const", b32(0)], ["else"], ["local.get", 0], ["i32.const", b32(1)], ["i32.sub"], ["call", 2],
                                               ["i32.const", b32(1)], ["i32.add"], ["end"], ["end"]]}]
    sc = [inst()]
    for r_ in range(320):
        sc.append({"op": "call", "inst": 1, "export": "deeptrap", "args": [arg("i32", 36)]})
        if r_ % 40 == 39:
            sc += [{"op": "call", "inst": 1, "export": "triple", "args": [arg("i32", r_)]}, {"op": "call", "inst": 1, "export": "count", "args": [arg("i32", 30)]}]
    items.append({"id": "traprecover", "fuel": 1000, "module": {"types": [{"p": ["i32"], "r": ["i32"]}], "funcs": rec,
                                                               "exports": [{"name": "deeptrap", "kind": "func", "idx": 0}, {"name": "triple", "kind": "func", "idx": 1},
                                                                           {"name": "count", "kind": "func", "idx": 2}]}, "script": sc})
    # (d) import names: distinct imports must stay distinct; identifiers come from Mangle.tla
    pairs = [("env", "f"), ("env", "f_g"), ("env", "f__g"), ("a_", "b"), ("a", "_b"), ("m0", "Xx"), ("m0", "x$y"), ("m_0", "x.y-z"),
             # runs of three, four and five underscores inside a name (every underscore that follows one is doubled)
             ("env", "f___g"), ("env", "f____g"), ("q", "h_____i"), ("r___s", "t")]
    imports = []
    for k, (mo, na) in enumerate(pairs):
        imports.append({"mod": mo, "name": na, "kind": "func", "type": 0, "ret": b32(50 + k), "logname": "%s.%s" % (mo, na),
                        "cident": idents.get((mo, na))})
    funcs = [{"type": 0, "locals": [], "body": [["call", k], ["end"]]} for k in range(len(pairs))]
    # the model logs the import's field name; make it unique per pair
    for im in imports:
        im["name_for_model"] = im["logname"]
    items.append({"id": "names", "module": {"types": [{"p": [], "r": ["i32"]}], "imports": imports, "funcs": funcs,
                                             "exports": [{"name": "c%d" % k, "kind": "func", "idx": len(pairs) + k} for k in range(len(pairs))] +
                                                        # ... and in export names
                                                        [{"name": n_, "kind": "func", "idx": len(pairs) + k_} for k_, n_ in enumerate(("ns___value", "ns____v", "_____", "x___"))]},
                  "script": [inst()] + [{"op": "call", "inst": 1, "export": "c%d" % k, "args": []} for k in range(len(pairs))] +
                            [{"op": "call", "inst": 1, "export": n_, "args": []} for n_ in ("ns___value", "ns____v", "_____", "x___")]})
    return items


def sig(it, k, why, build, e, a):
    if it["id"] == "names":
        return "mangle:underscore-boundary" if it["script"][k - 1].get("export") in ("c3", "c4") else "names:" + it["script"][k - 1].get("export", "?")
    return "%s:%s" % (it["id"], why.split(":")[0])


def main():
    tier = sys.argv[1] if len(sys.argv) > 1 else os.environ.get("VERIF_TIER", "quick")
    rng = random.Random(SEED)
    v = Verdict("C04", tier)
    wd = common.scratch("c04-")
    try:
        # 1. injectivity of the identifier scheme, all names up to length 2 (quick) / 3 (thorough) over the class alphabet
        outf = os.path.join(wd, "mangle.json")
        cfg = os.path.join(wd, "MangleCheck.cfg")
        open(cfg, "w").write(open(os.path.join(common.SPEC, "MangleCheck.cfg")).read())
        mc = tlc_ok(tlc("Mangle", cfg=cfg, env={"OUTFILE": outf}, workers=4, timeout=3000, xmx="8g"), "MangleCheck")
        rep = read_ndjson(outf)[0]
        if tier != "quick":
            # names up to length 3 over the three classes that interact at the separator (letter, escape letter, underscore)
            open(cfg, "w").write(open(os.path.join(common.SPEC, "MangleCheck.cfg")).read().replace("MaxLen = 2", "MaxLen = 3\nCONSTANT Alphabet <- AlphabetSmall"))
            mc3 = tlc_ok(tlc("Mangle", cfg=cfg, env={"OUTFILE": outf}, workers=4, timeout=3000, xmx="8g"), "MangleCheck length 3")
            rep3 = read_ndjson(outf)[0]
            rep["nonboundary"] += rep3["nonboundary"]
            rep["otherexample"] = rep["otherexample"] or rep3["otherexample"]
            rep["pairs"] += rep3["pairs"]
        # 2. identifiers of the names used below, from the specification
        names = [("env", "f"), ("env", "f_g"), ("env", "f__g"), ("a_", "b"), ("a", "_b"), ("m0", "Xx"), ("m0", "x$y"), ("m_0", "x.y-z"),
                 ("env", "f___g"), ("env", "f____g"), ("q", "h_____i"), ("r___s", "t")]
        inf, idf = os.path.join(wd, "req.ndjson"), os.path.join(wd, "idents.ndjson")
        write_ndjson(inf, [{"mod": list(mo.encode()), "name": list(na.encode())} for mo, na in names])
        mi = tlc_ok(tlc("Mangle", cfg="MangleIdent.cfg", env={"INFILE": inf, "OUTFILE": idf}, timeout=300), "MangleIdent")
        idents = {(bytes(r["mod"]).decode(), bytes(r["name"]).decode()): bytes(r["ident"]).decode() for r in read_ndjson(idf)}
    finally:
        shutil.rmtree(wd, ignore_errors=True)
    if rep["nonboundary"] > 0:
        v.deviation("mangle:model-collision-other", {"example": rep["otherexample"]})
    gst = {}
    items = wasmgen.programs("calls", 200 if tier == "quick" else 3000, SEED, args_per_prog=4, stats=gst)
    items += directed(rng, tier, idents)
    # the model logs import field names: give the 'names' item unique field names on the model side
    for it in items:
        if it["id"] == "names":
            for im in it["module"]["imports"]:
                im["name"], im["realname"] = im["logname"], im["name"]
    # optimising builds of both compilers, and one with every function in a file of its own (no inlining across them)
    builds = [{"name": "gcc-O1", "cc": "gcc", "cflags": ("-O1",)}, {"name": "gcc-O2-f1", "cc": "gcc", "cflags": ("-O2",), "w2c2_opts": ("-m", "-f", "1")},
              # a C library that is as unhelpful as the standard allows (see machine.HOSTILE_LIBC)
              machine.HOSTILE_LIBC]
    if tier != "quick":
        builds.append({"name": "clang-O1", "cc": "clang", "cflags": ("-O1",)})
    # the binary must carry the real names: encode with realname
    import wasm_encode
    for it in items:
        if it["id"] == "names":
            real = dict(it["module"], imports=[dict(im, name=im["realname"]) for im in it["module"]["imports"]])
            it["wasm"] = wasm_encode.encode(machine.enc_module(real))
    st, exp = machine.replay(v, items, builds, sigfn=sig)
    if rep["collisions"] > 0 and "mangle:underscore-boundary" not in v.known_hit and not any(x[0] == "mangle:underscore-boundary" for x in v.violations):
        # the scheme collides in the model but the real tool kept the two imports apart: nothing to report
        pass
    samples = [{"item": it["id"], "script": [(o.get("export"), len(o.get("args", []))) for o in it["script"][1:5]],
                "spec_host_trace": exp[(it["id"], 2)]["host"][:2] if (it["id"], 2) in exp else None} for it in items[-6:-1]]
    cov = {"states": st["states"] + gst.get("states", 0) + mc["distinct"] + mi["distinct"],
           "transitions": st["transitions"] + gst.get("transitions", 0) + mc["generated"] + mi["generated"],
           "traces_validated_against_impl": st["ops_compared"], "samples": samples,
           "evaluations": st["ops_compared"], "distinct_nontrivial": st["distinct_nontrivial"],
           "rule": "WasmGen profile calls (DAG call graphs over 4 functions, 2 host imports with mixed signatures, call_indirect "
                   "through element-initialised slots) plus directed modules: argument order for 0..14 mixed parameters with an extra "
                   "operand below, host imports with results, exported imports, direct and mutual recursion with per-level host log, "
                   "call_indirect with dynamic index over defined/imported tables and constant/imported-global element offsets, "
                   "import-name pairs; compared: results, traps, ordered host trace (callee, argument bits, instance)",
           "mangle_names": rep["names"], "mangle_pairs": rep["pairs"], "mangle_collisions_in_model": rep["collisions"],
           "mangle_collisions_not_underscore_boundary": rep["nonboundary"], "generated_bodies": gst.get("bodies", 0),
           "builds": [b["name"] for b in builds], "ops_skipped_undefined": st["ops_skipped_undefined"], "exhaustive": False}
    # the repository's own spec-suite corpus for this instruction family: model vs the suite's expectations, w2c2 vs model
    sys.path.insert(0, os.path.dirname(os.path.abspath(__file__)))
    import corpus
    cov.update(corpus.phase(v, "C04", tier))
    return v.finish("model_checking", cov,
                    ["call_indirect is exercised on in-bounds, initialised, correctly typed slots only (as the property states)",
                     "recursion depth bounded by the model's frame limit (40) and fuel"])


main_wrap(main)
