#!/usr/bin/env python3
"""C12 - WASI file I/O returns the bytes, counts and offsets a POSIX file would (DESIGN.md 3/C12)."""
import hashlib
import os
import random
import shutil
import sys
sys.path.insert(0, os.path.join(os.path.dirname(os.path.abspath(__file__)), "..", "bind", "py"))
import common
import wasi
from common import SEED, Verdict, main_wrap, pmap

NAMES = ["a", "b", "d/c"]
NEGOFFS = [2 ** 64 - 1, 2 ** 63, 2 ** 63 + 5, 2 ** 64 - 2]        # negative when the host reads them as file offsets
BIGOFFS = [2 ** 32, 2 ** 32 + 1, 2 ** 33 + 5, 2 ** 31, 2 ** 32 - 1]


def gen_history(rng, hid, length):
    """Seeded walk; the tracker of open descriptors only steers the walk towards meaningful calls
    (the model, not this tracker, says what each call must do)."""
    setup = [{"call": "mkdirs", "path": "d"}]
    if rng.random() < 0.6:
        setup.append({"call": "mkfile", "path": "a", "bytes": [rng.randrange(1, 256) for _ in range(rng.choice([0, 1, 5, 20]))]})
    if rng.random() < 0.3:
        setup.append({"call": "mkfile", "path": "d/c", "bytes": [7, 7, 7]})
    calls, fds, nextfd = [], [], 4
    abi = lambda: rng.choice("pu")
    dirfds = [3]
    existing = {s["path"] for s in setup}
    for _ in range(length):
        r = rng.random()
        if r < 0.22 or not fds:
            dirfd = rng.choice(dirfds)
            name = rng.choice(NAMES)
            oflags = rng.choice([0, 0, 1, 1, 1 | 4, 1 | 8, 8, 2, 1 | 4 | 8, 2 | 8, 2 | 1, 2 | 1 | 8, 2 | 1 | 4, 4, 4 | 8])
            acc = rng.choice([(True, False), (False, True), (True, True), (True, True), (False, False)])
            c = {"call": "open", "abi": abi(), "dirfd": dirfd, "path": name, "abs": rng.random() < 0.15, "oflags": oflags,
                 "rd": acc[0], "wr": acc[1], "app": rng.random() < 0.25}
            c["parent"] = os.path.dirname(name)
            if dirfd != 3:
                c["path"], c["abs"], c["parent"] = "c", False, ""         # relative to the directory descriptor opened on d
            calls.append(c)
            target = c["path"] if dirfd == 3 else "d/c"
            ok = (target in existing and not (oflags & 1 and oflags & 4) and not oflags & 2) or (target not in existing and oflags & 1 and not oflags & 2)
            if ok:                       # a guess that keeps the walk on live descriptors; wrong guesses only cost coverage
                existing.add(target)
                fds.append(nextfd)
                nextfd += 1
            elif rng.random() < 0.2:
                fds.append(nextfd + rng.choice([0, 1, 5]))      # never-issued numbers
            if rng.random() < 0.1:
                calls.append({"call": "open", "abi": abi(), "dirfd": 3, "path": "d", "abs": False, "oflags": rng.choice([0, 2]), "rd": True, "wr": False, "app": False})
                dirfds.append(nextfd)
                if rng.random() < 0.3:
                    fds.append(nextfd)       # data calls on a directory descriptor
                nextfd += 1
            continue
        if rng.random() < 0.07:
            # the NAME of a (probably open) file goes away or is given to another file while descriptors hold the file:
            # reads, writes, seeks and fd_filestat_get keep working on the file that was opened (the temporary-file idiom,
            # log rotation, atomic replacement)
            name = rng.choice(NAMES)
            if rng.random() < 0.5:
                calls.append({"call": "unlink", "abi": abi(), "dirfd": 3, "path": name, "parent": os.path.dirname(name)})
                existing.discard(name)
            else:
                other = rng.choice([x for x in NAMES if x != name])
                calls.append({"call": "rename", "abi": abi(), "dirfd": 3, "fd": 3, "path": name, "path2": other,
                              "parent": os.path.dirname(name), "parent2": os.path.dirname(other)})
                if name in existing:
                    existing.discard(name)
                    existing.add(other)
            calls.append({"call": rng.choice(["filestat", "filestat", "tell", "read"]), "abi": abi(), "fd": rng.choice(fds), "lens": [3]})
            continue
        fd = rng.choice(fds)
        many = rng.random() < 0.12         # long scatter/gather vectors (short pieces): 17..60 segments
        if many and r < 0.72:
            n = rng.choice([17, 18, 31, 32, 33, 48, 60])
            if r < 0.50:
                segs = [[rng.randrange(256) for _ in range(rng.choice([0, 1, 1, 2, 3]))] for _ in range(n)]
                calls.append({"call": "write", "abi": abi(), "fd": fd, "segs": segs} if r < 0.25 else
                             {"call": "pwrite", "abi": abi(), "fd": fd, "offset": rng.choice([0, 1, 2, 7, 30, 2 ** 32]), "segs": segs})
            else:
                lens = [rng.choice([0, 1, 1, 2, 3]) for _ in range(n)]
                calls.append({"call": "read", "abi": abi(), "fd": fd, "lens": lens} if r < 0.61 else
                             {"call": "pread", "abi": abi(), "fd": fd, "offset": rng.choice([0, 1, 3, 10]), "lens": lens})
        elif r < 0.40:
            segs = [[rng.randrange(256) for _ in range(rng.choice([0, 1, 2, 5, 9]))] for _ in range(rng.choice([0, 1, 1, 2, 3]))]
            calls.append({"call": "write", "abi": abi(), "fd": fd, "segs": segs})
        elif r < 0.50:
            segs = [[rng.randrange(256) for _ in range(rng.choice([0, 1, 3]))] for _ in range(rng.choice([1, 2]))]
            calls.append({"call": "pwrite", "abi": abi(), "fd": fd, "offset": rng.choice([0, 1, 2, 7, 30] + BIGOFFS[:2] + [rng.choice(BIGOFFS), rng.choice(NEGOFFS)]), "segs": segs})
        elif r < 0.64:
            calls.append({"call": "read", "abi": abi(), "fd": fd, "lens": [rng.choice([0, 1, 2, 4, 50]) for _ in range(rng.choice([0, 1, 2, 3]))]})
        elif r < 0.72:
            calls.append({"call": "pread", "abi": abi(), "fd": fd, "offset": rng.choice([0, 1, 3, 2 ** 32, 2 ** 32 + 1, 40, rng.choice(NEGOFFS)]), "lens": [rng.choice([1, 3, 8]) for _ in range(rng.choice([1, 2]))]})
        elif r < 0.84:
            delta = rng.choice([0, 1, 2, 5, -1, -2, -100, 2 ** 32 + 3, 2 ** 40, -(2 ** 32)])
            calls.append({"call": "seek", "abi": abi(), "fd": fd, "delta": delta & (2 ** 64 - 1), "whence": rng.choice([0, 1, 2, 2, 3])})
        elif r < 0.89:
            calls.append({"call": "tell", "abi": abi(), "fd": fd})
        elif r < 0.96:
            calls.append({"call": "filestat", "abi": abi(), "fd": fd})
        else:
            calls.append({"call": "close", "abi": abi(), "fd": fd})
            if rng.random() < 0.7:
                fds.remove(fd)
    # where the segments of a vector lie in guest memory is the guest's business: in slots of their own, one directly behind the other (an
    # empty segment then points at the end of its predecessor), or with an empty segment pointing at the start of its successor
    lrng = random.Random(SEED * 7919 + hid)
    for c_ in calls:
        if c_["call"] in ("read", "pread", "write", "pwrite"):
            c_["iovlayout"] = lrng.choice([0, 0, 0, 1, 2])
    if hid % 6 == 0 and fds:
        # non-empty, empty, non-empty: the middle one shares its address with the one behind it
        calls.append({"call": "write", "abi": "p", "fd": fds[-1], "segs": [[0x41, 0x42, 0x43], [], [0x44, 0x45]], "iovlayout": 2})
        calls.append({"call": "pread", "abi": "u", "fd": fds[-1], "offset": 0, "lens": [2, 0, 3, 0, 1], "iovlayout": 2})
    return {"id": "h%d" % hid, "setup": setup, "calls": calls}


def sig(c, why):
    k = c["call"]
    if k in ("pwrite", "pread") and c.get("offset", 0) >= 2 ** 32:
        return "%s:offset-above-32-bits" % k
    if k == "filestat" and c.get("abi") == "u" and "outside the specified result" in why:
        return "filestat:unstable-record-size"
    return "%s:%s" % (k, why.split(":")[0])


def run_all(v, hists, wd, tier, pid="C12", ls_after=("open", "write", "pwrite", "unlink", "rename")):
    exp, st = wasi.model_histories(hists, wd)
    exe = wasi.build_driver(wd)
    compared = 0

    def one(h):
        return wasi.run_history(exe, h["calls"], wd, h["id"], setup=h["setup"], ls_after=ls_after)
    # the tracing configuration (-DWASI_TRACE_ENABLED=1, what one builds to debug a guest) answers every call the same way;
    # its additional statements run under the same ASan observer
    exe_tr = wasi.build_driver(wd, name="wasidrv-trace", extra=("-DWASI_TRACE_ENABLED=1",))
    sub = hists[::4] if tier == "quick" else hists

    def one_tr(h):
        return wasi.run_history(exe_tr, h["calls"], wd, h["id"] + "-tr", setup=h["setup"], ls_after=ls_after)
    # an embedder may pre-open a directory by path alone or hand over a directory descriptor it has opened as well: the guest
    # sees the same pre-open either way
    sub2 = hists[1::4] if tier == "quick" else hists

    def one_nat(h):
        return wasi.run_history(exe, h["calls"], wd, h["id"] + "-nat", setup=h["setup"], ls_after=ls_after, native_preopen=True)
    # ... or offer pre-opens that are refused (no path, a path beyond the host's limit) before the real one: they take no number
    sub3 = hists[2::4] if tier == "quick" else hists

    def one_bad(h):
        return wasi.run_history(exe, h["calls"], wd, h["id"] + "-bad", setup=h["setup"], ls_after=ls_after, bad_preopens=True)
    # ... and the host built in the configuration of a big-endian machine (forced on this one: every multi-byte value it stores into or
    # reads from guest memory is byte-reversed, consistently with the accessors the driver uses for what it puts there): the same calls
    # leave the same values, most significant byte first
    exe_be = wasi.build_driver(wd, name="wasidrv-be", extra=("-DWASM_ENDIAN=1",))
    sub4 = (hists[3::4] + [h_ for h_ in hists if h_.get("be") and h_ not in hists[3::4]]) if tier == "quick" else hists

    def one_be(h):
        return wasi.run_history(exe_be, h["calls"], wd, h["id"] + "-be", setup=h["setup"], ls_after=ls_after)
    # ... and the host process started with standard input (or standard error) closed - absent, not redirected: the numbering the guest
    # sees is the same (0-2 the standard streams, 3 the pre-open, then upwards); calls on the absent stream itself are left out
    sub5 = [h_ for h_ in (hists[::5] if tier == "quick" else hists) if not any(c_.get("fd") in (0, 2) or c_.get("dirfd") in (0, 2) for c_ in h_["calls"])]

    def one_cl(h):
        which = (0,) if int(hashlib.sha1(h["id"].encode()).hexdigest(), 16) % 2 else (2,)
        return wasi.run_history(exe, h["calls"], wd, h["id"] + "-cl", setup=h["setup"], ls_after=ls_after, closed_at_start=which)
    results = pmap(one, hists) + pmap(one_tr, sub) + pmap(one_nat, sub2) + pmap(one_bad, sub3) + pmap(one_be, sub4) + pmap(one_cl, sub5)
    distinct = set()
    tags = [""] * len(hists) + ["-tr"] * len(sub) + ["-nat"] * len(sub2) + ["-bad"] * len(sub3) + ["-be"] * len(sub4) + ["-cl"] * len(sub5)
    for h, tag, (recs, index, err, rc, sb) in zip(list(hists) + list(sub) + list(sub2) + list(sub3) + list(sub4) + list(sub5), tags, results):
        h2id = h["id"] + tag
        ns = len(h["setup"])
        by_i = {r["i"]: r for r in recs if "i" in r}
        poisoned = False
        for line_no, (kind, j) in enumerate(index, start=1):
            c = h["calls"][j]
            m = exp[(h["id"], ns + j + 1)]
            a = by_i.get(line_no)
            if a is None:
                s = wasi.asan_sig(err)
                v.deviation(s or "crash:%s" % c["call"], {"history": h["id"], "call": c, "rc": rc, "stderr": err[-1200:],
                                                          "calls_so_far": [x["call"] for x in h["calls"][:j + 1]]})
                poisoned = True
                break
            if h2id.endswith("-nat") and kind == "call" and c.get("fd") == 3 and c["call"] in ("tell", "seek", "sync", "datasync", "read", "pread", "write", "pwrite", "filestat"):
                break                    # data calls on a pre-open that HAS a native descriptor go to the host (the model describes the path-only pre-open)
            if m["errno"] == 999:
                # (an unspecified seek - on a directory - moves a position the model does not track, and later errors depend on it)
                if c["call"] in ("tell", "read", "pread", "filestat", "pathstat", "readlink", "fdstat", "readdir", "sync", "datasync", "prestat", "prestatname"):
                    continue             # the model leaves this call unspecified; it cannot have changed anything the model tracks
                break                    # unspecified and possibly state-changing: the rest of the history is not comparable
            why = wasi.compare_call(c, m, a, sb, "big" if tag == "-be" else "little") if kind == "call" else wasi.compare_ls(m, a)
            compared += 1
            distinct.add(str(c) + str(m["errno"]))
            if why:
                v.deviation((sig(c, why) + (":big-endian-host" if tag == "-be" else ":standard-stream-closed-at-start" if tag == "-cl" else "")) if kind == "call" else "%s:host-files:%s" % (c["call"], "offset-above-32-bits" if c.get("offset", 0) >= 2 ** 32 else why.split(":")[0][:30]),
                            {"history": h["id"], "call_index": j, "call": c, "why": why, "calls_so_far": [x["call"] for x in h["calls"][:j + 1]]})
                break      # later observations of this history depend on the state that already differs
        if not poisoned and rc != 0:
            s = wasi.asan_sig(err)
            v.deviation(s or "exit-status:%d" % rc, {"history": h["id"], "stderr": err[-800:]})
    st.update({"compared": compared, "distinct": len(distinct)})
    return st, exp


def main():
    tier = sys.argv[1] if len(sys.argv) > 1 else os.environ.get("VERIF_TIER", "quick")
    rng = random.Random(SEED)
    v = Verdict("C12", tier)
    n, length = (250, 15) if tier == "quick" else (5000, 30)
    hists = [gen_history(rng, j, length) for j in range(n)]
    wd = common.scratch("c12-")
    try:
        st, exp = run_all(v, hists, wd, tier)
        # guest threads (wasi-threads) inside fd_pwrite / fd_pread / fd_write / fd_read at the same time, each on a file of its own: every
        # thread's counts and bytes are those of its own vector
        for asan_ in (True, False):
            tio, tse, trc = wasi.run_threads_io(wd, tier, asan=asan_)
            if tio is None:
                v.deviation(wasi.asan_sig(tse) or "io:threads:crash", {"rc": trc, "stderr": tse[-800:]})
            elif tio["bad_io"]:
                v.deviation("io:threads:wrong-transfer", tio)
            else:
                st["compared"] += tio["calls"]
        # host faults: the host function that carries out a call fails (every error POSIX lists for it, in turn): the call must
        # return the WASI number of that error, store nothing, and leave position, descriptor numbering and files as they were
        frng = random.Random(SEED + 12012)
        fh = wasi.fault_histories(frng, wasi.FILE_FAULTS, 4 if tier == "quick" else None)
        fst, _ = wasi.run_fault_histories(v, fh, wd, "hostfault")
        st["states"] += fst["states"]
        st["transitions"] += fst["transitions"]
        st["compared"] += fst["compared"]
        st["distinct"] += fst["distinct_faults"]
    finally:
        shutil.rmtree(wd, ignore_errors=True)
    h0 = hists[0]
    cov = {"states": st["states"], "transitions": st["transitions"], "traces_validated_against_impl": len(hists) + len(fh),
           "samples": [{"history": [dict(c, segs=c.get("segs", [])[:2]) for c in h0["calls"][:6]],
                        "spec_says": [{"errno": exp[(h0["id"], len(h0["setup"]) + j + 1)]["errno"], "out": exp[(h0["id"], len(h0["setup"]) + j + 1)]["out"]} for j in range(min(6, len(h0["calls"])))]}],
           "evaluations": st["compared"], "distinct_nontrivial": st["distinct"],
           "rule": "seeded histories of path_open (create/exclusive/truncate/directory/append, read/write rights, relative to the pre-open or to a "
                   "directory descriptor, absolute paths), fd_write/fd_pwrite (0..3 segments incl. empty ones), fd_read/fd_pread, fd_seek (both whence "
                   "encodings, negative and >2^32 deltas), fd_tell, fd_filestat_get (both record layouts), fd_close through both ABI name spaces, "
                   "offsets incl. 2^32 and 2^32+1 (sparse files); after EVERY call errno and every changed guest-memory byte, after every mutating "
                   "call the host files (size, first 64 and last 16 bytes), are compared with WasiFs.tla; host faults: histories in which the host "
                   "function behind one call (open / read / write / lseek / fstat / fsync families, injected at link level) fails with an error POSIX "
                   "lists for it - WasiFs.CallWithFault: the WASI number of that error, nothing stored, position / next descriptor number / files unchanged",
           "histories": len(hists), "host_fault_histories": len(fh),
           "host_faults": {k: fst[k] for k in ("faults_fired", "faults_not_reached", "distinct_faults")}, "exhaustive": False}
    return v.finish("model_checking", cov,
                    ["Linux semantics of the host calls (tmpfs/ext4 under /tmp); device, inode, link count and time stamps of filestat are not predicted",
                     "an ASan build of wasi.c is the observer for host-memory errors"])


if __name__ == "__main__":
    main_wrap(main)
