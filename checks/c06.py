#!/usr/bin/env python3
"""C06 - instantiation builds the specified initial state, once, per instance (DESIGN.md 3/C06)."""
import itertools
import os
import random
import sys
sys.path.insert(0, os.path.join(os.path.dirname(os.path.abspath(__file__)), "..", "bind", "py"))
import machine
import wasm_encode
from common import SEED, Verdict, main_wrap
from wasmgen import b32, b64, CONSTS

VT4 = ["i32", "i64", "f32", "f64"]


def arg(t, v):
    return {"t": t, "b": b32(v) if t in ("i32", "f32") else b64(v)}


# (module, field) names as they may appear in a binary: the resolver must receive exactly these bytes.  Non-ASCII
# bytes followed by hexadecimal digits, octal digits, quotes, backslashes, trigraph and format characters.
WIRE = [("env", "m e m"), ("donn\u00e9es", "base"), ("t\u00eate", "\u00e9a1"), ("a\"b", "c\\d"), ("??/", "%s%n"), ("\x01\x7f", "\u00ff0"),
        ("m\u00fc7", "\u2603f00d"), ("", "x"), ("x", " "), ("\t", "\n9"), ("caf\u00e9", "\u00e9\u00e9e9"), ("\u20acb", "\U0001f600c0de"),
        # code points at the boundaries of the UTF-8 encoding (the last before the surrogates, the first after, the last of all)
        ("\ud55c\uae00", "\ud7ff1"), ("\U0010ffff", "\ue000\uffffa"), ("\u07ff\u0800", "\u007f\u0080")]


def wire(rng, im, used):
    """Gives a non-function import one of the names above (each pair at most once per module)."""
    free = [w for w in WIRE if w not in used]
    if free and rng.random() < 0.7:
        w = rng.choice(free)
        used.append(w)
        im["wire_mod"], im["wire_name"] = w
    return im


def make_case(cid, rng, memk, tabk, nglob_imp, nglob_def, ndata, nelem, start, two_instances, share):
    """memk/tabk in {none, defined, imported}."""
    types, funcs, exports, imports, globals_ = [], [], [], [], []
    used = []

    def ty(p, r):
        t = {"p": p, "r": r}
        if t not in types:
            types.append(t)
        return types.index(t)
    imports.append({"mod": "env", "name": "log", "kind": "func", "type": ty(["i32"], []), "ret": []})
    host_ops, binds_g = [], []
    gtypes = []
    # imported globals: the first is an immutable i32 used as segment offset
    for g in range(nglob_imp):
        t = "i32" if g == 0 else rng.choice(VT4)
        mut = (g > 0) and rng.random() < 0.5
        imports.append(wire(rng, {"mod": "env", "name": "gi%d" % g, "kind": "global", "t": t, "mut": mut}, used))
        val = b32(rng.choice([3, 5, 9])) if g == 0 else rng.choice(CONSTS[t])
        host_ops.append({"op": "hostglobal", "t": t, "b": val})
        gtypes.append((t, mut))
    # an imported memory with or without a declared maximum; without one the embedder's memory may have any maximum
    nomax = memk == "imported" and rng.random() < 0.4
    hostmax = rng.choice([65536, 65536, 65535, 3]) if nomax else 2
    if memk == "imported":
        imports.append(wire(rng, {"mod": "env", "name": "mem", "kind": "memory", "min": 1, "max": None if nomax else 2}, used))
    if tabk == "imported":
        imports.append(wire(rng, {"mod": "env", "name": "tab", "kind": "table", "min": 8, "max": 8}, used))
    for g in range(nglob_def):
        t = rng.choice(VT4)
        mut = rng.random() < 0.6
        if nglob_imp and rng.random() < 0.35:
            src = rng.randrange(nglob_imp)
            if not gtypes[src][1]:
                t = gtypes[src][0]
                init = ["global.get", src]
            else:
                init = [t + ".const", rng.choice(CONSTS[t])]
        else:
            init = [t + ".const", rng.choice(CONSTS[t])]
        globals_.append({"t": t, "mut": mut, "init": init})
        gtypes.append((t, mut))

    def add(name, p, r, body, locs=()):
        funcs.append({"type": ty(p, r), "locals": [list(x) for x in locs], "body": body + [["end"]]})
        exports.append({"name": name, "kind": "func", "idx": len(funcs)})   # + 1 import
    for g, (t, mut) in enumerate(gtypes):
        add("get%d" % g, [], [t], [["global.get", g]])
        if mut and t in ("i32", "i64"):
            add("set%d" % g, [t], [], [["local.get", 0], ["global.set", g]])
    has_mem = memk != "none"
    if has_mem:
        add("peek", ["i32"], ["i32"], [["local.get", 0], ["i32.load8_u", 0, 0]])
        add("poke", ["i32", "i32"], [], [["local.get", 0], ["local.get", 1], ["i32.store8", 0, 0]])
    # marker functions for the table
    for k in range(3):
        add("mark%d" % k, [], ["i32"], [["i32.const", b32(100 + k)]])
    has_tab = tabk != "none"
    if has_tab:
        add("icall", ["i32"], ["i32"], [["local.get", 0], ["call_indirect", ty([], ["i32"]), 0]])
    start_idx = None
    if start:
        body = [["i32.const", b32(77)], ["call", 0]]
        if has_mem:
            body += [["i32.const", b32(40)], ["i32.const", b32(0xEE)], ["i32.store8", 0, 0],
                     # the start function sees the data segments already applied
                     ["i32.const", b32(3)], ["i32.load8_u", 0, 0], ["call", 0]]
        mg = [g for g, (t, mut) in enumerate(gtypes) if mut and t == "i32" and g >= nglob_imp]
        if mg:
            body += [["global.get", mg[0]], ["i32.const", b32(1)], ["i32.add"], ["global.set", mg[0]],
                     ["global.get", mg[0]], ["call", 0]]
        add("startfn", [], [], body)
        start_idx = len(funcs)
    data = []
    if has_mem:
        for d in range(ndata):
            kind = rng.choice(["const", "const", "glob", "passive", "empty", "overlap", "zeros"])
            if kind == "glob" and not nglob_imp:
                kind = "const"
            bytes_ = [rng.randrange(1, 256) for _ in range(rng.choice([1, 2, 5, 9]))]
            if kind == "zeros":
                # an all-zero (or partly zero) segment laid over what earlier segments wrote: order matters
                prev = [x for x in data if x.get("mode") == "active" and x["offset"][0] == "i32.const" and x["bytes"]]
                base = int.from_bytes(bytes(prev[-1]["offset"][1]), "little") if prev else 4
                data.append({"mode": "active", "offset": ["i32.const", b32(base + rng.choice([0, 1]))],
                             "bytes": [0] * rng.choice([1, 2, 4]) + ([0x5A] if rng.random() < 0.3 else [])})
            elif kind == "passive":
                data.append({"mode": "passive", "bytes": bytes_})
            elif kind == "empty":
                data.append({"mode": "active", "offset": ["i32.const", b32(rng.choice([0, 65536]))], "bytes": []})
            elif kind == "glob":
                data.append({"mode": "active", "offset": ["global.get", 0], "bytes": bytes_})
            elif kind == "overlap":
                data.append({"mode": "active", "offset": ["i32.const", b32(rng.choice([2, 4, 6]))], "bytes": bytes_})
            else:
                data.append({"mode": "active", "offset": ["i32.const", b32(rng.choice([0, 1, 3, 8, 65536 - len(bytes_)]))], "bytes": bytes_})
    elems = []
    if has_tab:
        marks = [1 + [e["name"] for e in exports].index("mark%d" % k) for k in range(3)]
        marks = [exports[m - 1]["idx"] for m in marks]
        for e in range(nelem):
            off = ["global.get", 0] if (nglob_imp and rng.random() < 0.4) else ["i32.const", b32(rng.choice([0, 1, 2, 4]))]
            elems.append({"offset": off, "funcs": [rng.choice(marks) for _ in range(rng.choice([0, 1, 2, 3]))]})
    m = {"types": types, "imports": imports, "funcs": funcs, "globals": globals_, "exports": exports,
         "data": data, "elems": elems, "start": start_idx}
    if memk == "defined":
        m["memory"] = {"min": 1, "max": 2, "shared": True} if rng.random() < 0.35 else {"min": 1, "max": 2}
        m["exports"].append({"name": "memory", "kind": "memory", "idx": 0})
    if tabk == "defined":
        m["table"] = {"min": 8, "max": 8}
    if any(d["mode"] == "passive" for d in data):
        m["datacount"] = True
    # script
    script = list(host_ops)
    nhost_g = len(host_ops)
    gaddrs = list(range(1, nglob_imp + 1))
    maddr = taddr = 0
    nm = nt = 0
    if memk == "imported":
        script.append({"op": "hostmem", "pages": 1, "max": hostmax, "shared": False})
        nm += 1
        maddr = nm
    if tabk == "imported":
        script.append({"op": "hosttable", "size": 8})
        nt += 1
        taddr = nt
    script.append({"op": "instantiate", "binds": {"mem": maddr, "table": taddr, "globals": gaddrs}})
    ninst = 1
    if two_instances:
        g2, m2, t2 = gaddrs, maddr, taddr
        if not share:
            # the second instance gets its own embedder objects
            g2 = []
            for g in range(nglob_imp):
                script.append(dict(host_ops[g]))
                nhost_g += 1
                g2.append(nhost_g)
            if memk == "imported":
                script.append({"op": "hostmem", "pages": 1, "max": hostmax, "shared": False})
                nm += 1 + (0)
                m2 = nm + (1 if memk == "defined" else 0)
            if tabk == "imported":
                script.append({"op": "hosttable", "size": 8})
                nt += 1
                t2 = nt
        # store addresses: defined memories/tables/globals of instance 1 were appended after the host objects
        script.append({"op": "instantiate", "binds": {"mem": m2, "table": t2, "globals": g2}})
        ninst = 2
    calls = []
    for inst in range(1, ninst + 1):
        for g, (t, mut) in enumerate(gtypes):
            calls.append({"op": "call", "inst": inst, "export": "get%d" % g, "args": []})
        if has_mem:
            for a in (0, 3, 5, 40):
                calls.append({"op": "call", "inst": inst, "export": "peek", "args": [arg("i32", a)]})
    mutating = []
    for inst in range(1, ninst + 1):
        for g, (t, mut) in enumerate(gtypes):
            if mut and t in ("i32", "i64"):
                mutating.append({"op": "call", "inst": inst, "export": "set%d" % g, "args": [arg(t, 1000 * inst + g)]})
        if has_mem:
            mutating.append({"op": "call", "inst": inst, "export": "poke", "args": [arg("i32", 5), arg("i32", 0x50 + inst)]})
    rng.shuffle(mutating)
    inter = []
    for mu in mutating[:4]:
        inter.append(mu)
        inter += [c for c in calls if c["export"].startswith(("get", "peek"))][:: max(1, len(calls) // 6)]
    return {"id": cid, "module": m, "script": script + calls + inter}, (has_tab, nelem)


def fix_store_addresses(item):
    """hostmem/hosttable/hostglobal of a second, non-sharing instance come after instance 1
    appended its defined objects to the store: recompute the bind addresses by replaying
    the store layout (model addresses are creation order)."""
    m = item["module"]
    nm = nt = ng = 0
    pending = {"mem": [], "table": [], "globals": []}
    ngi = len([i for i in m["imports"] if i["kind"] == "global"])
    for op in item["script"]:
        if op["op"] == "hostmem":
            nm += 1
            pending["mem"].append(nm)
        elif op["op"] == "hosttable":
            nt += 1
            pending["table"].append(nt)
        elif op["op"] == "hostglobal":
            ng += 1
            pending["globals"].append(ng)
        elif op["op"] == "instantiate":
            b = op["binds"]
            if b.get("_fresh"):
                pass
            op["binds"] = {"mem": (pending["mem"][-1] if any(i["kind"] == "memory" for i in m["imports"]) else 0),
                           "table": (pending["table"][-1] if any(i["kind"] == "table" for i in m["imports"]) else 0),
                           "globals": pending["globals"][-ngi:] if ngi else []}
            ng += len(m.get("globals", []))
            if m.get("memory"):
                nm += 1
            if m.get("table"):
                nt += 1
        elif op["op"] == "child":
            ng += len(m.get("globals", []))
            if m.get("memory") and not m["memory"].get("shared"):
                nm += 1
            if m.get("table"):
                nt += 1
    return item


def sig(it, k, why, build, e, a):
    m = it["module"]
    memimp = any(i["kind"] == "memory" for i in m.get("imports", []))
    if memimp and m.get("data") and ("memory" in why or "result" in why or "host call" in why):
        return "imported-memory:%s" % why.split(":")[0].split(" ")[0]
    return "%s:%s" % (it["id"], why.split(":")[0])


def main():
    tier = sys.argv[1] if len(sys.argv) > 1 else os.environ.get("VERIF_TIER", "quick")
    rng = random.Random(SEED)
    v = Verdict("C06", tier)
    lattice = list(itertools.product(["none", "defined", "imported"], ["none", "defined", "imported"],
                                     [0, 1, 3], [0, 2], [0, 1, 4], [0, 2], [False, True], [False, True], [False, True]))
    rng.shuffle(lattice)
    n = 140 if tier == "quick" else 2500
    items = []
    for j, (memk, tabk, gi, gd, nd, ne, start, two, share) in enumerate(lattice[:n]):
        it, _ = make_case("s%d" % j, rng, memk, tabk, gi, gd, nd, ne, start, two, share)
        it = fix_store_addresses(it)
        items.append(it)
        if j % 3 == 0 and any(d["mode"] == "active" for d in it["module"].get("data", [])):
            # the same module with its active data segments written with an explicit memory index (flag 2)
            it["wasm"] = wasm_encode.encode(machine.enc_module(it["module"]), {"dataForm": {str(k): "flag2" for k in range(len(it["module"]["data"]))}})
        if j % 4 == 1 and not two and sum(1 for o_ in it["script"] if o_["op"] == "instantiate") == 1:
            # release the instance and instantiate again INTO THE SAME STORAGE: the second instance starts from the initial state
            # (start function run again, globals and memory fresh) and answers the same calls in the same way
            k_inst = [n_ for n_, o_ in enumerate(it["script"]) if o_["op"] == "instantiate"][0]
            again = dict(it["script"][k_inst], reuse=1)
            calls2 = [dict(o_, inst=2) for o_ in it["script"][k_inst + 1:] if o_["op"] == "call"]
            items.append(dict(it, id=it["id"] + "r", script=it["script"] + [{"op": "free", "inst": 1}, again] + calls2))
        if j % 4 in (2, 3) or (tier != "quick" and j % 4 == 0):
            # <module>NewChild: a further instance made from instance 1 (what thread-spawn does).  Its imports are what the
            # resolver returns, a shared defined memory is the parent's, everything else defined is fresh; it answers the
            # calls from its own initial state, and the parent's defined state is untouched by what the child does
            ninst_ = sum(1 for o_ in it["script"] if o_["op"] == "instantiate")
            c1 = [o_ for o_ in it["script"] if o_["op"] == "call" and o_["inst"] == 1]
            # only initialised slots are called (w2c2 emits no null check: calling an empty slot is outside the properties)
            g0 = [o_ for o_ in it["script"] if o_["op"] == "hostglobal"]
            occ = set()
            for e_ in it["module"]["elems"]:
                base = int.from_bytes(bytes(g0[0]["b"] if e_["offset"][0] == "global.get" else e_["offset"][1]), "little")
                occ |= set(range(base, base + len(e_["funcs"])))
            icalls = [{"op": "call", "inst": 1, "export": "icall", "args": [arg("i32", s_)]} for s_ in sorted(occ)] \
                if any(e_["name"] == "icall" for e_ in it["module"]["exports"]) else []
            reads1 = [o_ for o_ in c1 if o_["export"].startswith(("get", "peek"))][:12]
            # ... and by the child's release: the parent still owns everything it defined (its table, its memory, its globals)
            items.append(dict(it, id=it["id"] + "c", script=it["script"] + icalls + [{"op": "child", "inst": 1}] +
                              [dict(o_, inst=ninst_ + 1) for o_ in icalls + c1] + reads1 + icalls +
                              # (a SHARED defined memory is one object for the whole family and goes with whichever instance is
                              # released first - who owns it is the embedder's protocol, not something the properties state)
                              ([{"op": "free", "inst": ninst_ + 1}] + icalls + reads1
                               if j % 2 == 0 and not (it["module"].get("memory") or {}).get("shared") else [])))
    # numbers of globals, data segments and element segments around powers of two: every one of them initialised
    for cnt in ((0, 1, 2, 16, 17, 33, 64, 65, 129) if tier == "quick" else (0, 1, 2, 15, 16, 17, 31, 32, 33, 63, 64, 65, 127, 128, 129, 255, 256, 257)):
        n1 = max(cnt, 1)
        tys = [{"p": [], "r": ["i64"]}, {"p": ["i32"], "r": ["i64"]}]
        fns = [{"type": 0, "locals": [], "body": [["i64.const", b64(1000 + k)], ["end"]]} for k in range(n1)]
        probes = sorted({0, n1 // 2, n1 - 1})
        getters = [{"type": 0, "locals": [], "body": [["global.get", k], ["end"]]} for k in probes if k < cnt]
        fns.append({"type": 1, "locals": [], "body": [["local.get", 0], ["call_indirect", 0, 0], ["end"]]})
        m = {"types": tys, "funcs": fns + getters,
             "globals": [{"t": "i64", "mut": bool(k % 2), "init": ["i64.const", b64(7 * k + 1)]} for k in range(cnt)],
             "memory": {"min": 1, "max": 1}, "table": {"min": n1, "max": n1},
             "data": [{"mode": "active", "offset": ["i32.const", b32(16 + 3 * k)], "bytes": [1 + k % 250, 2 + k % 250, 3 + k % 250]} for k in range(cnt)],
             "elems": [{"offset": ["i32.const", b32(k)], "funcs": [k]} for k in range(n1)],
             "exports": [{"name": "icall", "kind": "func", "idx": n1}, {"name": "memory", "kind": "memory", "idx": 0}] +
                        [{"name": "get%d" % k, "kind": "func", "idx": n1 + 1 + j} for j, k in enumerate([p for p in probes if p < cnt])]}
        script = [{"op": "instantiate", "binds": {"mem": 0, "table": 0, "globals": []}}]
        script += [{"op": "call", "inst": 1, "export": "icall", "args": [arg("i32", k)]} for k in probes]
        script += [{"op": "call", "inst": 1, "export": "get%d" % k, "args": []} for k in probes if k < cnt]
        items.append({"id": "cnt%d" % cnt, "module": m, "script": script})
    # segments in layers: what a later segment writes wins, whatever it writes - zeros over non-zero bytes, non-zero bytes
    # over zeros, a zero segment that nothing lies under, partly zero ones - in a defined (plain and shared) and an imported memory
    def seg(off, bs):
        return {"mode": "active", "offset": ["i32.const", b32(off)], "bytes": bs}
    layers = [seg(8, [1, 2, 3, 4, 5, 6]), seg(9, [0, 0, 0]), seg(20, [9, 9, 9, 9]), seg(18, [0] * 8), seg(19, [7]), seg(30, [0, 0]), seg(30, [5]),
              seg(40, [1, 2, 3]), seg(40, [0, 0, 0]), seg(41, [0]), seg(50, [0, 4, 0]), seg(49, [6, 0, 0, 0, 6]), seg(60, [0] * 40), seg(70, [1]),
              seg(65532, [1, 2, 3, 4]), seg(65533, [0, 0, 0])]
    for memk in ("defined", "shared", "imported"):
        peek = {"type": 0, "locals": [], "body": [["local.get", 0], ["i32.load8_u", 0, 0], ["end"]]}
        m = {"types": [{"p": ["i32"], "r": ["i32"]}], "funcs": [peek], "data": [dict(x) for x in layers],
             "exports": [{"name": "peek", "kind": "func", "idx": 0}], "imports": []}
        script = []
        if memk == "imported":
            m["imports"] = [{"mod": "env", "name": "mem", "kind": "memory", "min": 1, "max": 2}]
            script.append({"op": "hostmem", "pages": 1, "max": 2, "shared": False})
        else:
            m["memory"] = dict({"min": 1, "max": 2}, **({"shared": True} if memk == "shared" else {}))
            m["exports"].append({"name": "memory", "kind": "memory", "idx": 0})
        script.append({"op": "instantiate", "binds": {"mem": 1 if memk == "imported" else 0, "table": 0, "globals": []}})
        script += [{"op": "call", "inst": 1, "export": "peek", "args": [arg("i32", a_)]} for a_ in (9, 10, 19, 41, 65533)]
        items.append({"id": "layers_" + memk, "module": m, "script": script})
    # a child instance whose imports the resolver answers with OTHER objects than the parent's (a table, a memory, a global of its
    # own): segments and initialisers are applied to what the child was given, the parent's objects are left as they were
    cm = {"types": [{"p": ["i32"], "r": ["i32"]}, {"p": [], "r": ["i32"]}],
          "imports": [{"mod": "env", "name": "tab", "kind": "table", "min": 4, "max": 8}, {"mod": "env", "name": "mem", "kind": "memory", "min": 1, "max": 2},
                      {"mod": "env", "name": "g", "kind": "global", "t": "i32", "mut": False}],
          "funcs": [{"type": 0, "locals": [], "body": [["local.get", 0], ["call_indirect", 1, 0], ["end"]]},
                    {"type": 1, "locals": [], "body": [["i32.const", b32(41)], ["end"]]}, {"type": 1, "locals": [], "body": [["i32.const", b32(42)], ["end"]]},
                    {"type": 0, "locals": [], "body": [["local.get", 0], ["i32.load8_u", 0, 0], ["end"]]},
                    {"type": 1, "locals": [], "body": [["global.get", 1], ["end"]]}],
          "globals": [{"t": "i32", "mut": False, "init": ["global.get", 0]}],
          "elems": [{"offset": ["i32.const", b32(0)], "funcs": [1, 2]}, {"offset": ["global.get", 0], "funcs": [2]}],
          "data": [{"mode": "active", "offset": ["i32.const", b32(10)], "bytes": [9, 8]}, {"mode": "active", "offset": ["global.get", 0], "bytes": [5]}],
          "exports": [{"name": "icall", "kind": "func", "idx": 0}, {"name": "peek", "kind": "func", "idx": 3}, {"name": "getg", "kind": "func", "idx": 4}]}
    probes = lambda i_: [{"op": "call", "inst": i_, "export": "icall", "args": [arg("i32", k_)]} for k_ in (0, 1, 2, 3)] + \
                        [{"op": "call", "inst": i_, "export": "peek", "args": [arg("i32", k_)]} for k_ in (2, 3, 10, 11)] + [{"op": "call", "inst": i_, "export": "getg", "args": []}]
    items.append({"id": "childown", "module": cm,
                  "script": [{"op": "hosttable", "size": 6}, {"op": "hostmem", "pages": 1, "max": 2, "shared": False}, {"op": "hostglobal", "t": "i32", "b": b32(2)},
                             {"op": "instantiate", "binds": {"mem": 1, "table": 1, "globals": [1]}}] + probes(1)[:3] +
                            [{"op": "hosttable", "size": 6}, {"op": "hostmem", "pages": 1, "max": 2, "shared": False}, {"op": "hostglobal", "t": "i32", "b": b32(3)},
                             {"op": "child", "inst": 1, "binds": {"mem": 2, "table": 2, "globals": [3]}}] + probes(2) + probes(1)})
    # a table and a memory of size zero (declared, empty): instantiated in storage that is not zeroed, released, instantiated again
    for j_, (tmin, mmin) in enumerate(((0, 0), (0, 1), (1, 0))):
        m0 = {"types": [{"p": [], "r": ["i32"]}], "imports": [], "funcs": [{"type": 0, "locals": [], "body": [["memory.size"], ["end"]]}],
              "table": {"min": tmin, "max": tmin}, "memory": {"min": mmin, "max": 1}, "exports": [{"name": "size", "kind": "func", "idx": 0}, {"name": "memory", "kind": "memory", "idx": 0}]}
        inst_ = {"op": "instantiate", "binds": {"mem": 0, "table": 0, "globals": []}}
        call_ = {"op": "call", "inst": 1, "export": "size", "args": []}
        items.append({"id": "zero%d" % j_, "module": m0, "script": [inst_, call_, {"op": "free", "inst": 1}, dict(inst_, reuse=1), dict(call_, inst=2)]})
    # several MODULES in one store: a second module imports the table an instance of the first one defines and writes its element segments
    # into it; calls through that table reach the other module's functions (in both directions), and the tables of the first module's
    # other instances - created before and after - are their own
    g_ = lambda k: ["local.get", k]
    via = [g_(1), g_(0), ["call_indirect", 0, 0], ["end"]]
    modA = {"types": [{"p": ["i32"], "r": ["i32"]}, {"p": ["i32", "i32"], "r": ["i32"]}],
            "funcs": [{"type": 0, "locals": [], "body": [g_(0), ["i32.const", b32(100)], ["i32.add"], ["end"]]},
                      {"type": 0, "locals": [], "body": [g_(0), ["i32.const", b32(200)], ["i32.add"], ["end"]]},
                      {"type": 1, "locals": [], "body": via}],
            "table": {"min": 6, "max": 6}, "elems": [{"offset": ["i32.const", b32(1)], "funcs": [0]}, {"offset": ["i32.const", b32(4)], "funcs": [1]}],
            "exports": [{"name": "via", "kind": "func", "idx": 2}]}
    modB = {"types": [{"p": ["i64"], "r": ["i64"]}, {"p": ["i32"], "r": ["i32"]}, {"p": ["i32", "i32"], "r": ["i32"]}],
            "imports": [{"mod": "env", "name": "tab", "kind": "table", "min": 6, "max": None}],
            "funcs": [{"type": 1, "locals": [], "body": [g_(0), ["i32.const", b32(1000)], ["i32.add"], ["end"]]},
                      {"type": 1, "locals": [], "body": [g_(0), ["i32.const", b32(2000)], ["i32.add"], ["end"]]},
                      {"type": 2, "locals": [], "body": [g_(1), g_(0), ["call_indirect", 1, 0], ["end"]]}],
            "elems": [{"offset": ["i32.const", b32(2)], "funcs": [0]}, {"offset": ["i32.const", b32(4)], "funcs": [1]}],
            "exports": [{"name": "via", "kind": "func", "idx": 2}]}
    nobind = {"mem": 0, "table": 0, "globals": []}
    cv = lambda inst_, i_, x_: {"op": "call", "inst": inst_, "export": "via", "args": [arg("i32", i_), arg("i32", x_)]}
    items.append({"id": "plug", "module": modA, "modules": [modB],
                  "script": [{"op": "instantiate", "binds": nobind}, {"op": "instantiate", "binds": nobind},
                             cv(1, 4, 5), cv(2, 4, 5),
                             {"op": "instantiate", "mod": 2, "binds": {"mem": 0, "table": 1, "globals": []}},
                             cv(1, 1, 5), cv(1, 4, 5), cv(1, 2, 5), cv(2, 1, 5), cv(2, 4, 5), cv(3, 1, 7), cv(3, 4, 7), cv(3, 2, 7),
                             {"op": "instantiate", "binds": nobind}, cv(4, 4, 5), cv(4, 1, 5), cv(1, 4, 6),
                             # a second plug into the OTHER instance's table, then a child of the first one
                             {"op": "instantiate", "mod": 2, "binds": {"mem": 0, "table": 2, "globals": []}}, cv(2, 4, 5), cv(2, 2, 5), cv(4, 4, 5), cv(5, 1, 9)]})
    builds = [{"name": "gcc-O1", "cc": "gcc", "cflags": ("-O1",)},
              {"name": "gcc-O1-gnu-ld", "cc": "gcc", "cflags": ("-O1",), "w2c2_opts": ("-m", "-d", "gnu-ld")},
              # a C library that is as unhelpful as the standard allows (see machine.HOSTILE_LIBC)
              machine.HOSTILE_LIBC]
    if tier != "quick":
        builds.append({"name": "clang-O2", "cc": "clang", "cflags": ("-O2",)})
    st, exp = machine.replay(v, items, builds, sigfn=sig)
    # the documented symbols (<module>Instance, <module>Instantiate, <module>_<export>) depend on the module's FILE NAME: however the
    # path to that file is spelled on the command line, header and code are the same bytes
    import shutil
    import common
    from common import run
    pwd_ = common.scratch("c06path-")
    try:
        w2c2_ = common.build_w2c2(os.path.join(pwd_, "bin"))
        pm = {"types": [{"p": ["i32"], "r": ["i32"]}], "funcs": [{"type": 0, "locals": [], "body": [["local.get", 0], ["i32.const", b32(1)], ["i32.add"], ["end"]]}],
              "memory": {"min": 1, "max": 1}, "exports": [{"name": "add", "kind": "func", "idx": 0}, {"name": "mem", "kind": "memory", "idx": 0}]}
        blob = wasm_encode.encode(machine.enc_module(machine.norm_module(pm)))
        base_out = {}
        spellings = ["app.wasm", "./app.wasm", "sub/app.wasm", "2024-09/app.wasm", "3rdparty/wasm/app.wasm", "9/app.wasm", "_x/app.wasm", "a.b/c-d/app.wasm", "sub/../sub/app.wasm",
                     "ABS/sub/app.wasm", "ABS/2024-09/app.wasm", "sub//app.wasm", "-dash/app.wasm", "m/app.wasm", "app/app.wasm"]
        for sp in spellings:
            root = os.path.join(pwd_, "r%d" % spellings.index(sp))
            rel = sp.replace("ABS/", "")
            os.makedirs(os.path.join(root, os.path.dirname(rel), "x") if False else os.path.join(root, os.path.dirname(rel)), exist_ok=True)
            if ".." in rel:
                os.makedirs(os.path.join(root, "sub"), exist_ok=True)
            open(os.path.join(root, os.path.normpath(rel)), "wb").write(blob)
            argp = os.path.join(root, rel) if sp.startswith("ABS/") else rel
            for opts in ((), ("-m",)):
                rc, so, se = run([w2c2_, *opts, "--", argp, "out.c"] if rel.startswith("-") else [w2c2_, *opts, argp, "out.c"], cwd=root, timeout=60)
                if rc != 0:
                    v.deviation("modulename:translate", {"path": sp, "options": list(opts), "stderr": se[-300:]})
                    continue
                got = (open(os.path.join(root, "out.c"), "rb").read(), open(os.path.join(root, "out.h"), "rb").read())
                if sp == "app.wasm":
                    base_out[opts] = got
                elif base_out and opts in base_out and got != base_out[opts]:
                    import re as _re
                    names = sorted(set(_re.findall(rb"\b(\w*Instantiate)\b", got[1])))
                    v.deviation("modulename:depends-on-directory-spelling", {"path": sp, "options": list(opts), "instantiate_symbol": [n.decode() for n in names]})
    finally:
        shutil.rmtree(pwd_, ignore_errors=True)
    samples = []
    for it in items[:3]:
        m = it["module"]
        samples.append({"item": it["id"], "imports": [(i["kind"], i["name"]) for i in m["imports"]],
                        "data": m["data"][:3], "elems": m["elems"][:2], "start": m["start"],
                        "script": [o["op"] + (":" + o.get("export", "")) for o in it["script"]][:14]})
    cov = {"states": st["states"], "transitions": st["transitions"], "traces_validated_against_impl": len(items),
           "samples": samples, "evaluations": st["ops_compared"], "distinct_nontrivial": st["distinct_nontrivial"],
           "rule": "module shapes drawn (seeded shuffle) from the lattice memory{none,defined,imported} x table{...} x imported "
                   "globals{0,1,3} x defined globals{0,2} x data segments{0,1,4: const/global offset, passive, empty, overlapping} "
                   "x element segments{0,2} x start{no,yes} x {one, two instances} x {shared, separate embedder objects}; after "
                   "every script operation the full memory images (defined and imported), imported-table occupancy, results of "
                   "getters/peeks and the start function's host trace are compared with WasmExec's Instantiate",
           "lattice_size": len(lattice), "shapes_run": len(items), "ops_skipped_undefined": st["ops_skipped_undefined"],
           "builds": [b["name"] for b in builds], "exhaustive": len(items) == len(lattice)}
    # the repository's own spec-suite corpus for this instruction family: model vs the suite's expectations, w2c2 vs model
    sys.path.insert(0, os.path.dirname(os.path.abspath(__file__)))
    import corpus
    cov.update(corpus.phase(v, "C06", tier))
    return v.finish("model_checking", cov,
                    ["defined tables and globals are observed through exported functions only (public API)",
                     "one memory and one table per module (MVP)"])


main_wrap(main)
