#!/usr/bin/env python3
"""C01 - integer instruction semantics and integer traps survive translation.
See DESIGN.md section 3/C01."""
import os
import random
import sys
import threading
sys.path.insert(0, os.path.join(os.path.dirname(os.path.abspath(__file__)), "..", "bind", "py"))
import common
import machine
import wasmgen
from common import SEED, Verdict, main_wrap, tlc, tlc_ok

IBIN = ["add", "sub", "mul", "div_s", "div_u", "rem_s", "rem_u", "and", "or", "xor", "shl", "shr_s", "shr_u", "rotl", "rotr"]
IREL = ["eq", "ne", "lt_s", "lt_u", "gt_s", "gt_u", "le_s", "le_u", "ge_s", "ge_u"]
IUN = {"i32": ["clz", "ctz", "popcnt", "eqz", "extend8_s", "extend16_s"],
       "i64": ["clz", "ctz", "popcnt", "eqz", "extend8_s", "extend16_s", "extend32_s"]}


def pool(bits, rng, n_fixed, n_rand):
    M = (1 << bits) - 1
    fixed = [0, 1, M, 1 << (bits - 1), 2, M - 1, (1 << (bits - 1)) - 1, (1 << (bits - 1)) + 1,
             bits - 1, bits, bits + 1, 2 * bits - 1, 0x55555555_55555555 & M, 0xAAAAAAAA_AAAAAAAA & M]
    for k in (7, 8, 15, 16, 31, 32, 33, 62, 63):
        if k < bits:
            fixed += [1 << k, (1 << k) - 1, (1 << k) + 1, M ^ (1 << k)]
    fixed += [0x80, 0xFF, 0x8000, 0xFFFF, 0x7F, 0x7FFF, 0x0102030405060708 & M, 0xF1E2D3C4B5A69788 & M]
    seen, out = set(), []
    for v in fixed:
        if v not in seen:
            seen.add(v)
            out.append(v)
    out = out[:n_fixed] if n_fixed < len(out) else out
    while len(out) < n_fixed + n_rand:
        v = rng.getrandbits(bits) >> rng.choice([0, 0, 0, bits // 2, bits - 8])
        if v not in seen:
            seen.add(v)
            out.append(v)
    return out


def val(t, v):
    return {"t": t, "b": list(v.to_bytes(4 if t == "i32" else 8, "little"))}


M_ALL = {"i32": (1 << 32) - 1, "i64": (1 << 64) - 1}


def grid_items(rng, npool, nrand, bitpos=True, narrow=True):
    items = []
    for t, bits in (("i32", 32), ("i64", 64)):
        P = pool(bits, rng, npool, nrand)
        types = [{"p": [t, t], "r": [t]}, {"p": [t, t], "r": ["i32"]}, {"p": [t], "r": [t]}, {"p": [t], "r": ["i32"]}]
        funcs, exports, calls = [], [], []

        def add(name, ty, body, arity):
            funcs.append({"type": ty, "locals": [], "body": body})
            exports.append({"name": name, "kind": "func", "idx": len(funcs) - 1})
            if arity == 2:
                for a in P:
                    for b in P:
                        calls.append({"op": "call", "inst": 1, "export": name, "args": [val(t, a), val(t, b)]})
            else:
                # unary operators: the pool plus every bit position as lowest set bit, highest set bit and lone bit
                # (table-driven and loop-driven fallbacks of clz/ctz/popcnt have one case per position)
                M_ = (1 << bits) - 1
                U = list(P)
                for k in (range(bits) if bitpos else ()):
                    U += [1 << k, (M_ << k) & M_, (1 << k) - 1, (1 << k) | (1 << (bits - 1)), M_ >> k, (0x5A5A5A5A5A5A5A5B << k) & M_]
                for a in dict.fromkeys(U):
                    calls.append({"op": "call", "inst": 1, "export": name, "args": [val(t, a)]})
        for o in IBIN:
            add(o, 0, [["local.get", 0], ["local.get", 1], ["%s.%s" % (t, o)], ["end"]], 2)
        for o in IREL:
            add(o, 1, [["local.get", 0], ["local.get", 1], ["%s.%s" % (t, o)], ["end"]], 2)
        # operands that are boundary values of a NARROWER width, sign- and zero-extended (a fast path for "small" operands
        # has its own INT_MIN / -1 and its own carries): every pair of them, for every binary operator
        M_ = (1 << bits) - 1
        NB = []
        for w in ((8, 16) if bits == 32 else (16, 32)):
            NB += [(-(1 << (w - 1))) & M_, (-(1 << (w - 1)) - 1) & M_, (-(1 << (w - 1)) + 1) & M_, 1 << (w - 1), (1 << (w - 1)) - 1,
                   (1 << w) - 1, 1 << w, (1 << w) + 1, (-(1 << w)) & M_]
        NB += [M_, 0, 1, 1 << (bits - 1), 3, (-3) & M_]
        NB = list(dict.fromkeys(NB))
        inP = set(P)
        for o in (IBIN + IREL if narrow else []):
            for a in NB:
                for b in NB:
                    if not (a in inP and b in inP):
                        calls.append({"op": "call", "inst": 1, "export": o, "args": [val(t, a), val(t, b)]})
        for o in IUN[t]:
            add(o, 3 if o == "eqz" else 2, [["local.get", 0], ["%s.%s" % (t, o)], ["end"]], 1)
        # an operand that is an immediate, on either side (constant operands invite special-casing in a translator)
        CK = [0, 1, 2, M_ALL[t], M_ALL[t] >> 1, (M_ALL[t] >> 1) + 1, bits - 1, bits, bits + 1, 7]
        cst = (lambda x: [t + ".const", list((x & M_ALL[t]).to_bytes(bits // 8, "little"))])
        PC = P[:6] + P[-2:]
        for o in IBIN + IREL:
            for ci, cv in enumerate(CK):
                for side in (0, 1):
                    nm_ = "%s_c%d_%d" % (o, ci, side)
                    body = ([["local.get", 0], cst(cv)] if side else [cst(cv), ["local.get", 0]]) + [["%s.%s" % (t, o)], ["end"]]
                    funcs.append({"type": 2 if o in IBIN else 3, "locals": [], "body": body})
                    exports.append({"name": nm_, "kind": "func", "idx": len(funcs) - 1})
                    for a in PC:
                        calls.append({"op": "call", "inst": 1, "export": nm_, "args": [val(t, a)]})
        # a comparison consumed directly by eqz / br_if / if / select, and trapping operators whose result is dropped
        for o in IREL:
            for cons in ("eqz", "br_if", "if", "select"):
                nm_ = "%s_then_%s" % (o, cons)
                cmp_ = [["local.get", 0], ["local.get", 1], ["%s.%s" % (t, o)]]
                body = {"eqz": cmp_ + [["i32.eqz"], ["end"]],
                        "br_if": [["block", "i32"], ["i32.const", [7, 0, 0, 0]]] + cmp_ + [["br_if", 0], ["drop"], ["i32.const", [9, 0, 0, 0]], ["end"], ["end"]],
                        "if": cmp_ + [["if", "i32"], ["i32.const", [7, 0, 0, 0]], ["else"], ["i32.const", [9, 0, 0, 0]], ["end"], ["end"]],
                        "select": [["i32.const", [7, 0, 0, 0]], ["i32.const", [9, 0, 0, 0]]] + cmp_ + [["select"], ["end"]]}[cons]
                funcs.append({"type": 1, "locals": [], "body": body})
                exports.append({"name": nm_, "kind": "func", "idx": len(funcs) - 1})
                for a in PC:
                    for b in PC:
                        calls.append({"op": "call", "inst": 1, "export": nm_, "args": [val(t, a), val(t, b)]})
        for o in ("div_s", "div_u", "rem_s", "rem_u"):
            nm_ = "%s_dropped" % o
            funcs.append({"type": 1, "locals": [], "body": [["local.get", 0], ["local.get", 1], ["%s.%s" % (t, o)], ["drop"], ["i32.const", [1, 0, 0, 0]], ["end"]]})
            exports.append({"name": nm_, "kind": "func", "idx": len(funcs) - 1})
            for a in PC:
                for b in PC:
                    calls.append({"op": "call", "inst": 1, "export": nm_, "args": [val(t, a), val(t, b)]})
        # split the calls over several items so that TLC shards balance
        chunk = 400
        mod = {"types": types, "funcs": funcs, "exports": exports}
        for j in range(0, len(calls), chunk):
            items.append({"id": "g%s_%d" % (t, j // chunk), "module": mod,
                          "script": [{"op": "instantiate", "binds": {"mem": 0, "table": 0, "globals": []}}] + calls[j:j + chunk]})
    # every pair of adjacent unary / width-changing integer instructions whose types fit (peephole shapes)
    UN = [("i32." + o, "i32", "i32") for o in IUN["i32"]] + [("i64." + o, "i64", "i32" if o == "eqz" else "i64") for o in IUN["i64"]] + \
         [("i32.wrap_i64", "i64", "i32"), ("i64.extend_i32_s", "i32", "i64"), ("i64.extend_i32_u", "i32", "i64")]
    types2 = [{"p": [a], "r": [b]} for a in ("i32", "i64") for b in ("i32", "i64")]
    funcs2, exports2, calls2 = [], [], []
    PP = {"i32": pool(32, rng, 10, 0), "i64": pool(64, rng, 10, 0)}
    for o1, a1, r1 in UN:
        for o2, a2, r2 in UN:
            if r1 != a2:
                continue
            nm_ = "%s__%s" % (o1.replace(".", "_"), o2.replace(".", "_"))
            funcs2.append({"type": types2.index({"p": [a1], "r": [r2]}), "locals": [], "body": [["local.get", 0], [o1], [o2], ["end"]]})
            exports2.append({"name": nm_, "kind": "func", "idx": len(funcs2) - 1})
            calls2 += [{"op": "call", "inst": 1, "export": nm_, "args": [val(a1, x)]} for x in PP[a1]]
    mod2 = {"types": types2, "funcs": funcs2, "exports": exports2}
    for j in range(0, len(calls2), 400):
        items.append({"id": "gpair_%d" % (j // 400), "module": mod2,
                      "script": [{"op": "instantiate", "binds": {"mem": 0, "table": 0, "globals": []}}] + calls2[j:j + 400]})
    # a bit-count result consumed in the same function by something a compiler can decide from the range it assumes for the
    # result (0..width-1 if it takes the operand to be non-zero): shifted, compared with the width, used as a shift count, as an index
    for t, bits in (("i32", 32), ("i64", 64)):
        ck = lambda x: [t + ".const", list((x & M_ALL[t]).to_bytes(bits // 8, "little"))]
        tyu = [{"p": [t], "r": [t]}, {"p": [t], "r": ["i32"]}]
        fs, ex, cl = [], [], []
        shapes = {"shr5": (0, [[t + ".shr_u"]], bits.bit_length() - 1), "eqw": (1, [[t + ".eq"]], bits), "ltw": (1, [[t + ".lt_u"]], bits),
                  "gew": (1, [[t + ".ge_u"]], bits), "andw": (0, [[t + ".and"]], bits), "subw": (0, [[t + ".sub"]], bits)}
        for o in ("clz", "ctz", "popcnt"):
            for sh, (ty_, tail, k_) in shapes.items():
                fs.append({"type": ty_, "locals": [], "body": [["local.get", 0], ["%s.%s" % (t, o)], ck(k_)] + tail + [["end"]]})
                ex.append({"name": "%s_%s" % (o, sh), "kind": "func", "idx": len(fs) - 1})
            # as a shift count and as a selector
            fs.append({"type": 0, "locals": [], "body": [ck(1), ["local.get", 0], ["%s.%s" % (t, o)], [t + ".shl"], ["end"]]})
            ex.append({"name": "%s_shcount" % o, "kind": "func", "idx": len(fs) - 1})
            fs.append({"type": 1, "locals": [], "body": [["i32.const", [7, 0, 0, 0]], ["i32.const", [9, 0, 0, 0]], ["local.get", 0], ["%s.%s" % (t, o)], ck(bits), [t + ".ne"], ["select"], ["end"]]})
            ex.append({"name": "%s_sel" % o, "kind": "func", "idx": len(fs) - 1})
        for e_ in ex:
            for x in (0, 1, M_ALL[t], 1 << (bits - 1), 2, 0x10, 1 << (bits // 2), 0xFFFF):
                cl.append({"op": "call", "inst": 1, "export": e_["name"], "args": [val(t, x)]})
        items.append({"id": "gcons_" + t, "module": {"types": tyu, "funcs": fs, "exports": ex},
                      "script": [{"op": "instantiate", "binds": {"mem": 0, "table": 0, "globals": []}}] + cl})
    # width-changing instructions
    P32, P64 = pool(32, rng, npool + nrand, 0), pool(64, rng, npool + nrand, 0)
    mod = {"types": [{"p": ["i64"], "r": ["i32"]}, {"p": ["i32"], "r": ["i64"]}],
           "funcs": [{"type": 0, "locals": [], "body": [["local.get", 0], ["i32.wrap_i64"], ["end"]]},
                     {"type": 1, "locals": [], "body": [["local.get", 0], ["i64.extend_i32_s"], ["end"]]},
                     {"type": 1, "locals": [], "body": [["local.get", 0], ["i64.extend_i32_u"], ["end"]]}],
           "exports": [{"name": "wrap", "kind": "func", "idx": 0}, {"name": "exts", "kind": "func", "idx": 1},
                       {"name": "extu", "kind": "func", "idx": 2}]}
    calls = [{"op": "call", "inst": 1, "export": "wrap", "args": [val("i64", a)]} for a in P64]
    calls += [{"op": "call", "inst": 1, "export": n, "args": [val("i32", a)]} for n in ("exts", "extu") for a in P32]
    items.append({"id": "gcvt", "module": mod,
                  "script": [{"op": "instantiate", "binds": {"mem": 0, "table": 0, "globals": []}}] + calls})
    return items


def sig(it, k, why, build, e, a):
    op = it["script"][k - 1]
    name = op.get("export", op["op"])
    if it["id"].startswith("gpair"):
        return "pair:%s:%s" % (name, why.split(":")[0])
    if it["id"].startswith("g"):
        # grid: one function per opcode, so the export name identifies the opcode
        t = "i64" if it["id"].startswith("gi64") else "i32"
        if why.startswith("trap code"):
            return "%s.%s:%s" % (t, name, why.replace(" ", "").replace("trapcode:", "trap:"))
        return "%s.%s:%s" % (t, name, why.split(":")[0])
    return "prog:%s:%s" % (it["id"], why.split(":")[0])


def main():
    tier = os.environ.get("VERIF_TIER", "quick")
    if len(sys.argv) > 1:
        tier = sys.argv[1]
    rng = random.Random(SEED)
    v = Verdict("C01", tier)
    # 1. the word operators against their Nat/Int definitions, exhaustively at 8 bits
    wc = {}
    th = threading.Thread(target=lambda: wc.update(tlc("WordCheck", workers=4, timeout=900)))
    th.start()
    # 2. operand grid + 3. generated integer expression programs
    items = grid_items(rng, 12 if tier == "quick" else 36, 2 if tier == "quick" else 40)
    nprog = 150 if tier == "quick" else 2500
    items += wasmgen.programs("int", nprog, SEED, args_per_prog=5 if tier == "quick" else 8)
    builds = [{"name": "gcc-O1", "cc": "gcc", "cflags": ("-O1",)},
              # no bit-counting builtins, and plain char unsigned as in the ARM / PowerPC ABIs (two independent axes in one build)
              {"name": "gcc-O1-nobuiltin-uchar", "cc": "gcc", "cflags": ("-O1", "-D__has_builtin(x)=0", "-funsigned-char")}]
    # clang selects other builtins than gcc in the runtime header
    builds.append({"name": "clang-O2", "cc": "clang", "cflags": ("-O2",)})
    # compilers asked to trap on (or report) signed overflow and oversized shifts in the generated C: wasm arithmetic wraps, so the C must not
    # rely on a signed operation wrapping
    builds.append({"name": "gcc-O1-ftrapv", "cc": "gcc", "cflags": ("-O1", "-ftrapv")})
    builds.append({"name": "clang-O1-ubsan-int", "cc": "clang", "cflags": ("-O1", "-fsanitize=signed-integer-overflow,shift", "-fno-sanitize-recover=all")})
    # the annotated (pretty) form of the output is other text for the same operations
    builds.append({"name": "gcc-O1-pretty", "cc": "gcc", "cflags": ("-O1",), "w2c2_opts": ("-m", "-p")})
    # for this very machine (whatever instruction-set extensions it has: lzcnt, bmi, popcnt, ... select other code paths)
    builds.append({"name": "gcc-O2-native", "cc": "gcc", "cflags": ("-O2", "-march=native")})
    if tier != "quick":
        builds.append({"name": "clang-O0-nobuiltin", "cc": "clang", "cflags": ("-O0", "-D__has_builtin(x)=0")})
    st, exp = machine.replay(v, items, builds, sigfn=sig)
    th.join()
    tlc_ok(wc, "WordCheck")
    samples = []
    for it in items[:1] + items[-2:]:
        for k in (2, 3):
            e = exp.get((it["id"], k))
            if e:
                samples.append({"item": it["id"], "op": it["script"][k - 1], "spec_says": {"status": e["status"], "trap": e["trap"], "res": e["res"]},
                                "body": it["module"]["funcs"][-1]["body"] if it["id"].startswith("p") else None})
    cov = {"states": st["states"] + wc["distinct"], "transitions": st["transitions"] + wc["generated"],
           "traces_validated_against_impl": st["ops_compared"], "samples": samples[:6],
           "evaluations": st["ops_compared"], "distinct_nontrivial": st["distinct_nontrivial"],
           "rule": "one evaluation = one exported call of compiled w2c2 output compared with the result/trap code TLC "
                   "computed from WasmExec; distinct = distinct (call, specified outcome); grid over boundary operand "
                   "pool x every integer opcode, plus generated integer expression programs",
           "word_selfcheck_states": wc["distinct"], "replay_states": st["states"],
           "builds": [b["name"] for b in builds], "programs_generated": nprog,
           "ops_skipped_undefined": st["ops_skipped_undefined"], "exhaustive": False}
    # the repository's own spec-suite corpus for this instruction family: model vs the suite's expectations, w2c2 vs model
    sys.path.insert(0, os.path.dirname(os.path.abspath(__file__)))
    import corpus
    cov.update(corpus.phase(v, "C01", tier))
    return v.finish("model_checking", cov,
                    ["TLC's evaluation of Word.tla at width 32/64 is trusted because the same text is checked exhaustively at width 8",
                     "gcc 12 / clang 14 on x86-64 only", "operand values are a boundary pool plus seeded random values, not all 2^64"])


main_wrap(main)
