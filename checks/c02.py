#!/usr/bin/env python3
"""C02 - floating-point arithmetic and numeric conversions survive translation (DESIGN.md 3/C02)."""
import os
import random
import shutil
import struct
import sys
sys.path.insert(0, os.path.join(os.path.dirname(os.path.abspath(__file__)), "..", "bind", "py"))
import common
import machine
import vectors
import wasmgen
from common import SEED, Verdict, main_wrap, tlc, tlc_ok, pmap, write_ndjson, read_ndjson
from wasmgen import b32, b64

INST = {"op": "instantiate", "binds": {"mem": 0, "table": 0, "globals": []}}
FUN = ["abs", "neg", "ceil", "floor", "trunc", "nearest", "sqrt"]
FBIN = ["add", "sub", "mul", "div", "min", "max", "copysign"]
FREL = ["eq", "ne", "lt", "gt", "le", "ge"]


def f32bits(x):
    return struct.unpack("<I", struct.pack("<f", x))[0]


def f64bits(x):
    return struct.unpack("<Q", struct.pack("<d", x))[0]


def fpool(fmt, rng, n):
    if fmt == "f32":
        bits, eb, mb, tob = 32, 8, 23, f32bits
        ks = [23, 24, 31, 32, 63, 64]
    else:
        bits, eb, mb, tob = 64, 11, 52, f64bits
        ks = [52, 53, 31, 32, 63, 64]
    sign = 1 << (bits - 1)
    expmask = ((1 << eb) - 1) << mb
    core = [0, 1, (1 << mb) - 1, 1 << mb, tob(1.0), tob(1.5), tob(0.5), tob(2.5), tob(3.5), tob(0.75), tob(0.25),
            expmask - 1, expmask, expmask | (1 << (mb - 1)), expmask | 1, expmask | (1 << (mb - 1)) | 1, expmask | ((1 << mb) - 1),
            expmask | (1 << (mb // 2)) if fmt == "f64" else expmask | (1 << 22) | 1,
            tob(4.0), tob(9.0), tob(2.0), tob(3.0), tob(1e10), tob(1e-10), tob(0.1), tob(1 / 3)]
    for k in ks:
        v = tob(float(2 ** k))
        core += [v, v - 1, v + 1]
    core += [tob(2147483647.0), tob(2147483648.0) - 1, tob(-2147483649.0) & (sign - 1), tob(4294967295.0), tob(4294967296.0) - 1,
             tob(9223372036854775807.0), tob(9223372036854775808.0) - 1, tob(18446744073709551615.0), tob(18446744073709551616.0) - 1,
             tob(0.99999994), tob(8388607.5) if fmt == "f32" else tob(4503599627370495.5), tob(8388608.5) if fmt == "f32" else tob(4503599627370496.5)]
    vals = []
    for c in core:
        vals += [c, c | sign]
    vals = list(dict.fromkeys(v & ((1 << bits) - 1) for v in vals))
    if n < len(vals):
        # keep the special classes, sample the rest deterministically
        special = [v for v in vals if (v & expmask) == expmask or (v & ~sign) <= (1 << mb) or (v & ~sign) in (tob(1.0), tob(0.5), tob(1.5))]
        rest = [v for v in vals if v not in special]
        rng.shuffle(rest)
        vals = (special + rest)[:n]
    else:
        while len(vals) < n:
            vals.append(rng.getrandbits(bits))
    return vals


def boundary_pool(fmt):
    """Exact float->int trapping boundaries with their neighbours one ulp away (both signs)."""
    tob = f32bits if fmt == "f32" else f64bits
    bits = 32 if fmt == "f32" else 64
    sign = 1 << (bits - 1)
    out = []
    for x in (1.0, 0.5, 0.99999994, 2147483647.0, 2147483648.0, 2147483649.0, 4294967295.0, 4294967296.0, 4294967297.0,
              9223372036854775807.0, 9223372036854775808.0, 18446744073709551615.0, 18446744073709551616.0, 2147483648.5, 4294967295.5):
        b = tob(x)
        for d in (-2, -1, 0, 1, 2):
            out += [b + d, (b + d) | sign]
    return list(dict.fromkeys(v & ((1 << bits) - 1) for v in out))


def demote_pool():
    """f64 sources around the rounding points of f64 -> f32: for f32 values at the edges of every class (largest finite,
    smallest normal, largest / smallest subnormal, 1.0, 2^24) the double itself, the midpoints to both f32 neighbours, and
    the doubles one ulp on either side of each of these; both signs."""
    import struct
    out = []
    for fb in (0x7F7FFFFF, 0x7F7FFFFE, 0x00800000, 0x007FFFFF, 0x00000001, 0x00000002, 0x3F800000, 0x4B800000, 0x33800000):
        v = struct.unpack("<f", struct.pack("<I", fb))[0]
        up = struct.unpack("<f", struct.pack("<I", fb + 1))[0] if fb != 0x7F7FFFFF else 2.0 ** 128
        dn = struct.unpack("<f", struct.pack("<I", fb - 1))[0]
        for x in (v, (v + up) / 2, (v + dn) / 2, up if up != 2.0 ** 128 else v):
            b = f64bits(x)
            for d in (-1, 0, 1):
                out += [b + d, (b + d) | (1 << 63)]
    out += [f64bits(2.0 ** 128), f64bits(2.0 ** 128) - 1, f64bits(2.0 ** -150), f64bits(2.0 ** -150) + 1, f64bits(2.0 ** -150) - 1, f64bits(2.0 ** -149)]
    return list(dict.fromkeys(v & ((1 << 64) - 1) for v in out))


def ipool(bits, rng, n):
    M = (1 << bits) - 1
    vals = [0, 1, M, 1 << (bits - 1), (1 << (bits - 1)) - 1, (1 << (bits - 1)) + 1]
    for k in (24, 25, 53, 54, 31, 32, 62, 63):
        if k < bits:
            vals += [1 << k, (1 << k) - 1, (1 << k) + 1, (1 << k) + (1 << (k - 24)) if k >= 24 else 0, M - (1 << k) + 1]
    vals += [16777217, 16777219, 9007199254740993 & M, 9007199254740995 & M, 0x7FFFFF8000000000 & M, 0xFFFFFF7FFFFFFFFF & M,
             0x7FFFFFBFFFFFFFFF & M, 0x8000008000000001 & M]
    vals = list(dict.fromkeys(v & M for v in vals))
    while len(vals) < n:
        vals.append(rng.getrandbits(bits))
    return vals[:max(n, 12)]


def tie_pool(bits, tier):
    """Integer sources around the rounding points of int -> float conversions: for every position e of the leading
    bit and both target precisions p (24, 53): exact ties (even and odd neighbour), one above, one below."""
    out = []
    for p in (24, 53):
        es = [e for e in range(p, bits)]
        if tier == "quick":
            es = [e for e in es if e in (p, p + 1, 30, 31, 32, 40, 61, 62, 63) or e == bits - 1]
        for e in es:
            half = 1 << (e - p)
            for k in (half, half + 1, half - 1 if half > 1 else 0, 3 * half, 3 * half + 1, 2 * half + half - 1 if half > 1 else 0):
                x = (1 << e) + k
                out += [x, (-x) & ((1 << bits) - 1), x | (1 << (bits - 1))]
    return list(dict.fromkeys(v & ((1 << bits) - 1) for v in out))


def val(t, v):
    return {"t": t, "b": b32(v) if t in ("i32", "f32") else b64(v)}


def class_pool(fmt):
    """One or two representatives of every operand class of a binary float operator."""
    if fmt == "f32":
        bits, eb, mb, tob = 32, 8, 23, f32bits
    else:
        bits, eb, mb, tob = 64, 11, 52, f64bits
    sign = 1 << (bits - 1)
    expmask = ((1 << eb) - 1) << mb
    q = 1 << (mb - 1)
    pos = [0, 1, 1 << mb, tob(1.0), tob(1.5), expmask - 1, expmask, expmask | q, expmask | q | 5, expmask | 1]
    return [x for v in pos for x in (v, v | sign)]


def grid_items(rng, npool, nbin, rot, tier="quick", classes=True):
    from wasm_encode import OPS
    items = []
    P = {"f32": fpool("f32", rng, npool), "f64": fpool("f64", rng, npool), "i32": ipool(32, rng, npool), "i64": ipool(64, rng, npool)}
    PB = {t: P[t][:nbin] for t in ("f32", "f64")}
    for t in ("f32", "f64"):
        it_ = {"f32": "i32", "f64": "i64"}[t]
        types, funcs, exports, calls = [], [], [], []

        def ty(p, r):
            x = {"p": p, "r": r}
            if x not in types:
                types.append(x)
            return types.index(x)

        def add(name, p, r, body):
            funcs.append({"type": ty(p, r), "locals": [], "body": body + [["end"]]})
            exports.append({"name": name, "kind": "func", "idx": len(funcs) - 1})
        tobits = f32bits if t == "f32" else f64bits
        mant = 23 if t == "f32" else 52
        ROUND = [tobits(x) for x in (0.5, 0.25, 0.75, 0.49999997, 1.5, 2.5, 3.5, 0.99999994, 2.0 ** mant + 1, 2.0 ** mant - 0.5 if t == "f64" else 8388607.5,
                                     2.0 ** (mant + 1) - 1, 2.0 ** (mant - 1) + 0.5, 1e-30, 2.0 ** 31 + 0.5 if t == "f64" else 2147483648.0)]
        ROUND = [r_ | s_ for r_ in ROUND + [0] for s_ in (0, 1 << (31 if t == "f32" else 63))]
        for o in FUN:
            # results are observed as integer bits so that NaN payloads of bit-preserving ops are compared exactly
            exact = o in ("abs", "neg")
            add(o, [t], [it_ if exact else t], [["local.get", 0], ["%s.%s" % (t, o)]] + ([["%s.reinterpret_%s" % (it_, t)]] if exact else []))
            # (the rounding points and signed zeros are part of every pool size)
            calls += [{"op": "call", "inst": 1, "export": o, "args": [val(t, a)]} for a in dict.fromkeys(P[t] + ROUND)]
        # immediates as operands (constants are printed by the translator): every binary operator and the bit-preserving unary ones
        CK = [x for x in class_pool(t) if True][::2] + [tobits(0.1), tobits(1e22 if t == "f64" else 1e10), tobits(16777216.0)]
        cst = (lambda x: [t + ".const", list(x.to_bytes(4 if t == "f32" else 8, "little"))])
        # constants that need EVERY digit of the round-trip precision (9 for f32, 17 for f64): pseudo-random finite bit patterns
        # whose value is not the nearest one to its own text with one digit less, plus as many unfiltered ones
        import struct as _st
        drng = random.Random(SEED * 31 + (32 if t == "f32" else 64))
        fmt_, w_, dig_ = ("<f", 4, 8) if t == "f32" else ("<d", 8, 16)
        need, plain = [], []
        while len(need) < (40 if classes else 12) or len(plain) < (40 if classes else 12):
            bits_ = drng.getrandbits(8 * w_)
            val_ = _st.unpack(fmt_, bits_.to_bytes(w_, "little"))[0]
            if val_ != val_ or val_ in (float("inf"), float("-inf")):
                continue
            short = _st.unpack(fmt_, _st.pack(fmt_, float("%.*g" % (dig_, val_))))[0] if t == "f32" else float("%.*g" % (dig_, val_))
            (need if short != val_ else plain).append(bits_)
        ALLDIG = need[:40 if classes else 12] + plain[:40 if classes else 12]
        for ci, cv in enumerate(ALLDIG):
            add("neg_d%d" % ci, [], [it_], [cst(cv), ["%s.neg" % t], ["%s.reinterpret_%s" % (it_, t)]])
            calls.append({"op": "call", "inst": 1, "export": "neg_d%d" % ci, "args": []})
        for ci, cv in enumerate(CK):
            for o in ("neg", "abs"):
                add("%s_c%d" % (o, ci), [], [it_], [cst(cv), ["%s.%s" % (t, o)], ["%s.reinterpret_%s" % (it_, t)]])
                calls.append({"op": "call", "inst": 1, "export": "%s_c%d" % (o, ci), "args": []})
            for o in FBIN + FREL:
                for side in (0, 1):
                    exact = o == "copysign"
                    rt_ = "i32" if o in FREL else (it_ if exact else t)
                    body = ([["local.get", 0], cst(cv)] if side else [cst(cv), ["local.get", 0]]) + [["%s.%s" % (t, o)]] + ([["%s.reinterpret_%s" % (it_, t)]] if exact else [])
                    add("%s_k%d_%d" % (o, ci, side), [t], [rt_], body)
                    calls += [{"op": "call", "inst": 1, "export": "%s_k%d_%d" % (o, ci, side), "args": [val(t, a)]} for a in class_pool(t)[::5]]
        big = FBIN if rot is None else [o for j, o in enumerate(FBIN) if o == "copysign" or (j + rot) % 2 == 0]
        CL = class_pool(t) if classes else class_pool(t)[::4]
        for o in FBIN:
            exact = o == "copysign"
            add(o, [t, t], [it_ if exact else t], [["local.get", 0], ["local.get", 1], ["%s.%s" % (t, o)]] + ([["%s.reinterpret_%s" % (it_, t)]] if exact else []))
            # every operator sees every pair of operand classes (both NaN kinds and signs on either side, zeros, infinities,
            # subnormals, ordinary values); the larger pool is applied to a rotating half of the operators in the quick tier
            pairs = [(a, b) for a in CL for b in CL]
            if o in big:
                pairs += [(a, b) for a in PB[t] for b in PB[t]]
            calls += [{"op": "call", "inst": 1, "export": o, "args": [val(t, a), val(t, b)]} for a, b in dict.fromkeys(pairs)]
        for o in FREL:
            add(o, [t, t], ["i32"], [["local.get", 0], ["local.get", 1], ["%s.%s" % (t, o)]])
            calls += [{"op": "call", "inst": 1, "export": o, "args": [val(t, a), val(t, b)]} for a in PB[t][::2] for b in PB[t]]
            # the comparison consumed directly by eqz / br_if / if / select (NaN operands make "not less" differ from "greater or equal")
            cmp_ = [["local.get", 0], ["local.get", 1], ["%s.%s" % (t, o)]]
            for cons, body in (("eqz", cmp_ + [["i32.eqz"]]),
                               ("brif", [["block", "i32"], ["i32.const", b32(7)]] + cmp_ + [["br_if", 0], ["drop"], ["i32.const", b32(9)], ["end"]]),
                               ("if", cmp_ + [["if", "i32"], ["i32.const", b32(7)], ["else"], ["i32.const", b32(9)], ["end"]]),
                               ("select", [["i32.const", b32(7)], ["i32.const", b32(9)]] + cmp_ + [["select"]])):
                add("%s_%s" % (o, cons), [t, t], ["i32"], body)
                calls += [{"op": "call", "inst": 1, "export": "%s_%s" % (o, cons), "args": [val(t, a), val(t, b)]} for a in CL[::3] for b in CL[::2]]
        mod = {"types": types, "funcs": funcs, "exports": exports}
        for j in range(0, len(calls), 500):
            items.append({"id": "g%s_%d" % (t, j // 500), "module": mod, "script": [INST] + calls[j:j + 500]})
    # every pair of adjacent unary float instructions / conversions whose types fit (peephole shapes); bits observed through
    # reinterpret so that sign and payload of NaN-preserving pairs count
    UN = [("%s.%s" % (t_, o_), t_, t_) for t_ in ("f32", "f64") for o_ in FUN] + \
         [("f64.promote_f32", "f32", "f64"), ("f32.demote_f64", "f64", "f32"), ("i32.reinterpret_f32", "f32", "i32"), ("i64.reinterpret_f64", "f64", "i64"),
          ("f32.reinterpret_i32", "i32", "f32"), ("f64.reinterpret_i64", "i64", "f64"), ("i32.trunc_sat_f32_s", "f32", "i32"), ("i64.trunc_sat_f64_u", "f64", "i64"),
          ("f32.convert_i32_s", "i32", "f32"), ("f64.convert_i64_u", "i64", "f64"), ("f64.convert_i32_s", "i32", "f64"), ("f32.convert_i64_u", "i64", "f32")]
    exact_ops = ("abs", "neg", "reinterpret")
    types2, funcs2, exports2, calls2 = [], [], [], []
    for o1, a1, r1 in UN:
        for o2, a2, r2 in UN:
            if r1 != a2 or (a1 in ("i32", "i64") and r2 in ("i32", "i64")):
                continue
            exact = all(any(x in o for x in exact_ops) for o in (o1, o2)) and r2 in ("f32", "f64")
            rt = {"f32": "i32", "f64": "i64"}[r2] if exact else r2
            ty = {"p": [a1], "r": [rt]}
            if ty not in types2:
                types2.append(ty)
            nm_ = "%s__%s" % (o1.replace(".", "_"), o2.replace(".", "_"))
            funcs2.append({"type": types2.index(ty), "locals": [], "body": [["local.get", 0], [o1], [o2]] + ([["%s.reinterpret_%s" % (rt, r2)]] if exact else []) + [["end"]]})
            exports2.append({"name": nm_, "kind": "func", "idx": len(funcs2) - 1})
            src = class_pool(a1)[::3] if a1 in ("f32", "f64") else P[a1][:8]
            calls2 += [{"op": "call", "inst": 1, "export": nm_, "args": [val(a1, x)]} for x in src]
    mod2 = {"types": types2, "funcs": funcs2, "exports": exports2}
    for j in range(0, len(calls2), 500):
        items.append({"id": "gfpair_%d" % (j // 500), "module": mod2, "script": [INST] + calls2[j:j + 500]})
    # conversions
    types, funcs, exports, calls = [], [], [], []
    for op in sorted(OPS):
        p = op.split(".")
        if len(p) != 2 or not any(p[1].startswith(x) for x in ("trunc_", "convert_", "demote", "promote", "reinterpret")):
            continue
        to = p[0]
        fr = [x for x in ("i32", "i64", "f32", "f64") if "_" + x in p[1]][0]
        t = {"p": [fr], "r": [to]}
        if t not in types:
            types.append(t)
        name = op.replace(".", "_")
        funcs.append({"type": types.index(t), "locals": [], "body": [["local.get", 0], [op], ["end"]]})
        exports.append({"name": name, "kind": "func", "idx": len(funcs) - 1})
        if "trunc_f" in p[1] and "sat" not in p[1]:
            # the trap of a trapping truncation does not depend on whether its result is used
            t2 = {"p": [fr], "r": ["i32"]}
            if t2 not in types:
                types.append(t2)
            funcs.append({"type": types.index(t2), "locals": [], "body": [["local.get", 0], [op], ["drop"], ["i32.const", b32(1)], ["end"]]})
            exports.append({"name": name + "_dropped", "kind": "func", "idx": len(funcs) - 1})
            calls += [{"op": "call", "inst": 1, "export": name + "_dropped", "args": [val(fr, a)]} for a in dict.fromkeys(P[fr][:12] + boundary_pool(fr)[::3])]
        src = P[fr] + (boundary_pool(fr) if fr in ("f32", "f64") and "trunc" in op else []) + \
            (tie_pool(32 if fr == "i32" else 64, tier) if fr in ("i32", "i64") and "convert" in op else []) + \
            (demote_pool() if "demote" in op else [])
        calls += [{"op": "call", "inst": 1, "export": name, "args": [val(fr, a)]} for a in dict.fromkeys(src)]
    mod = {"types": types, "funcs": funcs, "exports": exports}
    for j in range(0, len(calls), 500):
        items.append({"id": "gcvt_%d" % (j // 500), "module": mod, "script": [INST] + calls[j:j + 500]})
    return items, P


def sig(it, k, why, build, e, a):
    op = it["script"][k - 1]
    return "%s.%s:%s" % (it["id"].split("_")[0][1:], op.get("export", op["op"]), why.split(":")[0])


def selfcheck(tier):
    """Float.tla against the spec-suite vectors shipped in the repository (machinery self-check)."""
    vecs = vectors.load()
    if tier == "quick":
        vecs = vecs[SEED % 3::3]
    wd = common.scratch("c02vec-")
    try:
        n = min(common.NCPU, 16)
        parts = [vecs[j::n] for j in range(n)]

        def one(j):
            inf, outf = os.path.join(wd, "v%d.ndjson" % j), os.path.join(wd, "bad%d.ndjson" % j)
            write_ndjson(inf, parts[j])
            r = tlc_ok(tlc("FloatVectors", env={"INFILE": inf, "OUTFILE": outf}, timeout=1800), "FloatVectors")
            return r, read_ndjson(outf)
        res = pmap(one, range(n), jobs=n)
        bad = [b for r, bs in res for b in bs]
        if bad:
            raise common.MachineryError("Float.tla disagrees with the specification test suite on %d vectors, e.g. %s" % (len(bad), bad[:2]))
        return len(vecs), sum(r["distinct"] for r, _ in res), sum(r["generated"] for r, _ in res)
    finally:
        shutil.rmtree(wd, ignore_errors=True)


def main():
    tier = sys.argv[1] if len(sys.argv) > 1 else os.environ.get("VERIF_TIER", "quick")
    rng = random.Random(SEED)
    v = Verdict("C02", tier)
    nvec, vs, vt = selfcheck(tier)
    items, P = grid_items(rng, 40 if tier == "quick" else 90, 22 if tier == "quick" else 60, (SEED % 2) if tier == "quick" else None, tier)
    gst = {}
    items += wasmgen.programs("float", 120 if tier == "quick" else 2500, SEED, args_per_prog=5, stats=gst)
    builds = [{"name": "gcc-O1", "cc": "gcc", "cflags": ("-O1",)}, {"name": "clang-O2", "cc": "clang", "cflags": ("-O2",)}]
    if tier != "quick":
        builds += [{"name": "gcc-O0", "cc": "gcc", "cflags": ("-O0",)}, {"name": "gcc-O3", "cc": "gcc", "cflags": ("-O3",)}]
    st, exp = machine.replay(v, items, builds, sigfn=sig, tlc_timeout=3000)
    samples = []
    for it in items[:2] + items[-2:]:
        e = exp.get((it["id"], 3))
        if e:
            samples.append({"item": it["id"], "op": it["script"][2], "spec_says": {"status": e["status"], "trap": e["trap"], "res": e["res"]}})
    cov = {"states": st["states"] + vs + gst.get("states", 0), "transitions": st["transitions"] + vt + gst.get("transitions", 0),
           "traces_validated_against_impl": st["ops_compared"], "samples": samples,
           "evaluations": st["ops_compared"], "distinct_nontrivial": st["distinct_nontrivial"],
           "rule": "every float unary/binary/comparison/conversion opcode x class-directed operand pool (signed zeros, subnormals, "
                   "powers of two and neighbours at 2^23/24/31/32/52/53/63/64, halves, extremes, infinities, quiet and signalling NaNs "
                   "with several payloads, exact trapping boundaries and neighbours; integer sources around 2^24, 2^53, 2^63), plus WasmGen "
                   "float programs; result bits (NaN by class where the specification leaves it open), trap codes compared with Float.tla",
           "spec_suite_vectors_checked": nvec, "pool_sizes": {t: len(P[t]) for t in P}, "builds": [b["name"] for b in builds],
           "generated_bodies": gst.get("bodies", 0), "ops_skipped_undefined": st["ops_skipped_undefined"], "exhaustive": False}
    # the repository's own spec-suite corpus for this instruction family: model vs the suite's expectations, w2c2 vs model
    sys.path.insert(0, os.path.dirname(os.path.abspath(__file__)))
    import corpus
    cov.update(corpus.phase(v, "C02", tier))
    return v.finish("model_checking", cov,
                    ["Float.tla is trusted as an oracle because it reproduces all expectations of the spec test suite for these opcodes "
                     "(checked in this run) and is built on the exhaustively checked Word operators",
                     "x86-64 SSE2 only (FLT_EVAL_METHOD = 0); x87 / other hosts are not present", "operand pool, not all 2^64 patterns"])


main_wrap(main)
