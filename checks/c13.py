#!/usr/bin/env python3
"""C13 - WASI descriptors: unique while open, invalid after close, host memory stays safe (DESIGN.md 3/C13)."""
import importlib.util
import os
import random
import shutil
import sys
HERE = os.path.dirname(os.path.abspath(__file__))
sys.path.insert(0, os.path.join(HERE, "..", "bind", "py"))
import common
import wasi
from common import SEED, Verdict, main_wrap, tlc, tlc_ok

spec = importlib.util.spec_from_file_location("c12", os.path.join(HERE, "c12.py"))
c12 = importlib.util.module_from_spec(spec)
spec.loader.exec_module(c12)

USES = ["write", "read", "pwrite", "pread", "seek", "tell", "filestat", "prestat", "prestatname", "readdir", "fdstat", "sync",
        "open-as-dir", "open-abs", "open-abs-creat", "mkdir", "unlink", "pathstat", "rename", "rename-new", "rename-new-abs", "rename-old", "readlink"]
PATHUSES = ["open-as-dir", "open-abs", "open-abs-creat", "mkdir", "unlink", "pathstat", "rename", "rename-new", "rename-new-abs", "rename-old", "readlink"]


def use(kind, fd, abi):
    if kind == "open-as-dir":
        return {"call": "open", "abi": abi, "dirfd": fd, "path": "a", "abs": False, "oflags": 0, "rd": True, "wr": False, "app": False}
    if kind in ("open-abs", "open-abs-creat"):
        # an absolute guest path does not need the directory's path, but the directory descriptor must still be live
        return {"call": "open", "abi": abi, "dirfd": fd, "path": "a" if kind == "open-abs" else "fresh", "abs": True,
                "oflags": 0 if kind == "open-abs" else 1, "rd": True, "wr": kind != "open-abs", "app": False, "parent": ""}
    if kind in ("write", "pwrite"):
        return {"call": kind, "abi": abi, "fd": fd, "segs": [[1, 2]], "offset": 1}
    if kind in ("read", "pread"):
        return {"call": kind, "abi": abi, "fd": fd, "lens": [2], "offset": 0}
    if kind == "seek":
        return {"call": "seek", "abi": abi, "fd": fd, "delta": 0, "whence": 0 if abi == "p" else 2}
    if kind in ("mkdir", "unlink", "pathstat", "readlink"):
        return {"call": kind, "abi": abi, "dirfd": fd, "path": "zz"}
    if kind == "rename":
        return {"call": "rename", "abi": abi, "dirfd": fd, "fd": fd, "path": "a", "path2": "zz"}
    # path_rename takes two descriptors: each of them alone may be the dead one (the other is the pre-open)
    if kind in ("rename-new", "rename-new-abs"):
        return {"call": "rename", "abi": abi, "dirfd": 3, "fd": fd, "path": "a", "path2": "zz", "abs2": kind.endswith("abs")}
    if kind == "rename-old":
        return {"call": "rename", "abi": abi, "dirfd": fd, "fd": 3, "path": "a", "path2": "zz"}
    return {"call": kind, "abi": abi, "fd": fd}


def lifecycle_histories(rng, tier):
    """open a file (4) and a directory (5) under the pre-open (3); then close X, use X, and a third step on X;
    plus numbers that were never issued."""
    hs = []
    setup = [{"call": "mkdirs", "path": "d"}, {"call": "mkfile", "path": "a", "bytes": [5, 6, 7]}]
    opens = [{"call": "open", "abi": "p", "dirfd": 3, "path": "a", "abs": False, "oflags": 0, "rd": True, "wr": True, "app": False},
             {"call": "open", "abi": "u", "dirfd": 3, "path": "d", "abs": False, "oflags": 2, "rd": True, "wr": False, "app": False}]
    n = 0
    for x in (4, 5, 3):
        for k1 in USES:
            thirds = ["close"] + (USES if tier != "quick" else rng.sample(USES, 3))
            for k3 in thirds:
                abi = rng.choice("pu")
                # a directory descriptor that has been listed owns a directory stream as well as a native descriptor
                pre = [{"call": "readdir", "abi": rng.choice("pu"), "fd": x, "buflen": 256, "cookie": 0}] if x in (5, 3) and rng.random() < 0.6 else []
                # whatever an implementation remembers about a live descriptor (its listing, its prestat, its position) must not
                # outlive the close
                for extra in ("prestat", "prestatname", "fdstat", "filestat", "tell"):
                    if rng.random() < 0.3:
                        pre.append(use(extra, x, rng.choice("pu")))
                calls = list(opens) + pre + [{"call": "close", "abi": abi, "fd": x}, use(k1, x, rng.choice("pu"))]
                calls.append({"call": "close", "abi": abi, "fd": x} if k3 == "close" else use(k3, x, rng.choice("pu")))
                # descriptors opened afterwards must not alias anything live
                calls.append({"call": "open", "abi": "p", "dirfd": 3 if x != 3 else 5, "path": "a" if x != 3 else "c", "abs": False, "oflags": 1, "rd": True, "wr": True, "app": False})
                hs.append({"id": "l%d" % n, "setup": setup, "calls": calls})
                n += 1
    # the standard streams can be closed like any descriptor and are invalid afterwards (the driver reports through a
    # private duplicate of its stdout)
    for x in (0, 1, 2):
        for k1 in USES:
            calls = list(opens) + [{"call": "close", "abi": rng.choice("pu"), "fd": x}, use(k1, x, rng.choice("pu")), {"call": "close", "abi": "p", "fd": x},
                                   {"call": "open", "abi": "p", "dirfd": 3, "path": "a", "abs": False, "oflags": 0, "rd": True, "wr": False, "app": False}]
            hs.append({"id": "c%d" % n, "setup": setup, "calls": calls})
            n += 1
    # the standard streams are not directories: every path-taking call through them is refused
    # (nor can they be listed: the model leaves the error open, but the host must survive the call)
    for x in (0, 1, 2):
        for k1 in PATHUSES + ["readdir"]:
            calls = list(opens) + [use(k1, x, rng.choice("pu")), {"call": "open", "abi": "p", "dirfd": 3, "path": "a", "abs": False, "oflags": 0, "rd": True, "wr": False, "app": False}]
            hs.append({"id": "s%d" % n, "setup": setup, "calls": calls})
            n += 1
    # many descriptors in one process (the table grows), closes in between, then every number is probed
    for j in range(3 if tier == "quick" else 12):
        calls, live = [], []
        nxt = 4
        for k in range(rng.choice([13, 18, 34])):
            if rng.random() < 0.5:
                calls.append({"call": "open", "abi": rng.choice("pu"), "dirfd": 3, "path": "a", "abs": False, "oflags": 0, "rd": True, "wr": rng.random() < 0.5, "app": False})
            else:
                calls.append({"call": "open", "abi": rng.choice("pu"), "dirfd": 3, "path": "d", "abs": False, "oflags": 2, "rd": True, "wr": False, "app": False})
            live.append(nxt)
            nxt += 1
            if live and rng.random() < 0.45:
                calls.append({"call": "close", "abi": rng.choice("pu"), "fd": live.pop(rng.randrange(len(live)))})
        for fd in range(3, nxt + 2):
            calls.append({"call": rng.choice(["tell", "fdstat", "filestat"]), "abi": rng.choice("pu"), "fd": fd})
        hs.append({"id": "m%d" % n, "setup": setup, "calls": calls})
        n += 1
    # live descriptors: the pre-open reports its path (any buffer length: no terminator, nothing beyond the length), file type
    # and flags of every kind of descriptor, sync of descriptors with and without a native descriptor
    for app in (False, True):
        calls = [dict(opens[0], app=app), opens[1]]
        for x in (3, 4, 5):
            calls += [{"call": "fdstat", "abi": rng.choice("pu"), "fd": x}, {"call": "sync", "abi": rng.choice("pu"), "fd": x},
                      {"call": "datasync", "abi": rng.choice("pu"), "fd": x}, {"call": "prestat", "abi": rng.choice("pu"), "fd": x}]
        for ln in (4096, 0, 1, 5):
            calls.append({"call": "prestatname", "abi": rng.choice("pu"), "fd": 3, "len": ln})
        calls.append({"call": "prestatname", "abi": "p", "fd": 3, "len": "exact"})
        calls.append({"call": "prestatname", "abi": "u", "fd": 3, "len": "exact-1"})
        calls.append({"call": "prestatname", "abi": "u", "fd": 3, "len": "exact+1"})
        # asked again (and again): an answer does not depend on the question having been asked before
        for x in (0, 3, 4, 5, 4, 3):
            calls += [{"call": "fdstat", "abi": rng.choice("pu"), "fd": x}, {"call": "filestat", "abi": rng.choice("pu"), "fd": x}, {"call": "prestat", "abi": rng.choice("pu"), "fd": x},
                      {"call": "fdstat", "abi": rng.choice("pu"), "fd": x}]
        hs.append({"id": "v%d" % n, "setup": setup, "calls": calls, "be": True})
        n += 1
    # a listed directory that disappears: listing it again from the start must not leave a released stream behind
    for gone in ("rmdir", "rename"):
        for tail in (["close"], ["readdir", "close"], ["readdir", "readdir", "close", "close"]):
            calls = [{"call": "open", "abi": "p", "dirfd": 3, "path": "e", "abs": False, "oflags": 2, "rd": True, "wr": False, "app": False},
                     {"call": "readdir", "abi": "p", "fd": 4, "buflen": 256, "cookie": 0},
                     {"call": "rmdir", "abi": "p", "dirfd": 3, "path": "e"} if gone == "rmdir" else
                     {"call": "rename", "abi": "p", "dirfd": 3, "fd": 3, "path": "e", "path2": "e2", "parent2": ""},
                     {"call": "readdir", "abi": "u", "fd": 4, "buflen": 256, "cookie": 0}]
            for t_ in tail:
                calls.append({"call": "readdir", "abi": "p", "fd": 4, "buflen": 256, "cookie": 0} if t_ == "readdir" else {"call": "close", "abi": "p", "fd": 4})
            hs.append({"id": "g%d" % n, "setup": setup + [{"call": "mkdirs", "path": "e"}], "calls": calls})
            n += 1
    for x in (6, 7, 100, 0xFFFFFFFF, 0x7FFFFFFF):
        for k1 in USES + ["close"]:
            calls = list(opens) + [{"call": "close", "abi": "p", "fd": x} if k1 == "close" else use(k1, x, rng.choice("pu"))]
            hs.append({"id": "n%d" % n, "setup": setup, "calls": calls})
            n += 1
    return hs


def main():
    tier = sys.argv[1] if len(sys.argv) > 1 else os.environ.get("VERIF_TIER", "quick")
    rng = random.Random(SEED)
    v = Verdict("C13", tier)
    m_ok = tlc_ok(tlc("WasiFd", cfg="WasiFd_Intended.cfg", workers=4, timeout=900), "WasiFd Intended")
    m_bad = tlc("WasiFd", cfg="WasiFd_AsCoded.cfg", workers=4, timeout=900)
    if m_bad["rc"] == 0:
        raise common.MachineryError("the descriptor model does not distinguish the repaired table from the one that leaves the freed path behind")
    hists = lifecycle_histories(rng, tier)
    # random walks with many closes and re-opens (the C12 generator, biased)
    for j in range(60 if tier == "quick" else 1500):
        h = c12.gen_history(rng, 10000 + j, 14)
        extra = []
        for c in h["calls"]:
            extra.append(c)
            if c["call"] == "close" and rng.random() < 0.7:
                extra.append(use(rng.choice(USES), c["fd"], rng.choice("pu")))
                if rng.random() < 0.5:
                    extra.append(dict(c))
        h["calls"] = extra
        hists.append(h)
    wd = common.scratch("c13-")
    try:
        st, exp = c12.run_all(v, hists, wd, tier, pid="C13", ls_after=())
        # uniqueness of live descriptors and the std streams, from the model's answers that the real table confirmed
        live_unique = 0
        for h in hists:
            seen = set()
            for j, c in enumerate(h["calls"]):
                m = exp[(h["id"], len(h["setup"]) + j + 1)]
                if c["call"] == "open" and m["errno"] == 0:
                    if m["out"]["fd"] in seen:
                        raise common.MachineryError("model issued a live descriptor twice")
                    seen.add(m["out"]["fd"])
                    live_unique += 1
    finally:
        shutil.rmtree(wd, ignore_errors=True)
    h0 = hists[0]
    cov = {"states": m_ok["distinct"] + m_bad["distinct"] + st["states"], "transitions": m_ok["generated"] + m_bad["generated"] + st["transitions"],
           "traces_validated_against_impl": len(hists),
           "samples": [{"history": [(c["call"], c.get("fd", c.get("dirfd"))) for c in h0["calls"]],
                        "spec_errnos": [exp[(h0["id"], len(h0["setup"]) + j + 1)]["errno"] for j in range(len(h0["calls"]))]}],
           "evaluations": st["compared"], "distinct_nontrivial": st["distinct"],
           "rule": "for X in {file descriptor, directory descriptor, the pre-open}: close X, then each of 18 descriptor-taking calls on X (data "
                   "transfer, seek/tell, filestat, prestat, readdir, fdstat, sync, X as directory of path_open/mkdir/unlink/stat/rename/readlink), then "
                   "a second close or another call, then a fresh path_open; never-issued numbers incl. 2^31-1 and 2^32-1; plus random walks with "
                   "closes followed by uses; both ABI name spaces; errno of every call vs WasiFs.tla (closed or never issued => EBADF), the new "
                   "descriptor number, prestat bytes; the ASan build reports any use of freed host memory or double free",
           "model_ascoded_refuted": m_bad["rc"] != 0, "opens_with_fresh_numbers": live_unique, "exhaustive": False}
    return v.finish("model_checking", cov,
                    ["host-memory safety is observed by AddressSanitizer on the executed histories; the table's heap discipline is modelled by WasiFd.tla's ghost cells",
                     "descriptors 0-2 are not closed or written by the histories (they are the harness's own streams)"])


main_wrap(main)
