#!/usr/bin/env python3
"""C09 - output options and worker scheduling never change what the program does (DESIGN.md 3/C09)."""
import hashlib
import os
import random
import re
import shutil
import sys
sys.path.insert(0, os.path.join(os.path.dirname(os.path.abspath(__file__)), "..", "bind", "py"))
import common
import machine
import wasmgen
import pooltrace
import tracecheck
import wasm_encode
from common import REPO, SEED, Verdict, main_wrap, tlc, tlc_ok, run, write_ndjson, read_ndjson, pmap, W2C2_DEFS
from wasmgen import b32, b64

INST = {"op": "instantiate", "binds": {"mem": 0, "table": 0, "globals": []}}
DEFRE = re.compile(r"^(?:static )?(?:void|U32|U64|F32|F64) (\w*?f\d+)\((.*)\) ?\{$")


SIZED = [55, 56, 57, 63, 64, 65, 119, 120, 127, 128, 129, 192, 256]


def body_size(f):
    e = wasm_encode.Enc()
    return len(wasm_encode.vec(e, [e.u(n, "l") + [wasm_encode.VT[t]] for t, n in f.get("locals", [])], "l") + wasm_encode.enc_expr(e, f["body"], "b"))


def make_module(rng, nf, sized=False, helpers=True):
    """Functions with memory access, memory.init, calls, a host import, duplicate bodies."""
    types = [{"p": ["i32"], "r": ["i32"]}, {"p": ["i32"], "r": []}]
    funcs = []
    for k in range(nf):
        kind = k % 5
        if kind == 0:
            body = [["local.get", 0], ["i32.const", b32(100 + k)], ["i32.add"], ["end"]]
        elif kind == 1:
            body = [["i32.const", b32(16 + 4 * k)], ["local.get", 0], ["i32.store", 2, 0], ["i32.const", b32(16 + 4 * k)], ["i32.load", 2, 0],
                    ["local.get", 0], ["call", 0], ["end"]]
        elif kind == 2:
            # (memory.init may also name an ACTIVE segment - empty once it has been applied, so only the empty copy is defined -:
            #  its array is referenced from whichever file the function lands in)
            body = [["i32.const", b32(0)], ["i32.const", b32(0)], ["i32.const", b32(0)], ["memory.init", 2 if k % 2 else 0],
                    ["i32.const", b32(200)], ["i32.const", b32(1)], ["i32.const", b32(3)], ["memory.init", 1], ["i32.const", b32(200)], ["i32.load", 0, 0],
                    ["local.get", 0], ["i32.add"], ["end"]]
        elif kind == 3:
            # the imported function and a defined one are also reached through the table (element segment referencing an import)
            body = [["local.get", 0], ["i32.const", b32(0)], ["call_indirect", 1, 0],
                    ["local.get", 0], ["call", 1 + (k + 1) % nf if (k + 1) % nf % 5 == 0 else 1], ["i32.const", b32(1)], ["call_indirect", 0, 0],
                    ["i32.const", b32(3)], ["i32.mul"], ["end"]]
        else:
            body = [["local.get", 0], ["i32.const", b32(7)], ["i32.xor"], ["end"]]      # identical bodies for every kind-4 function
        funcs.append({"type": 0, "locals": [[], [["i32", 1]], [["i32", 1], ["i64", 2]], [["f64", 1], ["i32", 2], ["i64", 1]]][(k // 5 + kind) % 4] if kind not in (1, 4)
                      else [["i32", 1]], "body": body})
    # bodies of exactly the sizes at which a block-wise hash pads or starts a new block (SHA-1: 55/56, multiples of 64);
    # the reference differs from them in the last opcode only (ref_module), so the final block decides
    for size in (SIZED if sized else []):
        body = [["local.get", 0], ["i32.const", b32(size)], ["i32.add"], ["end"]]
        while body_size({"locals": [["i32", 1]], "body": body}) < size:
            body.insert(0, ["nop"])
        funcs.append({"type": 0, "locals": [["i32", 1]], "body": body, "sized": True})
    nf = len(funcs)
    # functions that are not exported and whose debug names (-g) are alike up to punctuation, equal, or words of C
    hnames = ["memcpy.1", "memcpy_1", "memcpy 1", "a-b", "a_b", "dup", "dup", "int", "main", "operator new(unsigned long)", "q\"uote\\",
              # names that end or begin a C comment, contain a line break, a trigraph for a backslash, a format directive
              "glob(\"src/*/*.c\")", "/* open", "x//y", "line\nbreak", "tri??/", "%s%n",
              # long names that differ only at their very end (instances of one generic function, told apart by a trailing hash)
              "_ZN4core3ptr" + "L" * 290 + "17h0a1b2c3d4e5f6071E", "_ZN4core3ptr" + "L" * 290 + "17h0a1b2c3d4e5f6072E"] if helpers else []        # (not f<N>: that is the known collision with internal names under -m)
    for hk in range(len(hnames)):
        funcs.append({"type": 0, "locals": [], "body": [["local.get", 0], ["i32.const", b32(1000 * (hk + 1))], ["i32.add"], ["end"]]})
    hbody = [["i32.const", b32(0)]]
    for hk in range(len(hnames)):
        hbody += [["local.get", 0], ["call", 1 + nf + hk], ["i32.add"]]
    funcs.append({"type": 0, "locals": [], "body": hbody + [["end"]]})
    m = {"types": types, "imports": [{"mod": "env", "name": "note", "kind": "func", "type": 1, "ret": []}], "funcs": funcs,
         "memory": {"min": 1, "max": 2},
         # active and passive segments interleaved (offsets into an external blob must count every segment)
         "data": [{"mode": "active", "offset": ["i32.const", b32(300)], "bytes": [9, 8, 7]}, {"mode": "passive", "bytes": [0x11, 0x22, 0x33, 0x44, 0x55]},
                  {"mode": "active", "offset": ["i32.const", b32(308)], "bytes": [0xA1, 0xA2, 0xA3, 0xA4, 0xA5, 0xA6]}, {"mode": "passive", "bytes": [0x66]},
                  {"mode": "active", "offset": ["i32.const", b32(320)], "bytes": [0xB1, 0xB2]}],
         "datacount": True,
         "table": {"min": 2, "max": 2}, "elems": [{"offset": ["i32.const", b32(0)], "funcs": [0, 1]}],
         # the import is re-exported, too
         "exports": [{"name": "fn%d" % k, "kind": "func", "idx": 1 + k} for k in range(nf)] + [{"name": "memory", "kind": "memory", "idx": 0},
                                                                                              {"name": "renote", "kind": "func", "idx": 0},
                                                                                              {"name": "helpers", "kind": "func", "idx": 1 + nf + len(hnames)}],
         "names": {str(1 + k): "func_%d" % k for k in range(nf)}}
    m["names"]["0"] = "host_note"
    for hk, hn_ in enumerate(hnames):
        m["names"][str(1 + nf + hk)] = hn_
    return m


def permute_funcs(m, shift=1):
    """The same module with its defined functions in rotated order (indices of calls, exports, element segments and names follow): bodies
    without calls keep their bytes and get another index."""
    import copy
    m2 = copy.deepcopy(m)
    nimp = sum(1 for im in m.get("imports", []) if im["kind"] == "func")
    nf = len(m["funcs"])
    newidx = lambda i: i if i < nimp else nimp + (i - nimp + shift) % nf
    m2["funcs"] = [None] * nf
    for k, f in enumerate(copy.deepcopy(m["funcs"])):
        f["body"] = [["call", newidx(ins[1])] if ins[0] == "call" else ins for ins in f["body"]]
        m2["funcs"][(k + shift) % nf] = f
    for x in m2.get("exports", []):
        if x["kind"] == "func":
            x["idx"] = newidx(x["idx"])
    for e in m2.get("elems", []):
        e["funcs"] = [newidx(i) for i in e["funcs"]]
    if "names" in m2:
        m2["names"] = {str(newidx(int(k))): v_ for k, v_ in m["names"].items()}
    if m2.get("start") is not None:
        m2["start"] = newidx(m2["start"])
    return m2


NIMP = 6


def stress_module(nf):
    """nf functions, each with its own constants of every type, its own br_table label vector, one of the prefixed instruction
    flavours, memory offsets, a call, a call_indirect and global accesses."""
    atom = sorted(n for n in wasm_encode.OPS if ".atomic.rmw" in n)
    sat = sorted(n for n in wasm_encode.OPS if "trunc_sat" in n)
    funcs = []
    for k in range(nf):
        a64 = (0x9E3779B97F4A7C15 * (k + 1)) & (2 ** 64 - 1)
        a32 = (0x85EBCA6B * (k + 3)) & (2 ** 32 - 1)
        f32 = (0x3F800000 + 7919 * k) & 0x7F7FFFFF
        f64 = (0x3FF0000000000000 + 104729 * 65537 * k) & 0x7FEFFFFFFFFFFFFF
        depth = 3 + k % 6
        labels = [(k * 7 + 3 * j) % depth for j in range(2 + (k * 5) % 11)]
        op = atom[k % len(atom)]
        t = op.split(".")[0]
        al = wasm_encode.natural_align(op)
        body = [["i64.const", b64(a64)], ["local.set", 1], ["f32.const", b32(f32)], ["local.set", 2], ["f64.const", b64(f64)], ["local.set", 3]]
        body += [["block", ""]] * depth + [["local.get", 0], ["br_table", labels, (k * 3) % depth]] + [["end"]] * depth
        rmw = [["i32.const", b32(64 + 8 * (k % 100))], [t + ".const", b32(a32) if t == "i32" else b64(a64 ^ k)]]
        if "cmpxchg" in op:
            rmw.append([t + ".const", b32(k) if t == "i32" else b64(k)])
        body += rmw + [[op, al, 8 * (k % 50)], ["drop"]]
        body += [["local.get", 3], [sat[k % len(sat)].replace("f32", "f64")] if "f64" in sat[k % len(sat)] else ["i32.trunc_sat_f64_s"], ["drop"]] \
            if False else [["local.get", 3], ["i32.trunc_sat_f64_s"], ["drop"], ["local.get", 2], ["i64.trunc_sat_f32_u"], ["drop"]]
        # (function indices: NIMP imported functions come first)
        body += [["local.get", 0], ["call", k % NIMP], ["drop"],
                 ["global.get", k % 5], ["i32.const", b32(a32 ^ 0x5555)], ["i32.add"], ["global.set", k % 5],
                 ["local.get", 0], ["i32.const", b32(k % 7)], ["i32.add"], ["call", NIMP + ((k + 1) % nf if k % 3 == 0 else k)],
                 ["i32.const", b32(k % 4)], ["call_indirect", 0, 0],
                 ["local.get", 1], ["i64.const", b64(a64 >> 3)], ["i64.xor"], ["i32.wrap_i64"], ["i32.add"],
                 ["i32.const", b32(1024 + 4 * k)], ["i32.load16_s", 1, 4 * k + 2], ["i32.add"], ["end"]]
        funcs.append({"type": 0, "locals": [["i64", 1], ["f32", 1], ["f64", 1]], "body": body})
    # imported functions whose names take from nothing to a long time to turn into identifiers; every function calls one
    imports = [{"mod": "env", "name": nm_, "kind": "func", "type": 0, "ret": b32(1)} for nm_ in
               ("h", "name with blanks & signs: %s\\n", "l" * 3000, "\u00e9" * 20000, "x.y-z" * 4000, "q")]
    assert len(imports) == NIMP
    return {"types": [{"p": ["i32"], "r": ["i32"]}], "imports": imports, "funcs": funcs, "memory": {"min": 1, "max": 1, "shared": True}, "table": {"min": 4, "max": 4},
            "elems": [{"offset": ["i32.const", b32(0)], "funcs": [NIMP, NIMP + 1, 2, NIMP + 3]}],
            "globals": [{"t": "i32", "mut": True, "init": ["i32.const", b32(g_)]} for g_ in range(5)],
            "exports": [{"name": "f%dx" % k, "kind": "func", "idx": NIMP + k} for k in range(0, nf, 17)],
            "names": {str(NIMP + k): "stress_fn_%d" % k for k in range(nf)}}


TAIL_SWAP = {"i32.add": "i32.sub", "i32.xor": "i32.or", "i32.mul": "i32.and"}


def ref_module(m, rng, share):
    """The reference differs from the module in the functions outside `share`, each in one of four places: at the
    head of the body, in its last opcode, only in the locals declarations, or only by one trailing nop."""
    r = dict(m, funcs=[dict(f) for f in m["funcs"]])
    salt = rng.randrange(4)
    for k, f in enumerate(r["funcs"]):
        if k in share:
            continue
        how = 1 if f.get("sized") else (k + salt) % 4
        body = [list(i) for i in f["body"]]
        if how == 1 and body[-2][0] in TAIL_SWAP:
            body[-2] = [TAIL_SWAP[body[-2][0]]]
            r["funcs"][k] = dict(f, body=body)
        elif how == 2:
            r["funcs"][k] = dict(f, locals=list(f.get("locals", [])) + [["i64", 1]])
        elif how == 3:
            r["funcs"][k] = dict(f, body=body[:-1] + [["nop"], ["end"]])
        else:
            r["funcs"][k] = dict(f, body=[["i32.const", b32(77000 + k)], ["drop"]] + body)
    return r


def body_hashes(m):
    """Multiset matching as main.c does it (byte-identical code entries)."""
    out = []
    for f in m["funcs"]:
        e = wasm_encode.Enc()
        loc = wasm_encode.vec(e, [e.u(n) + [wasm_encode.VT[t]] for t, n in f.get("locals", [])], "l")
        out.append(hashlib.sha1(bytes(loc + wasm_encode.enc_expr(e, f["body"], "b"))).hexdigest())
    return out


def split_functions(text):
    """{function name: [texts of its definitions]} in a generated C file (definition = signature line up to
    the brace that closes it)."""
    out, cur, name, depth = {}, None, None, 0
    for line in text.splitlines():
        if cur is None:
            m = DEFRE.match(line)
            if m:
                name, cur, depth = m.group(1), [line], line.count("{") - line.count("}")
            continue
        cur.append(line)
        depth += line.count("{") - line.count("}")
        if depth == 0:
            out.setdefault(name, []).append("\n".join(l for l in cur if not l.startswith("#line")))
            cur = None
    return out


def optvec_argv(o, ref=None):
    a = ["-t", str(o["t"])]
    if o["f"]:
        a += ["-f", str(o["f"])]
    for k in "pgm":
        if o[k]:
            a.append("-" + k)
    if o["d"] != "arrays":
        a += ["-d", o["d"]]
    if o["r"] and ref:
        a += ["-r", ref]
    return a


def main():
    tier = sys.argv[1] if len(sys.argv) > 1 else os.environ.get("VERIF_TIER", "quick")
    rng = random.Random(SEED)
    v = Verdict("C09", tier)
    stats = {"model_states": 0, "model_transitions": 0}
    # A. the pool design: exactly-once, no deadlock, termination under fairness
    for cfg in ["WorkerPool_1_2.cfg", "WorkerPool_2_3.cfg", "WorkerPoolLive.cfg"] + ([] if tier == "quick" else ["WorkerPool_3_4.cfg"]):
        r = tlc_ok(tlc("WorkerPool", cfg=cfg, workers=8, timeout=3000, xmx="12g"), cfg)
        stats["model_states"] += r["distinct"]
        stats["model_transitions"] += r["generated"]
    wd = common.scratch("c09-")
    try:
        w2c2 = common.build_w2c2(os.path.join(wd, "bin"))
        traced = pooltrace.build_traced(os.path.join(wd, "traced"))
        # B. pool traces of the real translator under perturbed schedules
        nf = 7
        mod = make_module(rng, nf, helpers=False)
        nf = len(mod["funcs"])
        wasm = os.path.join(wd, "pool.wasm")
        open(wasm, "wb").write(wasm_encode.encode(machine.enc_module(mod)))
        runs = [(t, f, s) for t in (1, 2, 3, 7) for f in (1, 2, 3) for s in range(8 if tier == "quick" else 80)]
        groups = {}

        def trace_one(j):
            t, f, s = runs[j]
            d = os.path.join(wd, "tr%d" % j)
            os.makedirs(d)
            tf = os.path.join(d, "trace.ndjson")
            rc, so, se = run([traced, "-t", str(t), "-f", str(f), wasm, "out.c"], cwd=d, timeout=20,
                             env={"POOL_TRACE": tf, "POOL_SEED": str(SEED * 1000 + j)})
            ss = pooltrace.sessions(tf) if os.path.exists(tf) else []
            shutil.rmtree(d, ignore_errors=True)
            return rc, se, ss
        for j, (rc, se, ss) in enumerate(pmap(trace_one, range(len(runs)))):
            t, f, s = runs[j]
            nfiles = 1 + (nf - 1) // f
            if rc != 0:
                v.deviation("pool:hang" if rc == -999 else "pool:run-failed", {"run": runs[j], "rc": rc, "stderr": se[-500:]})
                continue
            if f < nf and not ss:
                v.deviation("pool:no-session", {"run": runs[j]})
            for sess in ss:
                if sorted(sess["files"]) != list(range(nfiles)):
                    v.deviation("pool:files", {"run": runs[j], "opened": sess["files"], "expected": nfiles})
                groups.setdefault((sess["nworkers"], nfiles), []).append((sess["events"], runs[j]))
        traces = 0
        tstates = ttrans = 0
        for (nw, nfl), lst in sorted(groups.items()):
            cfg = os.path.join(wd, "pool_%d_%d.cfg" % (nw, nfl))
            open(cfg, "w").write("CONSTANTS NWorkers = %d\n NFiles = %d\n SpuriousBudget = 1\nINIT TInit\nNEXT TNext\nCONSTRAINT Progress\n"
                                 "INVARIANT TraceInv\nPOSTCONDITION Reached\nCHECK_DEADLOCK FALSE\n" % (nw, nfl))
            # identical event sequences need validating once
            uniq = {}
            for evs, r_ in lst:
                uniq.setdefault(str(evs), (evs, r_))
            hs = [x[0] for x in uniq.values()]
            rejected, st_ = tracecheck.validate("WorkerPoolTrace", cfg, hs, timeout=1500)
            traces += len(hs)
            tstates += st_["states"]
            ttrans += st_["transitions"]
            for idx, at in rejected:
                v.deviation("pool:trace-rejected", {"workers": nw, "files": nfl, "run": list(uniq.values())[idx][1],
                                                    "first_unexplained_event": hs[idx][at - 1] if 0 < at <= len(hs[idx]) else None,
                                                    "unexplained_at": at, "events": hs[idx]})
        # C. option matrix
        nmods = 4 if tier == "quick" else 30
        vecs_all = []
        for t in (1, 3):
            for f in (0, 1, 2, 99):
                for p in (False, True):
                    for g in (False, True):
                        for m_ in (False, True):
                            for d in ("arrays", "gnu-ld"):
                                for r_ in (False, True):
                                    vecs_all.append({"t": t, "f": f, "p": p, "g": g, "m": m_, "d": d, "r": r_})
        scen, jobs = [], []
        for mi in range(nmods):
            nfm = rng.choice([3, 6, 11])
            m = make_module(rng, nfm, sized=mi == 0)          # the first module also has the hash-block-sized bodies
            nfm = len(m["funcs"])
            share = set(rng.sample(range(nfm), rng.randint(0, nfm)))
            if mi == 0:
                share -= {k_ for k_, f_ in enumerate(m["funcs"]) if f_.get("sized")}       # those all differ from the reference, in their tail
            rm = ref_module(m, rng, share)
            hm, hr = body_hashes(m), body_hashes(rm)
            pool_ = list(hr)
            static = []
            for k, h in enumerate(hm):
                if h in pool_:
                    pool_.remove(h)
                    static.append(k)
            vecs = rng.sample(vecs_all, 10 if tier == "quick" else 60)
            vecs += [{"t": 2, "f": 1, "p": False, "g": False, "m": False, "d": "arrays", "r": False},
                     {"t": 1, "f": 2, "p": False, "g": False, "m": True, "d": "arrays", "r": True}]
            for o in vecs:
                nst, ndy = (len(static), nfm - len(static)) if o["r"] else (nfm, 0)
                scen.append({"pre": [], "o": {"nfuncs": nfm, "perfile": o["f"], "nstatic": nst, "ndynamic": ndy, "external": o["d"] != "arrays",
                                              "clean": False, "out": list(b"out.c")}})
                jobs.append((mi, m, rm, static, o))
        inf, outf = os.path.join(wd, "scen.ndjson"), os.path.join(wd, "pred.ndjson")
        write_ndjson(inf, scen)
        fs = tlc_ok(tlc("OutputFs", env={"INFILE": inf, "OUTFILE": outf}, timeout=1800), "OutputFs")
        pred = read_ndjson(outf)

        def translate(d, m, rm, o, threads=None):
            os.makedirs(d, exist_ok=True)
            wasm_ = os.path.join(d, "mod.wasm")
            open(wasm_, "wb").write(wasm_encode.encode(machine.enc_module(m)))
            ref = os.path.join(d, "ref.wasm")
            open(ref, "wb").write(wasm_encode.encode(machine.enc_module(rm)))
            o2 = dict(o, t=threads or o["t"])
            return run([w2c2] + optvec_argv(o2, ref) + ["mod.wasm", "out.c"], cwd=d, timeout=120)

        def job(j):
            mi, m, rm, static, o = jobs[j]
            devs = []
            d = os.path.join(wd, "o%d" % j)
            rc, so, se = translate(d, m, rm, o)
            if rc != 0:
                return [("options:translate-failed", se[-300:])]
            files = {f: open(os.path.join(d, f)).read() for f in os.listdir(d) if f.endswith((".c", ".h")) or f == "datasegments" and False}
            names = set(os.listdir(d)) - {"mod.wasm", "ref.wasm"}
            expect = {bytes(n).decode() for n in pred[j]["written"]}
            if names != expect:
                devs.append(("options:file-set", "files %s, predicted %s" % (sorted(names), sorted(expect))))
            # every function exactly once
            defs = {}
            where = {}
            for f, text in files.items():
                if f.endswith(".c"):
                    for name, texts in split_functions(text).items():
                        defs.setdefault(name, []).extend(texts)
                        where.setdefault(name, []).append(f)
            nfm = len(m["funcs"])
            got = sorted(defs)
            pref = "mod_" if o["m"] else ""
            want = sorted("%sf%d" % (pref, 1 + k) for k in range(nfm))
            impl = [n for n in got if re.fullmatch(r"(mod_)?f\d+", n)]
            # same text as the single-file single-thread output with the same formatting options
            base = os.path.join(wd, "o%d-base" % j)
            rc2, _, se2 = translate(base, m, rm, dict(o, f=0, t=1, r=False))
            btext = open(os.path.join(base, "out.c")).read() if rc2 == 0 else ""
            bdefs = split_functions(btext)
            # The internal functions are recognised by the translator's naming scheme (<prefix>f<index>).  If the reference
            # output does not show that scheme (a renaming of internal identifiers is not a behaviour), the name-based
            # clauses are evaluated on whatever the two outputs have in common instead of being reported as violations.
            scheme = sorted(n for n in bdefs if re.fullmatch(r"(mod_)?f\d+", n)) == want
            if scheme and (sorted(impl) != want or any(len(defs[n]) != 1 for n in impl)):
                devs.append(("options:function-once", "defined %s (multiplicity %s), wanted %s" % (impl, [len(defs[n]) for n in impl], want)))
            if not scheme:
                if set(defs) != set(bdefs) or any(len(defs[n]) != 1 for n in defs):
                    devs.append(("options:function-once", "definitions %s vs single-file output %s" % (sorted(defs)[:8], sorted(bdefs)[:8])))
            for n in (impl if scheme else sorted(set(defs) & set(bdefs))):
                if n in bdefs and defs[n][0].replace("static ", "") != bdefs[n][0].replace("static ", ""):
                    devs.append(("options:function-text", "%s differs from the single-file output" % n))
                    break
            # static / dynamic classification
            multi = any(re.fullmatch(r"[sd]\d{10}\.c", f) for f in names)
            if o["r"] and multi and scheme:
                for k in range(nfm):
                    n = "%sf%d" % (pref, 1 + k)
                    f = (where.get(n) or ["?"])[0]
                    if f[0] in "sd" and (f[0] == "s") != (k in static):
                        devs.append(("options:static-classification", "%s in %s but static=%s" % (n, f, k in static)))
                        break
            elif o["r"] and multi:
                # without the naming scheme only the counts can be compared
                ns_ = sum(1 for n, fs in where.items() if fs[0][0] == "s" and re.fullmatch(r"[sd]\d{10}\.c", fs[0]))
                nd_ = sum(1 for n, fs in where.items() if fs[0][0] == "d" and re.fullmatch(r"[sd]\d{10}\.c", fs[0]))
                if (ns_, nd_) != (len(static), nfm - len(static)):
                    devs.append(("options:static-classification", "%d static / %d dynamic definitions, expected %d / %d" % (ns_, nd_, len(static), nfm - len(static))))
            # every file compiles on its own against the header
            if o["d"] == "arrays":
                for f in sorted(files):
                    if f.endswith(".c"):
                        rc3, _, e3 = run(["gcc", "-c", "-w", "-I", os.path.join(REPO, "w2c2"), "-DWASM_THREADS_PTHREADS", f, "-o", "/dev/null"], cwd=d, timeout=120)
                        if rc3 != 0:
                            devs.append(("options:file-does-not-compile", "%s: %s" % (f, e3[-400:])))
                            break
            # repeated run with another thread count: byte-identical files
            d2 = os.path.join(wd, "o%d-again" % j)
            rc4, _, _ = translate(d2, m, rm, o, threads={1: 5, 3: 2, 2: 64}.get(o["t"], 4))
            if rc4 == 0:
                for f in names:
                    p1, p2 = os.path.join(d, f), os.path.join(d2, f)
                    if not os.path.exists(p2) or open(p1, "rb").read() != open(p2, "rb").read():
                        devs.append(("options:not-reproducible", "%s differs between -t %d and another thread count" % (f, o["t"])))
                        break
            # the directory already holds the output of an earlier version of the module (same functions, other order): what this run
            # writes depends on its input and options alone
            d3 = os.path.join(wd, "o%d-over" % j)
            rc5, _, _ = translate(d3, permute_funcs(m), rm, o)
            rc6, _, _ = translate(d3, m, rm, o) if rc5 == 0 else (1, "", "")
            if rc6 == 0:
                for f in sorted(names):
                    p1, p3 = os.path.join(d, f), os.path.join(d3, f)
                    if not os.path.exists(p3) or open(p1, "rb").read() != open(p3, "rb").read():
                        devs.append(("options:depends-on-earlier-output", "%s differs when the directory held the output of an earlier version of the module" % f))
                        break
            for x in (d, d2, d3, base):
                shutil.rmtree(x, ignore_errors=True)
            return devs
        for j, devs in enumerate(pmap(job, range(len(jobs)))):
            for sig_, text in devs:
                o = jobs[j][4]
                key = sig_
                if sig_ == "options:file-does-not-compile" and re.search(r"'d\d+' undeclared", text):
                    key = "options:multi-file-memory-init-segment-undeclared"
                v.deviation(key, {"options": optvec_argv(o, "ref.wasm"), "module_functions": len(jobs[j][1]["funcs"]), "what": text})
        # C'. an implementation file that cannot be written (its name is taken by a directory, or leads to a device that is full), for the
        #     first, a middle and the last file and several thread counts: the run ends, and it does not report success
        fm = make_module(random.Random(SEED + 909), 6, helpers=False)
        nff = len(fm["funcs"])
        fjobs = [(k, kind, t) for k in range(3) for kind in ("directory", "dev-full") for t in ((1, 2, 4) if tier == "quick" else (1, 2, 3, 4, 8, 16))]

        def fault_job(fj):
            k, kind, t = fj
            d = os.path.join(wd, "fault-%d-%s-%d" % (k, kind, t))
            os.makedirs(d)
            open(os.path.join(d, "mod.wasm"), "wb").write(wasm_encode.encode(machine.enc_module(fm)))
            victim = os.path.join(d, "s%010d.c" % k)
            if kind == "directory":
                os.makedirs(victim)
            else:
                os.symlink("/dev/full", victim)
            rc, so, se = run([w2c2, "-t", str(t), "-f", str((nff + 2) // 3), "mod.wasm", "out.c"], cwd=d, timeout=30)
            shutil.rmtree(d, ignore_errors=True)
            return rc, se
        for fj, (rc, se) in zip(fjobs, pmap(fault_job, fjobs)):
            if rc == -999:
                v.deviation("pool:hang-when-a-file-cannot-be-written", {"file": fj[0], "obstacle": fj[1], "threads": fj[2]})
            elif rc == 0:
                v.deviation("options:success-although-a-file-could-not-be-written", {"file": fj[0], "obstacle": fj[1], "threads": fj[2], "stderr": se[-300:]})
        stats["write_fault_runs"] = len(fjobs)
        # behaviour under the options: linked together, the program gives the model's results
        items = []
        for mi in range(min(nmods, 3)):
            m = make_module(random.Random(SEED + mi), 6)
            items.append({"id": "opt%d" % mi, "module": m,
                          "script": [INST] + [{"op": "call", "inst": 1, "export": "fn%d" % k, "args": [{"t": "i32", "b": b32(x)}]}
                                              for k in range(6) for x in (0, 5, 0xFFFFFFFF)] +
                                    [{"op": "call", "inst": 1, "export": "helpers", "args": [{"t": "i32", "b": b32(3)}]}]})
        # control flow and stack shapes from the C03 families and generated programs: pretty printing and file splitting
        # must not change what any of them computes
        src3 = open(os.path.join(os.path.dirname(os.path.abspath(__file__)), "c03.py")).read().replace("main_wrap(main)", "")
        ns3 = {"__file__": os.path.join(os.path.dirname(os.path.abspath(__file__)), "c03.py"), "__name__": "borrowed_c03"}
        exec(compile(src3, "c03", "exec"), ns3)
        items += ns3["directed"](random.Random(SEED), "quick")
        items += wasmgen.programs("control", 16 if tier == "quick" else 200, SEED, args_per_prog=3)
        # deep nesting: indentation and label bookkeeping of the pretty printer
        for dpt in (33, 70):
            kinds = [("block", "i32") if d % 3 == 0 else ("loop", "") if d % 3 == 1 else ("block", "") for d in range(dpt)]
            b_ = [[k[0], k[1]] for k in kinds] + [["i32.const", b32(5)], ["local.get", 0], ["br_if", dpt - 1], ["drop"]]
            for k in reversed(kinds):
                b_ += ([["i32.const", b32(1)], ["end"], ["drop"]] if k[1] == "i32" else [["end"]])
            items.append({"id": "deep%d" % dpt, "module": {"types": [{"p": ["i32"], "r": ["i32"]}], "funcs": [{"type": 0, "locals": [], "body": b_ + [["i32.const", b32(dpt)], ["end"]]}],
                                                           "exports": [{"name": "deep", "kind": "func", "idx": 0}]},
                          "script": [INST] + [{"op": "call", "inst": 1, "export": "deep", "args": [{"t": "i32", "b": b32(x)}]} for x in (0, 1)]})
        builds = []
        for o in [{"t": 1, "f": 0, "p": False, "g": False, "m": False, "d": "arrays", "r": False}, {"t": 3, "f": 1, "p": True, "g": True, "m": True, "d": "arrays", "r": False},
                  {"t": 2, "f": 2, "p": False, "g": False, "m": False, "d": "arrays", "r": False}, {"t": 64, "f": 4, "p": True, "g": False, "m": True, "d": "arrays", "r": False},
                  {"t": 1, "f": 0, "p": False, "g": False, "m": False, "d": "gnu-ld", "r": False}, {"t": 3, "f": 2, "p": True, "g": False, "m": True, "d": "gnu-ld", "r": False}]:
            builds.append({"name": "opts" + "".join(optvec_argv(o)), "cc": "gcc", "cflags": ("-O1",), "w2c2_opts": tuple(optvec_argv(o)),
                           "batch": 1, "localize": False})
        st, exp = machine.replay(v, items, builds,
                                 sigfn=lambda it, k, why, b, e, a: "options:behaviour:%s:%s" % (b["name"], why.split(":")[0]))
        # C3. nesting far beyond what compilers produce (the code generator recurses per level): the file-splitting and thread
        #     options change WHERE a function is generated (main thread or a pool thread), never whether or how
        D1, D2 = (6000, 3000) if tier == "quick" else (12000, 6000)
        kinds = [("block", "") if d % 2 == 0 else ("loop", "") for d in range(D1)]
        f_blocks = [[k[0], k[1]] for k in kinds] + [["local.get", 0], ["br_if", D1 - 1]] + [["end"]] * D1 + [["i32.const", b32(D1)], ["end"]]
        f_ifs = [x for _ in range(D2) for x in (["local.get", 0], ["if", ""])] + [["nop"]] + [["end"]] * D2 + [["i32.const", b32(D2)], ["end"]]
        dm = {"types": [{"p": ["i32"], "r": ["i32"]}],
              "funcs": [{"type": 0, "locals": [], "body": f_blocks}, {"type": 0, "locals": [], "body": f_ifs},
                        {"type": 0, "locals": [], "body": [["local.get", 0], ["end"]]}],
              "exports": [{"name": "fn%d" % k, "kind": "func", "idx": k} for k in range(3)]}
        dd = os.path.join(wd, "verydeep")
        os.makedirs(dd)
        open(os.path.join(dd, "deep.wasm"), "wb").write(wasm_encode.encode(machine.enc_module(dm)))
        rmod = dict(dm, funcs=[dm["funcs"][2], dm["funcs"][2], dm["funcs"][2]])
        open(os.path.join(dd, "ref.wasm"), "wb").write(wasm_encode.encode(machine.enc_module(rmod)))
        base_texts = {}
        for oi, opts in enumerate((["-t", "1"], ["-t", "1", "-p"], ["-f", "1", "-t", "1"], ["-f", "1", "-t", "3"], ["-f", "2", "-t", "64"], ["-f", "1", "-t", "2", "-p"],
                                   ["-f", "2", "-t", "2", "-r", "../ref.wasm"], ["-f", "3", "-t", "1", "-r", "../ref.wasm", "-p"])):
            od = os.path.join(dd, "o%d" % oi)
            os.makedirs(od)
            rc, so, se = run([w2c2] + opts + ["../deep.wasm", "out.c"], cwd=od, timeout=300)
            if rc != 0:
                v.deviation("options:deep-nesting:translation-fails", {"options": opts, "depth": [D1, D2], "rc": rc, "stderr": se[-300:]})
                continue
            fns = {}
            for fn_ in sorted(os.listdir(od)):
                if fn_.endswith(".c"):
                    for nme, defs_ in split_functions(open(os.path.join(od, fn_)).read()).items():
                        fns.setdefault(nme, []).extend(defs_)
            key = "-p" in opts
            if oi < 2:
                base_texts[key] = fns
                continue
            for nme, defs_ in base_texts.get(key, {}).items():
                if fns.get(nme) != defs_:
                    v.deviation("options:deep-nesting:function-text", {"options": opts, "function": nme, "definitions": len(fns.get(nme, []))})
            stats["model_states"] += 0
        shutil.rmtree(dd, ignore_errors=True)
        # C2. -m: two modules translated with symbol prefixing live in one program
        for case, exports_a in (("data-segments", "fn"), ("export-named-like-internal-function", "f")):
            dd = os.path.join(wd, "multi-" + case)
            os.makedirs(dd)
            srcs = []
            for mn in ("moda", "modb"):
                mm = make_module(random.Random(mn + case), 3)
                if case != "data-segments":
                    mm.pop("data"), mm.pop("datacount")
                    for f in mm["funcs"]:
                        if any(i[0] == "memory.init" for i in f["body"]):
                            f["body"] = [["local.get", 0], ["end"]]
                    mm["exports"] = [{"name": "%s%d" % (exports_a, k), "kind": "func", "idx": 1 + k} for k in range(3)]
                open(os.path.join(dd, mn + ".wasm"), "wb").write(wasm_encode.encode(machine.enc_module(mm)))
                rc, so, se = run([w2c2, "-m", "-t", "1", mn + ".wasm", mn + ".c"], cwd=dd, timeout=60)
                srcs.append(mn + ".c")
            open(os.path.join(dd, "main.c"), "w").write(
                '#include "moda.h"\n#include "modb.h"\nvoid trap(Trap t){(void)t;}\nvoid moda_env__note(void*i,U32 x){(void)i;(void)x;}\n'
                'void modb_env__note(void*i,U32 x){(void)i;(void)x;}\nint main(void){static modaInstance a; static modbInstance b;'
                'modaInstantiate(&a,NULL); modbInstantiate(&b,NULL); return 0;}\n')
            rc, so, se = run(["gcc", "-w", "-I", os.path.join(REPO, "w2c2"), "-DWASM_THREADS_PTHREADS", "main.c"] + srcs + ["-o", "prog", "-lm", "-lpthread"], cwd=dd, timeout=120)
            if rc != 0:
                v.deviation("multi-module:%s" % case, {"what": se[-500:]})
            shutil.rmtree(dd, ignore_errors=True)
        # D. translator build configurations: identical output
        cfgs = [("no-pthread", [d for d in W2C2_DEFS if "PTHREAD" not in d]), ("no-getopt", [d for d in W2C2_DEFS if "GETOPT" not in d]),
                ("no-libgen", [d for d in W2C2_DEFS if "LIBGEN" not in d]), ("no-strdup", [d for d in W2C2_DEFS if "STRDUP" not in d])]
        m = make_module(rng, 5)
        refd = os.path.join(wd, "cfg-ref")
        os.makedirs(refd)
        open(os.path.join(refd, "mod.wasm"), "wb").write(wasm_encode.encode(machine.enc_module(m)))
        for name, defs_ in cfgs:
            try:
                exe = common.build_w2c2(os.path.join(wd, "b-" + name), defs=defs_, name="w2c2-" + name)
            except common.MachineryError as e:
                v.deviation("buildconfig:%s:does-not-build" % name, {"error": str(e)[-600:]})
                continue
            for argv in (["-f", "2"], ["-p", "-g"], []):
                outs = []
                for x in (w2c2, exe):
                    dd = os.path.join(wd, "cfg-%s-%d" % (name, len(outs)))
                    os.makedirs(os.path.join(dd, "sub"), exist_ok=True)
                    shutil.copy(os.path.join(refd, "mod.wasm"), dd)
                    rc, so, se = run([x] + (["-t", "1"] if "PTHREAD" in " ".join(defs_) or x == w2c2 else []) + argv + ["mod.wasm", "sub/out.c"], cwd=dd, timeout=120)
                    outs.append((rc, {f: open(os.path.join(dd, "sub", f), "rb").read() for f in sorted(os.listdir(os.path.join(dd, "sub")))}, se[-300:]))
                    shutil.rmtree(dd, ignore_errors=True)
                if outs[0][0] != outs[1][0] or outs[0][1] != outs[1][1]:
                    v.deviation("buildconfig:%s:different-output" % name, {"argv": argv, "default": (outs[0][0], sorted(outs[0][1])),
                                                                           "config": (outs[1][0], sorted(outs[1][1]), outs[1][2])})
        # D2. the translator built the project's own way, in every cmake build type (optimisation levels, NDEBUG, whatever flags the
        #     project attaches to them): the same output, byte for byte, as the plain build the checks use - on modules with constants
        #     of every class (subnormals, NaNs, extremes) in bodies, global initialisers and segment offsets
        src07 = open(os.path.join(os.path.dirname(os.path.abspath(__file__)), "c07.py")).read().replace("main_wrap(main)", "").replace("if __name__ == \"__main__\":", "if False:")
        ns07 = {"__file__": os.path.join(os.path.dirname(os.path.abspath(__file__)), "c07.py"), "__name__": "borrowed_c07"}
        exec(compile(src07, "c07", "exec"), ns07)
        crng = random.Random(SEED + 909)
        cs = [("f32", x) for x in ns07["float_pool"](crng, 8, 23, 4, False)] + [("f64", x) for x in ns07["float_pool"](crng, 11, 52, 4, False)] + \
             [("i32", x) for x in ns07["int_pool"](crng, 32, 4)] + [("i64", x) for x in ns07["int_pool"](crng, 64, 4)]
        cmods = [it["module"] for it in ns07["build_items"](cs[::2])][:6] + [make_module(rng, 7)]
        cdir = os.path.join(wd, "cmk")
        os.makedirs(cdir)
        for k_, m_ in enumerate(cmods):
            open(os.path.join(cdir, "c%d.wasm" % k_), "wb").write(wasm_encode.encode(machine.enc_module(machine.norm_module(m_))))

        def translate_all(exe, tag):
            outs = {}
            for k_ in range(len(cmods)):
                for argv in ([], ["-p"], ["-f", "2"]):
                    dd = os.path.join(cdir, "%s-%d-%s" % (tag, k_, "".join(argv) or "x"))
                    os.makedirs(dd)
                    rc_, so_, se_ = run([exe, "-t", "1"] + argv + ["../c%d.wasm" % k_, "out.c"], cwd=dd, timeout=120)
                    outs[(k_, tuple(argv))] = (rc_, {f_: open(os.path.join(dd, f_), "rb").read() for f_ in sorted(os.listdir(dd))})
                    shutil.rmtree(dd, ignore_errors=True)
            return outs
        ref_out = translate_all(w2c2, "ref")

        def cm_one(bt):
            try:
                return bt, common.build_w2c2_cmake(os.path.join(wd, "cmake-" + (bt or "default")), bt), None
            except common.MachineryError as e_:
                return bt, None, str(e_)
        for bt, exe_c, err_c in pmap(cm_one, [None, "Release", "MinSizeRel", "RelWithDebInfo", "Debug"], jobs=5):
            if exe_c is None:
                v.deviation("buildconfig:cmake-%s:does-not-build" % (bt or "default"), {"error": err_c[-600:]})
                continue
            got = translate_all(exe_c, "cm" + (bt or "default"))
            diff = [(k_, list(a_)) for (k_, a_), val in sorted(ref_out.items()) if got[(k_, a_)] != val]
            if diff:
                v.deviation("buildconfig:cmake-%s:different-output" % (bt or "default"), {"modules_and_options": diff[:6]})
        # E. many writer threads at once, on a module in which every function formats something of every kind (constants of all
        #    four types, br_table label vectors, prefixed instructions with their many flavours, memory offsets, calls, globals):
        #    whatever a worker needs while it writes a function is its own.  The files of runs with 3..16 threads are compared
        #    byte for byte with those of the single-thread run with the same -f (and -p).
        big = stress_module(240 if tier == "quick" else 900)
        sd = os.path.join(wd, "stress")
        os.makedirs(sd)
        open(os.path.join(sd, "mod.wasm"), "wb").write(wasm_encode.encode(machine.enc_module(big)))
        stress_runs = 0
        for fopt, extra in ((7, []), (1, []), (40, ["-p"])) if tier == "quick" else ((7, []), (1, []), (40, ["-p"]), (3, ["-g"]), (100, [])):
            def run_t(tn, tag):
                dd = os.path.join(sd, "f%d-%s" % (fopt, tag))
                os.makedirs(dd)
                rc_, so_, se_ = run([w2c2, "-t", str(tn), "-f", str(fopt)] + extra + ["../mod.wasm", "out.c"], cwd=dd, timeout=300)
                files = {f_: open(os.path.join(dd, f_), "rb").read() for f_ in sorted(os.listdir(dd))}
                shutil.rmtree(dd, ignore_errors=True)
                return rc_, files, se_[-300:]
            rc0, base, se0 = run_t(1, "ref")
            if rc0 != 0:
                v.deviation("threads:stress:single-thread-run-fails", {"f": fopt, "stderr": se0})
                continue
            reps = [(tn, "r%d" % k) for k, tn in enumerate(([16, 8, 3, 16, 8, 5, 16, 11] * (1 if tier == "quick" else 6)))]
            for (tn, tag), (rc_, files, se_) in zip(reps, pmap(lambda x: run_t(*x), reps, jobs=2)):
                stress_runs += 1
                if rc_ != 0 or files != base:
                    diff = sorted(f_ for f_ in set(files) | set(base) if files.get(f_) != base.get(f_))
                    v.deviation("threads:stress:files-differ-from-single-thread-run", {"threads": tn, "functions_per_file": fopt, "options": extra, "status": rc_,
                                                                                       "differing_files": diff[:6], "stderr": se_})
                    break
    finally:
        shutil.rmtree(wd, ignore_errors=True)
    cov = {"states": stats["model_states"] + tstates + fs["distinct"] + st["states"],
           "transitions": stats["model_transitions"] + ttrans + fs["generated"] + st["transitions"],
           "traces_validated_against_impl": traces,
           "samples": [{"pool_run": {"threads": runs[0][0], "functions_per_file": runs[0][1]}},
                       {"option_vector": optvec_argv(jobs[0][4], "ref.wasm"), "predicted_files": [bytes(n).decode() for n in pred[0]["written"]]}],
           "evaluations": len(runs) + len(jobs) + st["ops_compared"], "distinct_nontrivial": traces + len(jobs),
           "rule": "pool: event logs (lock/unlock/wait/woke/signal/broadcast/fopen/join) of the real translator for -t {1,2,3,7} x -f {1,2,3} under "
                   "seeded schedule perturbation, distinct logs validated by TLC against WorkerPool; options: modules with memory.init, passive/"
                   "active segments, host import, duplicate bodies, name section and a reference module x option vectors drawn from the full lattice "
                   "-t x -f x -p x -g x -m x -d x -r: file set = OutputFs prediction, each function exactly once, text equal to the single-file "
                   "output, static classification, every file compiles alone, reruns with other thread counts byte-identical, linked program = "
                   "model's results; build configurations without pthread/getopt/libgen/strdup produce identical output; thread stress: a module of "
                   "hundreds of functions that each format constants of all types, a br_table, a prefixed instruction flavour, offsets, calls, "
                   "translated with 3..16 writer threads, every file byte-identical to the single-thread run",
           "pool_model_states": stats["model_states"], "pool_runs": len(runs), "option_jobs": len(jobs), "thread_stress_runs": stress_runs, "exhaustive": False}
    return v.finish("model_checking", cov,
                    ["schedules of the real pool are perturbed, not exhaustively enumerated; the exhaustive part is the WorkerPool model",
                     "gnu-ld data segment mode output is not linked (needs a linker script step); its files are checked for presence only"])


main_wrap(main)
