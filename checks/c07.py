#!/usr/bin/env python3
"""C07 - every constant keeps its exact bit pattern through the generated C text (DESIGN.md 3/C07)."""
import os
import random
import sys
sys.path.insert(0, os.path.join(os.path.dirname(os.path.abspath(__file__)), "..", "bind", "py"))
import common
import machine
import wasm_encode
from common import SEED, Verdict, main_wrap, tlc, tlc_ok, write_ndjson, read_ndjson
from wasmgen import b32, b64

INST = {"op": "instantiate", "binds": {"mem": 0, "table": 0, "globals": []}}


def float_pool(rng, ebits, mbits, n_rand, dense):
    W = 1 + ebits + mbits
    emax = (1 << ebits) - 1
    M = (1 << mbits) - 1
    half = mbits // 2
    out = []

    def mk(s, e, f):
        return (s << (W - 1)) | (e << mbits) | f
    fr = [0, 1, M, 1 << (mbits - 1), (1 << (mbits - 1)) | 1, 1 << half, (1 << half) - 1, M ^ ((1 << half) - 1),
          1 << (mbits - 2), 0x400000 & M, (1 << 23) & M, (1 << 23) - 1 & M, 1 << 22 if mbits > 23 else 5, (1 << 29) & M, (1 << 51) & M]
    if dense:
        fr += [1 << k for k in range(mbits)]
    for s in (0, 1):
        for e in ([0, 1, emax - 1, emax, (emax >> 1), (emax >> 1) + 1, (emax >> 1) - 1] if not dense else range(0, emax + 1, max(1, emax // 64))):
            for f in fr:
                out.append(mk(s, e, f))
        out += [mk(s, emax, 0), mk(s, 0, 0), mk(s, emax, 1 << (mbits - 1))]
    # floats at which a short decimal literal read with two roundings (decimal -> double -> float) lands on the neighbour
    if W == 32:
        import hardfloat
        out += hardfloat.pool()
    # decimal-printing stress: values needing all 9 / 17 significant digits
    for _ in range(n_rand):
        out.append(rng.getrandbits(W))
        out.append(mk(rng.getrandbits(1), rng.randrange(1, emax), rng.getrandbits(mbits)))
    # decimal structure: powers of ten and small multiples (their shortest text is an exponent without fraction, "1e+22"),
    # values with short decimal forms, and - for the wide format - values that are exactly representable in the narrow one
    # (a printer that chooses its precision by value rather than by type meets them)
    import struct
    fmt, ifmt = ("<f", "<I") if W == 32 else ("<d", "<Q")
    lo, hi = (-45, 39) if W == 32 else (-323, 309)
    for k in range(lo, hi, 1 if dense else 3):
        for d in (1, 2, 5, 9):
            try:
                x = float("%de%d" % (d, k))
                b = struct.unpack(ifmt, struct.pack(fmt, x))[0]
            except (OverflowError, struct.error):
                continue
            out += [b, b | (1 << (W - 1))]
    for x in (0.1, 0.2, 0.3, 1.5, 1234.5, 1e9, 1e10, 4294967296.0, 2147483648.0, 9007199254740992.0, 9.223372036854775808e18, 2.0 ** -20, 16777216.0, 3.0e38):
        try:
            b = struct.unpack(ifmt, struct.pack(fmt, x))[0]
            out += [b, b | (1 << (W - 1))]
        except (OverflowError, struct.error):
            pass
    if W == 64:
        for fb in (0x3DCCCCCD, 0x7F7FFFFF, 0x00800000, 0x00000001, 0x3F800001, 0x4F000000, 0x5F000000, 0x3EAAAAAB, 0x40490FDB, 0x501502F9):
            x = struct.unpack("<f", struct.pack("<I", fb))[0]
            b = struct.unpack("<Q", struct.pack("<d", x))[0]
            out += [b, b | (1 << 63)]
    seen, res = set(), []
    for v in out:
        if v not in seen:
            seen.add(v)
            res.append(v)
    return res


def needs_all_digits(rng, fmt, n):
    """Finite values whose shortest round-tripping decimal needs all 9 (f32) / 17 (f64) significant digits."""
    import struct
    out = []
    tries = 0
    while len(out) < n and tries < 200000:
        tries += 1
        if fmt == "f32":
            v = rng.getrandbits(32)
            if (v >> 23) & 0xFF in (0, 0xFF):
                continue
            x = struct.unpack("<f", struct.pack("<I", v))[0]
            back = struct.unpack("<I", struct.pack("<f", float("%.8g" % x)))[0]
        else:
            v = rng.getrandbits(64)
            if (v >> 52) & 0x7FF in (0, 0x7FF):
                continue
            x = struct.unpack("<d", struct.pack("<Q", v))[0]
            back = struct.unpack("<Q", struct.pack("<d", float("%.16g" % x)))[0]
        if back != v:
            out.append(v)
    return out


def int_pool(rng, bits, n_rand):
    M = (1 << bits) - 1
    out = [0, 1, M, 1 << (bits - 1), (1 << (bits - 1)) - 1, (1 << (bits - 1)) + 1, 2, M - 1]
    for k in range(1, bits // 7 + 1):
        out += [(1 << (7 * k - 1)) - 1, 1 << (7 * k - 1), (M ^ ((1 << (7 * k - 1)) - 1)), (M ^ ((1 << (7 * k - 1)))) & M, 1 << (7 * k) if 7 * k < bits else 0]
    # decimal structure: the literal is printed in decimal, so powers of ten, their neighbours, multiples, and values
    # whose decimal digits contain runs of zeros (any digit group of a formatter that prints in pieces), as signed
    # and as unsigned readings of the same bits
    ndig = len(str(M))
    for k in range(ndig):
        p = 10 ** k
        for v in (p, p - 1, p + 1, 9 * p, 5 * p + 1, -p, -p - 1, -9 * p):
            if -(1 << (bits - 1)) <= v <= M:
                out.append(v)
    for _ in range(max(12, n_rand // 4)):
        digits = [rng.choice("0000123456789") for _ in range(rng.randint(ndig - 2, ndig))]
        digits[0] = rng.choice("123456789")
        for _ in range(rng.randint(0, 2)):
            a = rng.randrange(1, len(digits))
            b = min(len(digits), a + rng.choice([3, 8, 9, 10]))
            digits[a:b] = "0" * (b - a)
        v = int("".join(digits))
        if v <= M:
            out += [v, -v]
    out += [0x9E3779B97F4A7C15, 0xCBF29CE484222325, 1000000007, 998244353, 0xDEADBEEF, 0x0123456789ABCDEF]
    out += [rng.getrandbits(bits) for _ in range(n_rand)]
    return list(dict.fromkeys(v & M for v in out))


def build_items(consts, chunk=60):
    """consts: list of (t, value).  Three positions: body, global initialiser, segment offset."""
    items = []
    for j in range(0, len(consts), chunk):
        part = consts[j:j + chunk]
        types, funcs, exports, globals_, script = [], [], [], [], [INST]

        def ty(p, r):
            t = {"p": p, "r": r}
            if t not in types:
                types.append(t)
            return types.index(t)
        for k, (t, v) in enumerate(part):
            bts = b32(v) if t in ("i32", "f32") else b64(v)
            it = {"f32": "i32", "f64": "i64"}.get(t, t)
            re = [[it + ".reinterpret_" + t]] if t in ("f32", "f64") else []
            # body: as integer bits, and (floats) returned directly as a float
            funcs.append({"type": ty([], [it]), "locals": [], "body": [[t + ".const", bts]] + re + [["end"]]})
            exports.append({"name": "b%d" % k, "kind": "func", "idx": len(funcs) - 1})
            script.append({"op": "call", "inst": 1, "export": "b%d" % k, "args": []})
            if t in ("f32", "f64"):
                funcs.append({"type": ty([], [t]), "locals": [], "body": [[t + ".const", bts], ["end"]]})
                exports.append({"name": "d%d" % k, "kind": "func", "idx": len(funcs) - 1})
                script.append({"op": "call", "inst": 1, "export": "d%d" % k, "args": []})
            globals_.append({"t": t, "mut": k % 2 == 0, "init": [t + ".const", bts]})
            funcs.append({"type": ty([], [it]), "locals": [], "body": [["global.get", k]] + re + [["end"]]})
            exports.append({"name": "g%d" % k, "kind": "func", "idx": len(funcs) - 1})
            script.append({"op": "call", "inst": 1, "export": "g%d" % k, "args": []})
        items.append({"id": "c%d" % (j // chunk), "module": {"types": types, "funcs": funcs, "globals": globals_, "exports": exports},
                      "script": script})
    return items


def sequence_items(rng):
    """Constants are written one after the other by the same code: what was written for one must not colour the next.  Function
    bodies (and global initialisers, in module order) with two constants in a row that are related - the same number at another
    precision, the same bits at another type, the same value twice, the halves of each other - return the SECOND one."""
    import struct
    f32s = [0x3DCCCCCD, 0x3EAAAAAB, 0x40490FDB, 0x3F800001, 0x7F7FFFFF, 0x00000001, 0x33D6BF95, 0x4B800001, 0xBDCCCCCD, 0x15AE43FD, 0x3F000000]
    pairs = []
    for a in f32s:
        d = struct.unpack("<Q", struct.pack("<d", struct.unpack("<f", struct.pack("<I", a))[0]))[0]       # the same number as an f64
        pairs += [(("f32", a), ("f64", d)), (("f64", d), ("f32", a)), (("f32", a), ("f32", a)), (("f64", d), ("f64", d)),
                  (("i32", a), ("f32", a)), (("f32", a), ("i32", a)), (("i64", d), ("f64", d)), (("f64", d), ("i64", d)),
                  (("i64", d), ("i32", d & 0xFFFFFFFF)), (("i32", a), ("i64", a)), (("f32", a), ("f64", d ^ 1)), (("f64", d + 1), ("f32", a))]
    types, funcs, exports, globals_, script = [], [], [], [], [INST]

    def ty(p, r):
        t = {"p": p, "r": r}
        if t not in types:
            types.append(t)
        return types.index(t)
    for k, ((t1, v1), (t2, v2)) in enumerate(pairs):
        c1 = [t1 + ".const", b32(v1) if t1 in ("i32", "f32") else b64(v1)]
        c2 = [t2 + ".const", b32(v2) if t2 in ("i32", "f32") else b64(v2)]
        it = {"f32": "i32", "f64": "i64"}.get(t2, t2)
        re = [[it + ".reinterpret_" + t2]] if t2 in ("f32", "f64") else []
        funcs.append({"type": ty([], [it]), "locals": [], "body": [c1, ["drop"], c2] + re + [["end"]]})
        exports.append({"name": "s%d" % k, "kind": "func", "idx": len(funcs) - 1})
        script.append({"op": "call", "inst": 1, "export": "s%d" % k, "args": []})
        globals_ += [{"t": t1, "mut": False, "init": c1}, {"t": t2, "mut": False, "init": c2}]
        funcs.append({"type": ty([], [it]), "locals": [], "body": [["global.get", 2 * k + 1]] + re + [["end"]]})
        exports.append({"name": "sg%d" % k, "kind": "func", "idx": len(funcs) - 1})
        script.append({"op": "call", "inst": 1, "export": "sg%d" % k, "args": []})
    return [{"id": "seq", "module": {"types": types, "funcs": funcs, "globals": globals_, "exports": exports}, "script": script}]


def address_items():
    """i32 constants that happen to be addresses of text in the data segments - text with comment delimiters, quotes, backslashes,
    trigraphs, format directives.  A constant is a number, whatever lies at that address (also in the annotated -p output)."""
    texts = [b"*/+1/*", b"*/", b"/* open", b"\"quoted\"", b"back\\slash\\", b"??/", b"%s%d%n", b"plain text", b"//", b"*/;return 7;/*", b"\n", b"end */ 2 /* x"]
    data, addrs, at = [], [], 1024
    for t in texts:
        data.append({"mode": "active", "offset": ["i32.const", b32(at)], "bytes": list(t) + [0]})
        addrs.append(at)
        at += 48
    types = [{"p": [], "r": ["i32"]}]
    funcs, exports, script = [], [], [INST]
    for k, a in enumerate(addrs):
        funcs.append({"type": 0, "locals": [], "body": [["i32.const", b32(a)], ["end"]]})
        exports.append({"name": "adr%d" % k, "kind": "func", "idx": len(funcs) - 1})
        funcs.append({"type": 0, "locals": [], "body": [["i32.const", b32(a)], ["i32.load8_u", 0, 0], ["i32.const", b32(a + 1)], ["i32.add"], ["end"]]})
        exports.append({"name": "use%d" % k, "kind": "func", "idx": len(funcs) - 1})
        script += [{"op": "call", "inst": 1, "export": "adr%d" % k, "args": []}, {"op": "call", "inst": 1, "export": "use%d" % k, "args": []}]
    m = {"types": types, "funcs": funcs, "exports": exports + [{"name": "memory", "kind": "memory", "idx": 0}], "memory": {"min": 1, "max": 1}, "data": data,
         "globals": [{"t": "i32", "mut": False, "init": ["i32.const", b32(addrs[0])]}]}
    return [{"id": "adr", "module": m, "script": script}]


def offset_items(rng, n):
    """i32 constants as data / element segment offsets: observed by where the segment lands."""
    items = []
    offs = [0, 1, 63, 64, 127, 128, 8191, 8192, 16383, 16384, 65535, 65536 + 100, 131071 - 2] + [rng.randrange(0, 131072 - 3) for _ in range(n)]
    for j, o in enumerate(offs):
        m = {"types": [{"p": ["i32"], "r": ["i32"]}, {"p": [], "r": ["i32"]}],
             "funcs": [{"type": 0, "locals": [], "body": [["local.get", 0], ["call_indirect", 1, 0], ["end"]]},
                       {"type": 1, "locals": [], "body": [["i32.const", b32(4242)], ["end"]]}],
             "memory": {"min": 2, "max": 2}, "table": {"min": 300, "max": 300},
             "data": [{"mode": "active", "offset": ["i32.const", b32(o)], "bytes": [0xC7, 0x07, 0x7C]}],
             "elems": [{"offset": ["i32.const", b32(o % 299)], "funcs": [1]}],
             "exports": [{"name": "icall", "kind": "func", "idx": 0}, {"name": "memory", "kind": "memory", "idx": 0}]}
        items.append({"id": "o%d" % j, "module": m,
                      "script": [INST, {"op": "call", "inst": 1, "export": "icall", "args": [{"t": "i32", "b": b32(o % 299)}]}]})
    return items


def big_offsets(v, wd):
    """Segment offsets in the upper half of the 32-bit range need a memory of more than 2 GiB, and addresses TLC's 32-bit
    integers cannot hold: this corner is checked outside the model with the trivial rule "byte i of the segment lies at
    offset + i" (the memory is allocated lazily by the host; only the touched pages become resident)."""
    offs = [0x7FFFFFFE, 0x80000008, 0x80000100, 0x8001FFFC, 0x7FFF0000]
    segs = [{"mode": "active", "offset": ["i32.const", b32(o)], "bytes": [0xB0 + k, 0x10 + k, 0xEE, 0x01 + k]} for k, o in enumerate(offs)]
    m = {"types": [{"p": [], "r": []}], "funcs": [{"type": 0, "locals": [], "body": [["end"]]}],
         "memory": {"min": 32770, "max": 32770}, "data": segs,
         "exports": [{"name": "memory", "kind": "memory", "idx": 0}, {"name": "f", "kind": "func", "idx": 0}]}
    d = os.path.join(wd, "bigoff")
    os.makedirs(d)
    open(os.path.join(d, "big.wasm"), "wb").write(wasm_encode.encode(machine.enc_module(machine.norm_module(m))))
    w2c2 = common.build_w2c2(os.path.join(wd, "w2c2bin"))
    rc, so, se = common.run([w2c2, "-t", "1", "big.wasm", "big.c"], cwd=d, timeout=120)
    if rc != 0:
        v.deviation("offset:big:translate", {"stderr": se[-400:]})
        return 0
    checks = "".join("  for (k = 0; k < 4; k++) printf(\"%%u \", (unsigned)m->data[(U64)%uU + k]);\n" % o for o in offs)
    open(os.path.join(d, "main.c"), "w").write(
        '#include <stdio.h>\n#include "big.h"\nvoid trap(Trap t) { printf("trap %d\\n", (int)t); }\n'
        'int main(void) { static bigInstance i; wasmMemory* m; int k; bigInstantiate(&i, NULL); m = big_memory(&i);\n' + checks +
        '  printf("\\n"); return 0; }\n')
    n = 0
    for cc, opt in (("gcc", "-O1"), ("clang", "-O0")):
        rc, so, se = common.run([cc, opt, "-w", "-I", os.path.join(common.REPO, "w2c2"), "-DWASM_THREADS_PTHREADS", "main.c", "big.c", "-o", "big-" + cc, "-lm", "-lpthread"], cwd=d, timeout=300)
        if rc != 0:
            v.deviation("offset:big:compile", {"compiler": cc, "stderr": se[-400:]})
            continue
        rc, so, se = common.run([os.path.join(d, "big-" + cc)], cwd=d, timeout=120)
        want = " ".join(str(b) for s_ in segs for b in s_["bytes"])
        n += len(offs)
        if rc != 0 or so.strip() != want:
            v.deviation("offset:big:bytes", {"compiler": cc, "offsets": [hex(o) for o in offs], "want": want, "got": so.strip()[:200], "rc": rc})
    return n


def sig(it, k, why, build, e, a):
    if it["id"].startswith("c"):
        op = it["script"][k - 1]["export"]
        # which constant?  reconstruct from the module
        idx = int(op[1:])
        g = it["module"]["globals"][idx]
        t, bts = g["t"], g["init"][1]
        v = int.from_bytes(bytes(bts), "little")
        if t == "f64" and (v >> 52) & 0x7FF == 0x7FF and v & ((1 << 52) - 1) and not v & 0x7FFFFF:
            return "f64-nan-low23-zero"
        return "%s:%s:%s" % (t, op[0], "0x%x" % v)
    return "%s:%s" % (it["id"], why.split(":")[0])


def main():
    tier = sys.argv[1] if len(sys.argv) > 1 else os.environ.get("VERIF_TIER", "quick")
    rng = random.Random(SEED)
    v = Verdict("C07", tier)
    lc = tlc_ok(tlc("Literal", cfg="LiteralCheck.cfg", workers=2, timeout=300), "LiteralCheck")
    dense = tier != "quick"
    nr = 6 if tier == "quick" else 400
    consts = [("f32", x) for x in float_pool(rng, 8, 23, nr, dense)] + [("f64", x) for x in float_pool(rng, 11, 52, nr, dense)] + \
             [("i32", x) for x in int_pool(rng, 32, nr)] + [("i64", x) for x in int_pool(rng, 64, nr)]
    digits = [("f32", x) for x in needs_all_digits(rng, "f32", 24 if tier == "quick" else 400)] + \
             [("f64", x) for x in needs_all_digits(rng, "f64", 24 if tier == "quick" else 400)]
    import hardfloat
    hard = [("f32", x) for x in hardfloat.pool()]
    if tier == "quick":
        # keep every class corner (and the double-rounding cases), thin out the rest
        keep = hard + consts[::3] + [c for c in consts if c[0] in ("i32", "i64")][:40]
        consts = list(dict.fromkeys(keep + digits + [c for c in consts if (c[1] >> (20 if c[0] == "f32" else 49)) & 0xFFF in (0x7FF, 0xFFF, 0x7F8, 0xFF8, 0)]))
    if tier != "quick":
        consts = list(dict.fromkeys(consts + digits))
    # classes hit, by the specification's own classification
    wd = common.scratch("c07-")
    try:
        inf, outf = os.path.join(wd, "consts.ndjson"), os.path.join(wd, "classes.ndjson")
        write_ndjson(inf, [{"t": t, "b": b32(x) if t in ("i32", "f32") else b64(x)} for t, x in consts])
        cl = tlc_ok(tlc("Literal", cfg="LiteralClassify.cfg", env={"INFILE": inf, "OUTFILE": outf}, timeout=600), "LiteralClassify")
        classes = {}
        for r in read_ndjson(outf):
            key = "%s/%s/%s/%s" % (r["t"], r["class"]["cls"], r["class"]["sign"], r["class"]["sub"])
            classes[key] = classes.get(key, 0) + 1
    finally:
        import shutil
        shutil.rmtree(wd, ignore_errors=True)
    items = build_items(consts) + offset_items(rng, 8 if tier == "quick" else 100) + sequence_items(rng) + address_items()
    builds = [{"name": "gcc-O0", "cc": "gcc", "cflags": ("-O0",)}, {"name": "gcc-O2", "cc": "gcc", "cflags": ("-O2",)},
              {"name": "clang-O0", "cc": "clang", "cflags": ("-O0",)}, {"name": "clang-O2", "cc": "clang", "cflags": ("-O2",)},
              # the annotated (pretty) form of the output: the same numbers
              {"name": "gcc-O1-pretty", "cc": "gcc", "cflags": ("-O1",), "w2c2_opts": ("-m", "-p")}]
    # the translator itself built other ways (debug: -O0, size: clang -Os) and with UBSan (any report is a defect of the translator, whose
    # result then depends on the compiler that built it)
    builds += [{"name": "gcc-O1-translator-O0", "cc": "gcc", "cflags": ("-O1",), "w2c2_build": {"flags": ("-O0",)}},
               {"name": "gcc-O1-translator-clang-Os", "cc": "gcc", "cflags": ("-O1",), "w2c2_build": {"cc": "clang", "flags": ("-Os",)}},
               {"name": "gcc-O1-translator-ubsan", "cc": "gcc", "cflags": ("-O1",), "w2c2_build": {"flags": ("-O1", "-fsanitize=undefined", "-fno-sanitize-recover=undefined")}},
               # strict C89 as the project promises (glibc then hides NAN, INFINITY and the C99 math functions' prototypes)
               {"name": "gcc-O1-std-c89", "cc": "gcc", "cflags": ("-O1", "-std=c89"), "defs": ("-UWASM_THREADS_PTHREADS",)}]
    # the translator run by a user whose locale writes the decimal point as a comma: the literals must not depend on it
    wdl = common.scratch("c07loc-")
    cenv = machine.comma_locale(wdl)
    if cenv:
        builds.append({"name": "gcc-O0-decimal-comma-locale", "cc": "gcc", "cflags": ("-O0",), "w2c2_env": cenv})
    try:
        st, exp = machine.replay(v, items, builds, sigfn=sig)
    finally:
        shutil.rmtree(wdl, ignore_errors=True)
    wd2 = common.scratch("c07big-")
    try:
        nbig = big_offsets(v, wd2)
    finally:
        shutil.rmtree(wd2, ignore_errors=True)
    cov = {"states": st["states"] + lc["distinct"] + cl["distinct"], "transitions": st["transitions"] + lc["generated"] + cl["generated"],
           "traces_validated_against_impl": st["ops_compared"],
           "samples": [{"t": t, "bits": "0x%x" % x} for t, x in consts[:4] + consts[len(consts) // 2:len(consts) // 2 + 4]],
           "evaluations": st["ops_compared"], "distinct_nontrivial": len(consts),
           "rule": "constants drawn per class of Literal.tla (sign x {zero, subnormal, normal, inf, quiet/signalling NaN x payload with "
                   "low half zero / non-zero, extremes}; integers by minimal LEB length and extremes) plus seeded random patterns; each "
                   "in three positions (function body, global initialiser, data/element segment offset) and four builds (gcc/clang x O0/O2); "
                   "distinct_nontrivial = number of distinct constants",
           "big_segment_offsets_checked_outside_the_model": nbig,
           "constants": len(consts), "classes_hit": len(classes), "class_histogram": classes,
           "builds": [b["name"] for b in builds], "exhaustive": False}
    # the repository's own spec-suite corpus for this instruction family: model vs the suite's expectations, w2c2 vs model
    sys.path.insert(0, os.path.dirname(os.path.abspath(__file__)))
    import corpus
    cov.update(corpus.phase(v, "C07", tier))
    return v.finish("model_checking", cov,
                    ["float results are also observed through reinterpret to an integer, so that NaN payloads are compared bit for bit",
                     "gcc 12 / clang 14 on x86-64 (SSE2 argument passing keeps signalling NaNs intact)"])


main_wrap(main)
