#!/usr/bin/env python3
"""C16 - atomic memory instructions have specified results and are atomic across threads (DESIGN.md 3/C16)."""
import json
import os
import random
import shutil
import sys
sys.path.insert(0, os.path.join(os.path.dirname(os.path.abspath(__file__)), "..", "bind", "py"))
import common
import machine
import tracecheck
import wasm_encode
from common import BINDC, REPO, SEED, Verdict, main_wrap, run, tlc, tlc_ok, pmap
from wasm_encode import OPS, natural_align
from wasmgen import b32, b64

INST = {"op": "instantiate", "binds": {"mem": 0, "table": 0, "globals": []}}
ATOMIC = sorted(n for n in OPS if ".atomic." in n and not n.startswith("memory."))


def val(t, v):
    return {"t": t, "b": b32(v) if t == "i32" else b64(v)}


def sequential_items(rng, tier):
    """Every flavour x operand pool x aligned address with a non-zero static offset; memory image compared after each call."""
    types, funcs, exports, calls = [], [], [], []

    def ty(p, r):
        x = {"p": p, "r": r}
        if x not in types:
            types.append(x)
        return types.index(x)
    vals32 = [0x81828384, 0xFFFFFFFF, 0x000000FF, 0x0000FF01, 0x7F80FF01, 1, 0x80000000]
    vals64 = [0x8182838485868788, (1 << 64) - 1, 0xFF, 0x00000001FFFFFFFF, 0x0102030480FF7F00, 1, 1 << 63]
    for op in ATOMIC:
        t = op.split(".")[0]
        w = 1 << natural_align(op)
        name = op.replace(".", "_")
        kind = op.split(".")[2]
        vs = vals32 if t == "i32" else vals64
        # static offsets: 0, a multiple of every width, and one that is NOT a multiple of the access width - the address operand
        # then makes up for it (the EFFECTIVE address is what has to be naturally aligned)
        for off in (0, 16) + ((w + 1,) if w > 1 else ()):
            nm = "%s_%d" % (name, off)
            if kind.startswith("load"):
                funcs.append({"type": ty(["i32"], [t]), "locals": [], "body": [["local.get", 0], [op, natural_align(op), off], ["end"]]})
                args = lambda a: [[val("i32", a)]]
            elif kind.startswith("store"):
                funcs.append({"type": ty(["i32", t], []), "locals": [], "body": [["local.get", 0], ["local.get", 1], [op, natural_align(op), off], ["end"]]})
                args = lambda a: [[val("i32", a), val(t, v)] for v in vs[:4]]
            elif "cmpxchg" in op:
                funcs.append({"type": ty(["i32", t, t], [t]), "locals": [], "body": [["local.get", 0], ["local.get", 1], ["local.get", 2], [op, natural_align(op), off], ["end"]]})
                # expected values: the cell's seeded content (matches only after wrapping to the access width), a non-matching one
                args = lambda a: [[val("i32", a), val(t, e), val(t, r)] for e in (0xA1A2A3A4A5A6A7A8 & ((1 << (64 if t == "i64" else 32)) - 1), 0x1111, vs[0]) for r in vs[:2]]
            else:
                funcs.append({"type": ty(["i32", t], [t]), "locals": [], "body": [["local.get", 0], ["local.get", 1], [op, natural_align(op), off], ["end"]]})
                args = lambda a: [[val("i32", a), val(t, v)] for v in vs[:5]]
            exports.append({"name": nm, "kind": "func", "idx": len(funcs) - 1})
            for a in (64, 64 + w, 120):
                a -= a % w
                if off % w:
                    a -= off % w                      # effective address a - (off mod w) + off: aligned
                for av in args(a):
                    calls.append({"op": "call", "inst": 1, "export": nm, "args": av})
    rng.shuffle(calls)
    if tier == "quick":
        calls = calls[:2500]
    # a function whose only effect is its read-modify-write (a ticket counter, a try-lock) is called twice with the same
    # arguments by one caller: two calls, two updates (a compiler that is told such a function is pure merges them)
    base = len(funcs)
    funcs.append({"type": ty(["i32"], ["i32"]), "locals": [], "body": [["local.get", 0], ["i32.const", b32(1)], ["i32.atomic.rmw.add", 2, 0], ["end"]]})                 # ticket
    funcs.append({"type": ty(["i32"], ["i32"]), "locals": [], "body": [["local.get", 0], ["i32.const", b32(0)], ["i32.const", b32(1)], ["i32.atomic.rmw.cmpxchg", 2, 0], ["end"]]})   # try-lock: 0 = got it
    funcs.append({"type": ty(["i32"], ["i64"]), "locals": [], "body": [["local.get", 0], ["i64.const", b64(5)], ["i64.atomic.rmw.xchg", 3, 0], ["end"]]})
    for k_, (callee, rt, comb) in enumerate(((base, "i32", "i32.sub"), (base + 1, "i32", "i32.add"), (base + 2, "i64", "i64.add"))):
        rtw = "i32" if rt == "i32" else "i64"
        funcs.append({"type": ty(["i32"], [rtw]), "locals": [], "body": [["local.get", 0], ["call", callee], ["local.get", 0], ["call", callee], [comb], ["end"]]})
        exports.append({"name": "twice%d" % k_, "kind": "func", "idx": len(funcs) - 1})
    tail = []
    for rep in range(3):
        for k_ in range(3):
            tail.append({"op": "call", "inst": 1, "export": "twice%d" % k_, "args": [val("i32", 800 + 16 * k_)]})
    calls = calls + tail
    mod = {"types": types, "funcs": funcs, "exports": exports + [{"name": "memory", "kind": "memory", "idx": 0}],
           "memory": {"min": 1, "max": 1},
           "data": [{"mode": "active", "offset": ["i32.const", b32(56)], "bytes": [0xA0 + (i % 16) + 1 if i % 8 != 7 else 0xA8 for i in range(120)]}]}
    # seed so that the cell at any aligned address reads A1 A2 ... A8
    mod["data"][0]["bytes"] = [0xA1 + (i % 8) for i in range(120)]
    return [{"id": "aseq%d" % j, "module": mod, "script": [INST] + calls[j:j + 300]} for j in range(0, len(calls), 300)]


def isolated_items(rng):
    """Every read-modify-write and compare-exchange flavour on a cell of its own that is only touched through accesses of the
    same width and type (store, the operation, load): results that do not depend on the byte order configuration, so the same
    scenario runs in the little-endian and in the forced big-endian build."""
    sq = sequential_items(rng, "thorough")[0]["module"]
    names = {e["name"] for e in sq["exports"]}
    calls, addr = [], 1024
    vals = {"i32": [0x81828384, 0x000000FF, 0x7F80FF01, 1, 0xFFFFFFFF], "i64": [0x8182838485868788, 0xFF, 0x0102030480FF7F00, 1, (1 << 64) - 1]}
    for op in ATOMIC:
        parts = op.split(".")
        t, kind = parts[0], parts[2]
        if not kind.startswith("rmw"):
            continue
        w = kind[3:]                                   # "", "8", "16", "32"
        st_, ld_ = "%s_atomic_store%s_0" % (t, w), "%s_atomic_load%s%s_0" % (t, w, "_u" if w else "")
        nm = op.replace(".", "_") + "_0"
        if not {st_, ld_, nm} <= names:
            continue
        for v0 in vals[t][:3]:
            for v in vals[t][2:5]:
                addr += 16
                calls.append({"op": "call", "inst": 1, "export": st_, "args": [val("i32", addr), val(t, v0)]})
                if "cmpxchg" in op:
                    bits = int(w) if w else (32 if t == "i32" else 64)
                    full = (1 << (32 if t == "i32" else 64)) - 1
                    junk = (full ^ ((1 << bits) - 1)) & 0xA5A5A5A5FFFFFF00FFFFFF00 & full     # bits above the access width only
                    # the expected operand is wrapped to the access width before the comparison: junk above it does not matter
                    calls.append({"op": "call", "inst": 1, "export": nm, "args": [val("i32", addr), val(t, (v0 & ((1 << bits) - 1)) | (junk if (addr // 16) % 2 else 0)), val(t, v)]})
                    calls.append({"op": "call", "inst": 1, "export": ld_, "args": [val("i32", addr)]})
                    calls.append({"op": "call", "inst": 1, "export": nm, "args": [val("i32", addr), val(t, 0x1111), val(t, v0)]})
                    calls.append({"op": "call", "inst": 1, "export": ld_, "args": [val("i32", addr)]})
                    # ... and a mismatch in the low bits is a mismatch whatever the high bits say
                    calls.append({"op": "call", "inst": 1, "export": nm, "args": [val("i32", addr), val(t, ((v ^ 1) & ((1 << bits) - 1)) | junk), val(t, v0)]})
                else:
                    calls.append({"op": "call", "inst": 1, "export": nm, "args": [val("i32", addr), val(t, v)]})
                calls.append({"op": "call", "inst": 1, "export": ld_, "args": [val("i32", addr)]})
    return [{"id": "aiso%d" % j, "module": sq, "script": [INST] + calls[j:j + 400]} for j in range(0, len(calls), 400)]


FLAVS = [("8", "i32", "8"), ("16", "i32", "16"), ("32", "i32", ""), ("8l", "i64", "8"), ("16l", "i64", "16"), ("32l", "i64", "32"), ("64", "i64", "")]
WIDTH = {"8": 8, "16": 16, "32": 32, "8l": 8, "16l": 16, "32l": 32, "64": 64}
CELL = {8: 64, 16: 72, 32: 80, 64: 88}


def thread_module():
    """Every atomic flavour behind one uniform signature (addr i32, v i64, e i64) -> i64, so that the thread driver can
    call them through one table: ld/st/add/xchg/cas x {i32: 8,16,32; i64: 8,16,32,64}."""
    types = [{"p": ["i32", "i64", "i64"], "r": ["i64"]}]
    g = lambda k: ["local.get", k]
    funcs, exports = [], []
    for tag, t, w in FLAVS:
        al = {"8": 0, "16": 1, "32": 2, "": 2 if t == "i32" else 3}[w]
        down = [["i32.wrap_i64"]] if t == "i32" else []
        up = [["i64.extend_i32_u"]] if t == "i32" else []
        sfx = "_u" if w else ""
        rm = "rmw" + w
        body = {"ld": [g(0), ["%s.atomic.load%s%s" % (t, w, sfx), al, 0]] + up,
                "st": [g(0), g(1)] + down + [["%s.atomic.store%s" % (t, w), al, 0], ["i64.const", b64(0)]],
                "add": [g(0), g(1)] + down + [["%s.atomic.%s.add%s" % (t, rm, sfx), al, 0]] + up,
                "xchg": [g(0), g(1)] + down + [["%s.atomic.%s.xchg%s" % (t, rm, sfx), al, 0]] + up,
                "cas": [g(0), g(2)] + down + [g(1)] + down + [["%s.atomic.%s.cmpxchg%s" % (t, rm, sfx), al, 0]] + up}
        for op in ("ld", "st", "add", "xchg", "cas"):
            funcs.append({"type": 0, "locals": [], "body": body[op] + [["end"]]})
            exports.append({"name": op + tag, "kind": "func", "idx": len(funcs) - 1})
    # message passing inside ONE function each (so that an optimiser sees several atomic accesses together): the writer stores
    # data (at addr) and then the flag (at addr + 8); the reader reads data early, spins on the flag, reads data again
    for tag, t in (("32", "i32"), ("64", "i64")):
        al = 2 if t == "i32" else 3
        down = [["i32.wrap_i64"]] if t == "i32" else []
        up = [["i64.extend_i32_u"]] if t == "i32" else []
        funcs.append({"type": 0, "locals": [], "body": [g(0), g(1)] + down + [["%s.atomic.store" % t, al, 0], g(0), g(1)] + down + [["%s.atomic.store" % t, al, 8],
                                                           ["i64.const", b64(0)], ["end"]]})
        exports.append({"name": "mpw" + tag, "kind": "func", "idx": len(funcs) - 1})
        # reader, straight line: data (early), flag, data again; "not ready" (all ones) unless the flag shows this round.  The
        # early reading is used (compared with a value the data never takes), so it cannot simply be dropped; the driver polls.
        funcs.append({"type": 0, "locals": [["i64", 2]],
                      "body": [g(0), ["%s.atomic.load" % t, al, 0]] + up + [["local.set", 3],
                               g(0), ["%s.atomic.load" % t, al, 8]] + up + [["local.set", 4],
                               g(0), ["%s.atomic.load" % t, al, 0]] + up +
                              [g(3), ["i64.const", b64(0x7FFFFFF1)], ["i64.eq"], ["i64.extend_i32_u"], ["i64.add"],
                               ["i64.const", b64((1 << 64) - 1)], g(4), g(1), ["i64.eq"], ["select"], ["end"]]})
        exports.append({"name": "mpr" + tag, "kind": "func", "idx": len(funcs) - 1})
    return {"types": types, "funcs": funcs, "memory": {"min": 1, "max": 1, "shared": True}, "exports": exports}


def thread_program(rng, nt, nops):
    """Distinguishing operands within one access width: unique tokens for store/xchg/cas (as far as the width allows), +1 / +3 adds."""
    lines, tok = [], 0
    tags = rng.sample([f[0] for f in FLAVS], 2)
    seen = {t: [0] for t in range(nt)}
    for t in range(nt):
        for k in range(nops):
            tag = rng.choice(tags)
            w = WIDTH[tag]
            a = CELL[w]
            mod = 1 << min(w, 30)
            r = rng.random()
            if r < 0.35:
                lines.append((t, "add" + tag, a, rng.choice([1, 3]), 0))
            elif r < 0.5:
                lines.append((t, "ld" + tag, a, 0, 0))
            else:
                tok += 1
                v = (tok * 7 + 1) % mod
                if r < 0.65:
                    lines.append((t, "st" + tag, a, v, 0))
                elif r < 0.85:
                    lines.append((t, "xchg" + tag, a, v, 0))
                else:
                    lines.append((t, "cas" + tag, a, v, rng.choice(seen[t])))
                seen[t].append(v)
    return lines


def history(out, hidx, lines):
    recs, final = [], None
    kcount = {}
    for l in out.splitlines():
        try:
            r = json.loads(l)
        except ValueError:
            continue
        if r.get("op") == "final":
            final = r
            continue
        k = kcount.get(r["t"], 0)
        kcount[r["t"]] = k + 1
        base = r["op"].rstrip("0123456789l")
        tag = r["op"][len(base):]
        op = {"ld": "load", "st": "store", "cas": "cmpxchg"}.get(base, base)
        recs.append({"h": hidx, "id": len(recs), "t": r["t"], "k": k, "op": op, "a": r["a"], "v": r["v"], "e": r["e"], "old": r["old"],
                     "tb": r["tb"], "te": r["te"], "mem": [], "mod": 1 << min(WIDTH[tag], 30)})
    if final is None:
        return None
    recs.append({"h": hidx, "id": 0, "t": 0, "k": 0, "op": "final", "a": 0, "v": 0, "e": 0, "old": 0, "tb": 0, "te": 0, "mod": 1,
                 "mem": [[64, final["c8"]], [72, final["c16"]], [80, final["c32"] % (1 << 30)], [88, final["c64"] % (1 << 30)]]})
    return recs


def main():
    tier = sys.argv[1] if len(sys.argv) > 1 else os.environ.get("VERIF_TIER", "quick")
    rng = random.Random(SEED)
    v = Verdict("C16", tier)
    # 1. design level: which configurations are atomic
    m_le = tlc_ok(tlc("MCAtomics", cfg="Atomics_LE.cfg", workers=4, timeout=900), "Atomics LE")
    m_be = tlc("MCAtomics", cfg="Atomics_BEMutex.cfg", workers=4, timeout=900)
    m_fix = tlc_ok(tlc("MCAtomics", cfg="Atomics_BEMutexStoreLocked.cfg", workers=4, timeout=900), "Atomics BE with locked stores")
    # 2a. the same-width scenarios in both byte order configurations (results only: the raw image of the forced one is reversed)
    iso = isolated_items(rng)
    # ... and in a shared memory declared with the largest maximum there is (65536 pages: 4 GiB of address space, allocated up front,
    # touched in its first page): an in-bounds atomic access is the same access
    iso.append({"id": iso[0]["id"] + "_max65536", "module": dict(iso[0]["module"], memory={"min": 1, "max": 65536, "shared": True}),
                "script": iso[0]["script"][:1] + iso[0]["script"][1:][:90]})
    st0, _ = machine.replay(v, iso, [{"name": "le", "cc": "gcc", "cflags": ("-O1",)},
                                                       {"name": "be-forced", "cc": "gcc", "cflags": ("-O1",), "defs": ("-DWASM_ENDIAN=1",)}],
                            sigfn=lambda it, k, why, b, e, a: "iso:%s:%s:%s" % (b["name"], it["script"][k - 1].get("export", "?"), why.split(":")[0]), observe_mems=False)
    # 2. sequential semantics of all flavours (machine replay)
    st, exp = machine.replay(v, sequential_items(rng, tier), [{"name": "gcc-O1", "cc": "gcc", "cflags": ("-O1",)}, {"name": "clang-O2", "cc": "clang", "cflags": ("-O2",)}],
                             sigfn=lambda it, k, why, b, e, a: "seq:%s:%s" % (it["script"][k - 1].get("export", "?"), why.split(":")[0]))
    # 3. atomicity on real threads
    wd = common.scratch("c16-")
    nh = 0
    tst = {"states": 0, "transitions": 0}
    stress = {}
    try:
        w2c2 = common.build_w2c2(os.path.join(wd, "bin"))
        open(os.path.join(wd, "at.wasm"), "wb").write(wasm_encode.encode(machine.enc_module(thread_module())))
        rc, so, se = run([w2c2, "-t", "1", "at.wasm", "at.c"], cwd=wd, timeout=60)
        if rc != 0:
            raise common.MachineryError("cannot translate the thread module: " + se[-500:])
        exes = {}
        for name, defs in (("le", []), ("be", ["-DWASM_ENDIAN=1"]), ("le-clang", []), ("be-clang", ["-DWASM_ENDIAN=1"])):
            exe = os.path.join(wd, "thr-" + name)
            rc, so, se = run(["clang" if name.endswith("clang") else "gcc", "-O2", "-w", "-I", wd, "-I", os.path.join(REPO, "w2c2"), "-DWASM_THREADS_PTHREADS", *defs,
                              os.path.join(BINDC, "atomics_threads.c"), os.path.join(wd, "at.c"), "-o", exe, "-lpthread", "-lm"], timeout=300)
            if rc != 0:
                raise common.MachineryError("cannot build thread driver (%s): %s" % (name, se[-1500:]))
            exes[name] = exe
        progs = []
        for h in range(60 if tier == "quick" else 1500):
            nt = rng.choice([2, 3, 4])
            progs.append((nt, thread_program(rng, nt, 10)))

        def runprog(j):
            nt, lines = progs[j]
            pf = os.path.join(wd, "prog%d.txt" % j)
            open(pf, "w").write("".join("%d %s %d %d %d\n" % l for l in lines))
            outs = []
            for name in ("le", "be"):
                rc, so, se = run([exes[name], pf, str(nt)], timeout=60)
                outs.append((name, rc, so, se))
            os.remove(pf)
            return outs
        hist, meta = [], []
        for j, outs in enumerate(pmap(runprog, range(len(progs)), jobs=4)):
            for name, rc, so, se in outs:
                recs = history(so, len(hist) + 1, progs[j][1]) if rc == 0 else None
                if recs is None:
                    v.deviation("threads:%s:crash" % name, {"rc": rc, "stderr": se[-400:]})
                    continue
                hist.append(recs)
                meta.append((name, j))
        # validate in chunks (history numbers must be consecutive from 1 inside a chunk)
        for c0 in range(0, len(hist), 40):
            chunk = hist[c0:c0 + 40]
            flat = []
            for n, recs in enumerate(chunk, start=1):
                flat += [dict(r, h=n) for r in recs]
            tf, of = os.path.join(wd, "at-trace.ndjson"), os.path.join(wd, "at-reached.ndjson")
            common.write_ndjson(tf, flat)
            r = tlc_ok(tlc("AtomicsTrace", env={"TRACE": tf, "OUTFILE": of}, timeout=1800, xmx="6g"), "AtomicsTrace")
            tst["states"] += r["distinct"]
            tst["transitions"] += r["generated"]
            rr = common.read_ndjson(of)[0]
            nh += min(rr["reached"] - 1, len(chunk)) if rr["reached"] <= rr["total"] else len(chunk)
            if rr["reached"] <= rr["total"]:
                bad = c0 + rr["reached"] - 1
                name, j = meta[bad]
                v.deviation("threads:%s:not-linearizable" % name, {"threads": progs[j][0], "history": [r for r in hist[bad] if r["op"] != "final"][:40],
                                                                   "final": hist[bad][-1]["mem"]})
        # 4. the big-endian configuration: a completed atomic store racing with a mutex-protected RMW must survive
        # 4a. hammer: 4 threads x N exchanges / additions on one cell, per flavour: conservation laws that follow from atomicity
        # 4z. message passing, both compilers: what the reader returns after seeing the flag is this round's data
        for name in ("le", "le-clang", "be"):
            rc, so, se = run([exes[name], "mp", "2", "400000" if tier == "quick" else "4000000"], timeout=300)
            try:
                mp = json.loads(so.strip().splitlines()[-1])
            except (ValueError, IndexError):
                mp = None
                v.deviation("litmus:%s:message-passing:%s" % (name, "hang" if rc == -999 else "crash"), {"rc": rc, "stderr": se[-400:]})
            if mp:
                stress[name + "-mp"] = mp
                if mp["stale"]:
                    v.deviation("litmus:%s:message-passing" % name, mp)
        # 4y. no torn values: an atomic load returns one of the values that were stored, in every configuration and compiler
        for name in ("le", "le-clang", "be", "be-clang"):
            rc, so, se = run([exes[name], "torn", "2", "300000" if tier == "quick" else "3000000"], timeout=600)
            for l in so.splitlines():
                try:
                    hm = json.loads(l)
                except ValueError:
                    continue
                stress.setdefault(name + "-torn", []).append(hm)
                if hm["lost"]:
                    v.deviation("litmus:%s:%s" % (name, hm["op"]), hm)
            if rc != 0:
                v.deviation("litmus:%s:torn:%s" % (name, "hang" if rc == -999 else "crash"), {"rc": rc, "stderr": se[-400:]})
        for name in ("le", "be", "be-clang"):
            rc, so, se = run([exes[name], "hammer", "4", "20000" if tier == "quick" else "200000"], timeout=900)
            for l in so.splitlines():
                try:
                    hm = json.loads(l)
                except ValueError:
                    continue
                stress.setdefault(name + "-hammer", []).append(hm)
                if hm["lost"] or hm["bad_final"]:
                    v.deviation("hammer:%s:%s" % (name, hm["op"]), hm)
        for name in ("le", "be"):
            rc, so, se = run([exes[name], "stress", "2", "40" if tier == "quick" else "400"], timeout=600)
            try:
                stress[name] = json.loads(so.strip().splitlines()[-1])
            except (ValueError, IndexError):
                raise common.MachineryError("stress driver failed: " + se[-300:])
            if stress[name]["lost_stores"] > 0:
                v.deviation("be:rmw-vs-store" if name == "be" else "le:rmw-vs-store", dict(stress[name], model_says_not_atomic=(m_be["rc"] != 0)))
        # a translated module under real threads (memory defined or imported; one instance, an instance or a child per thread): atomic adds
        # lose nothing while other threads grow the memory and wait on it
        import sharedmod
        smres, smprobs = sharedmod.run_all(wd, common.build_w2c2(os.path.join(wd, "smbin")), tier, "C16")
        for what, det in smprobs:
            v.deviation("module:%s" % what, det)
        stress["module_level"] = {k_: {f_: r_[f_] for f_ in ("rounds",) + sharedmod.FIELDS["C16"]} for k_, r_ in smres.items()}
    finally:
        shutil.rmtree(wd, ignore_errors=True)
    cov = {"states": m_le["distinct"] + m_be["distinct"] + m_fix["distinct"] + st["states"] + tst["states"],
           "transitions": m_le["generated"] + m_be["generated"] + m_fix["generated"] + st["transitions"] + tst["transitions"],
           "traces_validated_against_impl": nh,
           "samples": [{"thread_program": progs[0][1][:8]}, {"sequential_call": exp and list(exp.values())[3]["res"]}],
           "evaluations": st["ops_compared"] + nh, "distinct_nontrivial": st["distinct_nontrivial"] + nh,
           "rule": "sequential: all 63 atomic flavours x operand pool x aligned addresses x static offsets {0,16}, full memory image after every call "
                   "vs WasmExec; concurrent: 2-4 real threads (NewChild instances sharing a shared memory) x 10 operations with distinguishing "
                   "operands on two cells, in the little-endian and the forced big-endian configuration; each history (with before/after tickets) "
                   "must have a linearization (TLC search in AtomicsTrace) that explains every returned old value and the final memory; stress: "
                   "a completed atomic store racing with read-modify-writes must survive",
           "model_BEMutex_refuted": m_be["rc"] != 0, "stress": stress, "exhaustive": False}
    return v.finish("model_checking", cov,
                    ["real-thread histories sample the schedules the hardware produces; the exhaustive interleavings are in the Atomics model",
                     "the big-endian configuration is forced on a little-endian host (-DWASM_ENDIAN=1)", "values are kept below 2^30 for TLC"])


main_wrap(main)
