#!/usr/bin/env python3
"""C14 - WASI path operations act on the resolved path; directory listings are complete (DESIGN.md 3/C14)."""
import importlib.util
import json
import os
import random
import shutil
import sys
HERE = os.path.dirname(os.path.abspath(__file__))
sys.path.insert(0, os.path.join(HERE, "..", "bind", "py"))
import common
import wasi
from common import BINDC, REPO, SEED, Verdict, main_wrap, run, tlc, tlc_ok, read_ndjson, write_ndjson, pmap

spec = importlib.util.spec_from_file_location("c12", os.path.join(HERE, "c12.py"))
c12 = importlib.util.module_from_spec(spec)
spec.loader.exec_module(c12)

TREE = ["a", "b", "d", "d/c", "d/e", "l"]


def below(p):
    return [q for q in TREE + ["n", "d/n", "x/n"] if q.startswith(p + "/")]


def path_history(rng, hid, length):
    setup = [{"call": "mkdirs", "path": "d"}]
    for nme in ("a", "d/c"):
        if rng.random() < 0.7:
            setup.append({"call": "mkfile", "path": nme, "bytes": [rng.randrange(256) for _ in range(rng.choice([0, 3, 9]))]})
    if rng.random() < 0.5:
        setup.append({"call": "mklink", "path": "l", "target": rng.choice(["a", "nowhere", "d/c"])})
    loop = rng.random() < 0.35
    if loop:
        setup.append({"call": "mklink", "path": "loop", "target": "loop"})          # can never be resolved
    calls = []
    dirfd_d = None
    nextfd = 4
    for _ in range(length):
        abi = rng.choice("pu")
        use_d = dirfd_d is not None and rng.random() < 0.3
        dirfd = dirfd_d if use_d else 3
        names = ["c", "e", "n"] if use_d else ["a", "b", "d", "d/c", "d/e", "l", "n", "d/n", "x/n", ""] + (["loop", "loop/x", "loop/x"] if loop else [])
        name = rng.choice(names)
        # a trailing slash asks for a directory: the host decides, the resolved path must keep it
        raw = name + "/" if name and rng.random() < 0.15 else name
        full = ("d/" + name) if use_d else name
        parent = os.path.dirname(name)
        k = rng.choice(["mkdir", "rmdir", "unlink", "symlink", "readlink", "pathstat", "rename", "mkdir", "unlink", "open"])
        c = {"call": k, "abi": abi, "dirfd": dirfd, "path": name, "rawpath": raw, "parent": parent, "under": below(full)}
        if k == "symlink":
            c["target"] = rng.choice(["a", "tgt", "d/c", "x" * 40])
        elif k == "readlink":
            c["buflen"] = rng.choice([0, 1, 2, 3, 64])
        elif k == "rename":
            n2 = rng.choice(["a", "b", "n", "d/n", "d/c", "x/n"])
            c.update({"fd": 3, "path2": n2, "parent2": os.path.dirname(n2), "rawpath2": n2 + "/" if rng.random() < 0.1 else n2})
        elif k == "open":
            if dirfd_d is None and rng.random() < 0.5:
                c = {"call": "open", "abi": abi, "dirfd": 3, "path": "d", "abs": False, "oflags": 2, "rd": True, "wr": False, "app": False}
                dirfd_d = nextfd
            else:
                c = {"call": "open", "abi": abi, "dirfd": dirfd, "path": name or "a", "rawpath": raw or "a", "abs": False, "oflags": rng.choice([0, 1]), "rd": True, "wr": True,
                     "app": False, "parent": os.path.dirname(name or "a")}
            nextfd += 1
        c["path_at_end"] = rng.random() < 0.2
        calls.append(c)
    return {"id": "p%d" % hid, "setup": setup, "calls": calls}


def walk_history(rng, hid, length):
    """Guest paths with ".." components and symbolic links to directories on the way (WasiFs walk mode): the host resolves
    them component by component; what w2c2 hands to the host - and what it remembers as the path of a directory descriptor -
    must denote the same objects.  Tree: a/ a/b/ o/ o/in/, files a/f o/in/g o/h, links lk -> o/in, a/b/up -> ../../o,
    o/back -> ../a, c1 -> c2, c2 -> c1 (a cycle), dang -> nowhere/x, a/here -> ."""
    # (names with a colon or a backslash are names: "c:" is a directory here, "D:\\f" a possible file name)
    setup = [{"call": "mkdirs", "path": x} for x in ("a", "a/b", "o", "o/in", "c:", "c:/sub")] + \
            [{"call": "mkfile", "path": x, "bytes": [len(x), 7]} for x in ("a/f", "o/in/g", "o/h")] + \
            [{"call": "mklink", "path": p_, "target": t_} for p_, t_ in (("lk", "o/in"), ("a/b/up", "../../o"), ("o/back", "../a"), ("c1", "c2"), ("c2", "c1"),
                                                                       ("dang", "nowhere/x"), ("a/here", "."))]
    # ways to name a directory (walked completely): they end in "..", in a link to a directory, in "." - or are plain
    dirpaths = ["lk/..", "a/b/up", "a/b/up/in", "a/b/up/in/..", "a/b/../b/up/..", "lk/../../a/./b", "o/back/b/up/in", "a/here/b/..", "a/here/here/b",
                "lk", "a/..", "o/in/../..", "a/b/up/back", "c1", "c1/x/..", "dang/..", "a/f/..", "nope/..", "lk/../../..", "a/b/up/../o", "c:", "c:/sub", "c:/sub/.."]
    # ways to name an entry: a walked directory part, then a plain last name
    parents = ["", "lk/..", "a/b/up", "a/b/up/in", "lk", "o/back", "a/here", "a/b/..", "lk/../in", "c1", "dang", "a/f", "o/back/b/up", "a/../o/in/..",
               "c:", "c:/sub", "c:/sub/..", "c:/../c:"]
    lasts = ["n1", "g", "f", "h", "in", "b", "new", "up", "D:\\f", "e:", "x:y"]
    calls, dirfds, nextfd = [], [3], 4
    for _ in range(length):
        abi = rng.choice("pu")
        dirfd = rng.choice(dirfds)
        r = rng.random()
        if r < 0.3:
            raw = rng.choice(dirpaths)
            calls.append({"call": "open", "abi": abi, "dirfd": dirfd, "path": raw, "rawpath": raw, "abs": False, "oflags": rng.choice([2, 2, 0]), "rd": True, "wr": False,
                          "app": False, "walk": True, "wcomps": [x for x in raw.split("/") if x], "wlast": ""})
            dirfds.append(nextfd)          # a guess (the model decides whether the open succeeds)
            nextfd += 1
            continue
        par, last = rng.choice(parents), rng.choice(lasts)
        raw = (par + "/" if par else "") + last
        k = rng.choice(["mkdir", "unlink", "pathstat", "readlink", "symlink", "rmdir", "mkdir", "pathstat", "open"])
        c = {"call": k, "abi": abi, "dirfd": dirfd, "path": raw, "rawpath": raw, "parent": par, "under": [], "walk": True,
             "wcomps": [x for x in par.split("/") if x], "wlast": last}
        if k == "symlink":
            c["target"] = rng.choice(["../a", "f", "in/g", "."])
        elif k == "readlink":
            c["buflen"] = 64
        elif k == "open":
            c.update({"abs": False, "oflags": rng.choice([0, 1, 1 | 4]), "rd": True, "wr": rng.random() < 0.5, "app": False})
            nextfd += 1
        calls.append(c)
    return {"id": "w%d" % hid, "setup": setup, "calls": calls}


def dirmove_history(rng, hid, length):
    """Directories that move (path_rename of a directory, with what lies below it): into an empty directory's place, into their own
    subtree (EINVAL), onto files and non-empty directories (ENOTDIR / ENOTEMPTY), files onto directories (EISDIR) - and directory
    descriptors opened BEFORE a move, whose remembered path then names nothing or something else."""
    # ("dd" and "d" share a prefix of characters, not of components: what happens to d must not touch dd)
    setup = [{"call": "mkdirs", "path": x} for x in ("d", "d/s", "e", "dd")] + \
            [{"call": "mkfile", "path": x, "bytes": [len(x)]} for x in ("a", "d/c", "d/s/f", "dd/c")] + [{"call": "mklink", "path": "l", "target": "a"}]
    names = ["d", "e", "d/s", "e/d", "e/s", "d/s/x", "d/s/d", "n", "a", "l", "e/n", "d/c", "m", "m/s", "e/d/s", "e/d/c", "n/s/f", "d/e", "dd", "dd/c", "d", "d"]
    opn = lambda nm: {"call": "open", "abi": rng.choice("pu"), "dirfd": 3, "path": nm, "abs": False, "oflags": 2, "rd": True, "wr": False, "app": False,
                      "parent": os.path.dirname(nm)}
    # descriptors of directories that exist from the start: 4 = dd, 5 = d or d/s or e
    first = rng.choice(["d", "d/s", "e"])
    calls, dirfds, nextfd = [opn("dd"), opn(first)], {3: "", 4: "dd", 5: first}, 6
    probe = {"dd": "c", "d": "c", "d/s": "f", "e": "d", "n": "c", "m": "s"}
    for _ in range(length):
        abi = rng.choice("pu")
        r = rng.random()
        if r < 0.12 and len(dirfds) < 5:
            nm = rng.choice(["d", "e", "d/s", "n", "m"])
            calls.append(opn(nm))
            dirfds[nextfd] = nm          # (a guess: if the open fails the descriptor number stays unused and calls through it are EBADF)
            nextfd += 1
            continue
        dirfd = rng.choice(list(dirfds))
        rel = rng.choice(["s", "c", "s/f", "d", "x", "f"]) if dirfd != 3 else rng.choice(names)
        k = rng.choice(["rename", "rename", "rename", "mkdir", "rmdir", "pathstat", "unlink", "open"])
        c = {"call": k, "abi": abi, "dirfd": dirfd, "path": rel, "rawpath": rel, "parent": os.path.dirname(rel), "under": []}
        if k == "rename":
            fd2 = rng.choice(list(dirfds))
            n2 = rng.choice(["s", "x", "d", "c"]) if fd2 != 3 else rng.choice(names)
            c.update({"fd": fd2, "path2": n2, "parent2": os.path.dirname(n2), "rawpath2": n2})
        elif k == "open":
            c.update({"abs": False, "oflags": rng.choice([0, 1]), "rd": True, "wr": rng.random() < 0.5, "app": False})
            nextfd += 1
        calls.append(c)
        if k in ("rename", "rmdir"):
            # what every directory descriptor names now: an entry looked up through it, and the directory itself (".")
            for fd_, nm in sorted(dirfds.items()):
                if fd_ != 3:
                    calls.append({"call": "pathstat", "abi": abi, "dirfd": fd_, "path": probe[nm], "rawpath": probe[nm], "parent": "", "under": []})
                    calls.append({"call": "pathstat", "abi": abi, "dirfd": fd_, "path": "", "rawpath": rng.choice([".", "./"]), "dot": True, "parent": "", "under": []})
    return {"id": "m%d" % hid, "setup": setup, "calls": calls}


def dot_history(rng, hid, length):
    """Paths with "." components.  Inside a path they change nothing ("./a", "d/./c": same object); as the LAST component
    ("." "./" "d/." "././") they name a directory through itself, which the host treats differently from the same directory
    named with a trailing slash - the resolved path must keep the form the guest gave."""
    setup = [{"call": "mkdirs", "path": "d"}, {"call": "mkdirs", "path": "e"}]
    for nme in ("a", "d/c"):
        if rng.random() < 0.8:
            setup.append({"call": "mkfile", "path": nme, "bytes": [rng.randrange(256) for _ in range(rng.choice([0, 3]))]})
    calls = [{"call": "open", "abi": "p", "dirfd": 3, "path": "e", "abs": False, "oflags": 2, "rd": True, "wr": False, "app": False},      # 4: empty directory
             {"call": "open", "abi": "p", "dirfd": 3, "path": "d", "abs": False, "oflags": 2, "rd": True, "wr": False, "app": False}]      # 5
    base = {3: "", 4: "e", 5: "d"}

    def dotted(rel):
        """(normalised path relative to the descriptor, raw form, dot?)"""
        if rng.random() < 0.6:
            raw = rng.choice([".", "./", "./.", "././", ".//", "./././"]) if rel == "" else \
                rel + rng.choice(["/.", "/./", "/././", "/.//"]) if rng.random() < 0.7 else "./" + rel + "/."
            return rel, raw, True
        if rel == "":
            return dotted(rng.choice(["a", "d", "n"]))
        comps = rel.split("/")
        raw = "/".join(x for cmp_ in comps for x in ([".", cmp_] if rng.random() < 0.6 else [cmp_]))
        if raw == rel:
            raw = "./" + rel
        return rel, raw, False
    for _ in range(length):
        abi = rng.choice("pu")
        dirfd = rng.choice([3, 3, 4, 5])
        rels = {3: ["", "", "d", "e", "a", "n", "d/c", "d/n"], 4: ["", "", "n"], 5: ["", "", "c", "n"]}[dirfd]
        rel, raw, dot = dotted(rng.choice(rels))
        full = (base[dirfd] + "/" + rel).strip("/")
        k = rng.choice(["mkdir", "rmdir", "rmdir", "unlink", "symlink", "readlink", "pathstat", "rename", "rename", "open"])
        c = {"call": k, "abi": abi, "dirfd": dirfd, "path": rel, "rawpath": raw, "dot": dot, "parent": os.path.dirname(rel),
             "under": [q for q in ("d/c", "d/n", "e/n", "e/zz", "d/zz") if q.startswith(full + "/")] if full else ["a", "d", "e", "d/c"]}
        if k == "symlink":
            c["target"] = "tgt"
        elif k == "readlink":
            c["buflen"] = 64
        elif k == "rename":
            fd2 = rng.choice([3, 3, 4, 5])
            if rng.random() < 0.4:
                rel2, raw2, dot2 = dotted(rng.choice({3: ["", "d", "e", "n"], 4: ["", "n"], 5: ["", "n"]}[fd2]))
            else:
                rel2, raw2, dot2 = "zz", "zz", False
            c.update({"fd": fd2, "path2": rel2, "rawpath2": raw2, "dot2": dot2, "parent2": os.path.dirname(rel2)})
        elif k == "open":
            c.update({"abs": False, "oflags": rng.choice([0, 0, 2, 1, 1 | 4, 8]), "rd": True, "wr": rng.random() < 0.3, "app": False})
        calls.append(c)
    return {"id": "dot%d" % hid, "setup": setup, "calls": calls}


def readdir_scenarios(rng, tier, exe, wd, exe_be=None):
    """Listings of directories with 0..12 entries under varying buffer sizes and cookies; returns the trace for Readdir.tla."""
    traces, meta = [], []

    def scenario(j):
        n = rng.choice([0, 1, 2, 5, 12])
        names = []
        for k in range(n):
            nm = "".join(rng.choice("abcdefghijklmnopqrstuvwxyz0123456789_-.") for _ in range(rng.choice([1, 2, 7, 23, 24, 25, 40, 40, 40, 200, 253, 254, 255, 255])))   # 255 = NAME_MAX, the longest name the host allows
            if nm not in names and nm not in (".", ".."):
                names.append(nm)
        setup = [{"call": "mkdirs", "path": "dd"}]
        for k, nm in enumerate(names):
            if k % 4 == 1:
                setup.append({"call": "mkdirs", "path": "dd/" + nm})
            elif k % 4 == 2:
                setup.append({"call": "mklink", "path": "dd/" + nm, "target": "t"})
            elif k % 4 == 3 or (k % 4 == 0 and k >= 4 and j % 3 == 0):
                # entries whose type the directory stream cannot tell: the implementation asks lstat, name by name
                setup.append({"call": "mkfifo", "path": "dd/" + nm})
            else:
                setup.append({"call": "mkfile", "path": "dd/" + nm, "bytes": [1] * k})
        return names, setup
    plans = []
    for j in range(12 if tier == "quick" else 150):
        names, setup = scenario(j)
        plans.append((j, names, setup, rng.random()))

    def run_plan(pl, exe=exe):
        j, names, setup, r0 = pl
        lrng = random.Random(SEED * 100000 + j)
        # every third directory is listed by the host built for a big-endian machine (the entry heads then hold their numbers most
        # significant byte first)
        order = "big" if exe_be and j % 3 == 2 else "little"
        ORDER[j] = order
        if order == "big":
            exe = exe_be
        opend = {"call": "open", "abi": "p", "dirfd": 3, "path": "dd", "abs": False, "oflags": 2, "rd": True, "wr": False, "app": False}
        # first pass: learn the stream with one big call (its cookies are needed to plan the other calls)
        recs, index, err, rc, sb = wasi.run_history(exe, [opend, {"call": "readdir", "abi": "p", "fd": 4, "buflen": 16384, "cookie": 0}], wd, "rd%d" % j,
                                                    setup=setup, ls_after=())
        first = parse_dirents(recs[-1], order) if recs and recs[-1].get("call") == "readdir" else None
        if first is None or rc != 0:
            return j, None, None, err
        cookies = [e["next_full"] for e in first["recs"]]
        calls = [opend, {"call": "readdir", "abi": "p", "fd": 4, "buflen": 16384, "cookie": 0}]
        for _ in range(10 if tier == "quick" else 30):
            calls.append({"call": "readdir", "abi": lrng.choice("pu"), "fd": 4, "buflen": lrng.choice([24, 25, 30, 47, 48, 49, 64, 100, 256, 4096]),
                          "cookie": lrng.choice([0, 0] + cookies) if cookies else 0})
        # ... and a listing that goes on while the guest removes what it has seen (a recursive removal): the entry seen last and the one that
        # would come next are removed, the listing is resumed from the last cookie
        real = [(i_, e_) for i_, e_ in enumerate(first["recs"]) if bytes(e_["name"]) not in (b".", b"..")]
        if len(real) >= 4 and j % 2 == 0:
            i_ = lrng.randrange(1, len(first["recs"]) - 1)
            victims = [e_ for e_ in first["recs"][i_:i_ + 2] if bytes(e_["name"]) not in (b".", b"..")]
            for e_ in victims:
                nm_ = "dd/" + bytes(e_["name"]).decode("latin1")
                calls.append({"call": "rmdir" if e_["type"] == 3 else "unlink", "abi": "p", "dirfd": 3, "path": nm_, "rawpath": nm_, "parent": "dd"})
            calls.append({"call": "readdir", "abi": lrng.choice("pu"), "fd": 4, "buflen": 16384, "cookie": first["recs"][i_]["next_full"],
                          "removed": [list(e_["name"]) for e_ in victims]})
        recs, index, err, rc, sb = wasi.run_history(exe, calls, wd, "rd%d" % j, setup=setup, ls_after=("open",))
        return j, calls, recs, err
    out = pmap(run_plan, plans)
    return plans, out


ORDER = {}


def parse_dirents(rec, order="little"):
    if rec is None or rec.get("errno") != 0:
        return None
    ch = wasi.changed(rec)
    used = int.from_bytes(bytes(ch.get(wasi.R1 + i, 0xEE) for i in range(4)), order)
    buf = [ch.get(wasi.DIRBUF + i, 0xEE) for i in range(used)]
    recs, p = [], 0
    while p + 24 <= used:
        nxt = int.from_bytes(bytes(buf[p:p + 8]), order)
        ino = int.from_bytes(bytes(buf[p + 8:p + 16]), order)
        namlen = int.from_bytes(bytes(buf[p + 16:p + 20]), order)
        typ = buf[p + 20]
        name = buf[p + 24:min(used, p + 24 + namlen)]
        recs.append({"next": nxt % (2 ** 31), "ino": ino % (2 ** 31), "type": typ, "namlen": namlen, "name": name, "pad": buf[p + 21:p + 24],
                     "next_full": nxt, "ino_full": ino})
        p += 24 + namlen
    return {"used": used, "recs": recs}


def main():
    tier = sys.argv[1] if len(sys.argv) > 1 else os.environ.get("VERIF_TIER", "quick")
    rng = random.Random(SEED)
    v = Verdict("C14", tier)
    wd = common.scratch("c14-")
    states = trans = 0
    try:
        # (a) resolvePath: every grid point of ResolvePath.tla against the real function (guard pages, ASan)
        of = os.path.join(wd, "grid.ndjson")
        rp = tlc_ok(tlc("ResolvePath", env={"OUTFILE": of}, timeout=600), "ResolvePath")
        grid = read_ndjson(of)
        states += rp["distinct"]
        trans += rp["generated"]
        exe_r = os.path.join(wd, "resdrv")
        rc, so, se = run(["gcc", "-g", "-O1", "-w", "-fsanitize=address", "-I", os.path.join(REPO, "w2c2"), "-I", os.path.join(REPO, "wasi"), *wasi.WDEFS,
                          os.path.join(BINDC, "resolve_driver.c"), os.path.join(REPO, "wasi", "wasi.c"), "-o", exe_r, "-lm", "-lpthread"], timeout=300)
        if rc != 0:
            raise common.MachineryError("cannot build resolve driver: " + se[-1500:])

        def res_one(g):
            rc, so, se = run([exe_r], stdin=("%d %d %d %d\n" % (g["dirLen"], 1 if g["dirSlash"] else 0, g["pathLen"], 1 if g["abs"] else 0)).encode(),
                             timeout=60, env={"ASAN_OPTIONS": "detect_leaks=0:exitcode=97"})
            return rc, so, se
        for g, (rc, so, se) in zip(grid, pmap(res_one, grid)):
            case = {k: g[k] for k in ("dirLen", "dirSlash", "pathLen", "abs")}
            if rc != 0 or not so.strip():
                v.deviation(wasi.asan_sig(se) or "resolve:crash", {"case": case, "verdict": g["verdict"], "rc": rc, "stderr": se[-600:]})
                continue
            ret, rlen, ok = [int(x) for x in so.split()]
            if g["verdict"] == "reject" and ret == 1:
                v.deviation("resolve:accepted-too-long", {"case": case, "result_length": rlen})
            elif g["verdict"] == "accept" and ret == 0:
                v.deviation("resolve:rejected-fitting-path", {"case": case, "would_be_length": g["resLen"]})
            elif ret == 1 and not ok:
                v.deviation("resolve:wrong-result", {"case": case, "result_length": rlen, "expected_length": g["resLen"]})
        # (b) path operations on a tree: histories vs WasiFs.tla
        hists = [path_history(rng, j, 12) for j in range(200 if tier == "quick" else 4000)]
        drng = random.Random(SEED + 1414)
        hists += [dot_history(drng, j, 10) for j in range(60 if tier == "quick" else 1500)]
        wrng = random.Random(SEED + 1415)
        hists += [walk_history(wrng, j, 9) for j in range(80 if tier == "quick" else 2000)]
        mrng = random.Random(SEED + 1416)
        hists += [dirmove_history(mrng, j, 10) for j in range(120 if tier == "quick" else 3000)]
        st, exp = c12.run_all(v, hists, wd, tier, pid="C14", ls_after=("mkdir", "rmdir", "unlink", "symlink", "rename", "open"))
        states += st["states"]
        trans += st["transitions"]
        # (b') host faults in the path operations: mkdir / rmdir / unlink / rename / symlink / readlink / stat fail in the host
        # with each error POSIX lists for them: the translated number, nothing stored, tree unchanged
        frng = random.Random(SEED + 14014)
        fh = wasi.fault_histories(frng, wasi.PATH_FAULTS, 5 if tier == "quick" else None)
        fst, _ = wasi.run_fault_histories(v, fh, wd, "hostfault")
        states += fst["states"]
        trans += fst["transitions"]
        st["compared"] += fst["compared"]
        st["distinct"] += fst["distinct_faults"]
        # (b'') path operations from several guest threads at once, each thread on names of its own: every call answers as in
        # that thread's history run alone (the calls that do not touch the descriptor table)
        exe_t = os.path.join(wd, "wasithreads")
        rc, so, se = run(["gcc", "-g", "-O1", "-w", "-fsanitize=address", "-I", os.path.join(REPO, "w2c2"), "-I", os.path.join(REPO, "wasi"), *wasi.WDEFS,
                          os.path.join(BINDC, "wasi_threads_driver.c"), os.path.join(REPO, "wasi", "wasi.c"), "-o", exe_t, "-lm", "-lpthread"], timeout=300)
        if rc != 0:
            raise common.MachineryError("cannot build the threaded path driver: " + se[-1500:])
        tsb = os.path.join(wd, "tsb")
        os.makedirs(tsb)
        rc, so, se = run([exe_t, tsb, "6", "500" if tier == "quick" else "20000"], timeout=600, env={"ASAN_OPTIONS": "detect_leaks=0:exitcode=97"})
        try:
            tres = json.loads(so.strip().splitlines()[-1])
        except (ValueError, IndexError):
            tres = None
            v.deviation(wasi.asan_sig(se) or "paths:threads:crash", {"rc": rc, "stderr": se[-800:]})
        if tres and tres["bad"]:
            v.deviation("paths:threads:wrong-answer", tres)
        thread_calls = tres["calls"] if tres else 0
        # (c) directory listings: code -> spec
        exe = wasi.build_driver(wd, name="wasidrv2")
        plans, outs = readdir_scenarios(rng, tier, exe, wd, wasi.build_driver(wd, name="wasidrv2-be", extra=("-DWASM_ENDIAN=1",)))
        trace, owner = [], []
        for (j, names, setup, _), (j2, calls, recs, err) in zip(plans, outs):
            if calls is None:
                v.deviation(wasi.asan_sig(err or "") or "readdir:first-listing-failed", {"entries": names, "stderr": (err or "")[-400:]})
                continue
            by_i = {r["i"]: r for r in recs if "i" in r}
            ls = by_i.get(2)
            lst = [{"name": list(os.path.basename(e["name"]).encode()), "ino": e["ino"] % (2 ** 31), "type": {"file": 4, "dir": 3, "link": 7, "other": 0}[e["type"]]}
                   for e in (ls or {}).get("entries", []) if e["name"].startswith("dd/") and e["name"].count("/") == 1]
            line = 3
            stream = None
            for c in calls[1:]:
                if c["call"] != "readdir":
                    line += 1          # (the removals between two listing calls)
                    continue
                d = parse_dirents(by_i.get(line), ORDER.get(j, "little"))
                line += 1
                if d is None:
                    a = by_i.get(line - 1)
                    v.deviation(wasi.asan_sig(err) or "readdir:errno", {"call": c, "observation": a, "entries": names})
                    break
                if stream is None:
                    stream = d
                    trace.append({"kind": "stream", "removed": [], "entries": [{"next": e["next"], "ino": e["ino"], "type": e["type"], "name": e["name"]} for e in d["recs"]],
                                  "lstat": lst, "buflen": 0, "cookie": 0, "used": 0, "recs": []})
                    owner.append((j, c, names))
                    if any(e["pad"] != [0, 0, 0] for e in d["recs"]):
                        v.deviation("readdir:padding-not-zero", {"entries": names})
                    continue
                trace.append({"kind": "callrm" if "removed" in c else "call", "removed": c.get("removed", []), "entries": [], "lstat": [], "buflen": c["buflen"], "cookie": c["cookie"] % (2 ** 31), "used": d["used"],
                              "recs": [{"next": e["next"], "ino": e["ino"], "type": e["type"], "namlen": e["namlen"], "name": e["name"]} for e in d["recs"]]})
                owner.append((j, c, names))
        tf, of2 = os.path.join(wd, "rd-trace.ndjson"), os.path.join(wd, "rd-out.ndjson")
        write_ndjson(tf, trace)
        rdr = tlc_ok(tlc("Readdir", env={"TRACE": tf, "OUTFILE": of2}, timeout=1800, xmx="6g"), "Readdir")
        states += rdr["distinct"]
        trans += rdr["generated"]
        for bad in read_ndjson(of2):
            j, c, names = owner[bad["k"] - 1]
            t = trace[bad["k"] - 1]
            if bad["why"] == "stream":
                v.deviation("readdir:listing-incomplete-or-wrong-fields", {"entries": names, "listing": [bytes(e["name"]).decode("latin1") for e in t["entries"]]})
            else:
                sigk = "readdir:cookie-0-does-not-restart" if c["cookie"] == 0 else "readdir:resume"
                v.deviation(sigk, {"entries": len(names), "call": c, "code_used": t["used"], "code_names": [bytes(e["name"]).decode("latin1") for e in t["recs"]],
                                   "spec_used": bad["expected"]["used"], "spec_names": [bytes(e["name"]).decode("latin1") for e in bad["expected"]["recs"]]})
    finally:
        shutil.rmtree(wd, ignore_errors=True)
    cov = {"states": states, "transitions": trans, "traces_validated_against_impl": len(hists) + len(trace),
           "samples": [{"resolve_case": grid[0]}, {"path_history": [(c["call"], c.get("path")) for c in hists[0]["calls"][:8]]},
                       {"readdir_call": trace[1] if len(trace) > 1 else None}],
           "evaluations": len(grid) + st["compared"] + len(trace), "distinct_nontrivial": len(grid) + st["distinct"] + len(trace),
           "rule": "resolvePath: the full grid of ResolvePath.tla (directory length x trailing separator x path length 0..2*PATH_MAX x absolute) as calls "
                   "of the real function with an unterminated guest path in front of a PROT_NONE page and a PATH_MAX result buffer in front of "
                   "another (ASan); path operations: histories of mkdir/rmdir/unlink/rename/symlink/readlink/path_filestat_get/path_open relative to "
                   "the pre-open or a directory descriptor, errno, guest bytes and the host tree compared with WasiFs.tla after each call; host faults: the "
                   "host function behind a path operation fails (link-level injection) with each error POSIX lists for it and the call must return "
                   "its WASI number and change nothing (WasiFs.CallWithFault); readdir: "
                   "directories of 0..12 entries (names 1..40 bytes, files/dirs/symlinks), listings under buffer sizes 24..4096 and cookies "
                   "{0, any returned d_next}, each call compared by TLC (Readdir.tla) with the function of the stream learned from the first listing, "
                   "which itself must contain every created name once with the lstat'ed inode and type",
           "resolve_grid": len(grid), "path_histories": len(hists), "threaded_path_calls": thread_calls, "host_fault_histories": len(fh),
           "host_faults": {k: fst[k] for k in ("faults_fired", "faults_not_reached", "distinct_faults")}, "readdir_calls": len(trace), "exhaustive": False}
    return v.finish("model_checking", cov,
                    ["directory order, inode numbers and cookie values are the host's (bound from the first listing, never predicted)",
                     "operations through a file descriptor as directory and renames named through walked paths (.. and links on the way) are left unspecified by the model"])


main_wrap(main)
