#!/bin/sh
# helper (not a registered command): thorough tiers of the named checks in turn
cd /verif
for c in "$@"; do
  s=$(date +%s)
  timeout 10800 python3 checks/$c.py thorough > /tmp/allt-$c.log 2>&1
  rc=$?
  e=$(date +%s)
  echo "$c rc=$rc $((e-s))s $(grep -v KNOWN /tmp/allt-$c.log | tail -n 1 | cut -c1-150)"
done
