#!/bin/sh
# helper (not a registered command): every quick tier in turn, one line per check
cd /verif
for c in c01 c02 c03 c04 c05 c06 c07 c08 c09 c10 c11 c12 c13 c14 c15 c16 c17 c18 c19 c20; do
  s=$(date +%s)
  python3 checks/$c.py quick > /tmp/allq-$c.log 2>&1
  rc=$?
  e=$(date +%s)
  echo "$c rc=$rc $((e-s))s $(grep -v KNOWN /tmp/allq-$c.log | tail -n 1 | cut -c1-150)"
done
rm -f /verif/spec/*_TTrace_*
