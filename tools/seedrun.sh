#!/bin/sh
# helper of the seeded rounds (not a registered command): evaluates seeds lying under /tmp/seedout in the worktrees /tmp/sw/Cxx, one after the other
# usage: seedrun3.sh "NAME check1 check2" ...   (sequential; each arg: seed name followed by checks)
cd /verif
for spec in "$@"; do
  set -- $spec
  n=$1; shift
  P=${n%-*}
  d=/tmp/seedout/$n
  while pgrep -f "seedeval.py /tmp/sw/$P " >/dev/null; do sleep 10; done
  git -C /tmp/sw/$P checkout -q -- . 2>/dev/null
  timeout 7200 python3 tools/seedeval.py /tmp/sw/$P $d $n $P "$@" > /tmp/seedlogs/$n.x.log 2>&1
  tail -n 1 /tmp/seedlogs/$n.x.log
done
