#!/usr/bin/env python3
"""Writes seeded/<name>/meta.json from result.json (written by seedeval.py) and the short
'needs to manifest' descriptions in seeded/needs.json."""
import glob, json, os
V = os.path.dirname(os.path.dirname(os.path.abspath(__file__)))
needs = json.load(open(os.path.join(V, "seeded", "needs.json")))
for f in glob.glob(os.path.join(V, "seeded", "*", "result.json")):
    r = json.load(open(f)); n = r["name"]
    meta = {"name": n, "property": r["property"], "needs_to_manifest": needs.get(n, ""), "confirmed": r["confirmed"],
            "what_was_run": ["bash run.sh <worktree> without the change (rc %s)" % r["demo_without_change"]["rc"],
                             "git apply patch.diff; bash run.sh <worktree> (rc %s)" % r["demo_with_change"]["rc"],
                             "tools/baseline_off.sh with the change (rc %s)" % r["baseline_with_change"]["rc"]] +
                            ["W2C2_REPO=<worktree> python3 checks/%s.py quick -> rc %s %s" % (c, x["rc"], x["lines"][:2]) for c, x in r["checks"].items()],
            "caught_by": r["caught_by"]}
    json.dump(meta, open(os.path.join(os.path.dirname(f), "meta.json"), "w"), indent=1)
