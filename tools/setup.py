#!/usr/bin/env python3
"""setup_cmd: offline, from files on disk only.  Syntax-checks every specification
and regenerates the generated spec table; model self-checks run inside the checks
that rely on them (their state counts are part of those checks' evidence)."""
import os, subprocess, sys
V = os.path.dirname(os.path.dirname(os.path.abspath(__file__)))
subprocess.check_call([sys.executable, os.path.join(V, "tools", "gen_ops.py")])
bad = 0
cp = "/opt/veriftools/tla/tla2tools.jar:/opt/veriftools/tla/CommunityModules-deps.jar"
for f in sorted(os.listdir(os.path.join(V, "spec"))):
    if f.endswith(".tla"):
        # (the proof modules extend the proof system's library modules)
        lib = ["-DTLA-Library=/opt/veriftools/tlapm/lib/tlapm/stdlib"] if f.endswith("Proof.tla") else []
        p = subprocess.run(["java", *lib, "-cp", cp, "tla2sany.SANY", f], cwd=os.path.join(V, "spec"),
                           stdout=subprocess.PIPE, stderr=subprocess.STDOUT, text=True)
        ok = p.returncode == 0 and "rror" not in p.stdout.replace("Semantic errors:", "")
        print(("ok   " if ok else "FAIL ") + f)
        if not ok:
            bad += 1
            print(p.stdout[-1500:])
sys.exit(1 if bad else 0)
