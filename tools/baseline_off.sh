#!/bin/sh
# Runs the repository's pinned test suite with the verification guard OFF
# (the checks need no hooks at all): configure + build out of tree, run the two
# test executables the baseline runs (they are not registered with ctest), clean up.
set -e
D=$(mktemp -d /tmp/verif-baseline-XXXXXX)
trap 'rm -rf "$D"' EXIT
cmake -G Ninja -S "${W2C2_REPO:-/repo}" -B "$D" >/dev/null 2>&1
cmake --build "$D" >/dev/null
cd "$D"
./w2c2/w2c2_test > w2c2_test.log 2>&1
./wasi/w2c2wasi_test > wasi_test.log 2>&1
cat w2c2_test.log wasi_test.log
if grep -q "^FAIL" w2c2_test.log wasi_test.log; then echo "baseline: FAIL lines present"; exit 1; fi
n=$(grep -c "^PASS\|^OK resolvePath" w2c2_test.log wasi_test.log | awk -F: '{s+=$2} END {print s}')
echo "baseline: $n tests passed"
[ "$n" -ge 15 ]
