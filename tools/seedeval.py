#!/usr/bin/env python3
"""Evaluate a seeded change: confirm it (demo fails with / passes without, baseline tests pass with it),
then run the named checks against the patched worktree and record everything under seeded/<name>/.
usage: seedeval.py <worktree> <variantdir> <name> <property> <check> [<check>...]"""
import json, os, shutil, subprocess, sys, time
V = os.path.dirname(os.path.dirname(os.path.abspath(__file__)))
wt, vdir, name, prop = sys.argv[1:5]
checks = sys.argv[5:]
def sh(cmd, **kw):
    p = subprocess.run(cmd, shell=True, stdout=subprocess.PIPE, stderr=subprocess.STDOUT, text=True, errors="replace", **kw)
    return p.returncode, p.stdout
patch = os.path.join(vdir, "patch.diff")
assert sh("git -C %s status --porcelain --untracked-files=no" % wt)[1].strip() == "", "worktree dirty"
res = {"property": prop, "name": name}
rc, out = sh("bash run.sh %s" % wt, cwd=vdir, timeout=1800)
res["demo_without_change"] = {"rc": rc, "tail": out[-600:]}
rc, out = sh("git -C %s apply %s" % (wt, patch))
assert rc == 0, out
try:
    rc, out = sh("bash run.sh %s" % wt, cwd=vdir, timeout=1800)
    res["demo_with_change"] = {"rc": rc, "tail": out[-900:]}
    rc, out = sh("W2C2_REPO=%s %s/tools/baseline_off.sh" % (wt, V), timeout=900)
    res["baseline_with_change"] = {"rc": rc, "tail": out[-200:]}
    res["checks"] = {}
    for c in checks:
        t = time.time()
        rc, out = sh("W2C2_REPO=%s python3 %s/checks/%s.py quick" % (wt, V, c), cwd=V, timeout=3600)
        lines = [l for l in out.splitlines() if l.startswith(("VIOLATION", "  signature", "OK ", "MACHINERY", "KNOWN"))]
        res["checks"][c] = {"rc": rc, "wall_s": round(time.time() - t, 1), "lines": lines[:8]}
finally:
    sh("git -C %s checkout -- ." % wt)
d = os.path.join(V, "seeded", name)
shutil.rmtree(d, ignore_errors=True)
os.makedirs(d)
for f in os.listdir(vdir):
    p = os.path.join(vdir, f)
    if os.path.isfile(p) and os.path.getsize(p) < 400000:
        shutil.copy(p, d)
res["confirmed"] = res["demo_without_change"]["rc"] == 0 and res["demo_with_change"]["rc"] != 0 and res["baseline_with_change"]["rc"] == 0
res["caught_by"] = [c for c, r in res["checks"].items() if r["rc"] == 1]
json.dump(res, open(os.path.join(d, "result.json"), "w"), indent=1)
print(json.dumps({k: res[k] for k in ("name", "confirmed", "caught_by")}), {c: (r["rc"], r["lines"][:2]) for c, r in res["checks"].items()})
# restore evidence files overwritten by the runs against the patched tree
sh("git -C %s checkout -- evidence/%s.json" % (V, prop))
