#!/bin/sh
# Coverage survey (not a registered check): which lines of the translator and of the WASI implementation do the quick
# tiers execute?  Builds with --coverage into $VERIF_GCOV (default /tmp/verif-gcov), runs the named checks (default: all),
# then prints per-file line coverage and writes the unexecuted lines of each file to $VERIF_GCOV/uncovered-<file>.txt.
# usage: tools/coverage.sh [c01 c02 ...]
V=$(cd "$(dirname "$0")/.." && pwd)
export VERIF_GCOV=${VERIF_GCOV:-/tmp/verif-gcov}
rm -rf "$VERIF_GCOV"; mkdir -p "$VERIF_GCOV"
CHECKS=${*:-c01 c02 c03 c04 c05 c06 c07 c08 c09 c10 c12 c13 c14 c15 c20}
cd "$V"
for c in $CHECKS; do python3 checks/$c.py quick 2>&1 | grep -v '^KNOWN' | tail -n 1; done
git checkout -- evidence 2>/dev/null
cd "$VERIF_GCOV"
for d in w2c2-* wasi; do
  [ -d "$d" ] || continue
  # one output directory per counter file: gcov names its report after the source and would overwrite the previous one
  (cd "$d" && for g in *.gcda; do mkdir -p "gc-$g" && (cd "gc-$g" && gcov -b -o .. "../$g" >/dev/null 2>&1); done)
done
python3 - <<'PY'
import glob, os, re, collections
root = os.environ["VERIF_GCOV"]
lines = collections.defaultdict(dict)          # file -> line -> executed?
text = {}
for g in glob.glob(os.path.join(root, "*", "gc-*", "*.gcov")):
    src = None
    for l in open(g, errors="replace"):
        m = re.match(r"\s*([^:]+):\s*(\d+):(.*)", l)
        if not m:
            continue
        cnt, no, rest = m.group(1).strip(), int(m.group(2)), m.group(3)
        if no == 0:
            if rest.startswith("Source:"):
                src = os.path.basename(rest[7:])
            continue
        if src is None or cnt == "-":
            continue
        hit = cnt not in ("#####", "=====")
        lines[src][no] = lines[src].get(no, False) or hit
        text.setdefault(src, {})[no] = rest
for src in sorted(lines):
    tot = len(lines[src]); hit = sum(lines[src].values())
    if tot < 20:
        continue
    print("%-22s %5d / %5d lines  %5.1f%%" % (src, hit, tot, 100.0 * hit / tot))
    with open(os.path.join(root, "uncovered-%s.txt" % src), "w") as f:
        for no in sorted(lines[src]):
            if not lines[src][no]:
                f.write("%d:%s\n" % (no, text[src][no]))
PY
