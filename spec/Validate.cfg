INIT Init
NEXT Next
INVARIANT Out
CHECK_DEADLOCK FALSE
