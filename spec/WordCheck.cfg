CONSTANTS LB = 2
 KW = 4
INIT Init
NEXT Next
INVARIANTS RoundTrip Arith DivOK CmpOK BitOK ShiftOK CountOK ExtOK
CHECK_DEADLOCK FALSE
