INIT Init
NEXT Next
INVARIANT ScenOK
POSTCONDITION Out
CHECK_DEADLOCK FALSE
