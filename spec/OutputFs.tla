------------------------------ MODULE OutputFs ------------------------------
(***************************************************************************)
(* C20: which files a translator run may create, overwrite or delete.      *)
(*                                                                         *)
(* Names are sequences of character codes.  A run in output directory D    *)
(* with options o                                                          *)
(*   - with -c deletes exactly the names of D matching the implementation  *)
(*     file pattern  [sd][0-9]{10}.c                                       *)
(*   - writes exactly: the output file, its header (extension replaced by  *)
(*     .h, or .h appended), the implementation files Emit prescribes       *)
(*     (none in single-file mode; otherwise s/d files numbered from 0, one *)
(*     per started group of `perfile` functions), and `datasegments` in    *)
(*     the external data-segment modes                                     *)
(*   - touches nothing else.                                               *)
(* A run that FAILS (unsupported instruction met half-way, header cannot   *)
(* be created, reference module unreadable, ...) may stop anywhere: what   *)
(* it has created or overwritten by then lies in Written(o), what it has   *)
(* deleted in Deleted(o, dir) - in particular nothing without -c.          *)
(*                                                                         *)
(* IsImplCoded transcribes the test in main.c (length, first letter, digit *)
(* loop bounds, the "*.c" glob); PatternAgrees checks it against the       *)
(* pattern on a family of near misses.                                     *)
(***************************************************************************)
EXTENDS Naturals, Sequences, FiniteSets, TLC, Json, IOUtils

IsDigit(c) == c >= 48 /\ c <= 57
Dot == 46  cC == 99  cH == 104  cS == 115  cD == 100

IsImplSpec(n) == /\ Len(n) = 13 /\ n[1] \in {cS, cD}
                 /\ \A i \in 2..11 : IsDigit(n[i])
                 /\ n[12] = Dot /\ n[13] = cC

\* main.c: glob("*.c") then: strlen == 13; first char 'd' or 's'; for (i = 1; i < len - 2; i++) digit
GlobStarDotC(n) == Len(n) >= 2 /\ n[Len(n) - 1] = Dot /\ n[Len(n)] = cC /\ n[1] # Dot
IsImplCoded(n) == /\ GlobStarDotC(n) /\ Len(n) = 13 /\ n[1] \in {cS, cD}
                  /\ \A i \in 2..(Len(n) - 2) : IsDigit(n[i])

\* near-miss family around s0123456789.c
BaseName == <<115, 48, 49, 50, 51, 52, 53, 54, 55, 56, 57, 46, 99>>
Repl == {115, 100, 120, 83, 48, 57, 97, 46, 99, 104, 47}
Mutants == {[BaseName EXCEPT ![p] = c] : p \in 1..13, c \in Repl}
           \cup {SubSeq(BaseName, 1, p - 1) \o SubSeq(BaseName, p + 1, 13) : p \in 1..13}
           \cup {SubSeq(BaseName, 1, p) \o <<BaseName[p]>> \o SubSeq(BaseName, p + 1, 13) : p \in 1..13}
           \cup {BaseName \o <<99>>, BaseName \o <<46, 99>>, <<cD>> \o Tail(BaseName)}
PatternAgrees == \A n \in Mutants : IsImplSpec(n) <=> IsImplCoded(n)

----------------------------------------------------------------------------
Digits10(k) == [i \in 1..10 |-> 48 + ((k \div (10 ^ (10 - i))) % 10)]
ImplName(prefix, k) == <<prefix>> \o Digits10(k) \o <<Dot, cC>>
CeilDiv(a, b) == IF a = 0 THEN 0 ELSE 1 + ((a - 1) \div b)

\* o: [nfuncs, perfile (0 = all in one), nstatic, ndynamic, external (data segment mode), out (name)]
Single(o) == (IF o.perfile = 0 THEN o.nfuncs ELSE o.perfile) >= o.nfuncs /\ o.ndynamic = 0
PerFile(o) == IF o.perfile = 0 THEN (IF o.nfuncs = 0 THEN 1 ELSE o.nfuncs) ELSE o.perfile
ImplFiles(o) == IF Single(o) THEN {}
                ELSE {ImplName(cS, k) : k \in 0..(CeilDiv(o.nstatic, PerFile(o)) - 1)}
                     \cup {ImplName(cD, k) : k \in 0..(CeilDiv(o.ndynamic, PerFile(o)) - 1)}
LastDot(n) == IF \E i \in 1..Len(n) : n[i] = Dot THEN CHOOSE i \in 1..Len(n) : n[i] = Dot /\ \A j \in (i + 1)..Len(n) : n[j] # Dot ELSE 0
Header(n) == (IF LastDot(n) = 0 THEN n ELSE SubSeq(n, 1, LastDot(n) - 1)) \o <<Dot, cH>>
DataSegName == <<100, 97, 116, 97, 115, 101, 103, 109, 101, 110, 116, 115>>
Written(o) == {o.out, Header(o.out)} \cup ImplFiles(o) \cup (IF o.external THEN {DataSegName} ELSE {})
Deleted(o, dir) == IF o.clean THEN {n \in dir : IsImplSpec(n)} ELSE {}
Post(o, dir) == (dir \ Deleted(o, dir)) \cup Written(o)

----------------------------------------------------------------------------
(* scenarios of a check run: INFILE lines [pre: <<names>>, o] -> OUTFILE lines [deleted, written, post] *)
Scen == ndJsonDeserialize(IOEnv.INFILE)
SetOf(q) == {q[j] : j \in DOMAIN q}
VARIABLE k
Init == k = 0
Next == k < Len(Scen) /\ k' = k + 1
\* invariants of every scenario: nothing but matching names is deleted, nothing outside Written is created
ScenOK == k >= 1 =>
    LET s == Scen[k] dir == SetOf(s.pre) IN
    /\ Deleted(s.o, dir) \subseteq {n \in dir : IsImplSpec(n)}
    /\ Post(s.o, dir) \ dir \subseteq Written(s.o)
    /\ \A n \in dir \ Post(s.o, dir) : IsImplSpec(n) /\ s.o.clean
SortNames(S) == LET RECURSIVE Sq(_) Sq(T) == IF T = {} THEN <<>> ELSE LET x == CHOOSE x \in T : TRUE IN <<x>> \o Sq(T \ {x}) IN Sq(S)
Out == TLCGet("level") >= 0 /\ ndJsonSerialize(IOEnv.OUTFILE,
          [j \in 1..Len(Scen) |-> LET s == Scen[j] dir == SetOf(s.pre) IN
              [deleted |-> SortNames(Deleted(s.o, dir)), written |-> SortNames(Written(s.o)), post |-> SortNames(Post(s.o, dir))]])
ASSUME PatternAgrees
=============================================================================
