CONSTANT Threads = {1, 2, 3, 4, 5, 6}
INIT TInit
NEXT TNext
CONSTRAINT Progress
INVARIANT TraceInv
POSTCONDITION Reached
CHECK_DEADLOCK FALSE
