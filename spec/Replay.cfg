CONSTANT LB = 8
INIT Init
NEXT Next
INVARIANTS StackOK MemOK
POSTCONDITION Done
CHECK_DEADLOCK TRUE
