CONSTANT LB = 8
INIT Init
NEXT Next
INVARIANT StateOK
POSTCONDITION Done
CHECK_DEADLOCK FALSE
