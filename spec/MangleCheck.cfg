CONSTANT MaxLen = 2
INIT Init
NEXT Next
INVARIANT Report
CHECK_DEADLOCK FALSE
