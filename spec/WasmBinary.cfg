INIT BInit
NEXT BNext
INVARIANTS InBounds VerdictKind
POSTCONDITION BDone
CHECK_DEADLOCK TRUE
