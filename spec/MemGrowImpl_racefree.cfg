CONSTANTS Threads <- Threads4
 Prog <- Prog4
 MaxPages = 4
 InitPages = 1
 ReadUnderLock = TRUE
 SizeLocked = TRUE
SPECIFICATION Spec
INVARIANTS NeverAboveMax DistinctOldSizes FinalSize RaceFree
PROPERTY Refines
CHECK_DEADLOCK FALSE
