--------------------------- MODULE WasmValidCheck ---------------------------
(* Controls for WasmValid: modules it must accept and modules it must reject (each for the reason named).  *)
(* Evaluated by TLC as ASSUMEs (checks/c03.py runs it): a validator that accepts everything would make the  *)
(* "valid modules only" gate of Replay vacuous.                                                             *)
EXTENDS WasmValid, TLC
I32 == <<"i32">>
NoLim == [present |-> FALSE, min |-> 0, max |-> 0, hasmax |-> FALSE, shared |-> FALSE]
Mod(types, funcs) == [types |-> types, imports |-> <<>>, funcs |-> funcs, memory |-> NoLim, table |-> NoLim, globals |-> <<>>,
                      exports |-> <<>>, elems |-> <<>>, data |-> <<>>, start |-> 0 - 1]
F(body) == [type |-> 0, locals |-> << <<"i64", 2>> >>, body |-> body]
T1 == <<[p |-> I32, r |-> I32]>>
One(body) == Mod(T1, <<F(body)>>)
C(n) == <<"i32.const", <<n, 0, 0, 0>>>>
Good == {
  One(<< <<"local.get", 0>>, <<"end">> >>),
  One(<< <<"block", "i32">>, C(1), <<"local.get", 0>>, <<"br_if", 0>>, <<"end">>, <<"end">> >>),
  One(<< <<"local.get", 0>>, <<"if", "i32">>, C(1), <<"else">>, C(2), <<"end">>, <<"end">> >>),
  One(<< <<"unreachable">>, <<"i32.add">>, <<"end">> >>),                                  \* polymorphic stack
  One(<< <<"block", "">>, <<"loop", "">>, <<"local.get", 0>>, <<"br_table", <<0, 1>>, 1>>, <<"end">>, <<"end">>, C(0), <<"end">> >>),
  One(<< <<"local.get", 1>>, <<"i32.wrap_i64">>, <<"return">>, <<"end">> >>),
  One(<< C(1), C(2), <<"local.get", 0>>, <<"select">>, <<"end">> >>) }
Bad == {
  <<One(<< <<"end">> >>), "operand stack underflow">>,
  <<One(<< <<"local.get", 1>>, <<"end">> >>), "operand type: have i64, want i32">>,
  <<One(<< <<"local.get", 0>>, <<"local.get", 0>>, <<"end">> >>), "values left on the stack at the end of a block">>,
  <<One(<< <<"local.get", 0>>, <<"if", "i32">>, C(1), <<"end">>, <<"end">> >>), "if with a result needs an else">>,
  <<One(<< <<"local.get", 0>>, <<"br", 1>>, <<"end">> >>), "label">>,
  <<One(<< <<"local.get", 5>>, <<"end">> >>), "local index">>,
  <<One(<< <<"local.get", 0>>, <<"i32.load", 2, 0>>, <<"end">> >>), "no memory">>,
  <<One(<< <<"local.get", 0>>, <<"call", 3>>, <<"end">> >>), "function index">>,
  <<One(<< <<"local.get", 0>>, <<"local.get", 1>>, <<"i32.add">>, <<"end">> >>), "operand type: have i64, want i32">>,
  <<One(<< <<"local.get", 0>>, <<"end">>, <<"nop">> >>), "instructions after the final end">>,
  <<One(<< <<"block", "i32">>, <<"local.get", 0>>, <<"end">> >>), "body ends inside a block">>,
  <<One(<< C(1), <<"local.get", 1>>, <<"local.get", 0>>, <<"select">>, <<"end">> >>), "select operands differ">>,
  <<[One(<< <<"local.get", 0>>, <<"end">> >>) EXCEPT !.start = 0], "start function type">>,
  <<[One(<< <<"local.get", 0>>, <<"end">> >>) EXCEPT !.exports = <<[name |-> "a", kind |-> "func", idx |-> 0], [name |-> "a", kind |-> "func", idx |-> 0]>>], "duplicate export name">>,
  <<[One(<< <<"local.get", 0>>, <<"end">> >>) EXCEPT !.data = <<[mode |-> "active", offset |-> C(0), bytes |-> <<1>>]>>], "data segment without memory">>,
  <<[One(<< <<"local.get", 0>>, <<"end">> >>) EXCEPT !.globals = <<[t |-> "i64", mut |-> FALSE, init |-> C(0)]>>], "constant expression: type">> }
ASSUME \A m \in Good : ModuleErr(m) = "" \/ (PrintT(<<"rejected although valid", m, ModuleErr(m)>>) /\ FALSE)
ASSUME \A b \in Bad : ModuleErr(b[1]) = b[2] \/ (PrintT(<<"wrong verdict", b[2], ModuleErr(b[1])>>) /\ FALSE)
VARIABLE x
Init == x = 0
Next == x' = x
=============================================================================
