------------------------------- MODULE Readdir -------------------------------
(***************************************************************************)
(* C14: fd_readdir as a function of the directory stream.  The stream is a *)
(* sequence E of entries [next, ino, type, name]; `next` is the cookie     *)
(* that resumes after the entry.  A call (buflen, cookie) starts at the    *)
(* beginning for cookie 0, else after the entry whose next = cookie, and   *)
(* emits entries: a 24-byte header (next u64, ino u64, namlen u32, type    *)
(* u8, padding) only if 24 bytes remain - otherwise the call reports the   *)
(* whole buffer as used to say "more" - followed by as much of the name as *)
(* still fits.  E itself is the host's business (order, inodes, cookie     *)
(* values): it is taken from the first complete listing of the trace, and  *)
(* every other recorded call must equal Expected(E, buflen, cookie).       *)
(* The driver's own lstat observations bound E: names, types and inodes.   *)
(***************************************************************************)
EXTENDS Naturals, Integers, Sequences, FiniteSets, TLC, Json, IOUtils
Tr == ndJsonDeserialize(IOEnv.TRACE)
\* records: first [kind "stream", entries <<[next, ino, type, name]>>, lstat <<[name, ino, type]>>]
\*          then   [kind "call", buflen, cookie, used, recs <<[next, ino, type, namlen, name]>>]
StartIndex(E, cookie) == IF cookie = 0 THEN 1
                         ELSE IF \E i \in 1..Len(E) : E[i].next = cookie THEN 1 + (CHOOSE i \in 1..Len(E) : E[i].next = cookie)
                         ELSE Len(E) + 1
RECURSIVE Emit(_, _, _, _)
\* returns [used, recs]
Emit(E, i, buflen, used) ==
    IF i > Len(E) \/ used >= buflen THEN [used |-> used, recs |-> <<>>]
    ELSE IF buflen - used < 24 THEN [used |-> buflen, recs |-> <<>>]
    ELSE LET room == buflen - used - 24
             n == IF Len(E[i].name) > room THEN room ELSE Len(E[i].name)
             rest == Emit(E, i + 1, buflen, used + 24 + n)
         IN  [used |-> rest.used,
              recs |-> <<[next |-> E[i].next, ino |-> E[i].ino, type |-> E[i].type, namlen |-> Len(E[i].name), name |-> SubSeq(E[i].name, 1, n)]>> \o rest.recs]
Expected(E, buflen, cookie) == Emit(E, StartIndex(E, cookie), buflen, 0)

VARIABLE k
Init == k = 0 /\ TLCSet(1, <<>>)
Next == k < Len(Tr) /\ k' = k + 1
Stream(j) == LET i == CHOOSE i \in 1..j : Tr[i].kind = "stream" /\ \A m \in (i + 1)..j : Tr[m].kind # "stream" IN Tr[i]
NamesOf(E) == {E[i].name : i \in 1..Len(E)}
Check == (k >= 1) =>
    LET r == Tr[k] IN
    IF r.kind = "stream" THEN
        \* every created name (plus . and ..) exactly once, with the lstat'ed inode and type
        LET E == r.entries L == r.lstat
            ok == /\ \A i, j \in 1..Len(E) : i # j => E[i].name # E[j].name
                  /\ NamesOf(E) = {L[i].name : i \in 1..Len(L)} \cup {<<46>>, <<46, 46>>}
                  /\ \A i \in 1..Len(E) : \A j \in 1..Len(L) : E[i].name = L[j].name => (E[i].ino = L[j].ino /\ E[i].type = L[j].type)
                  /\ \A i, j \in 1..Len(E) : i # j => E[i].next # E[j].next
        IN  ok \/ TLCSet(1, Append(TLCGet(1), [k |-> k, why |-> "stream"]))
    ELSE IF r.kind = "callrm" THEN
        \* entries were removed since the listing began (r.removed).  Whether a removed entry still shows up is the host's business; every
        \* entry that was NOT removed and lies behind the cookie's position is delivered exactly once, in the order of the stream (the buffer
        \* of such a call holds them all)
        LET E == Stream(k).entries
            gone(n) == \E j \in 1..Len(r.removed) : r.removed[j] = n
            from == StartIndex(E, r.cookie)
            want == SelectSeq(SubSeq(E, from, Len(E)), LAMBDA x : ~gone(x.name))
            got  == SelectSeq(r.recs, LAMBDA x : ~gone(x.name))
        IN  (Len(got) = Len(want) /\ \A i \in 1..Len(got) : got[i].name = want[i].name /\ got[i].ino = want[i].ino /\ got[i].type = want[i].type)
            \/ TLCSet(1, Append(TLCGet(1), [k |-> k, why |-> "call", expected |-> [used |-> 0, recs |-> [i \in 1..Len(want) |->
                    [next |-> want[i].next, ino |-> want[i].ino, type |-> want[i].type, namlen |-> Len(want[i].name), name |-> want[i].name]]]]))
    ELSE LET e == Expected(Stream(k).entries, r.buflen, r.cookie)
         IN  (e.used = r.used /\ e.recs = r.recs) \/ TLCSet(1, Append(TLCGet(1), [k |-> k, why |-> "call", expected |-> e]))
Out == TLCGet("level") >= 0 /\ ndJsonSerialize(IOEnv.OUTFILE, TLCGet(1))
=============================================================================
