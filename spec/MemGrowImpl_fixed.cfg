CONSTANTS Threads <- Threads4
 Prog <- Prog4
 MaxPages = 4
 InitPages = 1
 ReadUnderLock = TRUE
 SizeLocked = FALSE
SPECIFICATION Spec
INVARIANTS NeverAboveMax DistinctOldSizes FinalSize 
PROPERTY Refines
CHECK_DEADLOCK FALSE
