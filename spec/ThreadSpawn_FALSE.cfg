CONSTANTS Spawners = {1, 2, 3, 4}
 Atomic = FALSE
SPECIFICATION Spec
INVARIANTS DistinctIds Positive StartOnlyAfterSpawn
CHECK_DEADLOCK FALSE
