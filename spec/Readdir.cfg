INIT Init
NEXT Next
INVARIANT Check
POSTCONDITION Out
CHECK_DEADLOCK FALSE
