CONSTANT LB = 8
INIT Init
NEXT Next
INVARIANTS CopyOK FillOK RoundTrip GrowOK GrowBig
CHECK_DEADLOCK FALSE
