CONSTANT LB = 8
INIT CInit
NEXT CNext
POSTCONDITION ClassifyDone
CHECK_DEADLOCK FALSE
