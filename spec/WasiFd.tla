------------------------------- MODULE WasiFd -------------------------------
(***************************************************************************)
(* The WASI descriptor table in implementation shape (C13): an append-only *)
(* array of entries [fd, dir, path]; `path` points to a heap cell that is  *)
(* a ghost here: none / live / freed.  Every action lists the cells it     *)
(* reads and frees, so "never reads or frees host memory that has been     *)
(* released" is an invariant of the model.                                 *)
(*                                                                         *)
(* Variant "Intended": close invalidates the whole entry, and a number     *)
(* whose entry is closed (or that was never issued) gives EBADF before any *)
(* cell is touched.  Variant "AsCoded" is the table before the repair:     *)
(* close frees the path cell but leaves the pointer in the entry, and the  *)
(* calls test `fd < 0` / `path == NULL` after fetching the entry.          *)
(* TLC explores every sequence of opens, closes and uses over a few        *)
(* numbers; Intended must satisfy the invariants, AsCoded must not.        *)
(***************************************************************************)
EXTENDS Naturals, Integers, Sequences, FiniteSets, TLC
CONSTANTS Variant, MaxOpens, MaxCloses, MaxUses, Numbers
VARIABLES table,    \* sequence of [fd, dir, pathCell, kind]; index = descriptor number + 1
          cells,    \* cell id -> "live" | "freed"
          opens, closes, uses,
          uaf, dfree, wrongerr, lastNew
vars == <<table, cells, opens, closes, uses, uaf, dfree, wrongerr, lastNew>>
Std(n) == [fd |-> n, dir |-> FALSE, cell |-> 0, kind |-> "std"]
Init == /\ table = <<Std(0), Std(1), Std(2), [fd |-> -1, dir |-> FALSE, cell |-> 1, kind |-> "preopen"]>>
        /\ cells = <<"live">> /\ opens = 0 /\ closes = 0 /\ uses = 0
        /\ uaf = FALSE /\ dfree = FALSE /\ wrongerr = FALSE /\ lastNew = -1
InTable(n) == n >= 0 /\ n < Len(table)
E(n) == table[n + 1]
\* what the guest must see: closed or never issued => EBADF
ClosedAbs(n) == ~InTable(n) \/ E(n).kind = "closed"
Open(isdir) == /\ opens < MaxOpens
               /\ table' = Append(table, [fd |-> 100 + Len(table), dir |-> FALSE, cell |-> Len(cells) + 1, kind |-> IF isdir THEN "dir" ELSE "file"])
               /\ cells' = Append(cells, "live") /\ opens' = opens + 1 /\ lastNew' = Len(table)
               /\ UNCHANGED <<closes, uses, uaf, dfree, wrongerr>>
\* fd_close(n)
Close(n) ==
    /\ closes < MaxCloses /\ closes' = closes + 1
    /\ IF ~InTable(n) THEN UNCHANGED <<table, cells, uaf, dfree, wrongerr>>                      \* EBADF
       ELSE IF Variant = "Intended" THEN
            IF E(n).kind = "closed" THEN UNCHANGED <<table, cells, uaf, dfree, wrongerr>>        \* EBADF
            ELSE /\ cells' = IF E(n).cell # 0 THEN [cells EXCEPT ![E(n).cell] = "freed"] ELSE cells
                 /\ table' = [table EXCEPT ![n + 1] = [fd |-> -1, dir |-> FALSE, cell |-> 0, kind |-> "closed"]]
                 /\ UNCHANGED <<uaf, dfree, wrongerr>>
       ELSE \* as coded: close again "succeeds" and frees the cell again
            /\ dfree' = (dfree \/ (E(n).cell # 0 /\ cells[E(n).cell] = "freed"))
            /\ wrongerr' = (wrongerr \/ E(n).kind = "closed")
            /\ cells' = IF E(n).cell # 0 THEN [cells EXCEPT ![E(n).cell] = "freed"] ELSE cells
            /\ table' = [table EXCEPT ![n + 1] = [fd |-> -1, dir |-> FALSE, cell |-> E(n).cell, kind |-> "closed"]]
            /\ UNCHANGED uaf
    /\ UNCHANGED <<opens, uses, lastNew>>
\* a call that reads the entry's path (fd_prestat_get, path_open with n as directory, fd_readdir, fd_filestat_get on a path entry)
UsePath(n) ==
    /\ uses < MaxUses /\ uses' = uses + 1
    /\ IF ~InTable(n) THEN UNCHANGED <<uaf, wrongerr>>
       ELSE IF Variant = "Intended" THEN UNCHANGED <<uaf, wrongerr>>                           \* closed => EBADF, nothing read
       ELSE /\ uaf' = (uaf \/ (E(n).cell # 0 /\ cells[E(n).cell] = "freed"))
            /\ wrongerr' = (wrongerr \/ (E(n).kind = "closed" /\ E(n).cell # 0))             \* proceeds instead of EBADF
    /\ UNCHANGED <<table, cells, opens, closes, dfree, lastNew>>
Next == \/ \E d \in BOOLEAN : Open(d)
        \/ \E n \in Numbers : Close(n) \/ UsePath(n)
Spec == Init /\ [][Next]_vars
NoUseAfterFree == ~uaf
NoDoubleFree == ~dfree
ClosedGivesEBADF == ~wrongerr
\* a descriptor returned by path_open never aliases a live one; native descriptors of live entries are distinct
LiveDistinct == /\ (lastNew >= 0 => \A n \in 0..(Len(table) - 1) : (n # lastNew /\ E(n).kind # "closed") => E(n).fd # E(lastNew).fd \/ E(n).fd = -1)
                /\ \A a, b \in 0..(Len(table) - 1) : (a # b /\ E(a).kind \in {"file", "dir"} /\ E(b).kind \in {"file", "dir"}) => E(a).fd # E(b).fd
StdStreams == \A n \in 0..2 : E(n).kind \in {"std", "closed"} /\ (E(n).kind = "std" => E(n).fd = n)
=============================================================================
