----------------------------- MODULE ResolvePath -----------------------------
(***************************************************************************)
(* C14: how a guest path is resolved against the path of its directory     *)
(* descriptor.  Only lengths and the two boundary characters matter:       *)
(*   empty path                      -> reject                             *)
(*   absolute path (starts with /)   -> the path itself                    *)
(*   relative path                   -> directory, a separator unless the  *)
(*                                      directory ends with one, the path  *)
(* The result, with its terminating NUL, must fit PathMax bytes; anything  *)
(* longer must be rejected, and nothing may be written past the buffer.    *)
(* A result that fits exactly may be accepted or rejected (the code keeps  *)
(* one byte in reserve); everything shorter must be accepted.              *)
(*                                                                         *)
(* Every grid point becomes one call of the real resolvePath with the      *)
(* guest path placed unterminated directly in front of an inaccessible     *)
(* page and the result buffer of exactly PathMax bytes in front of another.*)
(***************************************************************************)
EXTENDS Naturals, Integers, Sequences, TLC, Json, IOUtils
CONSTANT PathMax
DirLens == {1, 2, 3, 17, PathMax - 4, PathMax - 3, PathMax - 2, PathMax - 1}
PathLens == {0, 1, 2, 3, 17, PathMax - 5, PathMax - 4, PathMax - 3, PathMax - 2, PathMax - 1, PathMax, PathMax + 1, 2 * PathMax}
Cases == {[dirLen |-> d, dirSlash |-> s, pathLen |-> p, abs |-> a] : d \in DirLens, s \in BOOLEAN, p \in PathLens, a \in BOOLEAN}
\* length of the resolved string (without NUL)
ResLen(c) == IF c.abs THEN c.pathLen ELSE c.dirLen + (IF c.dirSlash THEN 0 ELSE 1) + c.pathLen
Verdict(c) == IF c.pathLen = 0 THEN "reject"
              ELSE IF ResLen(c) + 1 > PathMax THEN "reject"
              ELSE IF ResLen(c) + 1 = PathMax \/ (~c.abs /\ ResLen(c) + 2 = PathMax /\ c.dirSlash) THEN "either"
              ELSE "accept"
\* the case analysis is total and every accepted result fits
ResultFits == \A c \in Cases : Verdict(c) \in {"accept", "either"} => ResLen(c) + 1 <= PathMax
Total == \A c \in Cases : Verdict(c) \in {"accept", "either", "reject"}
ASSUME ResultFits /\ Total
VARIABLE k
Init == k = 0
Next == k = 0 /\ k' = 1
Out == (k = 1) => ndJsonSerialize(IOEnv.OUTFILE,
          LET RECURSIVE Sq(_)
              Sq(S) == IF S = {} THEN <<>> ELSE LET c == CHOOSE c \in S : TRUE IN
                         <<[dirLen |-> c.dirLen, dirSlash |-> c.dirSlash, pathLen |-> c.pathLen, abs |-> c.abs, verdict |-> Verdict(c), resLen |-> ResLen(c)]>> \o Sq(S \ {c})
          IN Sq({c \in Cases : c.pathLen > 0 \/ ~c.abs}))
=============================================================================
