----------------------------- MODULE WasmBinary -----------------------------
(***************************************************************************)
(* The WebAssembly binary format (specification, chapter 5) as a decoder   *)
(* from a byte string to the abstract module that WasmValid types and      *)
(* WasmExec runs - for the feature set of those modules.                   *)
(*                                                                         *)
(* C08 speaks of "binaries that decode to the same module under the        *)
(* specification"; this module is that decoding.  It is what decides that  *)
(* two encodings produced by the binder (LEB padding, custom sections,     *)
(* regrouped locals, explicit empty else, flag-2 data segments, empty      *)
(* sections present or absent) ARE the same module, and that a byte prefix *)
(* which happens to end at a section boundary IS a complete module whose   *)
(* missing sections are empty (C08 "absent optional sections mean empty",  *)
(* C10 prefixes).                                                          *)
(*                                                                         *)
(* Shape: a state machine with one action per section kind (so that TLC's  *)
(* coverage shows which sections were met), the section contents decoded   *)
(* by recursive operators.  Verdict per input:                             *)
(*    ok            the bytes are a module of the feature set; `module`    *)
(*                  is its abstract syntax, `valid` what WasmValid says    *)
(*    malformed:..  not in the binary format                               *)
(*    invalid:..    decodes, but a rule the decoder has to know about      *)
(*                  (constant expressions) is violated                     *)
(*    unsupported:..outside the feature set (multi-value, reference types, *)
(*                  SIMD, memory64, ...): no statement                     *)
(*                                                                         *)
(* Normal forms chosen for the abstract syntax (what the binary format     *)
(* identifies): locals as maximal runs of equal types without empty runs;  *)
(* "if .. else end" with an empty else arm is "if .. end"; names are byte  *)
(* strings; unsigned numbers above 2^31 - 1 saturate (TLC integers), which *)
(* keeps "out of range" out of range.                                      *)
(***************************************************************************)
EXTENDS WasmValid, WasmOpcodes, Integers, TLC, Json, IOUtils

BIG == 2147483647

BOk(val, pos) == [ok |-> TRUE, v |-> val, p |-> pos, kind |-> "ok", why |-> ""]
BBad(knd, reason) == [ok |-> FALSE, v |-> 0, p |-> 0, kind |-> knd, why |-> reason]
Malformed(r) == BBad("malformed", r)
Unsupp(r)    == BBad("unsupported", r)
Invalid(r)   == BBad("invalid", r)

----------------------------------------------------------------------------
(* numbers: by is the byte string, pos the next byte (1-based), lim the first position beyond the construct *)

RECURSIVE ULebR(_, _, _, _, _, _)
ULebR(by, pos, lim, n, acc, mul) ==
    IF pos >= lim THEN Malformed("unexpected end")
    ELSE LET b == by[pos]
             g == b % 128
         IN  IF n = 4
             THEN IF b >= 128 THEN Malformed("integer representation too long")
                  ELSE IF g >= 16 THEN Malformed("integer too large")
                  ELSE BOk(IF g >= 8 THEN BIG ELSE acc + g * 268435456, pos + 1)
             ELSE IF b >= 128 THEN ULebR(by, pos + 1, lim, n + 1, acc + g * mul, mul * 128)
                  ELSE BOk(acc + g * mul, pos + 1)
U32At(by, pos, lim) == ULebR(by, pos, lim, 0, 0, 1)

\* signed LEB128 of width nbits -> little-endian byte list of the two's complement value
RECURSIVE GroupsR(_, _, _, _, _)
GroupsR(by, pos, lim, maxn, acc) ==
    IF pos >= lim THEN Malformed("unexpected end")
    ELSE LET b == by[pos]
         IN  IF b >= 128
             THEN IF Len(acc) + 1 >= maxn THEN Malformed("integer representation too long")
                  ELSE GroupsR(by, pos + 1, lim, maxn, Append(acc, b % 128))
             ELSE BOk(Append(acc, b), pos + 1)
Bit(x, k) == (x \div (2 ^ k)) % 2
SLebAt(by, pos, lim, nbits) ==
    LET maxn == (nbits + 6) \div 7
        gr == GroupsR(by, pos, lim, maxn, <<>>)
    IN  IF ~gr.ok THEN gr
        ELSE LET gs == gr.v
                 n == Len(gs)
                 last == gs[n]
                 used == nbits - 7 * (maxn - 1)          \* value bits in a group number maxn
                 sign == Bit(last, IF n = maxn THEN used - 1 ELSE 6)
                 \* in a full-length encoding the bits beyond the value must repeat the sign
                 tailok == n < maxn \/ \A k \in used..6 : Bit(last, k) = sign
                 bitAt(k) == IF k < 7 * n THEN Bit(gs[(k \div 7) + 1], k % 7) ELSE sign     \* k from 0
                 byteAt(j) == bitAt(8 * j) + 2 * bitAt(8 * j + 1) + 4 * bitAt(8 * j + 2) + 8 * bitAt(8 * j + 3)
                              + 16 * bitAt(8 * j + 4) + 32 * bitAt(8 * j + 5) + 64 * bitAt(8 * j + 6) + 128 * bitAt(8 * j + 7)
             IN  IF ~tailok THEN Malformed("integer too large")
                 ELSE BOk([j \in 1..(nbits \div 8) |-> byteAt(j - 1)], gr.p)

BytesAt(by, pos, lim, n) ==
    IF n >= BIG \/ pos + n > lim THEN Malformed("unexpected end")
    ELSE BOk(SubSeq(by, pos, pos + n - 1), pos + n)

\* UTF-8 (specification 5.2.4): well-formed sequences only, no surrogates, no overlong forms, at most U+10FFFF
RECURSIVE Utf8OK(_, _)
Utf8OK(bs, k) ==
    IF k > Len(bs) THEN TRUE
    ELSE LET b1 == bs[k]
             cont(j) == k + j <= Len(bs) /\ bs[k + j] >= 128 /\ bs[k + j] < 192
         IN  IF b1 < 128 THEN Utf8OK(bs, k + 1)
             ELSE IF b1 >= 194 /\ b1 < 224 THEN cont(1) /\ Utf8OK(bs, k + 2)
             ELSE IF b1 >= 224 /\ b1 < 240
                  THEN /\ cont(1) /\ cont(2)
                       /\ (b1 = 224 => bs[k + 1] >= 160)
                       /\ (b1 = 237 => bs[k + 1] < 160)
                       /\ Utf8OK(bs, k + 3)
             ELSE IF b1 >= 240 /\ b1 < 245
                  THEN /\ cont(1) /\ cont(2) /\ cont(3)
                       /\ (b1 = 240 => bs[k + 1] >= 144)
                       /\ (b1 = 244 => bs[k + 1] < 144)
                       /\ Utf8OK(bs, k + 4)
             ELSE FALSE
NameAt(by, pos, lim) ==
    LET n == U32At(by, pos, lim)
    IN  IF ~n.ok THEN n
        ELSE LET bs == BytesAt(by, n.p, lim, n.v)
             IN  IF ~bs.ok THEN bs
                 ELSE IF ~Utf8OK(bs.v, 1) THEN Malformed("malformed UTF-8 encoding")
                 ELSE bs

ValTypeName(b) == CASE b = 127 -> "i32" [] b = 126 -> "i64" [] b = 125 -> "f32" [] b = 124 -> "f64" [] OTHER -> ""
ValTypeAt(by, pos, lim) ==
    IF pos >= lim THEN Malformed("unexpected end")
    ELSE IF ValTypeName(by[pos]) # "" THEN BOk(ValTypeName(by[pos]), pos + 1)
    ELSE IF by[pos] \in {123, 112, 111} THEN Unsupp("value type")
    ELSE Malformed("malformed value type")

----------------------------------------------------------------------------
(* instructions *)

\* vector of label indices of br_table
RECURSIVE U32VecR(_, _, _, _, _)
U32VecR(by, pos, lim, n, acc) ==
    IF n = 0 THEN BOk(acc, pos)
    ELSE LET x == U32At(by, pos, lim)
         IN  IF ~x.ok THEN x ELSE U32VecR(by, x.p, lim, n - 1, Append(acc, x.v))
U32VecAt(by, pos, lim) ==
    LET n == U32At(by, pos, lim)
    IN  IF ~n.ok THEN n
        ELSE IF n.v > lim - n.p THEN Malformed("unexpected end")       \* every element takes at least one byte
        ELSE U32VecR(by, n.p, lim, n.v, <<>>)

ZeroAt(by, pos, lim, val) ==
    IF pos >= lim THEN Malformed("unexpected end")
    ELSE IF by[pos] # 0 THEN (IF by[pos] < 128 THEN Unsupp("memory or table index") ELSE Malformed("zero byte expected"))
    ELSE BOk(val, pos + 1)

InstrAt(by, pos, lim) ==
    IF pos >= lim THEN Malformed("unexpected end")
    ELSE
    LET b == by[pos]
        pre == IF b \in {252, 254} THEN U32At(by, pos + 1, lim) ELSE BOk(0, pos + 1)
    IN  IF ~pre.ok THEN pre
        ELSE
        LET op == IF b = 252 THEN (IF pre.v < Len(PrefixFC) THEN PrefixFC[pre.v + 1] ELSE "")
                  ELSE IF b = 254 THEN (IF pre.v < Len(PrefixFE) THEN PrefixFE[pre.v + 1] ELSE "")
                  ELSE OneByteOp[b + 1]
            q == pre.p
            kind == ImmKind(op)
        IN  IF op = "" THEN Unsupp("opcode")
            ELSE CASE kind = "none" -> BOk(<<op>>, q)
              [] kind = "blocktype" ->
                    IF q >= lim THEN Malformed("unexpected end")
                    ELSE IF by[q] = 64 THEN BOk(<<op, "">>, q + 1)
                    ELSE IF ValTypeName(by[q]) # "" THEN BOk(<<op, ValTypeName(by[q])>>, q + 1)
                    ELSE Unsupp("block type")
              [] kind = "idx" -> LET x == U32At(by, q, lim) IN IF x.ok THEN BOk(<<op, x.v>>, x.p) ELSE x
              [] kind = "brtable" ->
                    LET ls == U32VecAt(by, q, lim)
                    IN  IF ~ls.ok THEN ls
                        ELSE LET d == U32At(by, ls.p, lim) IN IF d.ok THEN BOk(<<op, ls.v, d.v>>, d.p) ELSE d
              [] kind = "callind" ->
                    LET ty == U32At(by, q, lim)
                    IN  IF ~ty.ok THEN ty
                        ELSE LET tb == U32At(by, ty.p, lim)        \* a table index (u32) since the reference types proposal
                             IN  IF ~tb.ok THEN tb
                                 ELSE IF tb.v # 0 THEN Unsupp("table index")
                                 ELSE BOk(<<op, ty.v, 0>>, tb.p)
              [] kind = "memarg" ->
                    LET al == U32At(by, q, lim)
                    IN  IF ~al.ok THEN al
                        ELSE LET off == U32At(by, al.p, lim)
                             IN  IF ~off.ok THEN off
                                 \* bit 6 of the flags selects a memory index (multi-memory); alignments of 2^32 and more do not exist
                                 ELSE IF al.v >= 64 THEN (IF al.v < 128 THEN Unsupp("memarg flags") ELSE Malformed("malformed memop flags"))
                                 ELSE IF al.v >= 32 THEN Malformed("malformed memop flags")
                                 ELSE BOk(<<op, al.v, off.v>>, off.p)
              [] kind = "zero" -> ZeroAt(by, q, lim, <<op>>)
              [] kind = "zero2" -> LET z == ZeroAt(by, q, lim, <<op>>) IN IF z.ok THEN ZeroAt(by, z.p, lim, <<op>>) ELSE z
              [] kind = "idxzero" -> LET x == U32At(by, q, lim) IN IF x.ok THEN ZeroAt(by, x.p, lim, <<op, x.v>>) ELSE x
              [] kind = "i32.const" -> LET x == SLebAt(by, q, lim, 32) IN IF x.ok THEN BOk(<<op, x.v>>, x.p) ELSE x
              [] kind = "i64.const" -> LET x == SLebAt(by, q, lim, 64) IN IF x.ok THEN BOk(<<op, x.v>>, x.p) ELSE x
              [] kind = "f32.const" -> LET x == BytesAt(by, q, lim, 4) IN IF x.ok THEN BOk(<<op, x.v>>, x.p) ELSE x
              [] kind = "f64.const" -> LET x == BytesAt(by, q, lim, 8) IN IF x.ok THEN BOk(<<op, x.v>>, x.p) ELSE x

\* an expression: instructions up to the `end` that closes it.  usesData: some instruction names a data segment
\* (memory.init / data.drop), which makes the data count section mandatory.
RECURSIVE ExprR(_, _, _, _, _, _)
ExprR(by, pos, lim, depth, acc, usesData) ==
    LET x == InstrAt(by, pos, lim)
    IN  IF ~x.ok THEN x
        ELSE LET op == x.v[1]
                 ud == usesData \/ op \in {"memory.init", "data.drop"}
             IN  IF op \in {"block", "loop", "if"} THEN ExprR(by, x.p, lim, depth + 1, Append(acc, x.v), ud)
                 ELSE IF op = "end"
                      THEN LET \* "else end" with nothing between is the empty else arm
                               a2 == IF depth > 0 /\ acc # <<>> /\ acc[Len(acc)] = <<"else">>
                                     THEN SubSeq(acc, 1, Len(acc) - 1) ELSE acc
                           IN  IF depth = 0 THEN BOk([body |-> Append(acc, x.v), usesData |-> ud], x.p)
                               ELSE ExprR(by, x.p, lim, depth - 1, Append(a2, x.v), ud)
                 ELSE ExprR(by, x.p, lim, depth, Append(acc, x.v), ud)
ExprAt(by, pos, lim) == ExprR(by, pos, lim, 0, <<>>, FALSE)

ConstOps == {"i32.const", "i64.const", "f32.const", "f64.const", "global.get"}
ConstExprAt(by, pos, lim) ==
    LET x == ExprAt(by, pos, lim)
    IN  IF ~x.ok THEN x
        ELSE IF Len(x.v.body) = 2 /\ x.v.body[1][1] \in ConstOps THEN BOk(x.v.body[1], x.p)
        ELSE Invalid("constant expression required")

----------------------------------------------------------------------------
(* section contents *)

LimitsAt(by, pos, lim, nomax) ==
    IF pos >= lim THEN Malformed("unexpected end")
    ELSE LET fl == by[pos]
         IN  IF fl \notin {0, 1, 3} THEN (IF fl < 8 THEN Unsupp("limits flag") ELSE Malformed("malformed limits flag"))
             ELSE LET mn == U32At(by, pos + 1, lim)
                  IN  IF ~mn.ok THEN mn
                      ELSE IF fl = 0 THEN BOk([present |-> TRUE, min |-> mn.v, max |-> nomax, hasmax |-> FALSE, shared |-> FALSE], mn.p)
                      ELSE LET mx == U32At(by, mn.p, lim)
                           IN  IF ~mx.ok THEN mx
                               ELSE BOk([present |-> TRUE, min |-> mn.v, max |-> mx.v, hasmax |-> TRUE, shared |-> fl = 3], mx.p)
TableTypeAt(by, pos, lim) ==
    IF pos >= lim THEN Malformed("unexpected end")
    ELSE IF by[pos] = 111 THEN Unsupp("reference type")
    ELSE IF by[pos] # 112 THEN Malformed("malformed reference type")
    ELSE LimitsAt(by, pos + 1, lim, 0)

\* locals in normal form: runs of equal types, no empty runs
AddLocals(acc, ty, n) ==
    IF n = 0 THEN acc
    ELSE IF acc # <<>> /\ acc[Len(acc)][1] = ty
         THEN [acc EXCEPT ![Len(acc)] = <<ty, IF @[2] >= BIG - n THEN BIG ELSE @[2] + n>>]
         ELSE Append(acc, <<ty, n>>)

Elem(kind, by, pos, lim) ==
    CASE kind = "valtype" -> ValTypeAt(by, pos, lim)
      [] kind = "u32" -> U32At(by, pos, lim)
      [] kind = "import" ->
            LET mo == NameAt(by, pos, lim)
            IN  IF ~mo.ok THEN mo
                ELSE LET nm == NameAt(by, mo.p, lim)
                     IN  IF ~nm.ok THEN nm
                         ELSE IF nm.p >= lim THEN Malformed("unexpected end")
                         ELSE LET k == by[nm.p]
                                  base == [mod |-> mo.v, name |-> nm.v]
                              IN (CASE k = 0 -> LET ty == U32At(by, nm.p + 1, lim)
                                                IN  IF ty.ok THEN BOk(base @@ [kind |-> "func", type |-> ty.v], ty.p) ELSE ty
                                    [] k = 1 -> LET tt == TableTypeAt(by, nm.p + 1, lim)
                                                IN  IF tt.ok THEN BOk(base @@ [kind |-> "table", min |-> tt.v.min, max |-> tt.v.max,
                                                                               hasmax |-> tt.v.hasmax, shared |-> tt.v.shared], tt.p) ELSE tt
                                    [] k = 2 -> LET mt == LimitsAt(by, nm.p + 1, lim, 65536)
                                                IN  IF mt.ok THEN BOk(base @@ [kind |-> "memory", min |-> mt.v.min, max |-> mt.v.max,
                                                                               hasmax |-> mt.v.hasmax, shared |-> mt.v.shared], mt.p) ELSE mt
                                    [] k = 3 -> LET vt == ValTypeAt(by, nm.p + 1, lim)
                                                IN  IF ~vt.ok THEN vt
                                                    ELSE IF vt.p >= lim THEN Malformed("unexpected end")
                                                    ELSE IF by[vt.p] \notin {0, 1} THEN Malformed("malformed mutability")
                                                    ELSE BOk(base @@ [kind |-> "global", t |-> vt.v, mut |-> by[vt.p] = 1], vt.p + 1)
                                    [] k = 4 -> Unsupp("tag import")
                                    [] OTHER -> Malformed("malformed import kind"))
      [] kind = "table" -> TableTypeAt(by, pos, lim)
      [] kind = "memory" -> LimitsAt(by, pos, lim, 65536)
      [] kind = "global" ->
            LET vt == ValTypeAt(by, pos, lim)
            IN  IF ~vt.ok THEN vt
                ELSE IF vt.p >= lim THEN Malformed("unexpected end")
                ELSE IF by[vt.p] \notin {0, 1} THEN Malformed("malformed mutability")
                ELSE LET ce == ConstExprAt(by, vt.p + 1, lim)
                     IN  IF ce.ok THEN BOk([t |-> vt.v, mut |-> by[vt.p] = 1, init |-> ce.v], ce.p) ELSE ce
      [] kind = "export" ->
            LET nm == NameAt(by, pos, lim)
            IN  IF ~nm.ok THEN nm
                ELSE IF nm.p >= lim THEN Malformed("unexpected end")
                ELSE LET k == by[nm.p]
                         ix == U32At(by, nm.p + 1, lim)
                     IN  IF k > 3 THEN (IF k = 4 THEN Unsupp("tag export") ELSE Malformed("malformed export kind"))
                         ELSE IF ~ix.ok THEN ix
                         ELSE BOk([name |-> nm.v, kind |-> <<"func", "table", "memory", "global">>[k + 1], idx |-> ix.v], ix.p)
      [] kind = "elem" ->
            LET fl == U32At(by, pos, lim)
            IN  IF ~fl.ok THEN fl
                ELSE IF fl.v # 0 THEN (IF fl.v < 8 THEN Unsupp("element segment kind") ELSE Malformed("malformed elements segment kind"))
                ELSE LET ce == ConstExprAt(by, fl.p, lim)
                     IN  IF ~ce.ok THEN ce
                         ELSE LET fs == U32VecAt(by, ce.p, lim)
                              IN  IF fs.ok THEN BOk([offset |-> ce.v, funcs |-> fs.v], fs.p) ELSE fs
      [] kind = "data" ->
            LET fl == U32At(by, pos, lim)
            IN  IF ~fl.ok THEN fl
                ELSE IF fl.v > 2 THEN Malformed("malformed data segment kind")
                ELSE IF fl.v = 1
                     THEN LET n == U32At(by, fl.p, lim)
                          IN  IF ~n.ok THEN n
                              ELSE LET bs == BytesAt(by, n.p, lim, n.v)
                                   IN  IF bs.ok THEN BOk([mode |-> "passive", offset |-> <<"i32.const", <<0, 0, 0, 0>>>>, bytes |-> bs.v], bs.p) ELSE bs
                     ELSE LET mi == IF fl.v = 2 THEN U32At(by, fl.p, lim) ELSE BOk(0, fl.p)
                          IN  IF ~mi.ok THEN mi
                              ELSE IF mi.v # 0 THEN Unsupp("memory index")
                              ELSE LET ce == ConstExprAt(by, mi.p, lim)
                                   IN  IF ~ce.ok THEN ce
                                       ELSE LET n == U32At(by, ce.p, lim)
                                            IN  IF ~n.ok THEN n
                                                ELSE LET bs == BytesAt(by, n.p, lim, n.v)
                                                     IN  IF bs.ok THEN BOk([mode |-> "active", offset |-> ce.v, bytes |-> bs.v], bs.p) ELSE bs
      [] kind = "localgroup" ->
            LET n == U32At(by, pos, lim)
            IN  IF ~n.ok THEN n
                ELSE LET vt == ValTypeAt(by, n.p, lim) IN IF vt.ok THEN BOk(<<vt.v, n.v>>, vt.p) ELSE vt

RECURSIVE VecR(_, _, _, _, _, _)
VecR(kind, by, pos, lim, n, acc) ==
    IF n = 0 THEN BOk(acc, pos)
    ELSE LET x == Elem(kind, by, pos, lim)
         IN  IF ~x.ok THEN x ELSE VecR(kind, by, x.p, lim, n - 1, Append(acc, x.v))
VecAt(kind, by, pos, lim) ==
    LET n == U32At(by, pos, lim)
    IN  IF ~n.ok THEN n
        ELSE IF n.v > lim - n.p THEN Malformed("unexpected end")
        ELSE VecR(kind, by, n.p, lim, n.v, <<>>)

FuncTypeAt(by, pos, lim) ==
    IF pos >= lim THEN Malformed("unexpected end")
    ELSE IF by[pos] # 96 THEN (IF by[pos] \in {94, 95, 78, 79, 80} THEN Unsupp("type form") ELSE Malformed("malformed type form"))
    ELSE LET ps == VecAt("valtype", by, pos + 1, lim)
         IN  IF ~ps.ok THEN ps
             ELSE LET rs == VecAt("valtype", by, ps.p, lim)
                  IN  IF ~rs.ok THEN rs
                      ELSE IF Len(rs.v) > 1 THEN Unsupp("multi-value")
                      ELSE BOk([p |-> ps.v, r |-> rs.v], rs.p)
RECURSIVE TypesR(_, _, _, _, _)
TypesR(by, pos, lim, n, acc) ==
    IF n = 0 THEN BOk(acc, pos)
    ELSE LET x == FuncTypeAt(by, pos, lim) IN IF ~x.ok THEN x ELSE TypesR(by, x.p, lim, n - 1, Append(acc, x.v))
TypeSecAt(by, pos, lim) ==
    LET n == U32At(by, pos, lim)
    IN  IF ~n.ok THEN n ELSE IF n.v > lim - n.p THEN Malformed("unexpected end") ELSE TypesR(by, n.p, lim, n.v, <<>>)

RECURSIVE NormLocals(_, _, _)
NormLocals(groups, k, acc) ==
    IF k > Len(groups) THEN acc ELSE NormLocals(groups, k + 1, AddLocals(acc, groups[k][1], groups[k][2]))
RECURSIVE SumLocals(_, _)
SumLocals(groups, k) == IF k > Len(groups) THEN 0
                        ELSE LET rest == SumLocals(groups, k + 1)
                             IN  IF groups[k][2] >= BIG - rest THEN BIG ELSE groups[k][2] + rest

\* one entry of the code section: size, locals, expression that ends exactly where the size says
CodeAt(by, pos, lim) ==
    LET sz == U32At(by, pos, lim)
    IN  IF ~sz.ok THEN sz
        ELSE IF sz.v >= BIG \/ sz.p + sz.v > lim THEN Malformed("unexpected end")
        ELSE LET fin == sz.p + sz.v
                 ls == VecAt("localgroup", by, sz.p, fin)
             IN  IF ~ls.ok THEN ls
                 ELSE IF SumLocals(ls.v, 1) >= BIG THEN Unsupp("more than 2^31 locals")
                 ELSE LET ex == ExprAt(by, ls.p, fin)
                      IN  IF ~ex.ok THEN ex
                          ELSE IF ex.p # fin THEN Malformed("section size mismatch")
                          ELSE BOk([locals |-> NormLocals(ls.v, 1, <<>>), body |-> ex.v.body, usesData |-> ex.v.usesData], fin)
RECURSIVE CodesR(_, _, _, _, _)
CodesR(by, pos, lim, n, acc) ==
    IF n = 0 THEN BOk(acc, pos)
    ELSE LET x == CodeAt(by, pos, lim) IN IF ~x.ok THEN x ELSE CodesR(by, x.p, lim, n - 1, Append(acc, x.v))
CodeSecAt(by, pos, lim) ==
    LET n == U32At(by, pos, lim)
    IN  IF ~n.ok THEN n ELSE IF n.v > lim - n.p THEN Malformed("unexpected end") ELSE CodesR(by, n.p, lim, n.v, <<>>)

----------------------------------------------------------------------------
(* the module: one action per section kind *)

Items == ndJsonDeserialize(IOEnv.INFILE)

VARIABLES bi,       \* current item
          bp,       \* next byte of the current item
          bst,      \* "start", "sections", or a verdict: "ok", "malformed", "invalid", "unsupported"
          bwhy,     \* the reason of a verdict other than "ok"
          bm,       \* the module read so far
          blast,    \* rank of the last non-custom section
          bft,      \* function section: type indices
          bcode,    \* code section entries
          bdc       \* data count section: -1 absent
bvars == <<bi, bp, bst, bwhy, bm, blast, bft, bcode, bdc>>

By == Items[bi].bytes
End == Len(By) + 1

NoLimits == [present |-> FALSE, min |-> 0, max |-> 0, hasmax |-> FALSE, shared |-> FALSE]
EmptyModule == [types |-> <<>>, imports |-> <<>>, funcs |-> <<>>, table |-> NoLimits, memory |-> NoLimits, globals |-> <<>>,
                exports |-> <<>>, start |-> -1, elems |-> <<>>, data |-> <<>>, customs |-> <<>>]

\* order of the non-custom sections: the data count section (12) sits between element and code
Rank(id) == CASE id = 12 -> 10 [] id = 10 -> 11 [] id = 11 -> 12 [] OTHER -> id

BInit == /\ bi = 1 /\ bp = 1 /\ bst = "start" /\ bwhy = "" /\ bm = EmptyModule /\ blast = 0 /\ bft = <<>> /\ bcode = <<>> /\ bdc = -1
         /\ TLCSet(1, <<>>)

Header ==
    /\ bi <= Len(Items) /\ bst = "start"
    /\ LET nomagic == Len(By) < 4 \/ SubSeq(By, 1, 4) # <<0, 97, 115, 109>>
           noversion == Len(By) < 8 \/ SubSeq(By, 5, 8) # <<1, 0, 0, 0>>
       IN  /\ bst' = IF nomagic \/ noversion THEN "malformed" ELSE "sections"
           /\ bwhy' = IF nomagic THEN "magic header not detected" ELSE IF noversion THEN "unknown binary version" ELSE ""
    /\ bp' = IF Len(By) < 8 THEN bp ELSE 9
    /\ UNCHANGED <<bi, bm, blast, bft, bcode, bdc>>

\* the frame of a section: id, size, contents inside the file
SecHead == LET sz == U32At(By, bp + 1, End)
           IN  IF ~sz.ok THEN sz
               ELSE IF sz.v >= BIG \/ sz.p + sz.v > End THEN Malformed("unexpected end")
               ELSE BOk([from |-> sz.p, to |-> sz.p + sz.v], sz.p + sz.v)

Stop(knd, reason) == bst' = knd /\ bwhy' = reason /\ UNCHANGED <<bp, bm, blast, bft, bcode, bdc>>

\* a section with identifier id whose contents decode with Dec(from, to) and update the state by Upd
Section(id, Dec(_, _), Upd(_)) ==
    /\ bi <= Len(Items) /\ bst = "sections" /\ bp < End /\ By[bp] = id
    /\ UNCHANGED bi
    /\ LET h == SecHead
       IN  IF ~h.ok THEN Stop(h.kind, h.why)
           ELSE IF id # 0 /\ Rank(id) <= blast
                THEN Stop("malformed", "unexpected content")
           ELSE LET d == Dec(h.v.from, h.v.to)
                IN  IF ~d.ok THEN Stop(d.kind, d.why)
                    ELSE IF d.p # h.v.to THEN Stop("malformed", "section size mismatch")
                    ELSE /\ bp' = h.p /\ bst' = bst /\ bwhy' = bwhy
                         /\ blast' = IF id = 0 THEN blast ELSE Rank(id)
                         /\ Upd(d.v)

CustomSec == Section(0, LAMBDA a, b : LET nm == NameAt(By, a, b) IN IF nm.ok THEN BOk([name |-> nm.v, payload |-> SubSeq(By, nm.p, b - 1)], b) ELSE nm,
                     LAMBDA val : bm' = [bm EXCEPT !.customs = Append(@, val)] /\ UNCHANGED <<bft, bcode, bdc>>)
TypeSec   == Section(1, LAMBDA a, b : TypeSecAt(By, a, b),
                     LAMBDA val : bm' = [bm EXCEPT !.types = val] /\ UNCHANGED <<bft, bcode, bdc>>)
ImportSec == Section(2, LAMBDA a, b : VecAt("import", By, a, b),
                     LAMBDA val : bm' = [bm EXCEPT !.imports = val] /\ UNCHANGED <<bft, bcode, bdc>>)
FuncSec   == Section(3, LAMBDA a, b : VecAt("u32", By, a, b),
                     LAMBDA val : bft' = val /\ UNCHANGED <<bm, bcode, bdc>>)
TableSec  == Section(4, LAMBDA a, b : LET ts == VecAt("table", By, a, b)
                                      IN  IF ts.ok /\ Len(ts.v) > 1 THEN Unsupp("multiple tables") ELSE ts,
                     LAMBDA val : bm' = [bm EXCEPT !.table = IF val = <<>> THEN NoLimits ELSE val[1]] /\ UNCHANGED <<bft, bcode, bdc>>)
MemorySec == Section(5, LAMBDA a, b : LET ms == VecAt("memory", By, a, b)
                                      IN  IF ms.ok /\ Len(ms.v) > 1 THEN Unsupp("multiple memories") ELSE ms,
                     LAMBDA val : bm' = [bm EXCEPT !.memory = IF val = <<>> THEN NoLimits ELSE val[1]] /\ UNCHANGED <<bft, bcode, bdc>>)
GlobalSec == Section(6, LAMBDA a, b : VecAt("global", By, a, b),
                     LAMBDA val : bm' = [bm EXCEPT !.globals = val] /\ UNCHANGED <<bft, bcode, bdc>>)
ExportSec == Section(7, LAMBDA a, b : VecAt("export", By, a, b),
                     LAMBDA val : bm' = [bm EXCEPT !.exports = val] /\ UNCHANGED <<bft, bcode, bdc>>)
StartSec  == Section(8, LAMBDA a, b : U32At(By, a, b),
                     LAMBDA val : bm' = [bm EXCEPT !.start = val] /\ UNCHANGED <<bft, bcode, bdc>>)
ElemSec   == Section(9, LAMBDA a, b : VecAt("elem", By, a, b),
                     LAMBDA val : bm' = [bm EXCEPT !.elems = val] /\ UNCHANGED <<bft, bcode, bdc>>)
DataCountSec == Section(12, LAMBDA a, b : U32At(By, a, b),
                     LAMBDA val : bdc' = val /\ UNCHANGED <<bm, bft, bcode>>)
CodeSec   == Section(10, LAMBDA a, b : CodeSecAt(By, a, b),
                     LAMBDA val : bcode' = val /\ UNCHANGED <<bm, bft, bdc>>)
DataSec   == Section(11, LAMBDA a, b : VecAt("data", By, a, b),
                     LAMBDA val : bm' = [bm EXCEPT !.data = val] /\ UNCHANGED <<bft, bcode, bdc>>)
OtherSec ==
    /\ bi <= Len(Items) /\ bst = "sections" /\ bp < End /\ By[bp] > 12
    /\ IF By[bp] = 13 THEN Stop("unsupported", "tag section") ELSE Stop("malformed", "malformed section id")
    /\ UNCHANGED bi

\* end of the bytes: the conditions that relate sections to each other
Finish ==
    /\ bi <= Len(Items) /\ bst = "sections" /\ bp = End
    /\ LET uses == \E j \in 1..Len(bcode) : bcode[j].usesData
           bad(reason) == bst' = "malformed" /\ bwhy' = reason /\ bm' = bm
       IN  IF Len(bft) # Len(bcode) THEN bad("function and code section have inconsistent lengths")
           ELSE IF bdc # -1 /\ bdc # Len(bm.data) THEN bad("data count and data section have inconsistent lengths")
           ELSE IF uses /\ bdc = -1 THEN bad("data count section required")
           ELSE /\ bst' = "ok" /\ bwhy' = ""
                /\ bm' = [bm EXCEPT !.funcs = [j \in 1..Len(bft) |-> [type |-> bft[j], locals |-> bcode[j].locals, body |-> bcode[j].body]]]
    /\ UNCHANGED <<bi, bp, blast, bft, bcode, bdc>>

\* names in the abstract module are byte strings; WasmValid compares export names for equality only
Verdict == [id |-> Items[bi].id, status |-> bst, why |-> bwhy, datacount |-> bdc # -1,
            module |-> IF bst = "ok" THEN bm ELSE EmptyModule,
            valid |-> IF bst = "ok" THEN ModuleErr(bm) ELSE "-",
            consumed |-> bp - 1]
NextItem ==
    /\ bi <= Len(Items) /\ bst \notin {"start", "sections"}
    /\ TLCSet(1, Append(TLCGet(1), Verdict))
    /\ bi' = bi + 1 /\ bp' = 1 /\ bst' = "start" /\ bwhy' = "" /\ bm' = EmptyModule /\ blast' = 0 /\ bft' = <<>> /\ bcode' = <<>> /\ bdc' = -1

BNext == \/ Header \/ CustomSec \/ TypeSec \/ ImportSec \/ FuncSec \/ TableSec \/ MemorySec \/ GlobalSec \/ ExportSec
         \/ StartSec \/ ElemSec \/ DataCountSec \/ CodeSec \/ DataSec \/ OtherSec \/ Finish \/ NextItem
         \/ (bi > Len(Items) /\ UNCHANGED bvars)
BSpec == BInit /\ [][BNext]_bvars

\* the decoder never looks beyond the bytes it was given, and a verdict is one of the four kinds
InBounds == bi <= Len(Items) => bp <= End
VerdictKind == bst \in {"start", "sections", "ok", "malformed", "invalid", "unsupported"} /\ (bst = "ok" => bwhy = "")
BFinished == bi > Len(Items)
BDone == TLCGet("level") >= 0 /\ ndJsonSerialize(IOEnv.OUTFILE, TLCGet(1))
=============================================================================
