---------------------------- MODULE MemGrowData ----------------------------
(***************************************************************************)
(* MemGrowAbs plus the contents of the memory, one word per page (C18:     *)
(* "growth is linearizable" includes what other threads' loads and stores  *)
(* see: new pages are zero from the moment the new size is visible,        *)
(* existing contents are kept).  A store or load addresses a page that is  *)
(* inside the memory when it is issued (sizes only grow), is one atomic    *)
(* step, and a load returns the value of the latest store to that page, or *)
(* zero.                                                                   *)
(***************************************************************************)
EXTENDS MemGrowAbs
VARIABLE cells
dvars == <<pages, gs, cells>>
DInit == GInit /\ cells = [p \in 0..(MaxPages - 1) |-> 0]
\* a store carries its value in the res field until it takes effect
DCall(t, op, d, val) == /\ gs[t].st = "idle"
                        /\ gs' = [gs EXCEPT ![t] = [st |-> "called", op |-> op, d |-> d, res |-> val]]
                        /\ UNCHANGED <<pages, cells>>
StoreDo(t) == /\ gs[t].st = "called" /\ gs[t].op = "store" /\ gs[t].d < pages
              /\ cells' = [cells EXCEPT ![gs[t].d] = gs[t].res]
              /\ gs' = [gs EXCEPT ![t].st = "ready", ![t].res = 0] /\ UNCHANGED pages
LoadDo(t) == /\ gs[t].st = "called" /\ gs[t].op = "load" /\ gs[t].d < pages
             /\ gs' = [gs EXCEPT ![t].st = "ready", ![t].res = cells[gs[t].d]] /\ UNCHANGED <<pages, cells>>
DRet(t, r) == GRet(t, r) /\ UNCHANGED cells
DInternal == \/ GInternal /\ UNCHANGED cells
             \/ \E t \in Threads : StoreDo(t) \/ LoadDo(t)
\* pages beyond the current size have never been written
FreshZero == \A p \in 0..(MaxPages - 1) : p >= pages => cells[p] = 0
=============================================================================
