CONSTANTS LB = 8
 N = 32
 Alphabet = {0}
INIT FInit
NEXT FNext
INVARIANT FieldOK
CHECK_DEADLOCK FALSE
