------------------------------- MODULE MCFutex -------------------------------
(* model instances for FutexImpl (function-valued constants cannot be written in a cfg) *)
EXTENDS FutexImpl
W(a, timed) == [op |-> "wait32", a |-> a, x |-> 0, timed |-> timed, fail |-> FALSE]
WF(a, timed) == [op |-> "wait32", a |-> a, x |-> 0, timed |-> timed, fail |-> TRUE]
N(a, n) == [op |-> "notify", a |-> a, x |-> n, timed |-> FALSE, fail |-> FALSE]
S(a, v) == [op |-> "store", a |-> a, x |-> v, timed |-> FALSE, fail |-> FALSE]
\* 3 waiters (one timed; address 3 collides with 1 in a 2-bucket map), 2 notifiers
ThreadsA == 1..5
ProgA == <<W(1, FALSE), W(1, TRUE), W(3, TRUE), N(1, 1), N(3, 2)>>
\* 3 waiters on one address + notifier with count 2 + store that makes a late waiter see "not-equal"
ThreadsB == 1..5
ProgB == <<W(1, TRUE), W(1, FALSE), W(1, TRUE), N(1, 2), S(1, 7)>>
\* 4 waiters, 2 notifiers, 3 addresses
ThreadsC == 1..6
ProgC == <<W(1, TRUE), W(1, TRUE), W(3, FALSE), W(2, TRUE), N(1, 2), N(3, 1)>>
\* allocation failures in waits next to blocked waiters of the same and of a colliding address
ThreadsF == 1..6
ProgF == <<W(1, FALSE), WF(1, FALSE), W(3, TRUE), WF(3, TRUE), N(1, 2), S(3, 7)>>
\* all waiters timed: must terminate under fairness
ThreadsL == 1..5
ProgL == <<W(1, TRUE), W(1, TRUE), W(3, TRUE), N(1, 1), S(1, 7)>>
TerminationL == <>(\A t \in ThreadsL : pc[t] = "done")
=============================================================================
