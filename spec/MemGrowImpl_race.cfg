CONSTANTS Threads <- Threads3
 Prog <- Prog3
 MaxPages = 4
 InitPages = 1
 ReadUnderLock = TRUE
 SizeLocked = FALSE
SPECIFICATION Spec
INVARIANTS NeverAboveMax DistinctOldSizes FinalSize RaceFree
PROPERTY Refines
CHECK_DEADLOCK FALSE
