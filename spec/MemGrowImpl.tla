----------------------------- MODULE MemGrowImpl -----------------------------
(***************************************************************************)
(* wasmMemoryGrow on a shared memory as written (C18), one action per      *)
(* shared access or lock operation:                                        *)
(*   G_Read    oldPages = memory->pages; newPages = oldPages + delta       *)
(*   G_Check   limit tests (fail -> return -1)                             *)
(*   G_Lock / G_Write (pages = newPages) / G_Unlock / return oldPages      *)
(* ReadUnderLock = FALSE is the order in the code before the repair (read  *)
(* and check BEFORE taking the mutex); TRUE takes the mutex first.         *)
(* memory.size is a plain read of the page count (SizeLocked = FALSE) or a *)
(* read under the mutex.                                                   *)
(*                                                                         *)
(* Every shared access is recorded with the set of locks held, so that     *)
(* RaceFree can be stated: no two accesses of the same field by different  *)
(* threads, at least one a write, with disjoint locksets, are both enabled.*)
(***************************************************************************)
EXTENDS Naturals, Integers, FiniteSets, Sequences, TLC
CONSTANTS Threads, Prog, MaxPages, InitPages, ReadUnderLock, SizeLocked
\* Prog[t] = [op |-> "grow"|"size", d |-> delta]
VARIABLES mpages, mutex, pc, oldp, newp, ret
vars == <<mpages, mutex, pc, oldp, newp, ret>>
Fail == 0 - 1
Init == /\ mpages = InitPages /\ mutex = 0 /\ pc = [t \in Threads |-> "start"]
        /\ oldp = [t \in Threads |-> 0] /\ newp = [t \in Threads |-> 0] /\ ret = [t \in Threads |-> 0]
Goto(t, p) == pc' = [pc EXCEPT ![t] = p]

Begin(t) == pc[t] = "start" /\ Goto(t, IF Prog[t].op = "size" THEN (IF SizeLocked THEN "s_lock" ELSE "s_read")
                                        ELSE IF ReadUnderLock THEN "g_lock" ELSE "g_read")
            /\ UNCHANGED <<mpages, mutex, oldp, newp, ret>>
G_Read(t) == /\ pc[t] = "g_read"
             /\ oldp' = [oldp EXCEPT ![t] = mpages] /\ newp' = [newp EXCEPT ![t] = mpages + Prog[t].d]
             /\ Goto(t, "g_check") /\ UNCHANGED <<mpages, mutex, ret>>
G_Check(t) == /\ pc[t] = "g_check"
              /\ IF newp[t] > MaxPages
                 THEN /\ ret' = [ret EXCEPT ![t] = Fail]
                      /\ IF ReadUnderLock THEN mutex' = 0 ELSE UNCHANGED mutex
                      /\ Goto(t, "ret")
                 ELSE /\ Goto(t, IF ReadUnderLock THEN "g_write" ELSE "g_lock") /\ UNCHANGED <<ret, mutex>>
              /\ UNCHANGED <<mpages, oldp, newp>>
G_Lock(t) == /\ pc[t] = "g_lock" /\ mutex = 0 /\ mutex' = t
             /\ Goto(t, IF ReadUnderLock THEN "g_read" ELSE "g_write") /\ UNCHANGED <<mpages, oldp, newp, ret>>
G_Write(t) == /\ pc[t] = "g_write" /\ mpages' = newp[t] /\ Goto(t, "g_unlock") /\ UNCHANGED <<mutex, oldp, newp, ret>>
G_Unlock(t) == /\ pc[t] = "g_unlock" /\ mutex' = 0 /\ ret' = [ret EXCEPT ![t] = oldp[t]]
               /\ Goto(t, "ret") /\ UNCHANGED <<mpages, oldp, newp>>
S_Lock(t) == /\ pc[t] = "s_lock" /\ mutex = 0 /\ mutex' = t /\ Goto(t, "s_read") /\ UNCHANGED <<mpages, oldp, newp, ret>>
S_Read(t) == /\ pc[t] = "s_read" /\ ret' = [ret EXCEPT ![t] = mpages]
             /\ (IF SizeLocked THEN mutex' = 0 ELSE UNCHANGED mutex)
             /\ Goto(t, "ret") /\ UNCHANGED <<mpages, oldp, newp>>
Return(t) == pc[t] = "ret" /\ Goto(t, "done") /\ UNCHANGED <<mpages, mutex, oldp, newp, ret>>
Next == \E t \in Threads : Begin(t) \/ G_Read(t) \/ G_Check(t) \/ G_Lock(t) \/ G_Write(t) \/ G_Unlock(t)
                            \/ S_Lock(t) \/ S_Read(t) \/ Return(t)
Spec == Init /\ [][Next]_vars

\* pending accesses to the field `pages`: [thread, write?, lockset]
Holds(t) == IF mutex = t THEN {"mutex"} ELSE {}
Access(t) == IF pc[t] \in {"g_read", "s_read"} THEN {[t |-> t, w |-> FALSE, locks |-> Holds(t)]}
             ELSE IF pc[t] = "g_write" THEN {[t |-> t, w |-> TRUE, locks |-> Holds(t)]} ELSE {}
RaceFree == \A t, u \in Threads : t # u =>
              \A x \in Access(t), y \in Access(u) : (x.w \/ y.w) => x.locks \cap y.locks # {}

\* consequences of linearizability that do not need the mapping
Successful == {t \in Threads : Prog[t].op = "grow" /\ pc[t] = "done" /\ ret[t] # Fail}
DistinctOldSizes == \A t, u \in Successful : (t # u /\ Prog[t].d > 0 /\ Prog[u].d > 0) => ret[t] # ret[u]
RECURSIVE SumD(_)
SumD(S) == IF S = {} THEN 0 ELSE LET t == CHOOSE t \in S : TRUE IN Prog[t].d + SumD(S \ {t})
FinalSize == (\A t \in Threads : pc[t] = "done") => (mpages = InitPages + SumD(Successful) /\ mpages <= MaxPages)
NeverAboveMax == mpages <= MaxPages

\* refinement to MemGrowAbs: the grow takes effect at G_Write (or at the failing check), size at S_Read
absGs == [t \in Threads |->
    LET called == [st |-> "called", op |-> Prog[t].op, d |-> Prog[t].d, res |-> 0]
    IN  CASE pc[t] \in {"start", "done"} -> [st |-> "idle", op |-> "", d |-> 0, res |-> 0]
          [] pc[t] \in {"g_read", "g_check", "g_lock", "g_write", "s_lock", "s_read"} -> called
          [] pc[t] = "g_unlock" -> [called EXCEPT !.st = "ready", !.res = oldp[t]]
          [] pc[t] = "ret" -> [called EXCEPT !.st = "ready", !.res = ret[t]]]
Abs == INSTANCE MemGrowAbs WITH pages <- mpages, gs <- absGs
AbsStep == \/ UNCHANGED <<mpages, absGs>>
           \/ \E t \in Threads : \/ Abs!GCall(t, Prog[t].op, Prog[t].d) \/ Abs!GrowDo(t) \/ Abs!SizeDo(t)
                                 \/ \E r \in (0..MaxPages) \cup {Fail} : Abs!GRet(t, r)
Refines == [][AbsStep]_vars
=============================================================================
