CONSTANTS Variant = "Intended"
 MaxOpens = 3
 MaxCloses = 3
 MaxUses = 2
 Numbers = {0, 3, 4, 5, 6, 7}
SPECIFICATION Spec
INVARIANTS NoUseAfterFree NoDoubleFree ClosedGivesEBADF LiveDistinct StdStreams
CHECK_DEADLOCK FALSE
