------------------------------ MODULE WasmExec ------------------------------
(***************************************************************************)
(* The WebAssembly abstract machine as far as w2c2 claims to support it:   *)
(* MVP, sign extension, saturating truncation, bulk memory (copy / fill /  *)
(* init), threads (atomic accesses in their sequential meaning, wait and   *)
(* notify in their non-blocking outcomes).                                 *)
(*                                                                         *)
(* Everything here is a pure operator on a configuration record; Replay    *)
(* (code <- spec) and the trace specs (code -> spec) wrap Step into        *)
(* actions.  One Step = one instruction, so invariants are evaluated per   *)
(* instruction.                                                            *)
(*                                                                         *)
(* Store: mems, tables, globals are sequences indexed by store address;    *)
(* an instance maps its index spaces to addresses, so "two instances share *)
(* no defined state" and "an imported memory is the embedder's object" are *)
(* statements about this record, not conventions.                          *)
(*                                                                         *)
(* Out-of-bounds accesses and ill-typed / null indirect calls have no      *)
(* defined successor here (status "undefined"): w2c2 emits no bounds       *)
(* checks and the properties quantify over in-bounds behaviours only.      *)
(***************************************************************************)
EXTENDS WasmNumeric, WasmOps, FiniteSets, SequencesExt, TLC

PageSize == 65536
MaxPages == 65536

----------------------------------------------------------------------------
(* module structure helpers; M is the module AST (appendix A.1 of DESIGN.md) *)

FuncImports(M)   == SelectSeq(M.imports, LAMBDA i : i.kind = "func")
GlobalImports(M) == SelectSeq(M.imports, LAMBDA i : i.kind = "global")
HasMemImport(M)   == \E k \in 1..Len(M.imports) : M.imports[k].kind = "memory"
HasTableImport(M) == \E k \in 1..Len(M.imports) : M.imports[k].kind = "table"
NFI(M) == Len(FuncImports(M))
NGI(M) == Len(GlobalImports(M))
\* type of function index f (0-based, imports first)
FuncType(M, f) ==
    IF f < NFI(M) THEN M.types[FuncImports(M)[f + 1].type + 1]
    ELSE M.types[M.funcs[f - NFI(M) + 1].type + 1]
RECURSIVE ExpandLocals(_)
ExpandLocals(ls) ==
    IF ls = <<>> THEN <<>>
    ELSE T([i \in 1..Head(ls)[2] |-> ZeroOf(Head(ls)[1])]) \o ExpandLocals(Tail(ls))
GlobalType(M, g) ==
    IF g < NGI(M) THEN GlobalImports(M)[g + 1].t ELSE M.globals[g - NGI(M) + 1].t
BlockArity(bt) == IF bt = "" THEN 0 ELSE 1

\* positions of the matching else / end of the block whose opening instruction is at pc
RECURSIVE Scan(_, _, _, _)
Scan(code, pc, depth, els) ==
    LET op == code[pc][1]
    IN  IF op \in {"block", "loop", "if"} THEN Scan(code, pc + 1, depth + 1, els)
        ELSE IF op = "end" THEN
            (IF depth = 0 THEN [els |-> els, end |-> pc] ELSE Scan(code, pc + 1, depth - 1, els))
        ELSE IF op = "else" /\ depth = 0 THEN Scan(code, pc + 1, depth, pc)
        ELSE Scan(code, pc + 1, depth, els)
Match(code, pc) == Scan(code, pc + 1, 0, 0)

----------------------------------------------------------------------------
(* memory *)

NewMem(pages, max, shared) == [pages |-> pages, max |-> max, shared |-> shared, bytes |-> <<>>]
RdByte(mem, a) == IF a \in DOMAIN mem.bytes THEN mem.bytes[a] ELSE 0
RdBytes(mem, a, n) == T([i \in 1..n |-> RdByte(mem, a + i - 1)])
WrBytes(mem, a, data) ==
    IF Len(data) = 0 THEN mem
    ELSE [mem EXCEPT !.bytes = [x \in a..(a + Len(data) - 1) |-> data[x - a + 1]] @@ mem.bytes]
InBounds(mem, a, n) == a >= 0 /\ n >= 0 /\ (a + n) <= mem.pages * PageSize
\* i32 operand as an address: only values below 2^24 can be in bounds of the memories we build
AddrOf(w) == IF FitsBits(w, 24) THEN ToNat(w) ELSE 0 - 1
EffAddr(base, off) == IF AddrOf(base) < 0 THEN 0 - 1 ELSE AddrOf(base) + off

\* memory.grow: returns [mem, r] with r the i32 result word
Grow(mem, delta) ==
    LET fail == [mem |-> mem, r |-> Ones(KOf("i32"))]
    IN  IF ~FitsBits(delta, 24) THEN fail                \* pages + delta > 2^16 for sure
        ELSE LET d == ToNat(delta)  np == mem.pages + d
             IN  IF np > mem.max \/ np > MaxPages THEN fail
                 ELSE [mem |-> [mem EXCEPT !.pages = np], r |-> OfNat(mem.pages, KOf("i32"))]

----------------------------------------------------------------------------
(* configurations *)

\* frame: fn = function index, inst = instance number, code, pc, locals, stack (top = last),
\*        labels (innermost = last): [arity, height, cont, loop]
NewFrame(M, inst, f, args) ==
    LET fd == M.funcs[f - NFI(M) + 1]
    IN  [fn |-> f, inst |-> inst, code |-> fd.body, pc |-> 1,
         locals |-> args \o ExpandLocals(fd.locals), stack |-> <<>>, labels |-> <<>>,
         arity |-> Len(FuncType(M, f).r)]

Top(c) == c.frames[Len(c.frames)]
SetTop(c, f) == [c EXCEPT !.frames[Len(c.frames)] = f]
Stop(c, status) == [c EXCEPT !.status = status, !.frames = <<>>]
TrapC(c, code) == [c EXCEPT !.status = "trapped", !.trap = code, !.frames = <<>>]

TakeLast(s, n) == SubSeq(s, Len(s) - n + 1, Len(s))
DropLast(s, n) == SubSeq(s, 1, Len(s) - n)
Peek(f, k) == f.stack[Len(f.stack) - k]                   \* k = 0 is the top of the stack

\* return from the top frame with its result values
DoReturn(c) ==
    LET f == Top(c)
        vals == TakeLast(f.stack, f.arity)
        rest == DropLast(c.frames, 1)
    IN  IF rest = <<>> THEN [c EXCEPT !.frames = <<>>, !.status = "returned", !.res = vals]
        ELSE LET g == rest[Len(rest)]
             IN  [c EXCEPT !.frames = DropLast(rest, 1) \o <<[g EXCEPT !.stack = g.stack \o vals]>>]

\* branch to label l (0 = innermost) from the top frame
DoBr(c, l) ==
    LET f == Top(c)
    IN  IF l >= Len(f.labels) THEN DoReturn(c)
        ELSE LET lab  == f.labels[Len(f.labels) - l]
                 vals == TakeLast(f.stack, lab.arity)
             IN  SetTop(c, [f EXCEPT !.stack = SubSeq(f.stack, 1, lab.height) \o vals,
                                     !.labels = SubSeq(f.labels, 1, Len(f.labels) - l - 1),
                                     !.pc = lab.cont])

\* call function index fi of instance inst with the arguments on top of frame f's stack
DoCall(M, c, inst, fi) ==
    LET f  == Top(c)
        ft == FuncType(M, fi)
        n  == Len(ft.p)
        args == TakeLast(f.stack, n)
        f2 == [f EXCEPT !.stack = DropLast(f.stack, n), !.pc = f.pc + 1]
    IN  IF fi < NFI(M) THEN
            \* host function: the embedder logs the call and returns the constant the scenario fixed
            LET imp == FuncImports(M)[fi + 1]
                ev  == [callee |-> imp.name, args |-> args, inst |-> inst]
                ret == IF Len(ft.r) = 0 THEN <<>> ELSE <<V(ft.r[1], imp.ret)>>
            IN  [SetTop(c, [f2 EXCEPT !.stack = f2.stack \o ret]) EXCEPT !.host = c.host \o <<ev>>]
        ELSE IF Len(c.frames) >= c.maxdepth THEN Stop(c, "fuel")
        ELSE [SetTop(c, f2) EXCEPT !.frames = @ \o <<NewFrame(M, inst, fi, args)>>]

----------------------------------------------------------------------------
(* one instruction *)

MemOf(c, inst) == c.store.mems[c.store.insts[inst].mem]
SetMem(c, inst, m) == [c EXCEPT !.store.mems[c.store.insts[inst].mem] = m]

StepMem(M, c, f, ins, info) ==
    LET mem == MemOf(c, f.inst)
        off == ins[3]
    IN  CASE info.c \in {"load", "aload"} ->
              LET ea == EffAddr(Peek(f, 0).b, off)
                  raw == RdBytes(mem, ea, info.x)
                  val == IF info.c = "load" /\ info.o = "s" THEN ExtendS(raw, info.k) ELSE ExtendU(raw, info.k)
              IN  IF ~InBounds(mem, ea, info.x) THEN Stop(c, "undefined")
                  ELSE SetTop(c, [f EXCEPT !.stack = DropLast(f.stack, 1) \o <<V(info.t, val)>>, !.pc = f.pc + 1])
          [] info.c \in {"store", "astore"} ->
              LET ea == EffAddr(Peek(f, 1).b, off)
              IN  IF ~InBounds(mem, ea, info.x) THEN Stop(c, "undefined")
                  ELSE SetTop(SetMem(c, f.inst, WrBytes(mem, ea, Wrap(Peek(f, 0).b, info.x))),
                              [f EXCEPT !.stack = DropLast(f.stack, 2), !.pc = f.pc + 1])
          [] info.c = "armw" ->
              LET ea  == EffAddr(Peek(f, 1).b, off)
                  old == RdBytes(mem, ea, info.x)
                  arg == Wrap(Peek(f, 0).b, info.x)
                  new == CASE info.o = "add" -> Add(old, arg)
                           [] info.o = "sub" -> Sub(old, arg)
                           [] info.o = "and" -> WAnd(old, arg)
                           [] info.o = "or"  -> WOr(old, arg)
                           [] info.o = "xor" -> WXor(old, arg)
                           [] info.o = "xchg" -> arg
              IN  IF ~InBounds(mem, ea, info.x) THEN Stop(c, "undefined")
                  ELSE SetTop(SetMem(c, f.inst, WrBytes(mem, ea, new)),
                              [f EXCEPT !.stack = DropLast(f.stack, 2) \o <<V(info.t, ExtendU(old, info.k))>>,
                                        !.pc = f.pc + 1])
          [] info.c = "acmpxchg" ->
              LET ea  == EffAddr(Peek(f, 2).b, off)
                  old == RdBytes(mem, ea, info.x)
                  exp == Wrap(Peek(f, 1).b, info.x)
                  rep == Wrap(Peek(f, 0).b, info.x)
                  m2  == IF old = exp THEN WrBytes(mem, ea, rep) ELSE mem
              IN  IF ~InBounds(mem, ea, info.x) THEN Stop(c, "undefined")
                  ELSE SetTop(SetMem(c, f.inst, m2),
                              [f EXCEPT !.stack = DropLast(f.stack, 3) \o <<V(info.t, ExtendU(old, info.k))>>,
                                        !.pc = f.pc + 1])
          [] info.c = "futex" ->
              \* sequential outcomes only (one agent): notify with no waiter returns 0; wait with a
              \* different cell value returns 1 ("not-equal"); with an equal value it blocks, and since nobody
              \* can notify it returns 2 ("timed-out") when the timeout is finite (non-negative) and never otherwise.
              IF info.o = "notify" THEN
                  LET ea == EffAddr(Peek(f, 1).b, off)
                  IN  IF ~InBounds(mem, ea, 4) THEN Stop(c, "undefined")
                      ELSE SetTop(c, [f EXCEPT !.stack = DropLast(f.stack, 2) \o <<V("i32", Zero(KOf("i32")))>>,
                                               !.pc = f.pc + 1])
              ELSE
                  LET ea   == EffAddr(Peek(f, 2).b, off)
                      cell == RdBytes(mem, ea, info.k)
                  IN  IF ~InBounds(mem, ea, info.k) THEN Stop(c, "undefined")
                      ELSE IF cell = Peek(f, 1).b THEN
                          (IF SignBit(Peek(f, 0).b) = 1 THEN Stop(c, "wouldblock")
                           ELSE SetTop(c, [f EXCEPT !.stack = DropLast(f.stack, 3) \o <<V("i32", OfNat(2, KOf("i32")))>>,
                                                    !.pc = f.pc + 1]))
                      ELSE SetTop(c, [f EXCEPT !.stack = DropLast(f.stack, 3) \o <<V("i32", OfNat(1, KOf("i32")))>>,
                                               !.pc = f.pc + 1])

StepCtl(Mods, M, c, f, ins) ==
    LET op == ins[1]
        next == [f EXCEPT !.pc = f.pc + 1]
    IN  CASE op = "nop" -> SetTop(c, next)
          [] op = "unreachable" -> TrapC(c, "Unreachable")
          [] op = "block" ->
              LET mt == Match(f.code, f.pc)
              IN  SetTop(c, [next EXCEPT !.labels = f.labels \o
                     <<[arity |-> BlockArity(ins[2]), height |-> Len(f.stack), cont |-> mt.end + 1]>>])
          [] op = "loop" ->
              \* a branch to a loop label re-enters the loop instruction, which pushes the label again
              SetTop(c, [next EXCEPT !.labels = f.labels \o
                     <<[arity |-> 0, height |-> Len(f.stack), cont |-> f.pc]>>])
          [] op = "if" ->
              LET mt == Match(f.code, f.pc)
                  cond == ~IsZero(Peek(f, 0).b)
                  st  == DropLast(f.stack, 1)
                  lab == [arity |-> BlockArity(ins[2]), height |-> Len(st), cont |-> mt.end + 1]
              IN  IF cond THEN SetTop(c, [next EXCEPT !.stack = st, !.labels = f.labels \o <<lab>>])
                  ELSE IF mt.els # 0 THEN
                      SetTop(c, [f EXCEPT !.stack = st, !.labels = f.labels \o <<lab>>, !.pc = mt.els + 1])
                  ELSE SetTop(c, [f EXCEPT !.stack = st, !.pc = mt.end + 1])
          [] op = "else" ->
              \* reached by falling out of the then-branch: leave the block
              LET lab == f.labels[Len(f.labels)]
              IN  SetTop(c, [f EXCEPT !.labels = DropLast(f.labels, 1), !.pc = lab.cont])
          [] op = "end" ->
              IF f.labels = <<>> THEN DoReturn(c)
              ELSE SetTop(c, [next EXCEPT !.labels = DropLast(f.labels, 1)])
          [] op = "br" -> DoBr(c, ins[2])
          [] op = "br_if" ->
              LET cond == ~IsZero(Peek(f, 0).b)
                  c2 == SetTop(c, [f EXCEPT !.stack = DropLast(f.stack, 1)])
              IN  IF cond THEN DoBr(c2, ins[2]) ELSE SetTop(c, [next EXCEPT !.stack = DropLast(f.stack, 1)])
          [] op = "br_table" ->
              LET iw == Peek(f, 0).b
                  c2 == SetTop(c, [f EXCEPT !.stack = DropLast(f.stack, 1)])
                  n  == Len(ins[2])
                  i  == IF FitsBits(iw, 24) THEN ToNat(iw) ELSE n
              IN  DoBr(c2, IF i < n THEN ins[2][i + 1] ELSE ins[3])
          [] op = "return" -> DoReturn(c)
          [] op = "call" -> DoCall(M, c, f.inst, ins[2])
          [] op = "call_indirect" ->
              LET iw  == Peek(f, 0).b
                  tab == c.store.tables[c.store.insts[f.inst].table]
                  i   == IF FitsBits(iw, 24) THEN ToNat(iw) ELSE tab.size
                  c2  == SetTop(c, [f EXCEPT !.stack = DropLast(f.stack, 1)])
              IN  IF i >= tab.size THEN Stop(c, "undefined")
                  ELSE LET ref == tab.elems[i + 1]
                       IN  IF ref.inst = 0 THEN Stop(c, "undefined")
                           \* (the entry's function belongs to the module of the instance that put it there; its type is compared
                           \* structurally with the type the CALLER's module names)
                           ELSE LET MC == Mods[c.store.insts[ref.inst].mod] IN
                                IF FuncType(MC, ref.f) # M.types[ins[2] + 1] THEN Stop(c, "undefined")
                                ELSE DoCall(MC, c2, ref.inst, ref.f)
          [] op = "drop" -> SetTop(c, [next EXCEPT !.stack = DropLast(f.stack, 1)])
          [] op = "select" ->
              LET cond == ~IsZero(Peek(f, 0).b)
                  v == IF cond THEN Peek(f, 2) ELSE Peek(f, 1)
              IN  SetTop(c, [next EXCEPT !.stack = DropLast(f.stack, 3) \o <<v>>])
          [] op = "local.get" -> SetTop(c, [next EXCEPT !.stack = f.stack \o <<f.locals[ins[2] + 1]>>])
          [] op = "local.set" ->
              SetTop(c, [next EXCEPT !.stack = DropLast(f.stack, 1), !.locals[ins[2] + 1] = Peek(f, 0)])
          [] op = "local.tee" -> SetTop(c, [next EXCEPT !.locals[ins[2] + 1] = Peek(f, 0)])
          [] op = "global.get" ->
              LET a == c.store.insts[f.inst].globals[ins[2] + 1]
              IN  SetTop(c, [next EXCEPT !.stack = f.stack \o <<c.store.globals[a]>>])
          [] op = "global.set" ->
              LET a == c.store.insts[f.inst].globals[ins[2] + 1]
              IN  IF Peek(f, 0).nd THEN Stop(c, "ndnan")
                  ELSE [SetTop(c, [next EXCEPT !.stack = DropLast(f.stack, 1)])
                           EXCEPT !.store.globals[a] = Peek(f, 0)]
          [] op = "memory.size" ->
              SetTop(c, [next EXCEPT !.stack = f.stack \o <<V("i32", OfNat(MemOf(c, f.inst).pages, KOf("i32")))>>])
          [] op = "memory.grow" ->
              \* memory.grow may fail although the limits would allow it: the host has no memory to give.  A scenario says so with
              \* memory.hostfull (the binding then makes the host's allocator refuse every request): every grow returns -1 and leaves the
              \* memory - size and contents - as it is
              LET m0 == MemOf(c, f.inst)
                  hostfull == "hostfull" \in DOMAIN M.memory /\ M.memory.hostfull
                  g == IF hostfull THEN [mem |-> m0, r |-> Ones(KOf("i32"))] ELSE Grow(m0, Peek(f, 0).b)
              IN  SetTop(SetMem(c, f.inst, g.mem),
                         [next EXCEPT !.stack = DropLast(f.stack, 1) \o <<V("i32", g.r)>>])
          [] op = "memory.fill" ->
              LET mem == MemOf(c, f.inst)
                  d == AddrOf(Peek(f, 2).b)  n == AddrOf(Peek(f, 0).b)
                  byte == Wrap(Peek(f, 1).b, 8 \div LB)
              IN  IF d < 0 \/ n < 0 \/ ~InBounds(mem, d, n) THEN Stop(c, "undefined")
                  ELSE SetTop(SetMem(c, f.inst, WrBytes(mem, d, T([i \in 1..n |-> byte[1]]))),
                              [next EXCEPT !.stack = DropLast(f.stack, 3)])
          [] op = "memory.copy" ->
              LET mem == MemOf(c, f.inst)
                  d == AddrOf(Peek(f, 2).b)  s == AddrOf(Peek(f, 1).b)  n == AddrOf(Peek(f, 0).b)
              IN  IF d < 0 \/ s < 0 \/ n < 0 \/ ~InBounds(mem, d, n) \/ ~InBounds(mem, s, n) THEN Stop(c, "undefined")
                  ELSE SetTop(SetMem(c, f.inst, WrBytes(mem, d, RdBytes(mem, s, n))),   \* as if via a buffer
                              [next EXCEPT !.stack = DropLast(f.stack, 3)])
          [] op = "memory.init" ->
              LET mem == MemOf(c, f.inst)
                  seg == M.data[ins[2] + 1].bytes
                  d == AddrOf(Peek(f, 2).b)  s == AddrOf(Peek(f, 1).b)  n == AddrOf(Peek(f, 0).b)
                  \* a dropped segment has length zero: only the empty copy from its start is inside it
                  gone == ins[2] \in c.store.insts[f.inst].dropped
              IN  IF d < 0 \/ s < 0 \/ n < 0 \/ ~InBounds(mem, d, n) \/ s + n > (IF gone THEN 0 ELSE Len(seg)) THEN Stop(c, "undefined")
                  ELSE SetTop(SetMem(c, f.inst, WrBytes(mem, d, SubSeq(seg, s + 1, s + n))),
                              [next EXCEPT !.stack = DropLast(f.stack, 3)])
          [] op = "data.drop" ->
              [SetTop(c, next) EXCEPT !.store.insts[f.inst].dropped = @ \cup {ins[2]}]
          [] op = "atomic.fence" -> SetTop(c, next)

\* Mods: the modules of the scenario; the instruction belongs to the module of the top frame's instance
Step(Mods, c) ==
    LET f    == Top(c)
        M    == Mods[c.store.insts[f.inst].mod]
        ins  == f.code[f.pc]
        info == OpInfo(ins[1])
        next == [f EXCEPT !.pc = f.pc + 1]
    IN  IF c.fuel = 0 THEN Stop(c, "fuel")
        ELSE LET c1 == [c EXCEPT !.fuel = c.fuel - 1] IN
        CASE info.c = "ctl" -> StepCtl(Mods, M, c1, f, ins)
          [] info.c = "const" -> SetTop(c1, [next EXCEPT !.stack = f.stack \o <<V(info.t, ins[2])>>])
          [] info.c = "iun" ->
              SetTop(c1, [next EXCEPT !.stack = DropLast(f.stack, 1) \o <<V(info.t, IUn(info.o, Peek(f, 0).b))>>])
          [] info.c = "itest" ->
              SetTop(c1, [next EXCEPT !.stack = DropLast(f.stack, 1) \o
                            <<V("i32", Bool(IsZero(Peek(f, 0).b), KOf("i32")))>>])
          [] info.c = "irel" ->
              SetTop(c1, [next EXCEPT !.stack = DropLast(f.stack, 2) \o
                            <<V("i32", Bool(IRel(info.o, Peek(f, 1).b, Peek(f, 0).b), KOf("i32")))>>])
          [] info.c = "ibin" ->
              LET r == IBin(info.o, info.t, Peek(f, 1).b, Peek(f, 0).b)
              IN  IF r.trap # "" THEN TrapC(c1, r.trap)
                  ELSE SetTop(c1, [next EXCEPT !.stack = DropLast(f.stack, 2) \o <<r.v>>])
          [] info.c = "cvt" ->
              LET a == Peek(f, 0)
                  r == Cvt(info, a)
              IN  IF a.nd /\ info.o = "reinterpret" THEN Stop(c1, "ndnan")
                  ELSE IF r.trap # "" THEN TrapC(c1, r.trap)
                  ELSE SetTop(c1, [next EXCEPT !.stack = DropLast(f.stack, 1) \o <<r.v>>])
          [] info.c = "fun" ->
              SetTop(c1, [next EXCEPT !.stack = DropLast(f.stack, 1) \o <<FUnV(info.o, info.t, Peek(f, 0))>>])
          [] info.c = "fbin" ->
              IF info.o = "copysign" /\ Peek(f, 0).nd THEN Stop(c1, "ndnan")
              ELSE SetTop(c1, [next EXCEPT !.stack = DropLast(f.stack, 2) \o
                                 <<FBinV(info.o, info.t, Peek(f, 1), Peek(f, 0))>>])
          [] info.c = "frel" ->
              SetTop(c1, [next EXCEPT !.stack = DropLast(f.stack, 2) \o
                            <<V("i32", Bool(FRel(FmtOf(info.t), info.o, Peek(f, 1).b, Peek(f, 0).b), KOf("i32")))>>])
          [] OTHER ->
              IF info.c \in {"store", "astore", "armw", "acmpxchg"} /\ Peek(f, 0).nd THEN Stop(c1, "ndnan")
              ELSE StepMem(M, c1, f, ins, info)

----------------------------------------------------------------------------
(* store, instantiation, invocation *)

EmptyStore == [mems |-> <<>>, tables |-> <<>>, globals |-> <<>>, insts |-> <<>>]

NullRef == [inst |-> 0, f |-> 0]
NewTable(size) == [size |-> size, elems |-> T([i \in 1..size |-> NullRef])]

ConstExpr(store, gaddrs, e) ==
    IF e[1] = "global.get" THEN store.globals[gaddrs[e[2] + 1]]
    ELSE V(OpInfo(e[1]).t, e[2])

RECURSIVE ApplyData(_, _, _, _, _)
ApplyData(M, store, gaddrs, mem, k) ==                   \* active segments, in segment order
    IF k > Len(M.data) THEN mem
    ELSE LET d == M.data[k]
         IN  IF d.mode # "active" THEN ApplyData(M, store, gaddrs, mem, k + 1)
             ELSE ApplyData(M, store, gaddrs,
                            WrBytes(mem, AddrOf(ConstExpr(store, gaddrs, d.offset).b), d.bytes), k + 1)

RECURSIVE ApplyElems(_, _, _, _, _, _)
ApplyElems(M, store, gaddrs, tab, inst, k) ==
    IF k > Len(M.elems) THEN tab
    ELSE LET e == M.elems[k]
             o == AddrOf(ConstExpr(store, gaddrs, e.offset).b)
             t2 == [tab EXCEPT !.elems = T([i \in 1..tab.size |->
                        IF i - 1 >= o /\ i - 1 < o + Len(e.funcs)
                        THEN [inst |-> inst, f |-> e.funcs[i - o]] ELSE tab.elems[i]])]
         IN  ApplyElems(M, store, gaddrs, t2, inst, k + 1)

\* binds: [mem |-> address of the imported memory or 0, table |-> ..., globals |-> <<addresses>>]
\* Result: the store with the new instance appended (start function not yet run).
Instantiate(M, store, binds) ==
    LET inst == Len(store.insts) + 1
        \* 1. globals: imported ones are the embedder's objects, defined ones are fresh
        RECURSIVE DefGlobals(_, _, _)
        DefGlobals(st, gaddrs, k) ==
            IF k > Len(M.globals) THEN [st |-> st, g |-> gaddrs]
            ELSE LET v  == ConstExpr(st, gaddrs, M.globals[k].init)
                     v2 == [t |-> M.globals[k].t, b |-> v.b, nd |-> FALSE]
                 IN  DefGlobals([st EXCEPT !.globals = @ \o <<v2>>], gaddrs \o <<Len(st.globals) + 1>>, k + 1)
        gs == DefGlobals(store, binds.globals, 1)
        st1 == gs.st
        \* 2. memory: defined memory is fresh, imported memory is the bound object; data segments go to either
        maddr == IF M.memory.present THEN Len(st1.mems) + 1 ELSE binds.mem
        st2 == IF M.memory.present
               THEN [st1 EXCEPT !.mems = @ \o <<NewMem(M.memory.min, M.memory.max, M.memory.shared)>>]
               ELSE st1
        st3 == IF maddr = 0 THEN st2
               ELSE [st2 EXCEPT !.mems[maddr] = ApplyData(M, st2, gs.g, st2.mems[maddr], 1)]
        \* 3. table and element segments
        taddr == IF M.table.present THEN Len(st3.tables) + 1 ELSE binds.table
        st4 == IF M.table.present THEN [st3 EXCEPT !.tables = @ \o <<NewTable(M.table.min)>>] ELSE st3
        st5 == IF taddr = 0 THEN st4
               ELSE [st4 EXCEPT !.tables[taddr] = ApplyElems(M, st4, gs.g, st4.tables[taddr], inst, 1)]
    IN  [st5 EXCEPT !.insts = @ \o <<[mem |-> maddr, table |-> taddr, globals |-> gs.g, dropped |-> {}, mod |-> 1]>>]

\* several modules in one store (a program translated with -m and linked together): an instance remembers which module it is an
\* instance of (its number in the scenario's list of modules); tables, memories and globals bound at instantiation may belong to
\* instances of other modules, and a table entry leads to the function of whichever instance put it there
SetLastMod(store, k) == [store EXCEPT !.insts[Len(store.insts)].mod = k]
ModOf(Mods, store, inst) == Mods[store.insts[inst].mod]

\* <module>NewChild(parent): a further instance of the same module made from a live one (what
\* wasi thread-spawn uses).  It is an instantiation with the imports bound to what the resolver
\* returns (the parent's objects), except that a SHARED defined memory is the parent's memory
\* rather than a fresh one; active segments are applied again and the start function runs again.
InstantiateChild(M, store, p) ==
    LET I    == store.insts[p]
        ngi  == Len(I.globals) - Len(M.globals)
        keep == M.memory.present /\ M.memory.shared
        M2   == IF keep THEN [M EXCEPT !.memory.present = FALSE] ELSE M
    IN  Instantiate(M2, store,
                    [mem     |-> IF M.memory.present /\ ~keep THEN 0 ELSE I.mem,
                     table   |-> IF M.table.present THEN 0 ELSE I.table,
                     globals |-> SubSeq(I.globals, 1, ngi)])

\* ... and the same when the resolver answers the child with other objects than it gave the parent (binds as for Instantiate):
\* imports are what the resolver returns NOW; only a shared defined memory is still the parent's
InstantiateChildWith(M, store, p, binds) ==
    LET I    == store.insts[p]
        keep == M.memory.present /\ M.memory.shared
        M2   == IF keep THEN [M EXCEPT !.memory.present = FALSE] ELSE M
    IN  Instantiate(M2, store,
                    [mem     |-> IF M.memory.present /\ ~keep THEN 0 ELSE IF keep THEN I.mem ELSE binds.mem,
                     table   |-> IF M.table.present THEN 0 ELSE binds.table,
                     globals |-> binds.globals])

\* Segments must lie inside their memory / table, otherwise instantiation fails in the
\* specification (and is outside what the properties quantify over).
SegmentsInBounds(M, store, inst) ==
    LET I == store.insts[inst]
    IN  /\ \A k \in 1..Len(M.data) :
              M.data[k].mode = "active" =>
                  /\ I.mem # 0
                  /\ LET o == AddrOf(ConstExpr(store, I.globals, M.data[k].offset).b)
                     IN  o >= 0 /\ o + Len(M.data[k].bytes) <= store.mems[I.mem].pages * PageSize
        /\ \A k \in 1..Len(M.elems) :
              /\ I.table # 0
              /\ LET o == AddrOf(ConstExpr(store, I.globals, M.elems[k].offset).b)
                 IN  o >= 0 /\ o + Len(M.elems[k].funcs) <= store.tables[I.table].size

IdleCfg(store) ==
    [store |-> store, frames |-> <<>>, status |-> "idle", res |-> <<>>, trap |-> "", host |-> <<>>,
     fuel |-> 0, maxdepth |-> 0]

\* start executing function index fi of instance inst
Invoke(M, c, inst, fi, args, fuel, maxdepth) ==
    LET c0 == [c EXCEPT !.status = "running", !.res = <<>>, !.trap = "", !.host = <<>>,
                        !.fuel = fuel, !.maxdepth = maxdepth]
    IN  IF fi < NFI(M) THEN
            \* an exported import: the call goes straight to the host
            LET imp == FuncImports(M)[fi + 1]
                ft  == FuncType(M, fi)
            IN  [c0 EXCEPT !.status = "returned",
                           !.host = <<[callee |-> imp.name, args |-> args, inst |-> inst]>>,
                           !.res = IF Len(ft.r) = 0 THEN <<>> ELSE <<V(ft.r[1], imp.ret)>>]
        ELSE [c0 EXCEPT !.frames = <<NewFrame(M, inst, fi, args)>>]

ExportIndex(M, name, kind) ==
    LET k == CHOOSE k \in 1..Len(M.exports) : M.exports[k].name = name /\ M.exports[k].kind = kind
    IN  M.exports[k].idx

----------------------------------------------------------------------------
(* invariants of a configuration *)

ValueOK(v) == v.t \in {"i32", "i64", "f32", "f64"} /\ Len(v.b) = KOf(v.t) /\ \A i \in 1..Len(v.b) : v.b[i] \in 0..(Base - 1)

StackDiscipline(c) ==
    \A k \in 1..Len(c.frames) :
        LET f == c.frames[k]
        IN  /\ \A j \in 1..Len(f.labels) : f.labels[j].height <= Len(f.stack)
            /\ \A j \in 1..(Len(f.labels) - 1) : f.labels[j].height <= f.labels[j + 1].height
            /\ \A j \in 1..Len(f.stack) : ValueOK(f.stack[j])
            /\ \A j \in 1..Len(f.locals) : ValueOK(f.locals[j])

MemBounds(c) ==
    \A a \in 1..Len(c.store.mems) :
        LET m == c.store.mems[a]
        IN  /\ m.pages <= m.max /\ m.max <= MaxPages
            /\ \A x \in DOMAIN m.bytes : x >= 0 /\ x < m.pages * PageSize /\ m.bytes[x] \in 0..(Base - 1)
=============================================================================
