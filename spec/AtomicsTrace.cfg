INIT Init
NEXT Next
CONSTRAINT Progress
POSTCONDITION Reached
CHECK_DEADLOCK FALSE
