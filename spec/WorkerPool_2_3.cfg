CONSTANTS NWorkers = 2
 NFiles = 3
 SpuriousBudget = 1
SPECIFICATION Spec
INVARIANTS NoDuplicate NothingInvented ExactlyOnce TakenCleared
CHECK_DEADLOCK TRUE
