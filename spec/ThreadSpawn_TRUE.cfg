CONSTANTS Spawners = {1, 2, 3, 4}
 Atomic = TRUE
SPECIFICATION Spec
INVARIANTS DistinctIds Positive StartOnlyAfterSpawn
CHECK_DEADLOCK FALSE
