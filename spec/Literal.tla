------------------------------ MODULE Literal ------------------------------
(***************************************************************************)
(* C07: the input space of constants as a partition of bit patterns.       *)
(* The semantics of t.const is trivial (WasmExec pushes the immediate);    *)
(* what matters is which patterns are exercised.  FClass assigns every     *)
(* float pattern to exactly one class; IClass likewise for integers.       *)
(* LiteralCheck verifies on a toy float format (1+3+4 bits, all 256        *)
(* patterns) that the class predicates are total and mutually exclusive;   *)
(* the Classify run tags the constants a check run drew, so the evidence   *)
(* can report which classes were hit.                                      *)
(***************************************************************************)
EXTENDS Float, TLC, Json, IOUtils, FiniteSets

\* payload = fraction bits; "lowzero" = the low half of the fraction is zero (for f64 this is where a
\* 23-bit mask and a 52-bit mask disagree), "quiet" = top fraction bit set
FClass(fmt, w) ==
    LET u  == Unp(fmt, w)
        bs == Bits(w)
        half == fmt.mb \div 2
        lowzero == AnyBit(bs, 1, half) = 0
        quiet == bs[fmt.mb] = 1
    IN  [cls |-> u.cls, sign |-> u.s,
         sub |-> IF u.cls = "nan" THEN (IF quiet THEN "quiet" ELSE "signalling") \o (IF lowzero THEN "-lowzero" ELSE "-low")
                 ELSE IF u.cls \in {"norm", "sub"} THEN
                     (IF u.e = ExpAllOnes(fmt) - 1 /\ AnyBit(bs, 1, fmt.mb) = 1 /\ ~(\E i \in 1..fmt.mb : bs[i] = 0) THEN "max"
                      ELSE IF lowzero THEN "lowzero" ELSE "general")
                 ELSE "-"]

FClasses(fmt) == {"zero", "sub", "norm", "inf", "nan"}

\* integers: by the number of bytes a minimal signed LEB128 needs, plus the extremes
RECURSIVE SLebLen(_, _)
SLebLen(bs, n) ==       \* bs: bits LSB first of a two's complement word; minimal n with sign-extension from bit 7n-1
    IF 7 * n >= Len(bs) THEN n
    ELSE IF \A i \in (7 * n)..Len(bs) : bs[i] = bs[Len(bs)] THEN n ELSE SLebLen(bs, n + 1)
IClass(w) == [leb |-> SLebLen(Bits(w), 1),
              kind |-> IF IsZero(w) THEN "zero" ELSE IF w = MinS(Len(w)) THEN "min" ELSE IF w = MaxS(Len(w)) THEN "max"
                       ELSE IF w = Ones(Len(w)) THEN "minus1" ELSE "other"]

----------------------------------------------------------------------------
(* toy-format self check *)
Toy == [k |-> 8 \div LB, eb |-> 3, mb |-> 4, bias |-> 3]
VARIABLE x
TInit == x \in 0..255
TNext == UNCHANGED x
Partition ==
    LET w == OfNat(x, Toy.k) c == FClass(Toy, w)
        e == (x \div 16) % 8  f == x % 16
    IN  /\ c.cls \in FClasses(Toy)
        /\ c.cls = "zero" <=> (e = 0 /\ f = 0)
        /\ c.cls = "sub"  <=> (e = 0 /\ f # 0)
        /\ c.cls = "inf"  <=> (e = 7 /\ f = 0)
        /\ c.cls = "nan"  <=> (e = 7 /\ f # 0)
        /\ c.cls = "norm" <=> (e \in 1..6)
        /\ c.sign = x \div 128
        /\ (c.cls = "nan") => ((c.sub \in {"quiet-lowzero", "quiet-low"}) <=> f >= 8)
        /\ (c.cls = "nan") => ((c.sub \in {"quiet-lowzero", "signalling-lowzero"}) <=> f % 4 = 0)

----------------------------------------------------------------------------
(* classification of the constants a run drew: IOEnv.INFILE lines [t, b] -> OUTFILE lines [t, b, class] *)
Consts == ndJsonDeserialize(IOEnv.INFILE)
ClassOf(c) == IF c.t = "f32" THEN FClass(F32, c.b) ELSE IF c.t = "f64" THEN FClass(F64, c.b)
              ELSE [cls |-> IClass(c.b).kind, sign |-> SignBit(c.b), sub |-> ToString(IClass(c.b).leb)]
CInit == x = 0
CNext == x < Len(Consts) /\ x' = x + 1
ClassifyDone == TLCGet("level") >= 0 /\ ndJsonSerialize(IOEnv.OUTFILE, [j \in 1..Len(Consts) |-> [t |-> Consts[j].t, b |-> Consts[j].b, class |-> ClassOf(Consts[j])]])
=============================================================================
