CONSTANT LB = 8
INIT Init
NEXT Next
INVARIANT Check
POSTCONDITION Done
CHECK_DEADLOCK FALSE
