CONSTANTS LB = 8
 N = 32
 Alphabet = {0, 1, 63, 64, 127, 128, 129, 191, 192, 255, 15, 16, 112, 143, 240, 8}
INIT Init
NEXT Next
INVARIANTS Refines Collect
POSTCONDITION Export
CHECK_DEADLOCK FALSE
