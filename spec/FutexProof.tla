----------------------------- MODULE FutexProof -----------------------------
(* C17, design level, for ANY set of threads: in the abstract protocol a thread is blocked iff it sits in the queue of *)
(* the address it waits on, and in no other queue - so a notify can only wake waiters of its own address and no waiter *)
(* is counted twice (tlapm).                                                                                           *)
EXTENDS FutexAbs, TLAPS, FiniteSetTheorems

ASSUME FiniteThreads == IsFiniteSet(Threads)

ANext == \/ \E t \in Threads, op \in {"wait32", "wait64", "notify", "store"}, a \in Nat, x \in Nat, timed \in BOOLEAN : Call(t, op, a, x, timed)
         \/ Internal
         \/ \E t \in Threads, r \in Nat : Ret(t, r)
ASpec == AInit /\ [][ANext]_avars

States == {"idle", "called", "blocked", "ready"}
TypeInv == /\ ts \in [Threads -> [st : States, op : STRING, a : Nat, x : Nat, timed : BOOLEAN, res : Nat]]
           /\ DOMAIN waiting \subseteq Nat
           /\ \A a \in DOMAIN waiting : waiting[a] \subseteq Threads
\* blocked <=> queued on its own address; queued nowhere else
Inv == /\ TypeInv
       /\ \A a \in DOMAIN waiting : \A t \in waiting[a] : ts[t].st = "blocked" /\ ts[t].a = a
       /\ \A t \in Threads : ts[t].st = "blocked" => (ts[t].a \in DOMAIN waiting /\ t \in waiting[ts[t].a])

LEMMA InitInv == AInit => Inv
  BY DEF AInit, Inv, TypeInv, Idle, States

LEMMA InvOneQueue == Inv => AbsTypeOK /\ OneQueue
  BY DEF Inv, TypeInv, AbsTypeOK, OneQueue, Waiting

LEMMA StepInv == Inv /\ [ANext]_avars => Inv'
<1> SUFFICES ASSUME Inv, [ANext]_avars PROVE Inv'
  OBVIOUS
<1>1. CASE UNCHANGED avars
  BY <1>1 DEF Inv, TypeInv, avars
<1>2. ASSUME NEW t \in Threads, NEW op \in {"wait32", "wait64", "notify", "store"}, NEW a \in Nat, NEW x \in Nat, NEW timed \in BOOLEAN, Call(t, op, a, x, timed) PROVE Inv'
  BY <1>2 DEF Inv, TypeInv, Call, States
<1>3. ASSUME NEW t \in Threads, WaitCheck(t) PROVE Inv'
  BY <1>3 DEF Inv, TypeInv, WaitCheck, SetF, Waiting, Cell, States
<1>4. ASSUME NEW t \in Threads, Timeout(t) PROVE Inv'
  BY <1>4 DEF Inv, TypeInv, Timeout, SetW, SetF, Waiting, States
<1>5. ASSUME NEW t \in Threads, StoreDo(t) PROVE Inv'
  BY <1>5 DEF Inv, TypeInv, StoreDo, SetF, States
<1>6. ASSUME NEW t \in Threads, NEW W \in SUBSET Waiting(ts[t].a), NotifyDo(t, W) PROVE Inv'
  <2> DEFINE adr == ts[t].a
  <2>1. ts[t].st = "called" /\ W \subseteq Waiting(adr) /\ W \subseteq Threads
    BY <1>6 DEF NotifyDo, Waiting, Inv, TypeInv
  <2>2. t \notin W
    BY <2>1 DEF Inv, TypeInv, Waiting
  <2>3. ts' = [u \in Threads |-> IF u = t THEN [ts[t] EXCEPT !.st = "ready", !.res = Cardinality(W)]
                                  ELSE IF u \in W THEN [ts[u] EXCEPT !.st = "ready", !.res = 0] ELSE ts[u]]
        /\ waiting' = SetW(waiting, adr, Waiting(adr) \ W)
    BY <1>6 DEF NotifyDo
  <2>4. Cardinality(W) \in Nat
    <3>1. IsFiniteSet(W)
      BY <2>1, FiniteThreads, FS_Subset
    <3> QED
      BY <3>1, FS_CardinalityType
  <2>5. TypeInv'
    BY <2>1, <2>3, <2>4 DEF Inv, TypeInv, SetW, SetF, Waiting, States
  <2>6. \A b \in DOMAIN waiting' : \A u \in waiting'[b] : ts'[u].st = "blocked" /\ ts'[u].a = b
    BY <2>1, <2>2, <2>3 DEF Inv, TypeInv, SetW, SetF, Waiting
  <2>7. \A u \in Threads : ts'[u].st = "blocked" => (ts'[u].a \in DOMAIN waiting' /\ u \in waiting'[ts'[u].a])
    BY <2>1, <2>2, <2>3 DEF Inv, TypeInv, SetW, SetF, Waiting
  <2> QED
    BY <2>5, <2>6, <2>7 DEF Inv
<1>7. ASSUME NEW t \in Threads, NEW r \in Nat, Ret(t, r) PROVE Inv'
  BY <1>7 DEF Inv, TypeInv, Ret, Idle, States
<1>8. ASSUME NEW t \in Threads, WaitFail(t) PROVE Inv'
  BY <1>8 DEF Inv, TypeInv, WaitFail, States
<1> QED
  BY <1>1, <1>2, <1>3, <1>4, <1>5, <1>6, <1>7, <1>8 DEF ANext, Internal

THEOREM Safety == ASpec => [](AbsTypeOK /\ OneQueue)
<1>1. ASpec => []Inv
  BY InitInv, StepInv, PTL DEF ASpec
<1> QED
  BY <1>1, InvOneQueue, PTL
=============================================================================
