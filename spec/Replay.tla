------------------------------- MODULE Replay -------------------------------
(***************************************************************************)
(* spec -> code: drives WasmExec through scripted scenarios and writes the *)
(* observation the specification prescribes after every script operation.  *)
(*                                                                         *)
(* Input  (IOEnv.INFILE, ndjson): items [id, module, script]               *)
(* Output (IOEnv.OUTFILE, ndjson): one record per script operation         *)
(*                                                                         *)
(* The behaviour is a single chain (the machine is deterministic): one TLC *)
(* state per executed instruction, so StackOK / MemOK / Progress are       *)
(* evaluated after every instruction of every scenario.  bind/py shards    *)
(* the items over several TLC processes.                                   *)
(***************************************************************************)
EXTENDS WasmExec, WasmValid, Json, IOUtils

Items == ndJsonDeserialize(IOEnv.INFILE)
MaxDepth == 40

VARIABLES i,        \* current item
          k,        \* current script operation (0 = none started yet)
          c         \* machine configuration
vars == <<i, k, c>>

Item == Items[i]
M == Item.module
\* a scenario may bring further modules ("modules"); an instantiate operation names the one it instantiates ("mod", 1 = Item.module)
Mods == IF "modules" \in DOMAIN Item THEN <<Item.module>> \o Item.modules ELSE <<Item.module>>
ModNo(op) == IF "mod" \in DOMAIN op THEN op.mod ELSE 1
\* instructions per script operation before the machine gives up (status "fuel"); items may carry their own budget
FuelPerCall == IF "fuel" \in DOMAIN Item THEN Item.fuel ELSE 4000

Init == /\ i = 1 /\ k = 0 /\ c = IdleCfg(EmptyStore)
        /\ TLCSet(1, <<>>)

ValOut(v) == [t |-> v.t, b |-> v.b, nd |-> v.nd]
MemOut(m) ==
    LET nzs == {a \in DOMAIN m.bytes : m.bytes[a] # 0}
    IN  [pages |-> m.pages, nz |-> [j \in 1..Cardinality(nzs) |->
            LET a == SetToSortSeq(nzs, <)[j] IN <<a, m.bytes[a]>>]]
MemOutFast(m) ==
    LET nzs == {a \in DOMAIN m.bytes : m.bytes[a] # 0}
        srt == SetToSortSeq(nzs, <)
    IN  [pages |-> m.pages, nz |-> T([j \in 1..Len(srt) |-> <<srt[j], m.bytes[srt[j]]>>])]

Obs ==
    [item |-> Item.id, k |-> k, status |-> c.status, trap |-> c.trap,
     res  |-> T([j \in 1..Len(c.res) |-> ValOut(c.res[j])]),
     host |-> T([j \in 1..Len(c.host) |->
                [callee |-> c.host[j].callee, inst |-> c.host[j].inst,
                 args |-> T([a \in 1..Len(c.host[j].args) |-> ValOut(c.host[j].args[a])])]]),
     mems |-> T([a \in 1..Len(c.store.mems) |-> MemOutFast(c.store.mems[a])]),
     globals |-> T([a \in 1..Len(c.store.globals) |-> ValOut(c.store.globals[a])]),
     tables |-> T([a \in 1..Len(c.store.tables) |-> c.store.tables[a].elems])]

Emit == TLCSet(1, Append(TLCGet(1), Obs))

Clean == c.status \in {"idle", "done", "returned", "trapped"}

\* begin script operation number n of the current item from configuration c
Begin(n) ==
    LET op == Item.script[n]
        st == c.store
        done(s) == [IdleCfg(s) EXCEPT !.status = "done"]
    IN  CASE op.op = "hostmem"    -> done([st EXCEPT !.mems = @ \o <<NewMem(op.pages, op.max, op.shared)>>])
          [] op.op = "hosttable"  -> done([st EXCEPT !.tables = @ \o <<NewTable(op.size)>>])
          [] op.op = "hostglobal" -> done([st EXCEPT !.globals = @ \o <<V(op.t, op.b)>>])
          \* releasing an instance changes nothing the specification can see (the script does not use it again)
          [] op.op = "free" -> done(st)
          [] op.op = "instantiate" ->
              LET MM == Mods[ModNo(op)]
                  s2 == SetLastMod(Instantiate(MM, st, op.binds), ModNo(op))
              IN  \* the properties speak about valid modules only: an invalid scenario is refused (an error of whoever produced it)
                  IF ~Valid(MM) THEN [IdleCfg(st) EXCEPT !.status = "invalid", !.trap = ModuleErr(MM)]
                  ELSE IF ~SegmentsInBounds(MM, s2, Len(s2.insts)) THEN [IdleCfg(st) EXCEPT !.status = "undefined"]
                  ELSE IF MM.start >= 0
                  THEN Invoke(MM, IdleCfg(s2), Len(s2.insts), MM.start, <<>>, FuelPerCall, MaxDepth)
                  ELSE done(s2)
          [] op.op = "child" ->
              LET MM == ModOf(Mods, st, op.inst)
                  s2 == SetLastMod(IF "binds" \in DOMAIN op THEN InstantiateChildWith(MM, st, op.inst, op.binds) ELSE InstantiateChild(MM, st, op.inst),
                                   st.insts[op.inst].mod)
              IN  IF ~SegmentsInBounds(MM, s2, Len(s2.insts)) THEN [IdleCfg(st) EXCEPT !.status = "undefined"]
                  ELSE IF MM.start >= 0
                  THEN Invoke(MM, IdleCfg(s2), Len(s2.insts), MM.start, <<>>, FuelPerCall, MaxDepth)
                  ELSE done(s2)
          [] op.op = "call" ->
              LET MM == ModOf(Mods, st, op.inst) IN
              Invoke(MM, IdleCfg(st), op.inst, ExportIndex(MM, op.export, "func"),
                     T([j \in 1..Len(op.args) |-> V(op.args[j].t, op.args[j].b)]), FuelPerCall, MaxDepth)

StepMachine == /\ c.status = "running"
               /\ c' = Step(Mods, c)
               /\ UNCHANGED <<i, k>>

\* an operation has finished: write its observation, then start the next one
NextOp == /\ c.status # "running"
          /\ i <= Len(Items)
          /\ (k > 0 => Emit)
          /\ IF k < Len(Item.script) /\ (k = 0 \/ Clean)
             THEN /\ k' = k + 1 /\ i' = i /\ c' = Begin(k + 1)
             ELSE /\ i' = i + 1 /\ k' = 0 /\ c' = IdleCfg(EmptyStore)

Next == StepMachine \/ NextOp \/ (i > Len(Items) /\ UNCHANGED vars)

Spec == Init /\ [][Next]_vars

StackOK == c.status = "running" => StackDiscipline(c)
MemOK == MemBounds(c)
\* Progress: a running configuration always has a successor (checked by TLC's deadlock
\* detection being ON: the only state without successor is the final one, i > Len(Items))
Finished == i > Len(Items)
Done == TLCGet("level") >= 0 /\ ndJsonSerialize(IOEnv.OUTFILE, TLCGet(1))
=============================================================================
