------------------------------- MODULE Replay -------------------------------
(***************************************************************************)
(* spec -> code: drives WasmExec through scripted scenarios and writes the *)
(* observation the specification prescribes after every script operation.  *)
(*                                                                         *)
(* Input  (IOEnv.INFILE, ndjson): items [id, module, script]               *)
(* Output (IOEnv.OUTFILE, ndjson): one record per script operation         *)
(*                                                                         *)
(* The behaviour is a single chain (the machine is deterministic): one TLC *)
(* state per executed instruction, so StackOK / MemOK / Progress are       *)
(* evaluated after every instruction of every scenario.  bind/py shards    *)
(* the items over several TLC processes.                                   *)
(***************************************************************************)
EXTENDS WasmExec, WasmValid, Json, IOUtils

Items == ndJsonDeserialize(IOEnv.INFILE)
MaxDepth == 40

VARIABLES i,        \* current item
          k,        \* current script operation (0 = none started yet)
          c         \* machine configuration
vars == <<i, k, c>>

Item == Items[i]
M == Item.module
\* instructions per script operation before the machine gives up (status "fuel"); items may carry their own budget
FuelPerCall == IF "fuel" \in DOMAIN Item THEN Item.fuel ELSE 4000

Init == /\ i = 1 /\ k = 0 /\ c = IdleCfg(EmptyStore)
        /\ TLCSet(1, <<>>)

ValOut(v) == [t |-> v.t, b |-> v.b, nd |-> v.nd]
MemOut(m) ==
    LET nzs == {a \in DOMAIN m.bytes : m.bytes[a] # 0}
    IN  [pages |-> m.pages, nz |-> [j \in 1..Cardinality(nzs) |->
            LET a == SetToSortSeq(nzs, <)[j] IN <<a, m.bytes[a]>>]]
MemOutFast(m) ==
    LET nzs == {a \in DOMAIN m.bytes : m.bytes[a] # 0}
        srt == SetToSortSeq(nzs, <)
    IN  [pages |-> m.pages, nz |-> T([j \in 1..Len(srt) |-> <<srt[j], m.bytes[srt[j]]>>])]

Obs ==
    [item |-> Item.id, k |-> k, status |-> c.status, trap |-> c.trap,
     res  |-> T([j \in 1..Len(c.res) |-> ValOut(c.res[j])]),
     host |-> T([j \in 1..Len(c.host) |->
                [callee |-> c.host[j].callee, inst |-> c.host[j].inst,
                 args |-> T([a \in 1..Len(c.host[j].args) |-> ValOut(c.host[j].args[a])])]]),
     mems |-> T([a \in 1..Len(c.store.mems) |-> MemOutFast(c.store.mems[a])]),
     globals |-> T([a \in 1..Len(c.store.globals) |-> ValOut(c.store.globals[a])]),
     tables |-> T([a \in 1..Len(c.store.tables) |-> c.store.tables[a].elems])]

Emit == TLCSet(1, Append(TLCGet(1), Obs))

Clean == c.status \in {"idle", "done", "returned", "trapped"}

\* begin script operation number n of the current item from configuration c
Begin(n) ==
    LET op == Item.script[n]
        st == c.store
        done(s) == [IdleCfg(s) EXCEPT !.status = "done"]
    IN  CASE op.op = "hostmem"    -> done([st EXCEPT !.mems = @ \o <<NewMem(op.pages, op.max, op.shared)>>])
          [] op.op = "hosttable"  -> done([st EXCEPT !.tables = @ \o <<NewTable(op.size)>>])
          [] op.op = "hostglobal" -> done([st EXCEPT !.globals = @ \o <<V(op.t, op.b)>>])
          \* releasing an instance changes nothing the specification can see (the script does not use it again)
          [] op.op = "free" -> done(st)
          [] op.op = "instantiate" ->
              LET s2 == Instantiate(M, st, op.binds)
              IN  \* the properties speak about valid modules only: an invalid scenario is refused (an error of whoever produced it)
                  IF ~Valid(M) THEN [IdleCfg(st) EXCEPT !.status = "invalid", !.trap = ModuleErr(M)]
                  ELSE IF ~SegmentsInBounds(M, s2, Len(s2.insts)) THEN [IdleCfg(st) EXCEPT !.status = "undefined"]
                  ELSE IF M.start >= 0
                  THEN Invoke(M, IdleCfg(s2), Len(s2.insts), M.start, <<>>, FuelPerCall, MaxDepth)
                  ELSE done(s2)
          [] op.op = "child" ->
              LET s2 == IF "binds" \in DOMAIN op THEN InstantiateChildWith(M, st, op.inst, op.binds) ELSE InstantiateChild(M, st, op.inst)
              IN  IF ~SegmentsInBounds(M, s2, Len(s2.insts)) THEN [IdleCfg(st) EXCEPT !.status = "undefined"]
                  ELSE IF M.start >= 0
                  THEN Invoke(M, IdleCfg(s2), Len(s2.insts), M.start, <<>>, FuelPerCall, MaxDepth)
                  ELSE done(s2)
          [] op.op = "call" ->
              Invoke(M, IdleCfg(st), op.inst, ExportIndex(M, op.export, "func"),
                     T([j \in 1..Len(op.args) |-> V(op.args[j].t, op.args[j].b)]), FuelPerCall, MaxDepth)

StepMachine == /\ c.status = "running"
               /\ c' = Step(M, c)
               /\ UNCHANGED <<i, k>>

\* an operation has finished: write its observation, then start the next one
NextOp == /\ c.status # "running"
          /\ i <= Len(Items)
          /\ (k > 0 => Emit)
          /\ IF k < Len(Item.script) /\ (k = 0 \/ Clean)
             THEN /\ k' = k + 1 /\ i' = i /\ c' = Begin(k + 1)
             ELSE /\ i' = i + 1 /\ k' = 0 /\ c' = IdleCfg(EmptyStore)

Next == StepMachine \/ NextOp \/ (i > Len(Items) /\ UNCHANGED vars)

Spec == Init /\ [][Next]_vars

StackOK == c.status = "running" => StackDiscipline(c)
MemOK == MemBounds(c)
\* Progress: a running configuration always has a successor (checked by TLC's deadlock
\* detection being ON: the only state without successor is the final one, i > Len(Items))
Finished == i > Len(Items)
Done == TLCGet("level") >= 0 /\ ndJsonSerialize(IOEnv.OUTFILE, TLCGet(1))
=============================================================================
