------------------------------- MODULE Outcome -------------------------------
(***************************************************************************)
(* C10: the legal outcomes of a translator run, per input class, and the   *)
(* option lattice the runs are drawn from.  Observations recorded from the *)
(* real (sanitizer-instrumented and plain) translator are judged here.     *)
(*                                                                         *)
(*  valid module         -> exit status 0                                  *)
(*  proper prefix of one -> exit status 0, or non-zero WITH a diagnostic   *)
(*  valid module that arrives through something that cannot be seeked (a   *)
(*  pipe, a FIFO): the translator may decline it - the same as for a prefix*)
(*  in neither case: death by signal, abort, time-out, sanitizer report    *)
(***************************************************************************)
EXTENDS Naturals, Sequences, FiniteSets, TLC, Json, IOUtils

Obs == ndJsonDeserialize(IOEnv.INFILE)

Legal(o) ==
    /\ ~o.timedout /\ o.signal = 0 /\ o.sanitizer = ""
    /\ (o.cls = "valid" => o.status = 0)
    /\ (o.cls \in {"prefix", "unseekable"} => (o.status = 0 \/ o.diagnostic))

\* the option lattice (what a run may be given); used to validate that the driver's vectors are in it
Threads == 1..64
Option(v) == /\ v.t \in Threads /\ v.f \in Nat /\ v.p \in BOOLEAN /\ v.g \in BOOLEAN /\ v.m \in BOOLEAN
             /\ v.d \in {"arrays", "gnu-ld", "sectcreate1", "sectcreate2"} /\ v.c \in BOOLEAN

VARIABLE k
Init == k = 0 /\ TLCSet(1, <<>>)
Next == k < Len(Obs) /\ k' = k + 1
Judge == (k >= 1) => /\ Option(Obs[k].opts)
                     /\ (~Legal(Obs[k]) => TLCSet(1, Append(TLCGet(1), k)))
Out == TLCGet("level") >= 0 /\ ndJsonSerialize(IOEnv.OUTFILE, <<[illegal |-> TLCGet(1), n |-> Len(Obs)]>>)
=============================================================================
