INIT Init
NEXT Next
INVARIANT Judge
POSTCONDITION Out
CHECK_DEADLOCK FALSE
