------------------------------- MODULE WasmGen -------------------------------
(***************************************************************************)
(* Valid function bodies by construction.                                  *)
(*                                                                         *)
(* A behaviour of this specification builds one function body, one         *)
(* instruction (or one fixed idiom) per step.  The state carries the type  *)
(* stack and the control stack of the validation algorithm of the          *)
(* WebAssembly specification (appendix "Validation Algorithm"); an action  *)
(* is enabled only if its instruction type-checks, so every reachable      *)
(* `done` state holds a valid body.  BFS enumerates all bodies up to the   *)
(* budget; -simulate samples deep ones.                                    *)
(*                                                                         *)
(* The context (IOEnv.CTX, ndjson) lists module shapes: function           *)
(* signatures, host imports, locals, globals, memory size, table slots.    *)
(* Init picks a shape and a function of it; bind/py assembles modules from *)
(* the bodies generated for the functions of one shape.                    *)
(*                                                                         *)
(* After br / br_table / return / unreachable the rest of the block is     *)
(* dead code.  We generate a conservative subset of what validation allows *)
(* there: code that is valid from the empty stack, leaving nothing or      *)
(* exactly the block's results.                                            *)
(*                                                                         *)
(* Memory accesses are emitted as idioms that mask the dynamic address     *)
(* into the shape's memory, so every generated access is in bounds for     *)
(* every input (the properties quantify over in-bounds accesses only).     *)
(***************************************************************************)
EXTENDS Naturals, Integers, Sequences, SequencesExt, FiniteSets, TLC, Json, IOUtils, WasmOps

Shapes == ndJsonDeserialize(IOEnv.CTX)

VARIABLES sh,       \* index of the module shape
          fn,       \* index (1-based, among defined functions) of the function being written
          code,     \* instructions emitted so far
          ts,       \* type stack
          ctl,      \* control stack, innermost last: [kind, bt, height, dead]
          budget,   \* instructions we may still emit before we must close
          dead,     \* dead-code instructions emitted in the current dead region
          done
vars == <<sh, fn, code, ts, ctl, budget, dead, done>>

S == Shapes[sh]
Tup(f) == f \o <<>>                  \* force a function constructor into a tuple
SetOf(q) == {q[j] : j \in DOMAIN q}
VTypes == SetOf(S.vtypes)
F == S.funcs[fn]                      \* [type, locals (flat list of types, params first), scratch: [i32,i64,f32,f64 -> local idx], cnt]
FT == S.types[F.type + 1]
Results(bt) == IF bt = "" THEN <<>> ELSE <<bt>>
Cur == ctl[Len(ctl)]
Avail == Len(ts) - Cur.height        \* operands of the current block
IsDead == Cur.dead

TopIs(types) ==                      \* the current block's operands end with `types`
    /\ Avail >= Len(types)
    /\ \A j \in 1..Len(types) : ts[Len(ts) - Len(types) + j] = types[j]

Pop(n) == SubSeq(ts, 1, Len(ts) - n)

\* label l (0 = innermost): the types a branch to it carries
LabelTypes(l) ==
    LET fr == ctl[Len(ctl) - l]
    IN  IF fr.kind = "loop" THEN <<>> ELSE Results(fr.bt)

Emit(ins, newts) ==
    /\ code' = code \o ins
    /\ ts' = newts
    /\ budget' = budget - 1
    /\ dead' = IF IsDead THEN dead + 1 ELSE dead
    /\ UNCHANGED <<sh, fn, done>>

CanGrow == ~done /\ budget > 0 /\ (IsDead => dead < S.maxdead)

MarkDead ==   \* the rest of the current block is unreachable: operands are discarded
    ctl' = [ctl EXCEPT ![Len(ctl)].dead = TRUE]

----------------------------------------------------------------------------
(* plain instructions *)

SigOf(op) ==
    LET i == OpInfo(op)
    IN  CASE i.c = "const" -> [p |-> <<>>, r |-> <<i.t>>]
          [] i.c \in {"iun", "fun"} -> [p |-> <<i.t>>, r |-> <<i.t>>]
          [] i.c = "itest" -> [p |-> <<i.t>>, r |-> <<"i32">>]
          [] i.c \in {"irel", "frel"} -> [p |-> <<i.t, i.t>>, r |-> <<"i32">>]
          [] i.c \in {"ibin", "fbin"} -> [p |-> <<i.t, i.t>>, r |-> <<i.t>>]
          [] i.c = "cvt" -> [p |-> <<i.f>>, r |-> <<i.t>>]

Plain == \E k \in 1..Len(S.ops) :
    LET op == S.ops[k]  sg == SigOf(op) IN
    /\ CanGrow /\ OpInfo(op).c # "const"
    /\ TopIs(sg.p)
    /\ Emit(<<<<op>>>>, Pop(Len(sg.p)) \o sg.r)
    /\ UNCHANGED ctl

Const == \E t \in {"i32", "i64", "f32", "f64"} : \E k \in 1..Len(S.consts[t]) :
    /\ CanGrow /\ t \in VTypes
    /\ Emit(<<<<t \o ".const", S.consts[t][k]>>>>, ts \o <<t>>)
    /\ UNCHANGED ctl

LocalGet == \E l \in 1..Len(F.locals) :
    /\ CanGrow
    /\ Emit(<<<<"local.get", l - 1>>>>, ts \o <<F.locals[l]>>)
    /\ UNCHANGED ctl
LocalSet == \E l \in 1..F.nuser :      \* scratch locals are reserved for the idioms
    /\ CanGrow /\ TopIs(<<F.locals[l]>>)
    /\ Emit(<<<<"local.set", l - 1>>>>, Pop(1))
    /\ UNCHANGED ctl
LocalTee == \E l \in 1..F.nuser :
    /\ CanGrow /\ TopIs(<<F.locals[l]>>)
    /\ Emit(<<<<"local.tee", l - 1>>>>, ts)
    /\ UNCHANGED ctl
GlobalGet == \E g \in 1..Len(S.globals) :
    /\ CanGrow
    /\ Emit(<<<<"global.get", g - 1>>>>, ts \o <<S.globals[g].t>>)
    /\ UNCHANGED ctl
GlobalSet == \E g \in 1..Len(S.globals) :
    /\ CanGrow /\ S.globals[g].mut /\ TopIs(<<S.globals[g].t>>)
    \* floats are not stored to globals: an arithmetic NaN there would make later reads unpredictable
    /\ S.globals[g].t \in {"i32", "i64"}
    /\ Emit(<<<<"global.set", g - 1>>>>, Pop(1))
    /\ UNCHANGED ctl
Drop == /\ CanGrow /\ S.ctl.drop /\ Avail >= 1
        /\ Emit(<<<<"drop">>>>, Pop(1)) /\ UNCHANGED ctl
Nop ==  /\ CanGrow /\ S.ctl.nop
        /\ Emit(<<<<"nop">>>>, ts) /\ UNCHANGED ctl
Select == \E t \in VTypes :
    /\ CanGrow /\ S.ctl.select /\ TopIs(<<t, t, "i32">>)
    /\ Emit(<<<<"select">>>>, Pop(2)) /\ UNCHANGED ctl

----------------------------------------------------------------------------
(* calls *)

Call == \E f \in 1..Len(F.callable) :
    LET ty == S.types[F.callable[f].type + 1] IN
    /\ CanGrow /\ TopIs(ty.p)
    /\ Emit(<<<<"call", F.callable[f].idx>>>>, Pop(Len(ty.p)) \o ty.r)
    /\ UNCHANGED ctl

\* table slot with a statically known, correctly typed entry: i32.const slot ; call_indirect type
CallIndirect == \E k \in 1..Len(F.slots) :
    LET ty == S.types[F.slots[k].type + 1] IN
    /\ CanGrow /\ TopIs(ty.p)
    /\ Emit(<<<<"i32.const", F.slots[k].slotbytes>>, <<"call_indirect", F.slots[k].type, 0>>>>,
            Pop(Len(ty.p)) \o ty.r)
    /\ UNCHANGED ctl

----------------------------------------------------------------------------
(* memory idioms: the dynamic address is masked into [0, mask], offset + width fit behind it *)

Load == \E k \in 1..Len(S.memops) :
    LET op == S.memops[k]  i == OpInfo(op.op) IN
    /\ CanGrow /\ i.c \in {"load", "aload"} /\ TopIs(<<"i32">>)
    /\ Emit(<<<<"i32.const", op.mask>>, <<"i32.and">>, <<op.op, op.align, op.offset>>>>, Pop(1) \o <<i.t>>)
    /\ UNCHANGED ctl
Store == \E k \in 1..Len(S.memops) :
    LET op == S.memops[k]  i == OpInfo(op.op) IN
    /\ CanGrow /\ i.c \in {"store", "astore"} /\ TopIs(<<"i32", i.t>>)
    /\ i.t \in {"i32", "i64"}       \* float stores would expose arithmetic NaN payloads
    /\ Emit(<<<<"local.set", F.scratch[i.t]>>, <<"i32.const", op.mask>>, <<"i32.and">>,
              <<"local.get", F.scratch[i.t]>>, <<op.op, op.align, op.offset>>>>, Pop(2))
    /\ UNCHANGED ctl
MemSize == /\ CanGrow /\ S.mem.present /\ S.ctl.memsize
           /\ Emit(<<<<"memory.size">>>>, ts \o <<"i32">>) /\ UNCHANGED ctl

----------------------------------------------------------------------------
(* structured control *)

Open == \E kind \in {"block", "loop", "if"} : \E bt \in {""} \cup VTypes :
    /\ CanGrow /\ S.ctl[kind] /\ Len(ctl) < S.maxnest
    /\ (kind = "if") => TopIs(<<"i32">>)
    /\ bt # "" => S.ctl.results
    /\ LET nts == IF kind = "if" THEN Pop(1) ELSE ts IN
       /\ Emit(<<<<kind, bt>>>>, nts)
       /\ ctl' = ctl \o <<[kind |-> kind, bt |-> bt, height |-> Len(nts), dead |-> FALSE]>>

\* the counted back-edge of a loop: at most 8 iterations per entry
LoopTail == \E l \in 0..(Len(ctl) - 1) :
    /\ CanGrow /\ ctl[Len(ctl) - l].kind = "loop" /\ Avail = 0 /\ ~IsDead
    /\ Emit(<<<<"local.get", F.cnt>>, <<"i32.const", <<1, 0, 0, 0>>>>, <<"i32.sub">>, <<"local.tee", F.cnt>>,
              <<"i32.const", <<7, 0, 0, 0>>>>, <<"i32.and">>, <<"br_if", l>>>>, ts)
    /\ UNCHANGED ctl

BlockComplete ==   \* the operands are exactly the block's results (or the code is dead and leaves nothing)
    \/ (Avail = Len(Results(Cur.bt)) /\ TopIs(Results(Cur.bt)))
    \/ (IsDead /\ Avail = 0)

Else == /\ ~done /\ Cur.kind = "if" /\ BlockComplete
        /\ code' = code \o <<<<"else">>>>
        /\ ts' = SubSeq(ts, 1, Cur.height)
        /\ ctl' = [ctl EXCEPT ![Len(ctl)].kind = "else", ![Len(ctl)].dead = FALSE]
        /\ dead' = 0
        /\ UNCHANGED <<sh, fn, budget, done>>

End ==  /\ ~done /\ BlockComplete
        /\ (Cur.kind = "if") => Cur.bt = ""          \* an if with a result needs its else
        /\ code' = code \o <<<<"end">>>>
        /\ ts' = SubSeq(ts, 1, Cur.height) \o Results(Cur.bt)
        /\ ctl' = SubSeq(ctl, 1, Len(ctl) - 1)
        /\ done' = (Len(ctl) = 1)
        /\ dead' = 0
        /\ UNCHANGED <<sh, fn, budget>>

\* Unconditional exits are generated inside blocks only (a body that starts with `unreachable`
\* exercises nothing), and never as back-edges (those are LoopTail's, so that loops terminate).
Br == \E l \in 0..(Len(ctl) - 1) :
    /\ CanGrow /\ S.ctl.br /\ TopIs(LabelTypes(l)) /\ Len(ctl) > 1
    /\ ctl[Len(ctl) - l].kind # "loop"
    /\ Emit(<<<<"br", l>>>>, SubSeq(ts, 1, Cur.height)) /\ MarkDead
BrIf == \E l \in 0..(Len(ctl) - 1) :
    /\ CanGrow /\ S.ctl.br_if /\ TopIs(LabelTypes(l) \o <<"i32">>)
    /\ ctl[Len(ctl) - l].kind # "loop"            \* unbounded back-edges are left to LoopTail
    /\ Emit(<<<<"br_if", l>>>>, Pop(1)) /\ UNCHANGED ctl
BrTable == \E d \in 0..(Len(ctl) - 1) : \E n \in 0..3 : \E r \in 0..2 :
    LET compat == {l \in 0..(Len(ctl) - 1) : LabelTypes(l) = LabelTypes(d) /\ ctl[Len(ctl) - l].kind # "loop"}
        lst == SetToSeq(compat)
        targets == Tup([j \in 1..n |-> lst[((j + r) % Len(lst)) + 1]])
    IN  /\ CanGrow /\ S.ctl.br_table /\ TopIs(LabelTypes(d) \o <<"i32">>) /\ Len(ctl) > 1
        /\ ctl[Len(ctl) - d].kind # "loop"
        /\ r < Len(lst)
        /\ Emit(<<<<"br_table", targets, d>>>>, SubSeq(ts, 1, Cur.height)) /\ MarkDead
Return == /\ CanGrow /\ S.ctl.return /\ TopIs(FT.r) /\ Len(ctl) > 1
          /\ Emit(<<<<"return">>>>, SubSeq(ts, 1, Cur.height)) /\ MarkDead
Unreachable == /\ CanGrow /\ S.ctl.unreachable /\ Len(ctl) > 1
               /\ Emit(<<<<"unreachable">>>>, SubSeq(ts, 1, Cur.height)) /\ MarkDead

----------------------------------------------------------------------------
(* closing: when the budget is used up only steps that lead to `end` remain *)

Closing == budget = 0 \/ (IsDead /\ dead >= S.maxdead)
CloseDrop == /\ ~done /\ Closing /\ ~BlockComplete /\ Avail > 0
             /\ code' = code \o <<<<"drop">>>> /\ ts' = Pop(1)
             /\ UNCHANGED <<sh, fn, ctl, budget, dead, done>>
ClosePush == /\ ~done /\ Closing /\ ~BlockComplete /\ Avail = 0 /\ Cur.bt # ""
             /\ code' = code \o <<<<Cur.bt \o ".const", S.consts[Cur.bt][1]>>>> /\ ts' = ts \o <<Cur.bt>>
             /\ UNCHANGED <<sh, fn, ctl, budget, dead, done>>

Grow == Plain \/ Const \/ LocalGet \/ LocalSet \/ LocalTee \/ GlobalGet \/ GlobalSet \/ Drop \/ Nop \/ Select
        \/ Call \/ CallIndirect \/ Load \/ Store \/ MemSize \/ Open \/ LoopTail
        \/ Br \/ BrIf \/ BrTable \/ Return \/ Unreachable

Next == Grow \/ Else \/ End \/ CloseDrop \/ ClosePush

Init == /\ sh \in 1..Len(Shapes)
        /\ fn \in 1..Len(Shapes[sh].funcs)
        /\ code = <<>> /\ ts = <<>> /\ dead = 0 /\ done = FALSE
        /\ ctl = <<[kind |-> "func",
                    bt |-> (LET r == Shapes[sh].types[Shapes[sh].funcs[fn].type + 1].r IN IF r = <<>> THEN "" ELSE r[1]),
                    height |-> 0, dead |-> FALSE]>>
        /\ budget \in {Shapes[sh].budgets[j] : j \in DOMAIN Shapes[sh].budgets}

Spec == Init /\ [][Next]_vars

----------------------------------------------------------------------------
TypeOK == /\ \A j \in 1..Len(ctl) : ctl[j].height <= Len(ts) \/ ctl[j].dead
          /\ budget >= 0

\* collection of finished bodies (register 1), written by the POSTCONDITION / at exit
ASSUME TLCSet(1, {})
Collect == done => TLCSet(1, TLCGet(1) \cup {[shape |-> S.id, fn |-> fn, body |-> code]})
Flush == ndJsonSerialize(IOEnv.OUTFILE, SetToSeq(TLCGet(1)))
=============================================================================
