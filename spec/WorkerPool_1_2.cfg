CONSTANTS NWorkers = 1
 NFiles = 2
 SpuriousBudget = 1
SPECIFICATION Spec
INVARIANTS NoDuplicate NothingInvented ExactlyOnce TakenCleared
CHECK_DEADLOCK TRUE
