---------------------------- MODULE WasmNumeric ----------------------------
(***************************************************************************)
(* Numeric instruction semantics of WebAssembly (MVP + sign extension +    *)
(* saturating truncation) on the word representation of Word.tla.          *)
(*                                                                         *)
(* A value is a record [t |-> "i32"|"i64"|"f32"|"f64", b |-> limbs,        *)
(* nd |-> BOOLEAN].  nd ("non-deterministic") marks a float NaN produced   *)
(* by an arithmetic instruction: the specification fixes only its class,   *)
(* not its sign/payload, so consumers that would expose the bits make the  *)
(* machine give up (status "ndnan") instead of predicting them.            *)
(*                                                                         *)
(* Every operator returns [trap |-> "" | code, v |-> value].               *)
(***************************************************************************)
EXTENDS Float

KOf(t) == IF t \in {"i32", "f32"} THEN 32 \div LB ELSE 64 \div LB
V(t, b) == [t |-> t, b |-> b, nd |-> FALSE]
VNd(t, b) == [t |-> t, b |-> b, nd |-> TRUE]
Ok(v) == [trap |-> "", v |-> v]
Trap(code) == [trap |-> code, v |-> V("i32", Zero(KOf("i32")))]
ZeroOf(t) == V(t, Zero(KOf(t)))

IUn(o, a) ==
    CASE o = "clz"        -> Clz(a)
      [] o = "ctz"        -> Ctz(a)
      [] o = "popcnt"     -> Popcnt(a)
      [] o = "extend8_s"  -> ExtendLowS(a, 8 \div LB)
      [] o = "extend16_s" -> ExtendLowS(a, 16 \div LB)
      [] o = "extend32_s" -> ExtendLowS(a, 32 \div LB)

\* integer binary operators; t is the operand/result type
IBin(o, t, a, b) ==
    CASE o = "add"   -> Ok(V(t, Add(a, b)))
      [] o = "sub"   -> Ok(V(t, Sub(a, b)))
      [] o = "mul"   -> Ok(V(t, Mul(a, b)))
      [] o = "and"   -> Ok(V(t, WAnd(a, b)))
      [] o = "or"    -> Ok(V(t, WOr(a, b)))
      [] o = "xor"   -> Ok(V(t, WXor(a, b)))
      [] o = "shl"   -> Ok(V(t, Shl(a, b)))
      [] o = "shr_u" -> Ok(V(t, ShrU(a, b)))
      [] o = "shr_s" -> Ok(V(t, ShrS(a, b)))
      [] o = "rotl"  -> Ok(V(t, Rotl(a, b)))
      [] o = "rotr"  -> Ok(V(t, Rotr(a, b)))
      [] o = "div_u" -> IF IsZero(b) THEN Trap("DivByZero") ELSE Ok(V(t, DivU(a, b)))
      [] o = "rem_u" -> IF IsZero(b) THEN Trap("DivByZero") ELSE Ok(V(t, RemU(a, b)))
      [] o = "div_s" -> IF IsZero(b) THEN Trap("DivByZero")
                        ELSE IF a = MinS(Len(a)) /\ b = Ones(Len(b)) THEN Trap("IntOverflow")
                        ELSE Ok(V(t, DivS(a, b)))
      [] o = "rem_s" -> IF IsZero(b) THEN Trap("DivByZero") ELSE Ok(V(t, RemS(a, b)))

IRel(o, a, b) ==
    CASE o = "eq"   -> a = b
      [] o = "ne"   -> a # b
      [] o = "lt_u" -> LtU(a, b)
      [] o = "gt_u" -> LtU(b, a)
      [] o = "le_u" -> LeU(a, b)
      [] o = "ge_u" -> LeU(b, a)
      [] o = "lt_s" -> LtS(a, b)
      [] o = "gt_s" -> LtS(b, a)
      [] o = "le_s" -> LeS(a, b)
      [] o = "ge_s" -> LeS(b, a)

FmtOf(t) == IF t = "f32" THEN F32 ELSE F64

\* conversions.  info = OpInfo record (o: operator, x: signedness, t: target, f: source)
Cvt(info, a) ==
    LET o == info.o  t == info.t  f == info.f  sg == info.x = "s"
    IN  CASE o = "wrap"        -> Ok(V(t, Wrap(a.b, KOf("i32"))))
          [] o = "extend"      -> Ok(V(t, IF sg THEN ExtendS(a.b, KOf("i64")) ELSE ExtendU(a.b, KOf("i64"))))
          [] o = "reinterpret" -> Ok([t |-> t, b |-> a.b, nd |-> a.nd])
          [] o = "promote"     -> LET r == FPromote(a.b) IN Ok([t |-> t, b |-> r.b, nd |-> r.nan])
          [] o = "demote"      -> LET r == FDemote(a.b) IN Ok([t |-> t, b |-> r.b, nd |-> r.nan])
          [] o = "convert"     -> Ok(V(t, FFromInt(FmtOf(t), a.b, sg)))
          [] o = "trunc"       -> LET r == FToInt(FmtOf(f), a.b, KOf(t), sg, FALSE)
                                  IN  IF r.trap # "" THEN Trap(r.trap) ELSE Ok(V(t, r.b))
          [] o = "trunc_sat"   -> Ok(V(t, FToInt(FmtOf(f), a.b, KOf(t), sg, TRUE).b))

FUnV(o, t, a) ==
    LET r == FUn(FmtOf(t), o, a.b)
    IN  [t |-> t, b |-> r.b, nd |-> IF o \in {"abs", "neg"} THEN a.nd ELSE r.nan]

FBinV(o, t, a, b) ==
    LET r == FBin(FmtOf(t), o, a.b, b.b)
    IN  [t |-> t, b |-> r.b, nd |-> IF o = "copysign" THEN a.nd ELSE r.nan]

\* which operand uses expose the bit pattern of an nd NaN (and therefore stop the machine)
ExposesNd(info) ==
    \/ info.c \in {"store", "astore", "armw", "acmpxchg"}
    \/ info.c = "cvt" /\ info.o = "reinterpret"
=============================================================================
