----------------------------- MODULE FutexTrace -----------------------------
(***************************************************************************)
(* code -> spec: validates API-level histories recorded from the REAL      *)
(* futex.c (run under the deterministic scheduler of bind/c/sched.c)       *)
(* against FutexAbs.  The history fixes the order of Call and Ret events;  *)
(* the abstract steps in between are not logged - TLC searches for a       *)
(* placement of them (a linearization) that explains every returned value. *)
(* Several executions are concatenated, separated by "reset" events.  An   *)
(* execution that ended in a deadlock ends with a "stuck" event, which is  *)
(* only explainable if every unfinished thread is a waiter without timeout *)
(* that no pending operation could still wake.                             *)
(*                                                                         *)
(* Register 2 holds the highest event index reached (acceptance = all).    *)
(***************************************************************************)
EXTENDS FutexAbs, TLC, Json, IOUtils

History == ndJsonDeserialize(IOEnv.TRACE)
VARIABLE l
tvars == <<cell, waiting, ts, l>>

TInit == AInit /\ l = 1 /\ TLCSet(2, 0)

Ev == History[l]
Consume(e) == l <= Len(History) /\ Ev.ev = e /\ l' = l + 1

TCall == /\ Consume("call")
         /\ Call(Ev.t, Ev.op, Ev.a, Ev.x, Ev.timed)
TRet  == /\ Consume("ret")
         /\ Ret(Ev.t, Ev.res)
\* the implementation's thread has gone to sleep inside its wait call ("has started blocking"): from here on it is a waiter
\* of its address in the specification too - a notify on that address that begins later finds it
TBlocked == /\ Consume("blocked")
            /\ ts[Ev.t].st = "blocked"
            /\ UNCHANGED <<cell, waiting, ts>>
\* end of one execution: everything returned, start afresh
TReset == /\ Consume("reset")
          /\ \A t \in Threads : ts[t].st = "idle"
          /\ cell' = <<>> /\ waiting' = <<>> /\ ts' = [t \in Threads |-> Idle]
\* the implementation stopped with unfinished operations: legal only if the specification, too, can be stuck
TStuck == /\ Consume("stuck")
          /\ \A t \in Threads : ts[t].st \in {"idle"} \/ (ts[t].st = "blocked" /\ ~ts[t].timed)
          /\ cell' = <<>> /\ waiting' = <<>> /\ ts' = [t \in Threads |-> Idle]
TInternal == Internal /\ l <= Len(History) /\ UNCHANGED l

TNext == TCall \/ TRet \/ TBlocked \/ TReset \/ TStuck \/ TInternal
TraceSpec == TInit /\ [][TNext]_tvars

Progress == TLCSet(2, IF l > TLCGet(2) THEN l ELSE TLCGet(2))
Reached == TLCGet("level") >= 0 /\ ndJsonSerialize(IOEnv.OUTFILE, <<[reached |-> TLCGet(2), total |-> Len(History)]>>)
TraceInv == AbsTypeOK /\ OneQueue
=============================================================================
