------------------------------ MODULE MemCheck ------------------------------
(* Laws of the memory operators of WasmExec on a 12-byte toy memory, all     *)
(* addresses / lengths / widths: little-endian round trip, store footprint,  *)
(* sign vs zero extension, memory.copy = the specification's byte-by-byte    *)
(* definition for both overlap directions, fill, grow outcome classes.       *)
EXTENDS WasmExec
VARIABLES d, s, n
N == 12
M0 == [NewMem(1, 3, FALSE) EXCEPT !.bytes = [a \in 0..(N - 1) |-> 16 * (a + 1) + a]]
Init == d \in 0..N /\ s \in 0..N /\ n \in 0..N
Next == UNCHANGED <<d, s, n>>

\* the specification's memory.copy: forward when d <= s, backward otherwise, one byte at a time
RECURSIVE CopyFwd(_, _, _, _)
CopyFwd(m, dd, ss, k) == IF k = 0 THEN m ELSE CopyFwd(WrBytes(m, dd, <<RdByte(m, ss)>>), dd + 1, ss + 1, k - 1)
RECURSIVE CopyBwd(_, _, _, _)
CopyBwd(m, dd, ss, k) == IF k = 0 THEN m ELSE CopyBwd(WrBytes(m, dd + k - 1, <<RdByte(m, ss + k - 1)>>), dd, ss, k - 1)
SpecCopy(m) == IF d <= s THEN CopyFwd(m, d, s, n) ELSE CopyBwd(m, d, s, n)
Img(m) == [a \in 0..(N - 1) |-> RdByte(m, a)]

CopyOK == (d + n <= N /\ s + n <= N) => Img(WrBytes(M0, d, RdBytes(M0, s, n))) = Img(SpecCopy(M0))
FillOK == (d + n <= N) =>
            LET m == WrBytes(M0, d, T([i \in 1..n |-> 171]))
            IN  \A a \in 0..(N - 1) : RdByte(m, a) = IF a >= d /\ a < d + n THEN 171 ELSE RdByte(M0, a)
\* store of width w at address d of the value whose bytes are 201..208, then load back
Val == <<201, 202, 203, 204, 205, 206, 207, 208>>
RoundTrip == \A w \in {1, 2, 4, 8} : (d + w <= N) =>
            LET m == WrBytes(M0, d, Wrap(Val, w))
            IN  /\ RdBytes(m, d, w) = Wrap(Val, w)
                /\ \A j \in 1..w : RdByte(m, d + j - 1) = Val[j]                     \* little-endian, byte by byte
                /\ \A a \in 0..(N - 1) : (a < d \/ a >= d + w) => RdByte(m, a) = RdByte(M0, a)   \* footprint
                /\ ExtendS(RdBytes(m, d, w), 8)[8] = (IF w = 8 THEN 208 ELSE 255) /\ ExtendU(RdBytes(m, d, w), 8)[8] = (IF w = 8 THEN 208 ELSE 0)
\* grow: n, s reused as (current pages, delta) in small numbers; big deltas as words
GrowOK == LET m == NewMem(n % 4, 3, FALSE)
              g == Grow(m, OfNat(s, 4))
          IN  IF (n % 4) + s <= 3 THEN g.r = OfNat(n % 4, 4) /\ g.mem.pages = (n % 4) + s /\ g.mem.bytes = m.bytes
              ELSE g.r = Ones(4) /\ g.mem = m
GrowBig == \A w \in {<<0, 0, 1, 0>>, <<255, 255, 255, 255>>, <<0, 0, 0, 128>>, <<255, 255, 0, 0>>, <<254, 255, 255, 255>>} :
              LET m == NewMem(1, 65536, FALSE) g == Grow(m, w)
              IN  IF w = <<255, 255, 0, 0>> THEN g.r = OfNat(1, 4) /\ g.mem.pages = 65536
                  ELSE g.r = Ones(4) /\ g.mem = m
=============================================================================
