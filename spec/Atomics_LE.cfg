CONSTANTS Threads <- Threads3
 Prog <- Prog3
 Variant = "LE"
SPECIFICATION Spec
INVARIANT AtomicRMW
CHECK_DEADLOCK FALSE
