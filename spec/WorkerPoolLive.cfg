CONSTANTS NWorkers = 2
 NFiles = 3
 SpuriousBudget = 1
SPECIFICATION FairSpec
PROPERTY Termination
CHECK_DEADLOCK TRUE
