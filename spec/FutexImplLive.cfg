CONSTANTS Threads <- ThreadsL
 Prog <- ProgL
 B = 2
 SpuriousBudget = 1
SPECIFICATION FairSpec
PROPERTY TerminationL
CHECK_DEADLOCK FALSE
