---------------------------- MODULE FloatVectors ----------------------------
(***************************************************************************)
(* Self-validation of Float.tla / WasmNumeric.tla against the expectations *)
(* of the WebAssembly specification test suite shipped with the repository *)
(* (tests/gen/f32*.json, f64*.json, conversions.json, float_misc.json):    *)
(* vectors written by the WebAssembly authors, independent of w2c2 and of  *)
(* this model.  A mismatch is a machinery error, never a verdict.          *)
(*                                                                         *)
(* INFILE lines: [op, args: <<bytes>>, exp: bytes, nan: BOOLEAN, trap: ""] *)
(* OUTFILE: the vectors the model disagrees with.                          *)
(***************************************************************************)
EXTENDS WasmNumeric, WasmOps, TLC, Json, IOUtils
Vec == ndJsonDeserialize(IOEnv.INFILE)
VARIABLE n
Init == n = 0 /\ TLCSet(1, <<>>)
Next == n < Len(Vec) /\ n' = n + 1

Eval(v) ==
    LET i == OpInfo(v.op)
        a == V(IF i.c = "cvt" THEN i.f ELSE i.t, v.args[1])
    IN  CASE i.c = "fun"  -> LET r == FUnV(i.o, i.t, a) IN [trap |-> "", b |-> r.b, nan |-> r.nd]
          [] i.c = "fbin" -> LET r == FBinV(i.o, i.t, a, V(i.t, v.args[2])) IN [trap |-> "", b |-> r.b, nan |-> r.nd]
          [] i.c = "frel" -> [trap |-> "", b |-> Bool(FRel(FmtOf(i.t), i.o, v.args[1], v.args[2]), KOf("i32")), nan |-> FALSE]
          [] i.c = "cvt"  -> LET r == Cvt(i, a) IN [trap |-> r.trap, b |-> r.v.b, nan |-> r.v.nd]
          [] i.c = "iun"  -> [trap |-> "", b |-> IUn(i.o, v.args[1]), nan |-> FALSE]

Agrees(v) ==
    LET r == Eval(v)
    IN  IF v.trap # "" THEN r.trap = v.trap
        ELSE r.trap = "" /\ (IF v.nan THEN r.nan \/ IsNaN(FmtOf(OpInfo(v.op).t), r.b) ELSE (~r.nan /\ r.b = v.exp))

Check == (n >= 1 /\ ~Agrees(Vec[n])) => TLCSet(1, Append(TLCGet(1), [idx |-> n, op |-> Vec[n].op, args |-> Vec[n].args,
                                                                       exp |-> Vec[n].exp, got |-> Eval(Vec[n])]))
Done == TLCGet("level") >= 0 /\ ndJsonSerialize(IOEnv.OUTFILE, TLCGet(1))
=============================================================================
