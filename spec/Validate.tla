------------------------------ MODULE Validate ------------------------------
(* Runs WasmValid over the modules of IOEnv.INFILE (ndjson: [id, module]) and writes [id, err] per module to      *)
(* IOEnv.OUTFILE (err = "" for a valid module).  Used by checks whose scenarios do not pass through Replay (C10). *)
EXTENDS WasmValid, TLC, Json, IOUtils
In == ndJsonDeserialize(IOEnv.INFILE)
VARIABLE k
Init == k = 0
Next == k = 0 /\ k' = 1
Out == (k = 1) => ndJsonSerialize(IOEnv.OUTFILE, [j \in 1..Len(In) |-> [id |-> In[j].id, err |-> ModuleErr(In[j].module)]])
=============================================================================
