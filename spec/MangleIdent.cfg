CONSTANT MaxLen = 1
INIT Init
NEXT Next
INVARIANT IdentOut
CHECK_DEADLOCK FALSE
