---------------------------- MODULE MemGrowProof ----------------------------
(* C18, design level, for ANY set of threads and any maximum: the size of a shared memory never exceeds the declared *)
(* maximum, never shrinks below the initial size, and a failed grow changes nothing (tlapm).                         *)
EXTENDS MemGrowAbs, TLAPS

ASSUME Consts == MaxPages \in Nat /\ InitPages \in Nat /\ InitPages <= MaxPages

GNext == \/ \E t \in Threads, op \in {"grow", "size"}, d \in Nat : GCall(t, op, d)
         \/ GInternal
         \/ \E t \in Threads, r \in Int : GRet(t, r)
GSpec == GInit /\ [][GNext]_gvars

TypeInv == /\ pages \in Nat
           /\ gs \in [Threads -> [st : {"idle", "called", "ready"}, op : {"", "grow", "size"}, d : Nat, res : Int]]
IndInv == TypeInv /\ Bounded

\* a grow step either adds exactly its delta and reports the old size, or reports failure and leaves the size alone
GrowStepOK == \A t \in Threads : GrowDo(t) =>
                  \/ (pages' = pages + gs[t].d /\ gs'[t].res = pages /\ pages' <= MaxPages)
                  \/ (pages' = pages /\ gs'[t].res = Fail)

LEMMA InitInv == GInit => IndInv
  BY Consts DEF GInit, IndInv, TypeInv, Bounded, GIdle

LEMMA StepInv == IndInv /\ [GNext]_gvars => IndInv'
<1> SUFFICES ASSUME IndInv, [GNext]_gvars PROVE IndInv'
  OBVIOUS
<1>1. CASE UNCHANGED gvars
  BY <1>1 DEF IndInv, TypeInv, Bounded, gvars
<1>2. ASSUME NEW t \in Threads, NEW op \in {"grow", "size"}, NEW d \in Nat, GCall(t, op, d) PROVE IndInv'
  BY <1>2 DEF IndInv, TypeInv, Bounded, GCall
<1>3. ASSUME NEW t \in Threads, GrowDo(t) PROVE IndInv'
  BY <1>3, Consts DEF IndInv, TypeInv, Bounded, GrowDo, Fail
<1>4. ASSUME NEW t \in Threads, SizeDo(t) PROVE IndInv'
  BY <1>4 DEF IndInv, TypeInv, Bounded, SizeDo
<1>5. ASSUME NEW t \in Threads, NEW r \in Int, GRet(t, r) PROVE IndInv'
  BY <1>5 DEF IndInv, TypeInv, Bounded, GRet, GIdle
<1> QED
  BY <1>1, <1>2, <1>3, <1>4, <1>5 DEF GNext, GInternal

LEMMA GrowSteps == IndInv => GrowStepOK
  BY DEF IndInv, TypeInv, GrowStepOK, GrowDo, Fail

THEOREM Safety == GSpec => []Bounded
<1>1. GSpec => []IndInv
  BY InitInv, StepInv, PTL DEF GSpec
<1> QED
  BY <1>1, PTL DEF IndInv
=============================================================================
