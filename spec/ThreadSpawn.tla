----------------------------- MODULE ThreadSpawn -----------------------------
(* wasi thread-spawn (C15): identifiers come from one shared counter.  With an ATOMIC fetch-and-add every      *)
(* concurrent spawn gets a distinct positive identifier; with read-then-write (Atomic = FALSE) two spawns can    *)
(* get the same one.  Each spawn enables exactly one start of the new thread with that identifier.               *)
EXTENDS Naturals, FiniteSets, Sequences, TLC
CONSTANTS Spawners, Atomic
VARIABLES counter, pc, tmp, ids, started
vars == <<counter, pc, tmp, ids, started>>
Init == counter = 1 /\ pc = [s \in Spawners |-> "fetch"] /\ tmp = [s \in Spawners |-> 0] /\ ids = [s \in Spawners |-> 0] /\ started = {}
Fetch(s) == /\ pc[s] = "fetch" /\ tmp' = [tmp EXCEPT ![s] = counter]
            /\ IF Atomic THEN counter' = counter + 1 /\ pc' = [pc EXCEPT ![s] = "create"] /\ ids' = [ids EXCEPT ![s] = counter]
               ELSE UNCHANGED <<counter, ids>> /\ pc' = [pc EXCEPT ![s] = "write"]
            /\ UNCHANGED started
Write(s) == /\ pc[s] = "write" /\ counter' = tmp[s] + 1 /\ ids' = [ids EXCEPT ![s] = tmp[s]] /\ pc' = [pc EXCEPT ![s] = "create"]
            /\ UNCHANGED <<tmp, started>>
Create(s) == /\ pc[s] = "create" /\ pc' = [pc EXCEPT ![s] = "returned"] /\ UNCHANGED <<counter, tmp, ids, started>>
Start(s) == /\ pc[s] = "returned" /\ s \notin started /\ started' = started \cup {s} /\ UNCHANGED <<counter, pc, tmp, ids>>
Next == \E s \in Spawners : Fetch(s) \/ Write(s) \/ Create(s) \/ Start(s)
Spec == Init /\ [][Next]_vars
DistinctIds == \A a, b \in Spawners : (a # b /\ ids[a] # 0 /\ ids[b] # 0) => ids[a] # ids[b]
Positive == \A s \in Spawners : pc[s] \in {"create", "returned"} => ids[s] > 0
StartOnlyAfterSpawn == \A s \in started : pc[s] = "returned"
=============================================================================
