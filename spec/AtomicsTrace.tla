---------------------------- MODULE AtomicsTrace ----------------------------
(***************************************************************************)
(* code -> spec: histories of atomic operations executed by REAL threads   *)
(* (instances sharing one memory) are accepted only if there is ONE total  *)
(* order of the operations that respects program order, real-time order    *)
(* (an operation whose end ticket precedes another's start ticket comes    *)
(* first) and explains every returned old value and the final memory -     *)
(* the abstract semantics of Atomics.tla, one atomic step per operation.   *)
(* IOEnv.TRACE: lines [h, id, t, k, op, a, v, e, old, tb, te, mod] and per *)
(* history a line [h, op |-> "final", mem |-> <<[a, v]>>].                 *)
(***************************************************************************)
EXTENDS Naturals, Integers, FiniteSets, Sequences, TLC, Json, IOUtils
Recs == ndJsonDeserialize(IOEnv.TRACE)
NH == IF Len(Recs) = 0 THEN 0 ELSE Recs[Len(Recs)].h
OpsOf(hh) == {i \in 1..Len(Recs) : Recs[i].h = hh /\ Recs[i].op # "final"}
FinalOf(hh) == CHOOSE i \in 1..Len(Recs) : Recs[i].h = hh /\ Recs[i].op = "final"
VARIABLES h, donee, mem
Cell(a) == IF a \in DOMAIN mem THEN mem[a] ELSE 0
SetF(f, k, v) == [y \in DOMAIN f \cup {k} |-> IF y = k THEN v ELSE f[y]]
Init == h = 1 /\ donee = {} /\ mem = <<>> /\ TLCSet(2, 0)
Pending == OpsOf(h) \ donee
CanGo(i) == /\ i \in Pending
            /\ \A j \in Pending : j # i => ~(Recs[j].te < Recs[i].tb)                     \* real-time order
            /\ \A j \in Pending : (Recs[j].t = Recs[i].t /\ Recs[j].k < Recs[i].k) => FALSE  \* program order
            /\ Recs[i].op = "store" \/ Recs[i].old = Cell(Recs[i].a)                       \* the value it returned
Apply(i) == LET o == Recs[i] old == Cell(o.a) IN
            CASE o.op = "load" -> mem
              [] o.op = "store" -> SetF(mem, o.a, o.v)
              [] o.op = "add" -> SetF(mem, o.a, (old + o.v) % o.mod)
              [] o.op = "sub" -> SetF(mem, o.a, (old + o.mod - o.v) % o.mod)
              [] o.op = "or" -> SetF(mem, o.a, old + o.v)              \* operands are bits not yet set (driver's choice)
              [] o.op = "xchg" -> SetF(mem, o.a, o.v)
              [] o.op = "cmpxchg" -> IF old = o.e THEN SetF(mem, o.a, o.v) ELSE mem
Step == \E i \in Pending : CanGo(i) /\ donee' = donee \cup {i} /\ mem' = Apply(i) /\ h' = h
NextHistory == /\ h <= NH /\ Pending = {}
               /\ \A j \in 1..Len(Recs[FinalOf(h)].mem) : Cell(Recs[FinalOf(h)].mem[j][1]) = Recs[FinalOf(h)].mem[j][2]
               /\ h' = h + 1 /\ donee' = {} /\ mem' = <<>>
Next == Step \/ NextHistory
Progress == TLCSet(2, IF h > TLCGet(2) THEN h ELSE TLCGet(2))
Reached == TLCGet("level") >= 0 /\ ndJsonSerialize(IOEnv.OUTFILE, <<[reached |-> TLCGet(2), total |-> NH]>>)
=============================================================================
