CONSTANT LB = 8
INIT Init
NEXT Next
INVARIANT Predict
CHECK_DEADLOCK FALSE
