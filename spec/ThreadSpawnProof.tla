-------------------------- MODULE ThreadSpawnProof --------------------------
(* C15, design level, for ANY set of concurrent spawners (TLC checks four): with an atomic fetch-and-add every spawn  *)
(* gets a distinct positive identifier.  Checked by the TLA+ proof system (tlapm): IndInv is inductive and implies  *)
(* the properties.                                                                                                  *)
EXTENDS ThreadSpawn, TLAPS

ASSUME AtomicCounter == Atomic = TRUE

IndInv == /\ counter \in Nat /\ counter >= 1
          /\ ids \in [Spawners -> Nat]
          /\ tmp \in [Spawners -> Nat]
          /\ pc \in [Spawners -> {"fetch", "write", "create", "returned"}]
          /\ \A s \in Spawners : ids[s] < counter
          /\ \A s \in Spawners : pc[s] \in {"create", "returned"} => ids[s] > 0
          /\ \A s \in Spawners : pc[s] = "fetch" => ids[s] = 0
          /\ \A s \in Spawners : pc[s] # "write"
          /\ \A a, b \in Spawners : (a # b /\ ids[a] # 0 /\ ids[b] # 0) => ids[a] # ids[b]
          /\ \A s \in started : s \in Spawners /\ pc[s] = "returned"

LEMMA InitInv == Init => IndInv
  BY DEF Init, IndInv

LEMMA StepInv == IndInv /\ [Next]_vars => IndInv'
<1> SUFFICES ASSUME IndInv, [Next]_vars PROVE IndInv'
  OBVIOUS
<1>1. CASE UNCHANGED vars
  BY <1>1 DEF IndInv, vars
<1>2. ASSUME NEW s \in Spawners, Fetch(s) PROVE IndInv'
  BY <1>2, AtomicCounter DEF IndInv, Fetch
<1>3. ASSUME NEW s \in Spawners, Write(s) PROVE IndInv'
  BY <1>3 DEF IndInv, Write
<1>4. ASSUME NEW s \in Spawners, Create(s) PROVE IndInv'
  BY <1>4 DEF IndInv, Create
<1>5. ASSUME NEW s \in Spawners, Start(s) PROVE IndInv'
  BY <1>5 DEF IndInv, Start
<1> QED
  BY <1>1, <1>2, <1>3, <1>4, <1>5 DEF Next

LEMMA InvImplies == IndInv => DistinctIds /\ Positive /\ StartOnlyAfterSpawn
  BY DEF IndInv, DistinctIds, Positive, StartOnlyAfterSpawn

THEOREM Safety == Spec => [](DistinctIds /\ Positive /\ StartOnlyAfterSpawn)
<1>1. Spec => []IndInv
  BY InitInv, StepInv, PTL DEF Spec
<1> QED
  BY <1>1, InvImplies, PTL
=============================================================================
