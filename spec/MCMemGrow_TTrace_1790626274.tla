---- MODULE MCMemGrow_TTrace_1790626274 ----
EXTENDS Sequences, TLCExt, Toolbox, Naturals, TLC, MCMemGrow

_expression ==
    LET MCMemGrow_TEExpression == INSTANCE MCMemGrow_TEExpression
    IN MCMemGrow_TEExpression!expression
----

_trace ==
    LET MCMemGrow_TETrace == INSTANCE MCMemGrow_TETrace
    IN MCMemGrow_TETrace!trace
----

_inv ==
    ~(
        TLCGet("level") = Len(_TETrace)
        /\
        ret = (<<0, 0, 0>>)
        /\
        pc = (<<"g_write", "start", "s_read">>)
        /\
        newp = (<<2, 0, 0>>)
        /\
        mutex = (1)
        /\
        oldp = (<<1, 0, 0>>)
        /\
        mpages = (1)
    )
----

_init ==
    /\ oldp = _TETrace[1].oldp
    /\ pc = _TETrace[1].pc
    /\ mpages = _TETrace[1].mpages
    /\ newp = _TETrace[1].newp
    /\ ret = _TETrace[1].ret
    /\ mutex = _TETrace[1].mutex
----

_next ==
    /\ \E i,j \in DOMAIN _TETrace:
        /\ \/ /\ j = i + 1
              /\ i = TLCGet("level")
        /\ oldp  = _TETrace[i].oldp
        /\ oldp' = _TETrace[j].oldp
        /\ pc  = _TETrace[i].pc
        /\ pc' = _TETrace[j].pc
        /\ mpages  = _TETrace[i].mpages
        /\ mpages' = _TETrace[j].mpages
        /\ newp  = _TETrace[i].newp
        /\ newp' = _TETrace[j].newp
        /\ ret  = _TETrace[i].ret
        /\ ret' = _TETrace[j].ret
        /\ mutex  = _TETrace[i].mutex
        /\ mutex' = _TETrace[j].mutex

\* Uncomment the ASSUME below to write the states of the error trace
\* to the given file in Json format. Note that you can pass any tuple
\* to `JsonSerialize`. For example, a sub-sequence of _TETrace.
    \* ASSUME
    \*     LET J == INSTANCE Json
    \*         IN J!JsonSerialize("MCMemGrow_TTrace_1790626274.json", _TETrace)

=============================================================================

 Note that you can extract this module `MCMemGrow_TEExpression`
  to a dedicated file to reuse `expression` (the module in the 
  dedicated `MCMemGrow_TEExpression.tla` file takes precedence 
  over the module `MCMemGrow_TEExpression` below).

---- MODULE MCMemGrow_TEExpression ----
EXTENDS Sequences, TLCExt, Toolbox, Naturals, TLC, MCMemGrow

expression == 
    [
        \* To hide variables of the `MCMemGrow` spec from the error trace,
        \* remove the variables below.  The trace will be written in the order
        \* of the fields of this record.
        oldp |-> oldp
        ,pc |-> pc
        ,mpages |-> mpages
        ,newp |-> newp
        ,ret |-> ret
        ,mutex |-> mutex
        
        \* Put additional constant-, state-, and action-level expressions here:
        \* ,_stateNumber |-> _TEPosition
        \* ,_oldpUnchanged |-> oldp = oldp'
        
        \* Format the `oldp` variable as Json value.
        \* ,_oldpJson |->
        \*     LET J == INSTANCE Json
        \*     IN J!ToJson(oldp)
        
        \* Lastly, you may build expressions over arbitrary sets of states by
        \* leveraging the _TETrace operator.  For example, this is how to
        \* count the number of times a spec variable changed up to the current
        \* state in the trace.
        \* ,_oldpModCount |->
        \*     LET F[s \in DOMAIN _TETrace] ==
        \*         IF s = 1 THEN 0
        \*         ELSE IF _TETrace[s].oldp # _TETrace[s-1].oldp
        \*             THEN 1 + F[s-1] ELSE F[s-1]
        \*     IN F[_TEPosition - 1]
    ]

=============================================================================



Parsing and semantic processing can take forever if the trace below is long.
 In this case, it is advised to uncomment the module below to deserialize the
 trace from a generated binary file.

\*
\*---- MODULE MCMemGrow_TETrace ----
\*EXTENDS IOUtils, TLC, MCMemGrow
\*
\*trace == IODeserialize("MCMemGrow_TTrace_1790626274.bin", TRUE)
\*
\*=============================================================================
\*

---- MODULE MCMemGrow_TETrace ----
EXTENDS TLC, MCMemGrow

trace == 
    <<
    ([ret |-> <<0, 0, 0>>,pc |-> <<"start", "start", "start">>,newp |-> <<0, 0, 0>>,mutex |-> 0,oldp |-> <<0, 0, 0>>,mpages |-> 1]),
    ([ret |-> <<0, 0, 0>>,pc |-> <<"g_lock", "start", "start">>,newp |-> <<0, 0, 0>>,mutex |-> 0,oldp |-> <<0, 0, 0>>,mpages |-> 1]),
    ([ret |-> <<0, 0, 0>>,pc |-> <<"g_read", "start", "start">>,newp |-> <<0, 0, 0>>,mutex |-> 1,oldp |-> <<0, 0, 0>>,mpages |-> 1]),
    ([ret |-> <<0, 0, 0>>,pc |-> <<"g_check", "start", "start">>,newp |-> <<2, 0, 0>>,mutex |-> 1,oldp |-> <<1, 0, 0>>,mpages |-> 1]),
    ([ret |-> <<0, 0, 0>>,pc |-> <<"g_write", "start", "start">>,newp |-> <<2, 0, 0>>,mutex |-> 1,oldp |-> <<1, 0, 0>>,mpages |-> 1]),
    ([ret |-> <<0, 0, 0>>,pc |-> <<"g_write", "start", "s_read">>,newp |-> <<2, 0, 0>>,mutex |-> 1,oldp |-> <<1, 0, 0>>,mpages |-> 1])
    >>
----


=============================================================================

---- CONFIG MCMemGrow_TTrace_1790626274 ----
CONSTANTS
    Threads <- Threads3
    Prog <- Prog3
    MaxPages = 4
    InitPages = 1
    ReadUnderLock = TRUE
    SizeLocked = FALSE

INVARIANT
    _inv

CHECK_DEADLOCK
    \* CHECK_DEADLOCK off because of PROPERTY or INVARIANT above.
    FALSE

INIT
    _init

NEXT
    _next

CONSTANT
    _TETrace <- _trace

ALIAS
    _expression
=============================================================================
\* Generated on Mon Sep 28 20:11:16 UTC 2026