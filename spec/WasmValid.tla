----------------------------- MODULE WasmValid -----------------------------
(***************************************************************************)
(* Validation of a module (the typing rules of the WebAssembly             *)
(* specification, for the feature set of WasmExec: MVP without multi-      *)
(* value, sign extension, saturating truncation, bulk memory, threads).    *)
(*                                                                         *)
(* Every property of w2c2 is stated "for every valid module": the          *)
(* scenarios replayed against the implementation must therefore be valid,  *)
(* whoever produced them (WasmGen, a hand-written family in a check, the   *)
(* decoder of the spec-suite corpus).  Replay evaluates Valid(M) before it *)
(* instantiates M and refuses (status "invalid") otherwise, which the      *)
(* binder treats as an error of the machinery, never as a verdict.         *)
(*                                                                         *)
(* Function bodies are checked with the algorithm of the specification's   *)
(* appendix: a stack of operand types (with "?" for the polymorphic stack  *)
(* after an unconditional branch) and a stack of control frames.           *)
(***************************************************************************)
EXTENDS WasmOps, Naturals, Sequences, FiniteSets

NumTypes == {"i32", "i64", "f32", "f64"}
Unknown == "?"

VFuncImports(M)   == SelectSeq(M.imports, LAMBDA i : i.kind = "func")
VGlobalImports(M) == SelectSeq(M.imports, LAMBDA i : i.kind = "global")
VNFI(M) == Len(VFuncImports(M))
VNGI(M) == Len(VGlobalImports(M))
NFuncs(M) == VNFI(M) + Len(M.funcs)
NGlobals(M) == VNGI(M) + Len(M.globals)
HasMem(M) == M.memory.present \/ \E j \in 1..Len(M.imports) : M.imports[j].kind = "memory"
HasTable(M) == M.table.present \/ \E j \in 1..Len(M.imports) : M.imports[j].kind = "table"
TypeIdxOf(M, f) == IF f < VNFI(M) THEN VFuncImports(M)[f + 1].type ELSE M.funcs[f - VNFI(M) + 1].type
GlobalT(M, g) == IF g < VNGI(M) THEN VGlobalImports(M)[g + 1].t ELSE M.globals[g - VNGI(M) + 1].t
GlobalMut(M, g) == IF g < VNGI(M) THEN VGlobalImports(M)[g + 1].mut ELSE M.globals[g - VNGI(M) + 1].mut

RECURSIVE FlatLocals(_)
FlatLocals(ls) == IF ls = <<>> THEN <<>>
                  ELSE [j \in 1..Head(ls)[2] |-> Head(ls)[1]] \o FlatLocals(Tail(ls))

Log2(x) == CASE x = 1 -> 0 [] x = 2 -> 1 [] x = 4 -> 2 [] x = 8 -> 3 [] OTHER -> 0
BlockResult(bt) == IF bt = "" THEN <<>> ELSE <<bt>>

----------------------------------------------------------------------------
(* validation state: vs operand types, cs control frames, err = "" while well-typed *)
Frame(op, res, h) == [op |-> op, res |-> res, height |-> h, unr |-> FALSE]
Fail(st, why) == IF st.err = "" THEN [st EXCEPT !.err = why] ELSE st
TopF(st) == st.cs[Len(st.cs)]

\* pop one operand; returns [st, t]
PopAny(st) ==
    IF st.err # "" \/ st.cs = <<>> THEN [st |-> Fail(st, "no frame"), t |-> Unknown]
    ELSE IF Len(st.vs) = TopF(st).height
         THEN (IF TopF(st).unr THEN [st |-> st, t |-> Unknown] ELSE [st |-> Fail(st, "operand stack underflow"), t |-> Unknown])
         ELSE [st |-> [st EXCEPT !.vs = SubSeq(@, 1, Len(@) - 1)], t |-> st.vs[Len(st.vs)]]
Pop(st, want) ==
    LET r == PopAny(st)
    IN  IF r.t = want \/ r.t = Unknown \/ want = Unknown THEN r.st ELSE Fail(r.st, "operand type: have " \o r.t \o ", want " \o want)
RECURSIVE PopAll(_, _)
PopAll(st, ts) == IF ts = <<>> THEN st ELSE PopAll(Pop(st, ts[Len(ts)]), SubSeq(ts, 1, Len(ts) - 1))
Push(st, ts) == [st EXCEPT !.vs = @ \o ts]
Unreach(st) == IF st.err # "" \/ st.cs = <<>> THEN st
               ELSE [st EXCEPT !.vs = SubSeq(@, 1, TopF(st).height), !.cs[Len(st.cs)].unr = TRUE]
LabelTypes(fr) == IF fr.op = "loop" THEN <<>> ELSE fr.res
\* frame of relative label l
LabelOK(st, l) == l < Len(st.cs)
LabelFrame(st, l) == st.cs[Len(st.cs) - l]
\* leave the innermost frame: its results must be exactly what is on the stack
PopFrame(st) ==
    IF st.err # "" \/ st.cs = <<>> THEN Fail(st, "end without frame")
    ELSE LET fr == TopF(st)
             s1 == PopAll(st, fr.res)
         IN  IF s1.err # "" THEN s1
             ELSE IF Len(s1.vs) # fr.height THEN Fail(s1, "values left on the stack at the end of a block")
             ELSE [s1 EXCEPT !.cs = SubSeq(@, 1, Len(@) - 1)]

VStep(M, locals, results, st, ins) ==
    LET op == ins[1]
        i  == OpInfo(op)
        memOK(s) == IF HasMem(M) THEN s ELSE Fail(s, "no memory")
        alignOK(s, exact) == IF (exact /\ ins[2] = Log2(i.x)) \/ (~exact /\ ins[2] <= Log2(i.x)) THEN s ELSE Fail(s, "alignment")
    IN
    CASE i.c = "const" -> Push(st, <<i.t>>)
      [] i.c \in {"iun", "fun"} -> Push(Pop(st, i.t), <<i.t>>)
      [] i.c = "itest" -> Push(Pop(st, i.t), <<"i32">>)
      [] i.c \in {"irel", "frel"} -> Push(Pop(Pop(st, i.t), i.t), <<"i32">>)
      [] i.c \in {"ibin", "fbin"} -> Push(Pop(Pop(st, i.t), i.t), <<i.t>>)
      [] i.c = "cvt" -> Push(Pop(st, i.f), <<i.t>>)
      [] i.c = "load" -> Push(Pop(alignOK(memOK(st), FALSE), "i32"), <<i.t>>)
      [] i.c = "store" -> Pop(Pop(alignOK(memOK(st), FALSE), i.t), "i32")
      [] i.c = "aload" -> Push(Pop(alignOK(memOK(st), TRUE), "i32"), <<i.t>>)
      [] i.c = "astore" -> Pop(Pop(alignOK(memOK(st), TRUE), i.t), "i32")
      [] i.c = "armw" -> Push(Pop(Pop(alignOK(memOK(st), TRUE), i.t), "i32"), <<i.t>>)
      [] i.c = "acmpxchg" -> Push(Pop(Pop(Pop(alignOK(memOK(st), TRUE), i.t), i.t), "i32"), <<i.t>>)
      [] i.c = "futex" ->
           LET s0 == memOK(st) IN
           IF i.o = "notify" THEN Push(Pop(Pop(s0, "i32"), "i32"), <<"i32">>)
           ELSE Push(Pop(Pop(Pop(s0, "i64"), IF i.o = "wait32" THEN "i32" ELSE "i64"), "i32"), <<"i32">>)
      [] op \in {"nop", "atomic.fence"} -> st
      [] op = "unreachable" -> Unreach(st)
      [] op \in {"block", "loop"} ->
           IF ins[2] \notin NumTypes \cup {""} THEN Fail(st, "block type")
           ELSE [st EXCEPT !.cs = @ \o <<Frame(op, BlockResult(ins[2]), Len(st.vs))>>]
      [] op = "if" ->
           IF ins[2] \notin NumTypes \cup {""} THEN Fail(st, "block type")
           ELSE LET s1 == Pop(st, "i32") IN [s1 EXCEPT !.cs = @ \o <<Frame("if", BlockResult(ins[2]), Len(s1.vs))>>]
      [] op = "else" ->
           IF st.cs = <<>> \/ TopF(st).op # "if" THEN Fail(st, "else without if")
           ELSE LET fr == TopF(st)  s1 == PopFrame(st)
                IN  IF s1.err # "" THEN s1 ELSE [s1 EXCEPT !.cs = @ \o <<Frame("else", fr.res, Len(s1.vs))>>]
      [] op = "end" ->
           IF st.cs = <<>> THEN Fail(st, "end without frame")
           ELSE LET fr == TopF(st)
                IN  IF fr.op = "if" /\ fr.res # <<>> THEN Fail(st, "if with a result needs an else")
                    ELSE Push(PopFrame(st), fr.res)
      [] op = "br" ->
           IF ~LabelOK(st, ins[2]) THEN Fail(st, "label") ELSE Unreach(PopAll(st, LabelTypes(LabelFrame(st, ins[2]))))
      [] op = "br_if" ->
           IF ~LabelOK(st, ins[2]) THEN Fail(st, "label")
           ELSE LET lt == LabelTypes(LabelFrame(st, ins[2])) IN Push(PopAll(Pop(st, "i32"), lt), lt)
      [] op = "br_table" ->
           IF ~LabelOK(st, ins[3]) \/ \E j \in 1..Len(ins[2]) : ~LabelOK(st, ins[2][j]) THEN Fail(st, "label")
           ELSE LET dt == LabelTypes(LabelFrame(st, ins[3]))
                    s1 == Pop(st, "i32")
                    \* every target takes the same operands (single-value: the same result type or none)
                    same == \A j \in 1..Len(ins[2]) :
                              LET lt == LabelTypes(LabelFrame(st, ins[2][j])) IN Len(lt) = Len(dt) /\ (TopF(s1).unr \/ lt = dt)
                IN  IF ~same THEN Fail(s1, "br_table targets disagree") ELSE Unreach(PopAll(s1, dt))
      [] op = "return" -> Unreach(PopAll(st, results))
      [] op = "call" ->
           IF ins[2] >= NFuncs(M) THEN Fail(st, "function index")
           ELSE IF TypeIdxOf(M, ins[2]) >= Len(M.types) THEN Fail(st, "callee type index")
           ELSE LET ty == M.types[TypeIdxOf(M, ins[2]) + 1] IN Push(PopAll(st, ty.p), ty.r)
      [] op = "call_indirect" ->
           IF ~HasTable(M) \/ ins[3] # 0 THEN Fail(st, "no table")
           ELSE IF ins[2] >= Len(M.types) THEN Fail(st, "type index")
           ELSE LET ty == M.types[ins[2] + 1] IN Push(PopAll(Pop(st, "i32"), ty.p), ty.r)
      [] op = "drop" -> PopAny(st).st
      [] op = "select" ->
           LET s1 == Pop(st, "i32")
               a == PopAny(s1)
               b == PopAny(a.st)
           IN  IF a.t # Unknown /\ b.t # Unknown /\ a.t # b.t THEN Fail(b.st, "select operands differ")
               ELSE Push(b.st, <<IF a.t = Unknown THEN b.t ELSE a.t>>)
      [] op = "local.get" -> IF ins[2] >= Len(locals) THEN Fail(st, "local index") ELSE Push(st, <<locals[ins[2] + 1]>>)
      [] op = "local.set" -> IF ins[2] >= Len(locals) THEN Fail(st, "local index") ELSE Pop(st, locals[ins[2] + 1])
      [] op = "local.tee" -> IF ins[2] >= Len(locals) THEN Fail(st, "local index")
                             ELSE Push(Pop(st, locals[ins[2] + 1]), <<locals[ins[2] + 1]>>)
      [] op = "global.get" -> IF ins[2] >= NGlobals(M) THEN Fail(st, "global index") ELSE Push(st, <<GlobalT(M, ins[2])>>)
      [] op = "global.set" -> IF ins[2] >= NGlobals(M) THEN Fail(st, "global index")
                              ELSE IF ~GlobalMut(M, ins[2]) THEN Fail(st, "global.set of an immutable global")
                              ELSE Pop(st, GlobalT(M, ins[2]))
      [] op = "memory.size" -> Push(memOK(st), <<"i32">>)
      [] op = "memory.grow" -> Push(Pop(memOK(st), "i32"), <<"i32">>)
      [] op \in {"memory.fill", "memory.copy"} -> Pop(Pop(Pop(memOK(st), "i32"), "i32"), "i32")
      [] op = "memory.init" -> IF ins[2] >= Len(M.data) THEN Fail(st, "data index") ELSE Pop(Pop(Pop(memOK(st), "i32"), "i32"), "i32")
      [] op = "data.drop" -> IF ins[2] >= Len(M.data) THEN Fail(st, "data index") ELSE st
      [] OTHER -> Fail(st, "unknown instruction " \o op)

RECURSIVE VRun(_, _, _, _, _, _)
VRun(M, locals, results, body, st, pc) ==
    IF st.err # "" THEN st
    ELSE IF pc > Len(body) THEN (IF st.cs = <<>> THEN st ELSE Fail(st, "body ends inside a block"))
    ELSE IF st.cs = <<>> THEN Fail(st, "instructions after the final end")
    ELSE VRun(M, locals, results, body, VStep(M, locals, results, st, body[pc]), pc + 1)

FuncErr(M, j) ==
    LET f == M.funcs[j]
    IN  IF f.type >= Len(M.types) THEN "type index"
        ELSE LET ty == M.types[f.type + 1]
                 locals == ty.p \o FlatLocals(f.locals)
                 st0 == [vs |-> <<>>, cs |-> <<Frame("func", ty.r, 0)>>, err |-> ""]
             IN  VRun(M, locals, ty.r, f.body, st0, 1).err

----------------------------------------------------------------------------
(* constant expressions, limits, and the other module-level conditions *)
ConstErr(M, e, want) ==
    IF e[1] = "global.get"
    THEN (IF e[2] >= VNGI(M) THEN "constant expression: not an imported global"
          ELSE IF VGlobalImports(M)[e[2] + 1].mut THEN "constant expression: mutable global"
          ELSE IF VGlobalImports(M)[e[2] + 1].t # want THEN "constant expression: type" ELSE "")
    ELSE IF e[1] \in {"i32.const", "i64.const", "f32.const", "f64.const"}
         THEN (IF OpInfo(e[1]).t = want THEN "" ELSE "constant expression: type")
         ELSE "constant expression: instruction"
LimitsErr(l, bound, what) ==
    IF l.min > bound THEN what \o " minimum"
    ELSE IF l.hasmax /\ (l.max > bound \/ l.max < l.min) THEN what \o " maximum"
    ELSE IF l.shared /\ ~l.hasmax THEN what \o " shared without maximum" ELSE ""
FirstErr(errs) == IF \E j \in 1..Len(errs) : errs[j] # ""
                  THEN errs[CHOOSE j \in 1..Len(errs) : errs[j] # "" /\ \A h \in 1..(j - 1) : errs[h] = ""] ELSE ""

ModuleErr(M) ==
    LET nmem == (IF M.memory.present THEN 1 ELSE 0) + Cardinality({j \in 1..Len(M.imports) : M.imports[j].kind = "memory"})
        ntab == (IF M.table.present THEN 1 ELSE 0) + Cardinality({j \in 1..Len(M.imports) : M.imports[j].kind = "table"})
        typesOK == \A j \in 1..Len(M.types) : Len(M.types[j].r) <= 1 /\ \A x \in 1..Len(M.types[j].p) : M.types[j].p[x] \in NumTypes
        impErr == [j \in 1..Len(M.imports) |->
                     LET im == M.imports[j] IN
                     CASE im.kind = "func" -> (IF im.type >= Len(M.types) THEN "import type index" ELSE "")
                       [] im.kind = "memory" -> LimitsErr(im, 65536, "memory")
                       [] im.kind = "table" -> LimitsErr(im, 2147483647, "table")
                       [] OTHER -> ""]
        globErr == [j \in 1..Len(M.globals) |-> ConstErr(M, M.globals[j].init, M.globals[j].t)]
        expNames == [j \in 1..Len(M.exports) |-> M.exports[j].name]
        expErr == [j \in 1..Len(M.exports) |->
                     LET e == M.exports[j] IN
                     IF \E h \in 1..(j - 1) : expNames[h] = e.name THEN "duplicate export name"
                     ELSE CASE e.kind = "func" -> (IF e.idx >= NFuncs(M) THEN "export index" ELSE "")
                            [] e.kind = "global" -> (IF e.idx >= NGlobals(M) THEN "export index" ELSE "")
                            [] e.kind = "memory" -> (IF e.idx >= nmem THEN "export index" ELSE "")
                            [] e.kind = "table" -> (IF e.idx >= ntab THEN "export index" ELSE "")
                            [] OTHER -> "export kind"]
        elemErr == [j \in 1..Len(M.elems) |->
                     IF ntab = 0 THEN "element segment without table"
                     ELSE IF \E x \in 1..Len(M.elems[j].funcs) : M.elems[j].funcs[x] >= NFuncs(M) THEN "element function index"
                     ELSE ConstErr(M, M.elems[j].offset, "i32")]
        dataErr == [j \in 1..Len(M.data) |->
                     IF M.data[j].mode = "passive" THEN ""
                     ELSE IF nmem = 0 THEN "data segment without memory" ELSE ConstErr(M, M.data[j].offset, "i32")]
        startErr == IF M.start < 0 THEN ""
                    ELSE IF M.start >= NFuncs(M) THEN "start function index"
                    ELSE IF TypeIdxOf(M, M.start) >= Len(M.types) THEN "start function type index"
                    ELSE LET ty == M.types[TypeIdxOf(M, M.start) + 1] IN IF ty.p = <<>> /\ ty.r = <<>> THEN "" ELSE "start function type"
        funcErr == [j \in 1..Len(M.funcs) |-> FuncErr(M, j)]
    IN  IF ~typesOK THEN "function type"
        ELSE IF nmem > 1 THEN "more than one memory"
        ELSE IF ntab > 1 THEN "more than one table"
        ELSE FirstErr(<<IF M.memory.present THEN LimitsErr(M.memory, 65536, "memory") ELSE "",
                        IF M.table.present THEN LimitsErr(M.table, 2147483647, "table") ELSE "">>
                      \o impErr \o globErr \o expErr \o elemErr \o dataErr \o <<startErr>> \o funcErr)

Valid(M) == ModuleErr(M) = ""
=============================================================================
