CONSTANTS Threads <- Threads4
 Prog <- Prog4
 MaxPages = 4
 InitPages = 1
 ReadUnderLock = FALSE
 SizeLocked = FALSE
SPECIFICATION Spec
INVARIANTS NeverAboveMax DistinctOldSizes FinalSize 
PROPERTY Refines
CHECK_DEADLOCK FALSE
