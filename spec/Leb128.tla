------------------------------- MODULE Leb128 -------------------------------
(***************************************************************************)
(* LEB128 as the binary format defines it (C08), and the byte-serial       *)
(* decoder of leb128.h, side by side.                                      *)
(*                                                                         *)
(* Specification: a byte string encodes a uN / sN value iff every byte but *)
(* the last has its top bit set, there are at most ceil(N/7) bytes, and    *)
(* the bits of the last byte that lie beyond bit N-1 are zero (uN) or      *)
(* copies of the sign bit (sN).  Its value is the little-endian            *)
(* concatenation of the 7-bit groups, sign-extended for sN from the top    *)
(* bit of the last group.  In particular every padded (non-minimal)        *)
(* encoding of a value is valid.                                           *)
(*                                                                         *)
(* Decoder: value |= (byte & 0x7F) << shift; shift += 7; stop at a byte    *)
(* without continuation bit or after MaxBytes; for sN, if shift < N and    *)
(* bit 6 of the last byte is set, or in -(1 << shift).                     *)
(*                                                                         *)
(* TLC enumerates byte strings over an alphabet that hits every bit class  *)
(* (one action appends a byte) and checks, for every VALID encoding, that  *)
(* the decoder returns the specified value and consumes all bytes.         *)
(***************************************************************************)
EXTENDS Word, TLC, Json, IOUtils

CONSTANTS N,          \* 32 or 64
          Alphabet    \* set of byte values
MaxBytes == (N + 6) \div 7
KN == N \div LB

Cont(b) == b >= 128
Group(b) == b % 128
GroupBits(b) == [i \in 1..7 |-> (b \div (2 ^ (i - 1))) % 2]
RECURSIVE AllBits(_)
AllBits(s) == IF s = <<>> THEN <<>> ELSE GroupBits(Head(s)) \o AllBits(Tail(s))

WellFormed(s) == /\ Len(s) >= 1 /\ Len(s) <= MaxBytes
                 /\ \A i \in 1..(Len(s) - 1) : Cont(s[i])
                 /\ ~Cont(s[Len(s)])

\* bits of the groups, padded (with pad) or cut to N
ToN(bs, pad) == T([i \in 1..N |-> IF i <= Len(bs) THEN bs[i] ELSE pad])
Beyond(bs) == {bs[i] : i \in (N + 1)..Len(bs)}

ValidU(s) == WellFormed(s) /\ Beyond(AllBits(s)) \subseteq {0}
ValueU(s) == FromBits(ToN(AllBits(s), 0))
SignOf(s) == AllBits(s)[7 * Len(s)]
ValidS(s) == WellFormed(s) /\ LET bs == AllBits(s) IN Beyond(bs) \subseteq {IF Len(bs) > N THEN bs[N] ELSE SignOf(s)}
ValueS(s) == FromBits(ToN(AllBits(s), SignOf(s)))

----------------------------------------------------------------------------
(* the decoder of leb128.h, one iteration per byte *)
RECURSIVE DecR(_, _, _, _)
DecR(s, i, value, shift) ==
    IF i > Len(s) \/ i > MaxBytes THEN [value |-> value, shift |-> shift, count |-> i - 1, last |-> IF i = 1 THEN 0 ELSE s[i - 1]]
    ELSE LET g == FromBits(ShlBits(ToN(GroupBits(s[i]), 0), shift))         \* ((uN)(byte & 0x7F)) << shift, in N bits
             v2 == WOr(value, g)
         IN  IF ~Cont(s[i]) THEN [value |-> v2, shift |-> shift + 7, count |-> i, last |-> s[i]]
             ELSE DecR(s, i + 1, v2, shift + 7)
DecodeU(s) == LET r == DecR(s, 1, Zero(KN), 0) IN [value |-> r.value, count |-> r.count]
DecodeS(s) == LET r == DecR(s, 1, Zero(KN), 0)
                  ext == r.shift < N /\ (r.last \div 64) % 2 = 1
              IN  [value |-> IF ext THEN WOr(r.value, FromBits(ShlBits(Bits(Ones(KN)), r.shift))) ELSE r.value,
                   count |-> r.count]

----------------------------------------------------------------------------
VARIABLES s, fk
Init == s = <<>> /\ fk = 0 /\ TLCSet(1, <<>>)
Next == /\ Len(s) < MaxBytes /\ (IF s = <<>> THEN TRUE ELSE Cont(s[Len(s)]))
        /\ \E b \in Alphabet : s' = Append(s, b)
        /\ UNCHANGED fk

Refines == /\ ValidU(s) => (DecodeU(s).value = ValueU(s) /\ DecodeU(s).count = Len(s))
           /\ ValidS(s) => (DecodeS(s).value = ValueS(s) /\ DecodeS(s).count = Len(s))
\* every complete string is exported with what the specification says about it
Collect == (s # <<>> /\ ~Cont(s[Len(s)])) =>
              TLCSet(1, Append(TLCGet(1), [bytes |-> s, validU |-> ValidU(s), validS |-> ValidS(s),
                                           u |-> ValueU(s), sv |-> ValueS(s)]))
Export == TLCGet("level") >= 0 /\ ndJsonSerialize(IOEnv.OUTFILE, TLCGet(1))

----------------------------------------------------------------------------
(* cross-check of the binder's encoder: INFILE lines [bytes, signed, value]; every padded field it
   produced must be a valid encoding of its value by the definitions above *)
Fields == ndJsonDeserialize(IOEnv.INFILE)
FInit == fk = 0 /\ s = <<>>
FNext == fk < Len(Fields) /\ fk' = fk + 1 /\ UNCHANGED s
FieldOK == fk >= 1 => LET f == Fields[fk] IN
              IF f.signed THEN ValidS(f.bytes) /\ ValueS(f.bytes) = f.value /\ DecodeS(f.bytes).value = f.value
              ELSE ValidU(f.bytes) /\ ValueU(f.bytes) = f.value /\ DecodeU(f.bytes).value = f.value
=============================================================================
