CONSTANTS Threads <- ThreadsF
 Prog <- ProgF
 B = 2
 SpuriousBudget = 1
SPECIFICATION Spec
INVARIANTS NoAccessToFreed ListsConsistent NoLostWakeup ReturnCodes DeadlockOK
PROPERTY Refines
CHECK_DEADLOCK FALSE
