CONSTANTS LB = 8
 N = 64
 Alphabet = {0, 1, 127, 64, 128, 255}
INIT Init
NEXT Next
INVARIANTS Refines Collect
POSTCONDITION Export
CHECK_DEADLOCK FALSE
