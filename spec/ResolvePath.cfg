CONSTANT PathMax = 4096
INIT Init
NEXT Next
INVARIANT Out
CHECK_DEADLOCK FALSE
