----------------------------- MODULE WorkerPool -----------------------------
(***************************************************************************)
(* The translator's pool of implementation-file writers (C09), one action  *)
(* per pthread call of c.c:                                                *)
(*                                                                         *)
(* producer, per file k:  lock; while (task # NULL) wait(produce);         *)
(*                        task := k; signal(consume); unlock               *)
(*           at the end:  lock; while (task # NULL) wait(produce);         *)
(*                        done := TRUE; broadcast(consume); unlock; join*  *)
(* worker, for ever:      lock; signal(produce);                           *)
(*                        while (~done /\ task = NULL) wait(consume);      *)
(*                        if done: unlock, exit                            *)
(*                        k := task; task := NULL; unlock; write file k    *)
(*                                                                         *)
(* Condition variables are wait sets: signal moves one waiter (any) out,   *)
(* broadcast all, a spurious wake-up moves one out unprompted; a woken     *)
(* thread must reacquire the mutex.  A signal with no waiter is lost.      *)
(*                                                                         *)
(* Abstract requirement: every file index 1..NFiles is written exactly     *)
(* once, by a worker, and everybody terminates.                            *)
(***************************************************************************)
EXTENDS Naturals, Integers, FiniteSets, Sequences, TLC

CONSTANTS NWorkers, NFiles, SpuriousBudget
Workers == 1..NWorkers
P == 0                                   \* the producer's thread id
Threads == {P} \cup Workers
None == 0

VARIABLES mutex,       \* None or owner (P is 0, so owner is stored +1)
          task, done,
          pc,          \* thread -> program counter
          nextFile,    \* producer's file counter
          holding,     \* worker -> file it took (None if none)
          written,     \* sequence of <<worker, file>> in order of completion
          wset,        \* condition variable -> set of waiting threads
          spur
vars == <<mutex, task, done, pc, nextFile, holding, written, wset, spur>>

Owner(t) == t + 1
Free == mutex = None

Init == /\ mutex = None /\ task = None /\ done = FALSE
        /\ pc = [t \in Threads |-> IF t = P THEN "p_lock" ELSE "w_lock"]
        /\ nextFile = 1 /\ holding = [w \in Workers |-> None] /\ written = <<>>
        /\ wset = [c \in {"produce", "consume"} |-> {}] /\ spur = SpuriousBudget

Goto(t, l) == pc' = [pc EXCEPT ![t] = l]

\* generic: acquire the mutex at label `from`, continue at `to`
Lock(t, from, to) == /\ pc[t] = from /\ Free /\ mutex' = Owner(t) /\ Goto(t, to)
                     /\ UNCHANGED <<task, done, nextFile, holding, written, wset, spur>>
\* cond_wait: release the mutex and join the wait set
Wait(t, from, cv, to) == /\ pc[t] = from /\ mutex = Owner(t)
                         /\ mutex' = None /\ wset' = [wset EXCEPT ![cv] = @ \cup {t}] /\ Goto(t, to)
                         /\ UNCHANGED <<task, done, nextFile, holding, written, spur>>

----------------------------------------------------------------------------
(* producer *)
P_Lock == Lock(P, "p_lock", "p_test")
P_Test == /\ pc[P] = "p_test"
          /\ IF task # None THEN Goto(P, "p_wait") ELSE Goto(P, IF nextFile <= NFiles THEN "p_put" ELSE "p_finish")
          /\ UNCHANGED <<mutex, task, done, nextFile, holding, written, wset, spur>>
P_Wait == Wait(P, "p_wait", "produce", "p_waiting")
P_Reacquire == Lock(P, "p_woken", "p_test")
\* Putting a task and finishing change the shared state under the mutex; the wake-up call may come before or
\* after the unlock (both are correct uses of a condition variable), so both orders are behaviours of the model.
P_Put == /\ pc[P] = "p_put" /\ mutex = Owner(P) /\ task' = nextFile /\ nextFile' = nextFile + 1 /\ Goto(P, "p_signal")
         /\ UNCHANGED <<mutex, done, holding, written, wset, spur>>
SignalConsume(to) ==
    IF wset["consume"] = {} THEN /\ Goto(P, to) /\ UNCHANGED wset
    ELSE \E w \in wset["consume"] : /\ wset' = [wset EXCEPT !["consume"] = @ \ {w}]
                                     /\ pc' = [pc EXCEPT ![P] = to, ![w] = "w_woken"]
P_Signal == /\ pc[P] = "p_signal" /\ SignalConsume("p_unlock")
            /\ UNCHANGED <<mutex, task, done, nextFile, holding, written, spur>>
P_Unlock == /\ pc[P] = "p_unlock" /\ mutex' = None /\ Goto(P, "p_lock")
            /\ UNCHANGED <<task, done, nextFile, holding, written, wset, spur>>
P_UnlockFirst == /\ pc[P] = "p_signal" /\ mutex = Owner(P) /\ mutex' = None /\ Goto(P, "p_signal_late")
                 /\ UNCHANGED <<task, done, nextFile, holding, written, wset, spur>>
P_SignalLate == /\ pc[P] = "p_signal_late" /\ SignalConsume("p_lock")
                /\ UNCHANGED <<mutex, task, done, nextFile, holding, written, spur>>
P_Finish == /\ pc[P] = "p_finish" /\ mutex = Owner(P) /\ done' = TRUE /\ Goto(P, "p_broadcast")
            /\ UNCHANGED <<mutex, task, nextFile, holding, written, wset, spur>>
Broadcast(to) == /\ pc' = [t \in Threads |-> IF t = P THEN to ELSE IF t \in wset["consume"] THEN "w_woken" ELSE pc[t]]
                 /\ wset' = [wset EXCEPT !["consume"] = {}]
P_Broadcast == /\ pc[P] = "p_broadcast" /\ Broadcast("p_funlock")
               /\ UNCHANGED <<mutex, task, done, nextFile, holding, written, spur>>
P_FUnlock == /\ pc[P] = "p_funlock" /\ mutex' = None /\ Goto(P, "p_join")
             /\ UNCHANGED <<task, done, nextFile, holding, written, wset, spur>>
P_FUnlockFirst == /\ pc[P] = "p_broadcast" /\ mutex = Owner(P) /\ mutex' = None /\ Goto(P, "p_broadcast_late")
                  /\ UNCHANGED <<task, done, nextFile, holding, written, wset, spur>>
P_BroadcastLate == /\ pc[P] = "p_broadcast_late" /\ Broadcast("p_join")
                   /\ UNCHANGED <<mutex, task, done, nextFile, holding, written, spur>>
P_Join == /\ pc[P] = "p_join" /\ \A w \in Workers : pc[w] = "w_exit" /\ Goto(P, "p_done")
          /\ UNCHANGED <<mutex, task, done, nextFile, holding, written, wset, spur>>

----------------------------------------------------------------------------
(* workers *)
W_Lock(w) == Lock(w, "w_lock", "w_signal")
W_Signal(w) == /\ pc[w] = "w_signal" /\ mutex = Owner(w)
               /\ IF wset["produce"] = {} THEN /\ Goto(w, "w_test") /\ UNCHANGED wset
                  ELSE /\ wset' = [wset EXCEPT !["produce"] = {}]          \* only the producer ever waits there
                       /\ pc' = [pc EXCEPT ![w] = "w_test", ![P] = "p_woken"]
               /\ UNCHANGED <<mutex, task, done, nextFile, holding, written, spur>>
W_Test(w) == /\ pc[w] = "w_test" /\ mutex = Owner(w)
             /\ IF ~done /\ task = None THEN Goto(w, "w_wait")
                ELSE IF done THEN Goto(w, "w_exitunlock") ELSE Goto(w, "w_take")
             /\ UNCHANGED <<mutex, task, done, nextFile, holding, written, wset, spur>>
W_Wait(w) == Wait(w, "w_wait", "consume", "w_waiting")
W_Reacquire(w) == Lock(w, "w_woken", "w_test")
W_Take(w) == /\ pc[w] = "w_take" /\ mutex = Owner(w)
             /\ holding' = [holding EXCEPT ![w] = task] /\ task' = None /\ Goto(w, "w_unlock")
             /\ UNCHANGED <<mutex, done, nextFile, written, wset, spur>>
W_Unlock(w) == /\ pc[w] = "w_unlock" /\ mutex' = None /\ Goto(w, "w_work")
               /\ UNCHANGED <<task, done, nextFile, holding, written, wset, spur>>
W_Work(w) == /\ pc[w] = "w_work" /\ written' = Append(written, <<w, holding[w]>>)
             /\ holding' = [holding EXCEPT ![w] = None] /\ Goto(w, "w_lock")
             /\ UNCHANGED <<mutex, task, done, nextFile, wset, spur>>
W_ExitUnlock(w) == /\ pc[w] = "w_exitunlock" /\ mutex' = None /\ Goto(w, "w_exit")
                   /\ UNCHANGED <<task, done, nextFile, holding, written, wset, spur>>

\* a spurious wake-up of any waiter
Spurious == /\ spur > 0 /\ \E cv \in {"produce", "consume"} : \E t \in wset[cv] :
                 /\ wset' = [wset EXCEPT ![cv] = @ \ {t}]
                 /\ pc' = [pc EXCEPT ![t] = IF t = P THEN "p_woken" ELSE "w_woken"]
            /\ spur' = spur - 1
            /\ UNCHANGED <<mutex, task, done, nextFile, holding, written>>

Terminated == pc[P] = "p_done"
PSteps == P_Lock \/ P_Test \/ P_Wait \/ P_Reacquire \/ P_Put \/ P_Signal \/ P_Unlock \/ P_UnlockFirst \/ P_SignalLate
          \/ P_Finish \/ P_Broadcast \/ P_FUnlock \/ P_FUnlockFirst \/ P_BroadcastLate \/ P_Join
Next == \/ PSteps
        \/ \E w \in Workers : W_Lock(w) \/ W_Signal(w) \/ W_Test(w) \/ W_Wait(w) \/ W_Reacquire(w) \/ W_Take(w)
                               \/ W_Unlock(w) \/ W_Work(w) \/ W_ExitUnlock(w)
        \/ Spurious
        \/ (Terminated /\ UNCHANGED vars)
Spec == Init /\ [][Next]_vars
FairSpec == Spec /\ WF_vars(PSteps)
                 /\ \A w \in Workers : WF_vars(W_Lock(w) \/ W_Signal(w) \/ W_Test(w) \/ W_Wait(w) \/ W_Reacquire(w) \/ W_Take(w)
                                               \/ W_Unlock(w) \/ W_Work(w) \/ W_ExitUnlock(w))

----------------------------------------------------------------------------
(* properties *)
FilesOf(s) == {s[i][2] : i \in 1..Len(s)}
NoDuplicate == \A i, j \in 1..Len(written) : i # j => written[i][2] # written[j][2]
NothingInvented == FilesOf(written) \subseteq 1..NFiles /\ \A w \in Workers : holding[w] \in {None} \cup (1..NFiles)
ExactlyOnce == Terminated => (FilesOf(written) = 1..NFiles /\ Len(written) = NFiles)
\* the shared slot and flag are only written by the mutex owner (by construction of the actions) and a worker never
\* holds a task that is still in the slot
TakenCleared == \A w \in Workers : holding[w] # None => task # holding[w]
Termination == <>Terminated
=============================================================================
