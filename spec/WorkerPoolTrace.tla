--------------------------- MODULE WorkerPoolTrace ---------------------------
(* code -> spec: the pthread-level event log of a real translator run (bind/c/pthread_wrap.c)   *)
(* validated against WorkerPool.  Logged: lock, unlock, wait, woke, signal, broadcast, fopen of   *)
(* an implementation file (with its index), join of all workers.  Not logged, hence searched by  *)
(* TLC: the loop tests, putting / taking the task, which waiter a signal wakes, spurious wakes.   *)
EXTENDS WorkerPool, Json, IOUtils
Log == ndJsonDeserialize(IOEnv.TRACE)
VARIABLE l
tvars == <<mutex, task, done, pc, nextFile, holding, written, wset, spur, l>>
TInit == Init /\ l = 1 /\ TLCSet(2, 0)
Ev == Log[l]
Is(op, t) == l <= Len(Log) /\ Ev.op = op /\ Ev.t = t /\ l' = l + 1
CvName(n) == IF n = 0 THEN "consume" ELSE "produce"       \* numbered by first use in the log; fixed up by the driver

ELock == \/ Is("lock", P) /\ P_Lock
         \/ \E w \in Workers : Is("lock", w) /\ W_Lock(w)
EWoke == \/ Is("woke", P) /\ P_Reacquire
         \/ \E w \in Workers : Is("woke", w) /\ W_Reacquire(w)
EUnlock == \/ Is("unlock", P) /\ (P_Unlock \/ P_FUnlock \/ P_UnlockFirst \/ P_FUnlockFirst)
           \/ \E w \in Workers : Is("unlock", w) /\ (W_Unlock(w) \/ W_ExitUnlock(w))
EWait == \/ Is("wait", P) /\ Ev.cvname = "produce" /\ P_Wait
         \/ \E w \in Workers : Is("wait", w) /\ Ev.cvname = "consume" /\ W_Wait(w)
ESignal == \/ Is("signal", P) /\ Ev.cvname = "consume" /\ (P_Signal \/ P_SignalLate)
           \/ \E w \in Workers : Is("signal", w) /\ Ev.cvname = "produce" /\ W_Signal(w)
EBroadcast == Is("broadcast", P) /\ Ev.cvname = "consume" /\ (P_Broadcast \/ P_BroadcastLate)
\* the worker opens implementation file number Ev.file: it must be the task it took
EWork == \E w \in Workers : Is("fopen", w) /\ holding[w] = Ev.file /\ W_Work(w)
EJoin == Is("joined", P) /\ P_Join
EReset == /\ Is("reset", P) /\ Terminated
          /\ mutex' = None /\ task' = None /\ done' = FALSE
          /\ pc' = [t \in Threads |-> IF t = P THEN "p_lock" ELSE "w_lock"]
          /\ nextFile' = 1 /\ holding' = [w \in Workers |-> None] /\ written' = <<>>
          /\ wset' = [c \in {"produce", "consume"} |-> {}] /\ spur' = SpuriousBudget
Silent == /\ l <= Len(Log) /\ UNCHANGED l
          /\ (P_Test \/ P_Put \/ P_Finish \/ Spurious \/ \E w \in Workers : W_Test(w) \/ W_Take(w))
TNext == ELock \/ EWoke \/ EUnlock \/ EWait \/ ESignal \/ EBroadcast \/ EWork \/ EJoin \/ EReset \/ Silent
Progress == TLCSet(2, IF l > TLCGet(2) THEN l ELSE TLCGet(2))
Reached == TLCGet("level") >= 0 /\ ndJsonSerialize(IOEnv.OUTFILE, <<[reached |-> TLCGet(2), total |-> Len(Log)]>>)
TraceInv == NoDuplicate /\ NothingInvented /\ TakenCleared
=============================================================================
