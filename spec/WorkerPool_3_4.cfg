CONSTANTS NWorkers = 3
 NFiles = 4
 SpuriousBudget = 1
SPECIFICATION Spec
INVARIANTS NoDuplicate NothingInvented ExactlyOnce TakenCleared
CHECK_DEADLOCK TRUE
